// Package c12 checks property C12: subscription delivery is ordered, exact, and stops at
// completion. Scripted racing pairs at the verif yield points plus random histories, judged by the
// offline history checker of DESIGN.md Appendix F4.
package c12

import (
	"fmt"
	"math/rand/v2"
	"sort"
	"strings"

	"verifharness/internal/fw"
	"verifharness/internal/subrig"
)

type c12 struct{ fw.Base }

func init() { fw.Register(c12{}) }

const (
	quickHistories    = 4000
	thoroughHistories = 60000
)

func (c12) ID() string             { return "C12" }
func (c12) Race() bool             { return true }
func (c12) CrashIsViolation() bool { return true }
func (c12) CaseTimeout(string) int { return 180 }

func (c12) NumCases(tier string) int {
	if tier == fw.Thorough {
		return subrig.NumScript(false)*4 + thoroughHistories
	}
	return subrig.NumScript(false) + quickHistories
}

func (c12) Rule() string {
	return "Cases 0..S-1 enumerate the scripted racing pairs of notes/scenarios.md rows 1-6, 10, 11 and the overlapping-emission row 13 (a source emitting from 2-3 goroutines: event 1 parked inside its fan-out, events 2/3 issued meanwhile; every variant: competitor unsubscribe / UnsubscribeClient / ctx-cancel of a synchronous subscriber / shutdown, one or two subscribers, both release orders) x every position of an injected resolver shutdown (row 12); a goroutine of the resolver is parked at the verif yield point, the competing action runs to completion, the goroutine is released. The remaining cases are random programs (seeded) of 20-200 actions over 1-3 trigger keys (differing in input or only in the forwarded header) and 2-16 client connections (sync and async API, filters rendered from variables, four response projections, heartbeats, Flush/Heartbeat failures, source Update/UpdateSubscription/Complete/Error/Done/CloseSubscription, UnsubscribeSubscription/UnsubscribeClient/ctx cancel, shutdown) run by concurrent actor lanes with seeded micro-delays at the yield points. Every case is judged by the F4 history checker. Non-trivial: scripted = the racing goroutine was actually parked (rows 6, 11: >=1 message delivered); history = >=1 message delivered and checked and >=1 must-deliver obligation. Distinct = distinct program / scenario variant."
}

func (c12) Assumptions() []string {
	return []string{
		"the fake source behaves like a valid source: per trigger one goroutine emits events, at most one Complete/Error per Start instance, nothing but Done after it; Done may also arrive from the context-end reaction",
		"an event is a must-deliver for a subscriber only if the subscriber was seen attached to the emitting Start instance right before the call (updater.Subscriptions()), passes its filter, and the call returned before the first action that may remove the subscriber (own removal, writer failure, Done / failed start-up on the same key - unless it belongs to a trigger that was certainly gone before the subscriber began to subscribe -, shutdown)",
		"synchronous subscribers get their identifier from the resolver; it is learned through updater.Subscriptions(); for the ones never learned the completion point is the return of the API call",
		"writer calls after the synchronous API returned because of resolver shutdown but before sub.done are counted, not judged (the statement names completion, unsubscription and client removal only)",
	}
}

func (c12) RequiredCounters(tier string) []string {
	return []string{"messages_checked", "must_obligations", "writer_calls", "sub_done_events", "racing_pairs_parked",
		"hook:sub.update.beforeWriteLock", "hook:sub.complete.afterRemovedCheck", "hook:sub.error.afterRemovedCheck",
		"hook:sub.heartbeat.beforeSend", "hook:sub.join.beforeStartupHook", "hook:sub.update.afterFilter",
		"solo_crosschecks", "filtered_events_withheld", "source_defined_order_constraints", "overlapping_update_calls", "order_agreements_checked", "stale_source_finishes_not_accepted_as_removal", "script_row_15", "must_filter_match_first", "must_filter_match_later", "filter_shape_in+multi-value-in", "filter_shape_or+multi-value-in", "filter_shape_and+multi-value-in", "filter_shape_not+multi-value-in", "writer_heartbeats", "sync_ids_learned", "cases_history", "cases_script"}
}

func (p c12) Run(c *fw.Ctx, idx int) fw.Result {
	res := fw.Result{}
	ns := subrig.NumScript(false)
	caseIdx := idx
	if c.Tier == fw.Thorough && idx < ns*4 {
		caseIdx = idx % ns
	} else if c.Tier == fw.Thorough {
		caseIdx = ns + (idx - ns*4)
	}
	h, ci := subrig.RunCase(false, caseIdx, func(stream string) *rand.Rand { return c.Rng(idx, stream) })
	subrig.CountCommon(&res, h, ci)
	Check(&res, h)
	if ci.Kind == "script" {
		res.Key = fw.HashKey("C12", ci.Name, ci.ShutdownAt)
		res.Nontrivial = h.Parked > 0 || ((ci.Row == 6 || ci.Row == 11 || ci.Row == 14 || ci.Row == 15) && res.Counters["messages_checked"] > 0)
		if len(ci.NotReached) > 0 {
			res.Inconclusive = "hook-not-reached: " + strings.Join(ci.NotReached, ", ")
		}
		res.Sample = map[string]any{"kind": "script", "scenario": ci.Name, "row": ci.Row, "shutdown_before_step": ci.ShutdownAt, "interleaving": h.Signature}
	} else {
		res.Key = fw.HashKey("C12", ci.Program.String())
		res.Nontrivial = res.Counters["messages_checked"] > 0 && res.Counters["must_obligations"] > 0
		res.Sample = map[string]any{"kind": "history", "program": trim(ci.Program.String(), 600)}
	}
	if h.Quiet.StillBusy && res.Inconclusive == "" {
		res.Inconclusive = "watchdog: still busy at the quiescence deadline: " + h.Quiet.Pending
	}
	return res
}

func trim(s string, n int) string {
	if len(s) > n {
		return s[:n] + "…"
	}
	return s
}

// Check is the F4 history checker.
func Check(res *fw.Result, h *subrig.History) {
	witness := func(extra map[string]any) map[string]any {
		m := map[string]any{"history": h.Describe(160)}
		for k, v := range extra {
			m[k] = v
		}
		return m
	}
	// private solo rendering vs construction, once per (variant) per case
	crossChecked := map[int]bool{}
	unknownSync := 0
	delivered := map[int][]int{} // subscriber idx -> event ids in delivery order
	for _, s := range h.Subs {
		if s.SubInv.Load() == 0 {
			continue
		}
		lg := s.W.Log()
		id, idKnown := s.ID()
		dones := h.DonesOf(s)
		D := h.DoneTs(s)
		sname := fmt.Sprintf("s%d", s.Idx)

		if !s.Sync && s.SubErr() != "" {
			if len(lg.Calls) > 0 {
				violate(res, "writer-call-unregistered", fmt.Sprintf("%s: subscribe returned %q but the writer was called %d times", sname, s.SubErr(), len(lg.Calls)), nil, witness(nil))
			}
			if len(dones) > 0 {
				violate(res, "completion-count", fmt.Sprintf("%s: subscribe failed but completion was signalled", sname), map[string]string{"n": "unregistered"}, witness(nil))
			}
			continue
		}

		// completion signalled exactly once by quiescence
		switch {
		case idKnown && len(dones) > 1:
			violate(res, "completion-count", fmt.Sprintf("%s (%d/%d): completion signalled %d times", sname, id.ConnectionID, id.SubscriptionID, len(dones)), map[string]string{"n": "many"}, witness(nil))
		case idKnown && len(dones) == 0 && !h.Quiet.StillBusy && (!s.Sync || s.SyncErr() == ""):
			violate(res, "completion-missing", fmt.Sprintf("%s (%d/%d): completion never signalled although the history is quiescent", sname, id.ConnectionID, id.SubscriptionID), nil, witness(map[string]any{"pending": h.Quiet.Pending}))
		case !idKnown:
			unknownSync++
		}
		if s.Sync && s.SyncRet.Load() == 0 && !h.Quiet.StillBusy {
			violate(res, "completion-missing", fmt.Sprintf("%s: the synchronous call never returned", sname), map[string]string{"api": "sync"}, witness(nil))
		}
		if len(dones) == 1 {
			res.Count("completions_exactly_once", 1)
		}

		// no writer call after completion; never two at once; at most one terminal
		terminals := 0
		for _, c := range lg.Calls {
			if c.Kind == subrig.CComplete || c.Kind == subrig.CError {
				terminals++
			}
			if D != 0 && c.Ts > D {
				how := "sub.done"
				if len(dones) == 0 {
					how = "return of the synchronous call"
				}
				violate(res, "writer-call-after-done", fmt.Sprintf("%s: writer.%s at t=%d after %s at t=%d", sname, c.Kind, c.Ts, how, D),
					map[string]string{"call": c.Kind.String()}, witness(map[string]any{"subscriber": sname, "call": c.Kind.String(), "call_ts": c.Ts, "done_ts": D}))
				break
			}
			if s.Sync && len(dones) > 0 {
				if r := s.SyncRet.Load(); r != 0 && c.Ts > r && c.Ts < D {
					res.Count("observed_writer_call_after_sync_return_during_shutdown", 1)
				}
			}
		}
		res.Count("writer_calls_checked", int64(len(lg.Calls)))
		if lg.Overlaps > 0 {
			violate(res, "writer-overlap", fmt.Sprintf("%s: %d writer calls overlapped another call on the same writer", sname, lg.Overlaps), nil, witness(map[string]any{"at": lg.OverlapT}))
		}
		if terminals > 1 {
			violate(res, "double-terminal", fmt.Sprintf("%s: %d terminal writer calls (Complete/Error)", sname, terminals), nil, witness(nil))
		}
		if !s.HB {
			for _, c := range lg.Calls {
				if c.Kind == subrig.CHeartbeat {
					violate(res, "heartbeat-not-enabled", fmt.Sprintf("%s: Heartbeat on a subscription without SendHeartbeat", sname), nil, witness(nil))
					break
				}
			}
		}

		// delivered ⊆ may(s), in source order, no duplicates, each == solo rendering
		seen := map[int]bool{}
		var maxCall int64
		var maxCallEv int
		for _, m := range lg.Msgs {
			res.Count("messages_checked", 1)
			eid, key, ok := subrig.ParseDelivered(m.Data)
			if !ok || eid < 1 || eid > len(h.Events) {
				violate(res, "delivery.garbled", fmt.Sprintf("%s: delivered message is not the rendering of any event: %s", sname, trim(m.Data, 200)), nil, witness(nil))
				continue
			}
			e := h.Events[eid-1]
			if e.Key != s.Key || (key != "" && key != h.Keys[s.Key].Name) {
				violate(res, "delivery.cross-talk", fmt.Sprintf("%s (key %s) received event e%d of key %s", sname, h.Keys[s.Key].Name, eid, h.Keys[e.Key].Name), nil, witness(map[string]any{"message": m.Data}))
				continue
			}
			want := subrig.Expected(s.Variant, e.ID, h.Keys[e.Key].Name, e.G)
			if m.Data != want {
				violate(res, "delivery.mismatch", fmt.Sprintf("%s: message for e%d differs from its solo rendering", sname, eid), nil, witness(map[string]any{"got": m.Data, "want": want}))
			}
			if !crossChecked[s.Variant] {
				crossChecked[s.Variant] = true
				solo, err := subrig.SoloRender(s, e.Payload)
				res.Count("solo_crosschecks", 1)
				if err != nil || solo != want {
					res.Inconclusive = fmt.Sprintf("oracle: construction %q disagrees with the private Resolvable %q (%v)", want, solo, err)
				}
			}
			if !s.Filter.Pass(e.G) {
				violate(res, "delivery.filtered-out", fmt.Sprintf("%s (filter %s) received e%d with g=%d, which does not pass the filter", sname, s.Filter, eid, e.G),
					map[string]string{"filter_shape": s.Filter.Shape(), "explained_by_requoted_string_value": fmt.Sprint(s.Filter.PassRequoted(e.G))}, witness(map[string]any{"event": e.Payload, "variables": s.Filter.Vars()}))
			}
			if e.Target != nil && e.Target != s {
				violate(res, "delivery.wrong-target", fmt.Sprintf("%s received e%d addressed to s%d", sname, eid, e.Target.Idx), nil, witness(nil))
			}
			if !seen[eid] {
				delivered[s.Idx] = append(delivered[s.Idx], eid)
			}
			// emission order defined by the source although the calls overlap
			for _, later := range delivered[s.Idx] {
				for _, before := range h.Events[later-1].After {
					if before.ID == eid && later != eid {
						violate(res, "delivery.out-of-order", fmt.Sprintf("%s received e%d after e%d although the source issued e%d only after e%d was already inside its fan-out", sname, eid, later, later, eid),
							map[string]string{"overlapping": "true"}, witness(nil))
					}
				}
			}
			if seen[eid] {
				violate(res, "delivery.duplicate", fmt.Sprintf("%s received e%d twice", sname, eid), nil, witness(nil))
			}
			seen[eid] = true
			if e.Ret != 0 && e.Ret < s.SubInv.Load() {
				violate(res, "delivery.before-subscribe", fmt.Sprintf("%s received e%d which ended (t=%d) before the subscribe call began (t=%d)", sname, eid, e.Ret, s.SubInv.Load()), nil, witness(nil))
			}
			if D != 0 && e.Call > D {
				violate(res, "delivery.after-done", fmt.Sprintf("%s received e%d which began (t=%d) after completion (t=%d)", sname, eid, e.Call, D), nil, witness(nil))
			}
			if e.Inst != nil && h.StaleFor(e.Inst.Creator, s) {
				violate(res, "delivery.stale-instance", fmt.Sprintf("%s received e%d emitted through Start instance i%d whose trigger was gone before %s subscribed", sname, eid, e.Inst.ID, sname),
					map[string]string{"stale_instance": "true"}, witness(nil))
			}
			if e.Ret != 0 && e.Ret < maxCall {
				violate(res, "delivery.out-of-order", fmt.Sprintf("%s received e%d after e%d although e%d ended (t=%d) before e%d began (t=%d)", sname, eid, maxCallEv, eid, e.Ret, maxCallEv, maxCall), nil, witness(nil))
			}
			if e.Call > maxCall {
				maxCall, maxCallEv = e.Call, eid
			}
		}

		// delivered ⊇ must(s)
		rem, _ := h.FirstRemovalJudged(s)
		if n := h.StaleRemovals(s); n > 0 {
			res.Count("stale_source_finishes_not_accepted_as_removal", int64(n))
		}
		for _, e := range h.Events {
			if e.Key != s.Key || e.Ret == 0 || e.Inst == nil {
				continue
			}
			if e.Target != nil && e.Target != s {
				continue
			}
			attached := e.MembersBefore[s.Idx] || (e.Inst.Creator == s && !s.Sync && e.Call > s.SubRet.Load() && s.SubRet.Load() != 0)
			if !attached {
				continue
			}
			if rem != 0 && e.Ret >= rem {
				continue
			}
			if e.Inst.StartFailed.Load() {
				continue
			}
			if !s.Filter.Pass(e.G) {
				res.Count("filtered_events_withheld", 1)
				continue
			}
			res.Count("must_obligations", 1)
			if !s.Filter.None() {
				res.Count("must_filter_match_"+s.Filter.MatchPosition(e.G), 1)
			}
			if !seen[e.ID] {
				violate(res, "delivery.missing", fmt.Sprintf("%s did not receive e%d (g=%d, filter %s): it was attached before the event began (t=%d) and nothing that may remove it began before the event ended (t=%d)", sname, e.ID, e.G, s.Filter, e.Call, e.Ret),
					map[string]string{"filter_shape": s.Filter.Shape(), "match_position": s.Filter.MatchPosition(e.G), "explained_by_requoted_string_value": fmt.Sprint(!s.Filter.PassRequoted(e.G))}, witness(map[string]any{"first_removal": rem, "event": e.Payload, "variables": s.Filter.Vars()}))
			}
		}
	}
	checkAgreement(res, h, delivered, witness)
	// completion events of synchronous subscribers whose identifier was never learned
	orph := h.OrphanDones()
	seenConn := map[int64]bool{}
	for _, d := range orph {
		if seenConn[d.Conn] {
			violate(res, "completion-count", fmt.Sprintf("completion signalled twice for connection %d", d.Conn), map[string]string{"n": "many"}, witness(nil))
		}
		seenConn[d.Conn] = true
	}
	if len(orph) > unknownSync {
		violate(res, "completion-count", fmt.Sprintf("%d completion events for %d synchronous subscribers with unknown identifier", len(orph), unknownSync), map[string]string{"n": "orphans"}, witness(nil))
	}
	for _, a := range h.Anomalies {
		if strings.Contains(a, "registered under") {
			violate(res, "registration-id", a, nil, witness(nil))
		}
	}
}

// violate reports at most three violations per kind and case (a broken tree can produce thousands
// in one history); the rest is counted.
func violate(res *fw.Result, kind, msg string, match map[string]string, detail any) {
	n := 0
	for _, v := range res.Violations {
		if v.Kind == kind {
			n++
		}
	}
	if n >= 3 {
		res.Count("violations_not_listed", 1)
		return
	}
	res.Violate(kind, msg, match, detail)
}

// checkAgreement: every subscriber receives the events of its trigger in the order the source
// emitted them, so two subscribers of one trigger can never disagree on the relative order of two
// events (emitted through the same Start instance) that both received - also when the source emits
// from several goroutines and the order between two overlapping calls is otherwise unconstrained.
func checkAgreement(res *fw.Result, h *subrig.History, delivered map[int][]int, witness func(map[string]any) map[string]any) {
	for _, e := range h.Events {
		for _, b := range e.After {
			_ = b
			res.Count("source_defined_order_constraints", 1)
		}
	}
	for i, e := range h.Events {
		if e.Inst == nil || e.Ret == 0 {
			continue
		}
		for _, f := range h.Events[i+1:] {
			if f.Inst == e.Inst && f.Ret != 0 && f.Call < e.Ret && e.Call < f.Ret {
				res.Count("overlapping_update_calls", 1)
			}
		}
	}
	idxs := make([]int, 0, len(delivered))
	for k := range delivered {
		idxs = append(idxs, k)
	}
	sort.Ints(idxs)
	for x := 0; x < len(idxs); x++ {
		for y := x + 1; y < len(idxs); y++ {
			s1, s2 := idxs[x], idxs[y]
			if h.Subs[s1].Key != h.Subs[s2].Key {
				continue
			}
			pos2 := map[int]int{}
			for i, id := range delivered[s2] {
				pos2[id] = i
			}
			// common events in the order of s1, per Start instance
			last := map[*subrig.Instance][2]int{} // instance -> (position in s2, event id) of the previous common event
			for _, id := range delivered[s1] {
				p2, ok := pos2[id]
				inst := h.Events[id-1].Inst
				if !ok || inst == nil {
					continue
				}
				if prev, ok := last[inst]; ok {
					res.Count("order_agreements_checked", 1)
					if p2 < prev[0] {
						violate(res, "delivery.order-disagreement", fmt.Sprintf("s%d received e%d before e%d, s%d received e%d before e%d (same trigger, same Start instance i%d): at most one of them saw the order the source emitted", s1, prev[1], id, s2, id, prev[1], inst.ID),
							nil, witness(nil))
						return
					}
				}
				last[inst] = [2]int{p2, id}
			}
		}
	}
}
