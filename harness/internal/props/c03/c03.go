// Package c03: normalization preserves operation meaning and validity, and is idempotent.
package c03

import (
	"bytes"
	"embed"
	"encoding/json"
	"fmt"
	"math/rand/v2"
	"regexp"
	"sort"
	"strings"

	gast "github.com/vektah/gqlparser/v2/ast"

	"github.com/wundergraph/graphql-go-tools/execution/graphql"
	"github.com/wundergraph/graphql-go-tools/v2/pkg/astnormalization"
	"github.com/wundergraph/graphql-go-tools/v2/pkg/astprinter"
	"github.com/wundergraph/graphql-go-tools/v2/pkg/operationreport"

	"verifharness/internal/fw"
	"verifharness/internal/gen"
	"verifharness/internal/ref"
	"verifharness/internal/rig"
)

type c03 struct{ fw.Base }

func init() { fw.Register(c03{}) }

func (c03) ID() string { return "C03" }
func numGenerated(tier string) int {
	if tier == fw.Thorough {
		return 60000
	}
	return 4000
}
func numDirVar(tier string) int {
	if tier == fw.Thorough {
		return 6000
	}
	return 600
}
func (c03) NumCases(tier string) int {
	return len(witnesses) + numGenerated(tier) + numListPairCases() + numDirVar(tier)
}
func (c03) Rule() string {
	return "case = generated schema (objects, interfaces, unions, enums, input objects incl. @oneOf/defaults/recursion, custom scalars) × valid-by-construction operation (fragments, aliases, duplicates, @skip/@include, variables with defaults, literals in lists/objects, list coercion) × coercible variables; self-checked with gqlparser. Oracles: reference executor (independent parser) on (q,v) vs on the normalised operation + rewritten variables for 2 universes whose values hash the coerced arguments; normalised operation valid for gqlparser and for the repository validator; second normalisation is a no-op (print + variables); construction-equivalent variants (same-type inline wrapping, named<->inline fragment, duplicated field, variable renaming, literal->variable) reach the same canonical print. Both the engine's two-pass admission sequence and Request.Normalize's default options. On every case also: the engine's variable mapping covers every variable of the canonicalised operation, injectively and with the client's type; the same operation with its variables renamed to names the canonicalisation itself hands out (a, b, aa, …; own PRNG stream) reaches the same print and canonical variables; every surviving application of a schema-defined directive resolves (rewritten variables substituted) to arguments an application of the original resolves to. Appended directed families: 'listpair' (exhaustive: 6 named types × 14×14 ordered pairs of list/non-null shapes up to depth 2, the same literal — every literal legal at both positions, incl. null items, empty lists, single values coerced to lists — at two/three argument positions) and 'dirvar' (generated operations with variables placed directly on, and inside list/object literals of, arguments of schema-defined directives on fields, inline fragments, spreads and the operation, next to one or two @skip/@include on the same node). Non-trivial = operation has >=1 of {fragment, variable, directive, duplicate field, literal argument}; distinct by hash of (schema, operation, variables)."
}
func (c03) Assumptions() []string {
	return []string{"gqlparser parses/validates correctly the documents judged (cross-checked by construction)", "the reference executor implements the spec's ExecuteSelectionSet/CoerceArgumentValues", "@skip/@include are evaluated at normalisation time: equivalence is required for the request's variable values only", "response keys with the reserved __internal_ prefix are dropped before comparing"}
}
func (c03) RequiredCounters(string) []string {
	return []string{"exec_compared", "idempotence_checked", "variants_compared", "normalized_validated",
		"mapping_checked", "rename_canonical_compared", "directive_applications_compared",
		"listpair_operations_with_different_types", "listpair_variable_shared_between_positions",
		"dirvar_variable_on_surviving_directive", "dirvar_rename_canonical_compared"}
}

func varsJSON(vals map[string]*gen.Val) []byte {
	m := map[string]any{}
	for k, v := range vals {
		x, _ := v.JSON(nil)
		m[k] = x
	}
	b, _ := json.Marshal(m)
	return b
}

func decodeVars(b []byte) (map[string]any, error) {
	if len(bytes.TrimSpace(b)) == 0 {
		return map[string]any{}, nil
	}
	v, err := ref.DecodeJSON(b)
	if err != nil {
		return nil, err
	}
	m, ok := v.(map[string]any)
	if !ok {
		return nil, fmt.Errorf("not an object")
	}
	return m, nil
}

func rootFor(ss *rig.Schemas, op *gast.OperationDefinition) *ref.Obj {
	switch op.Operation {
	case gast.Mutation:
		return &ref.Obj{Type: ss.Gql.Mutation.Name, ID: "root"}
	case gast.Subscription:
		return &ref.Obj{Type: ss.Gql.Subscription.Name, ID: "root"}
	}
	return &ref.Obj{Type: ss.Gql.Query.Name, ID: "root"}
}

func universes(ss *rig.Schemas, seed uint64) []*ref.Universe {
	return []*ref.Universe{
		{Seed: seed, Schema: ss.Gql, NullRate: 2, MaxList: 2},
		{Seed: seed + 1, Schema: ss.Gql, NullRate: 0, MaxList: 3},
	}
}

// execAll runs the reference executor for every universe and returns the canonical results.
func execAll(ss *rig.Schemas, query, opName string, vars map[string]any, seed uint64) ([]string, error) {
	qd, gerrs := ss.LoadQuery(query)
	if gerrs != nil {
		return nil, fmt.Errorf("gqlparser: %s", gerrs.Error())
	}
	op := rig.PickOperation(qd, opName)
	if op == nil {
		return nil, fmt.Errorf("operation %q not found", opName)
	}
	var out []string
	for _, u := range universes(ss, seed) {
		data, errs, cerr := rig.RefExec(ss.Gql, op, vars, u, rootFor(ss, op), nil)
		if cerr != nil {
			return nil, fmt.Errorf("variables not coercible: %s", cerr.Error())
		}
		hasErr := "noerr"
		if len(errs) > 0 {
			hasErr = "err"
		}
		var d any
		if data != nil {
			d = rig.StripInternal(data)
		}
		out = append(out, ref.Canon(d)+"|"+hasErr)
	}
	return out, nil
}

//go:embed witness/*.json
var witnessFS embed.FS

type witness struct {
	Name          string `json:"name"`
	SDL           string `json:"sdl"`
	Operation     string `json:"operation"`
	OperationName string `json:"operationName"`
	Variables     string `json:"variables"`
}

func loadWitnesses() []witness {
	ents, _ := witnessFS.ReadDir("witness")
	var out []witness
	for _, e := range ents {
		b, err := witnessFS.ReadFile("witness/" + e.Name())
		if err != nil {
			continue
		}
		var w witness
		if json.Unmarshal(b, &w) == nil {
			out = append(out, w)
		}
	}
	return out
}

var witnesses = loadWitnesses()

// runFixed judges a fixed (schema, operation, variables) triple: witnesses of the open known
// findings and regression inputs of the repaired defects.
func (p c03) runFixed(w witness) fw.Result {
	caseSpreadDirFact = "false"
	res := fw.Result{Key: fw.HashKey("fixed", w.Name), Nontrivial: true}
	res.Sample = map[string]any{"fixed_case": w.Name, "operation": w.Operation, "variables": w.Variables}
	ss, err := rig.LoadSchemas(w.SDL)
	if err != nil {
		res.Broken("fixed case schema: "+err.Error(), map[string]any{"fixed_case": w.Name, "sdl": w.SDL})
		return res
	}
	eng, err := rig.NewAdmissionEngine(ss.Repo)
	if err != nil {
		res.Broken("engine construction: "+err.Error(), map[string]any{"fixed_case": w.Name, "sdl": w.SDL})
		return res
	}
	defer eng.Close()
	p.judgeFixed(&res, ss, eng, w, nil)
	return res
}

// judgeFixed judges one fixed (schema, operation, variables) triple on both sequences. It returns
// the engine sequence's printed result ("" when there is none).
func (p c03) judgeFixed(resp *fw.Result, ss *rig.Schemas, eng *rig.Engine, w witness, extraDetail map[string]any) (enginePrinted string) {
	res := resp
	detail := func(extra map[string]any) map[string]any {
		m := map[string]any{"fixed_case": w.Name, "sdl": w.SDL, "operation": w.Operation, "operationName": w.OperationName, "variables": w.Variables}
		for k, v := range extraDetail {
			m[k] = v
		}
		for k, v := range extra {
			m[k] = v
		}
		return m
	}
	vmap, _ := decodeVars([]byte(w.Variables))
	const seed = 12345
	want, err := execAll(ss, w.Operation, w.OperationName, vmap, seed)
	if err != nil {
		res.Broken("fixed case rejected by the reference side: "+err.Error(), detail(nil))
		return ""
	}
	setCaseOriginal(ss, w.Operation, w.OperationName, vmap)
	defer clearCaseOriginal()
	a := eng.Admit(w.Operation, w.OperationName, []byte(w.Variables))
	if a.Stage != "" {
		res.Inconclusive = "admission-refused: " + a.Err
		res.Count("admission_refused", 1)
		return ""
	}
	p.judge(res, ss, "engine", a.Printed, a.Variables, a.Remap, w.OperationName, want, seed, detail)
	if canonVars, err := rig.VarsForRemapped(a.Variables, a.Remap); err == nil {
		cv, _ := json.Marshal(canonVars)
		b := eng.Admit(a.Printed, "", cv)
		res.Count("idempotence_checked", 1)
		if b.Stage != "" {
			res.Violate("normalize.idempotence", "normalised operation is refused when normalised again: "+b.Err, map[string]string{"sequence": "engine", "what": "refused", "nullability_only_conflict": fmt.Sprint(nullabilityOnlyConflict(b.Err))}, detail(map[string]any{"normalized": a.Printed, "normalized_variables": string(cv)}))
		} else if b.Printed != a.Printed {
			res.Violate("normalize.idempotence", "second normalisation changes the printed operation", map[string]string{"sequence": "engine", "what": "print", "only_fragment_structure": fmt.Sprint(onlyFragmentStructure(a.Printed, b.Printed))}, detail(map[string]any{"first": a.Printed, "second": b.Printed}))
		}
	}
	printed2, vars2, err := rig.DefaultNormalize(ss.Repo, w.Operation, w.OperationName, []byte(w.Variables))
	if err == nil {
		p.judge(res, ss, "default", printed2, vars2, nil, "", want, seed, detail)
		res.Count("idempotence_checked", 1)
		printed3, _, err := rig.DefaultNormalize(ss.Repo, printed2, "", vars2)
		if err == nil && printed3 != printed2 {
			res.Violate("normalize.idempotence", "second normalisation changes the printed operation", map[string]string{"sequence": "default", "what": "print", "only_fragment_structure": fmt.Sprint(onlyFragmentStructure(printed2, printed3))}, detail(map[string]any{"first": printed2, "second": printed3}))
		}
	}
	return a.Printed
}

func (p c03) Run(c *fw.Ctx, idx int) fw.Result {
	if idx < len(witnesses) {
		return p.runFixed(witnesses[idx])
	}
	// directed families are appended after the generated cases (the index -> case mapping of the
	// generated cases is what the pinned witnesses of the known findings refer to)
	if k := idx - len(witnesses) - numGenerated(c.Tier); k >= 0 {
		if k < numListPairCases() {
			return p.runListPair(k)
		}
		return p.runDirVar(c, idx)
	}
	res := fw.Result{}
	r := c.Rng(idx, "c03")
	sp := gen.DefaultProfile(r)
	sp.Keywords = idx%5 == 0
	sp.ExecDirectives = idx%4 == 2
	schema := gen.GenSchema(r, sp)
	sdl := schema.SDL()
	ss, err := rig.LoadSchemas(sdl)
	if err != nil {
		res.Broken("schema self-check: "+err.Error(), map[string]any{"sdl": sdl})
		return res
	}
	op := gen.DefaultOpProfile(r)
	op.MultiOps = idx%7 == 0
	op.NoSingletonVars = idx%2 == 0
	op.MultiFrag = idx%3 != 0
	op.CustomDirs = true
	if idx%4 == 1 {
		op.VarBias = 7
	}
	if schema.Mutation != "" && idx%11 == 0 {
		op.Kind = "mutation"
	}
	doc, vals := gen.GenOperation(r, schema, op)
	caseSpreadDirFact = fmt.Sprint(gen.SpreadDirectiveNotForInline(schema, doc))
	return p.runDoc(c, idx, r, schema, ss, sdl, doc, vals, op.MultiOps, nil)
}

// runDoc judges one generated (schema, document, variables) case.
func (p c03) runDoc(c *fw.Ctx, idx int, r *rand.Rand, schema *gen.Schema, ss *rig.Schemas, sdl string, doc *gen.Doc, vals map[string]*gen.Val, multiOps bool, family map[string]any) fw.Result {
	res := fw.Result{}
	text := doc.String()
	opName := ""
	if multiOps {
		opName = "Main"
	}
	vars := varsJSON(vals)
	res.Key = fw.HashKey(sdl, text, vars)
	res.Sample = map[string]any{"operation": text, "variables": string(vars), "schema_types": len(schema.Types)}
	res.Nontrivial = strings.Contains(text, "...") || strings.Contains(text, "$") || strings.Contains(text, "@") || strings.Contains(text, "(")
	seed := r.Uint64()
	detail := func(extra map[string]any) map[string]any {
		m := map[string]any{"sdl": sdl, "operation": text, "operationName": opName, "variables": string(vars)}
		for k, v := range family {
			m[k] = v
		}
		for k, v := range extra {
			m[k] = v
		}
		return m
	}

	eng, err := rig.NewAdmissionEngine(ss.Repo)
	if err != nil {
		res.Broken("engine construction: "+err.Error(), detail(nil))
		return res
	}
	defer eng.Close()

	vmap, _ := decodeVars(vars)
	want, err := execAll(ss, text, opName, vmap, seed)
	if err != nil {
		res.Broken("operation self-check (valid-by-construction operation rejected by the reference side): "+err.Error(), detail(nil))
		return res
	}
	setCaseOriginal(ss, text, opName, vmap)
	defer clearCaseOriginal()

	// ---- sequence 1: the engine's admission sequence
	a := eng.Admit(text, opName, vars)
	if a.Stage != "" {
		// whether a valid operation is admitted is what C04 / C06 decide (same generators); C03 is
		// about what normalisation yields, so a refusal leaves this case undecided here
		// (the single-pass default sequence below, which refuses nothing, is still judged)
		res.Inconclusive = "admission-refused: " + a.Err
		res.Count("admission_refused", 1)
		p.defaultSequence(&res, ss, text, opName, vars, want, seed, detail)
		return res
	}
	p.judge(&res, ss, "engine", a.Printed, a.Variables, a.Remap, opName, want, seed, detail)

	// idempotence of the engine sequence: feed the normalised operation + variables through the same steps.
	// After VariablesMapper the operation uses canonical names but the variables object is keyed by
	// the client's names: present the variables under the canonical names, as a client re-sending the
	// normalised operation would.
	if canonVars, err := rig.VarsForRemapped(a.Variables, a.Remap); err == nil {
		cv, _ := json.Marshal(canonVars)
		b := eng.Admit(a.Printed, "", cv)
		res.Count("idempotence_checked", 1)
		if b.Stage != "" {
			res.Violate("normalize.idempotence", "normalised operation is refused when normalised again at stage "+b.Stage+": "+b.Err, map[string]string{"sequence": "engine", "what": "refused", "nullability_only_conflict": fmt.Sprint(nullabilityOnlyConflict(b.Err))}, detail(map[string]any{"normalized": a.Printed, "normalized_variables": string(cv)}))
		} else {
			if b.Printed != a.Printed {
				res.Violate("normalize.idempotence", "second normalisation changes the printed operation", map[string]string{"sequence": "engine", "what": "print", "only_fragment_structure": fmt.Sprint(onlyFragmentStructure(a.Printed, b.Printed))}, detail(map[string]any{"first": a.Printed, "second": b.Printed}))
			}
			bv, _ := rig.VarsForRemapped(b.Variables, b.Remap)
			if ref.Canon(anyMap(bv)) != ref.Canon(anyMap(canonVars)) {
				res.Violate("normalize.idempotence", "second normalisation changes the variables", map[string]string{"sequence": "engine", "what": "variables"}, detail(map[string]any{"normalized": a.Printed, "first": string(cv), "second": string(b.Variables)}))
			}
		}
	}

	p.defaultSequence(&res, ss, text, opName, vars, want, seed, detail)

	// ---- history independence of a re-used normaliser instance (routers pool them): the operation with
	// its variables, with every Boolean variable flipped (other @skip/@include outcome, other variables
	// becoming unused), and with the original values again, on ONE instance, must each come out exactly as
	// on a fresh instance
	{
		flipped := map[string]any{}
		nflip := 0
		for k, v := range vmap {
			if b, ok := v.(bool); ok {
				flipped[k] = !b
				nflip++
			} else {
				flipped[k] = v
			}
		}
		fv, _ := json.Marshal(flipped)
		history := [][]byte{vars, fv, vars}
		shared := rig.NewPipeline()
		for i, hv := range history {
			fresh := rig.NewPipeline().Run(ss.Repo, text, opName, hv)
			reused := shared.Run(ss.Repo, text, opName, hv)
			res.Count("reused_pipeline_documents_compared", 1)
			if nflip > 0 {
				res.Count("reused_pipeline_flipped_boolean_histories", 1)
			}
			what := ""
			switch {
			case fresh.Verdict() != reused.Verdict():
				what = "verdict"
			case fresh.Printed != reused.Printed:
				what = "print"
			case fresh.Variables != reused.Variables:
				what = "variables"
			}
			if what != "" {
				res.Violate("normalize.history-dependent", "a re-used normaliser instance yields a different result than a fresh one ("+what+")", map[string]string{"sequence": "reused-pipeline", "what": what}, detail(map[string]any{"variables_of_this_run": string(hv), "position_in_history": i, "fresh": fresh, "reused": reused}))
				break
			}
		}
	}

	// ---- equivalence variants → same canonical print (engine sequence incl. VariablesMapper)
	if len(doc.Ops) == 1 {
		for _, vk := range []string{"wrap", "named2inline", "dup", "rename", "lit2var"} {
			vdoc, vvals, ok := gen.Variant(r, schema, doc, vals, vk)
			if !ok {
				continue
			}
			vtext := vdoc.String()
			vvars := varsJSON(vvals)
			// self-check: the variant must be valid and equivalent for the reference executor
			vm, _ := decodeVars(vvars)
			got, err := execAll(ss, vtext, "", vm, seed)
			if err != nil {
				res.Broken("variant self-check ("+vk+"): "+err.Error(), detail(map[string]any{"variant": vtext, "variant_variables": string(vvars)}))
				continue
			}
			if strings.Join(got, "\n") != strings.Join(want, "\n") {
				res.Broken("variant self-check ("+vk+"): reference results differ, the transformation is not an equivalence", detail(map[string]any{"variant": vtext, "variant_variables": string(vvars)}))
				continue
			}
			va := eng.Admit(vtext, "", vvars)
			res.Count("variants_compared", 1)
			res.Count("variant_"+vk, 1)
			if va.Stage != "" {
				res.Count("variant_admission_refused", 1)
				continue
			}
			if va.Printed != a.Printed {
				res.Violate("normalize.variant-print", "construction-equivalent operations ("+vk+") normalise to different prints", map[string]string{"variant": vk, "only_fragment_structure": fmt.Sprint(onlyFragmentStructure(a.Printed, va.Printed))}, detail(map[string]any{"variant": vtext, "variant_variables": string(vvars), "print_original": a.Printed, "print_variant": va.Printed}))
				continue
			}
			ov, e1 := rig.VarsForRemapped(a.Variables, a.Remap)
			nv, e2 := rig.VarsForRemapped(va.Variables, va.Remap)
			if e1 == nil && e2 == nil && ref.Canon(anyMap(ov)) != ref.Canon(anyMap(nv)) {
				res.Violate("normalize.variant-variables", "construction-equivalent operations ("+vk+") normalise to different canonical variables", map[string]string{"variant": vk}, detail(map[string]any{"variant": vtext, "variant_variables": string(vvars), "canon_original": ref.Canon(anyMap(ov)), "canon_variant": ref.Canon(anyMap(nv)), "print": a.Printed}))
			}
		}
		// ---- renaming invariance with client names that collide with the names the canonicalisation
		// hands out (a, b, c, …); drawn from a stream of its own
		if len(doc.Ops[0].Vars) > 0 {
			vdoc, vvals, renaming := renameCanonical(c.Rng(idx, "c03-rename"), doc, vals)
			vtext := vdoc.String()
			vvars := varsJSON(vvals)
			vd := func(extra map[string]any) map[string]any {
				m := detail(map[string]any{"variant": vtext, "variant_variables": string(vvars), "renaming": renaming})
				for k, v := range extra {
					m[k] = v
				}
				return m
			}
			vm, _ := decodeVars(vvars)
			got, err := execAll(ss, vtext, "", vm, seed)
			switch {
			case err != nil:
				res.Broken("variant self-check (rename-canonical): "+err.Error(), vd(nil))
			case strings.Join(got, "\n") != strings.Join(want, "\n"):
				res.Broken("variant self-check (rename-canonical): reference results differ, the transformation is not an equivalence", vd(nil))
			default:
				va := eng.Admit(vtext, "", vvars)
				res.Count("rename_canonical_compared", 1)
				if family != nil {
					res.Count("dirvar_rename_canonical_compared", 1)
				}
				facts := func(m map[string]string) map[string]string {
					m["variant"] = "rename-canonical"
					return withCaseFacts(m)
				}
				if va.Stage != "" {
					res.Violate("normalize.rename-refused", "the operation is admitted, the same operation with its variables renamed is refused: "+va.Err, facts(map[string]string{}), vd(nil))
				} else if va.Printed != a.Printed {
					res.Violate("normalize.variant-print", "operations that differ only in variable names normalise to different prints", facts(map[string]string{"only_fragment_structure": fmt.Sprint(onlyFragmentStructure(a.Printed, va.Printed))}), vd(map[string]any{"print_original": a.Printed, "print_variant": va.Printed}))
				} else {
					// the renamed operation's own result is judged too (valid, mapping, meaning)
					saved := caseOrig
					setCaseOriginal(ss, vtext, "", vm)
					p.judge(&res, ss, "engine", va.Printed, va.Variables, va.Remap, "", want, seed, vd)
					caseOrig = saved
					ov, e1 := rig.VarsForRemapped(a.Variables, a.Remap)
					nv, e2 := rig.VarsForRemapped(va.Variables, va.Remap)
					if e1 == nil && e2 == nil && ref.Canon(anyMap(ov)) != ref.Canon(anyMap(nv)) {
						res.Violate("normalize.variant-variables", "operations that differ only in variable names normalise to different canonical variables", facts(map[string]string{}), vd(map[string]any{"canon_original": ref.Canon(anyMap(ov)), "canon_variant": ref.Canon(anyMap(nv)), "print": a.Printed}))
					}
				}
			}
		}
	}
	return res
}

func anyMap(m map[string]any) any {
	if m == nil {
		return map[string]any{}
	}
	return m
}

// judge checks one normalisation output: variables are JSON, operation valid on both sides, same
// reference results as the original.
// defaultSequence judges Request.Normalize with its default options (single pass) and its idempotence.
func (p c03) defaultSequence(res *fw.Result, ss *rig.Schemas, text, opName string, vars []byte, want []string, seed uint64, detail func(map[string]any) map[string]any) {
	// ---- sequence 2: Request.Normalize with its default options (single pass)
	printed2, vars2, err := rig.DefaultNormalize(ss.Repo, text, opName, vars)
	if err != nil {
		res.Violate("normalize.rejects-valid", "Request.Normalize (default options) fails on a valid operation: "+err.Error(), map[string]string{"stage": "normalize", "sequence": "default"}, detail(nil))
	} else {
		p.judge(res, ss, "default", printed2, vars2, nil, "", want, seed, detail)
		res.Count("idempotence_checked", 1)
		printed3, vars3, err := rig.DefaultNormalize(ss.Repo, printed2, "", vars2)
		if err != nil {
			res.Violate("normalize.idempotence", "normalised operation fails to normalise again: "+err.Error(), map[string]string{"sequence": "default", "what": "refused"}, detail(map[string]any{"normalized": printed2, "normalized_variables": string(vars2)}))
		} else {
			if printed3 != printed2 {
				res.Violate("normalize.idempotence", "second normalisation changes the printed operation", map[string]string{"sequence": "default", "what": "print", "only_fragment_structure": fmt.Sprint(onlyFragmentStructure(printed2, printed3))}, detail(map[string]any{"first": printed2, "second": printed3}))
			}
			m2, e2 := decodeVars(vars2)
			m3, e3 := decodeVars(vars3)
			if e2 == nil && e3 == nil && ref.Canon(anyMap(m2)) != ref.Canon(anyMap(m3)) {
				res.Violate("normalize.idempotence", "second normalisation changes the variables", map[string]string{"sequence": "default", "what": "variables"}, detail(map[string]any{"normalized": printed2, "first": string(vars2), "second": string(vars3)}))
			}
		}
	}
}

func (p c03) judge(res *fw.Result, ss *rig.Schemas, seq, printed string, variables []byte, remap map[string]string, opName string, want []string, seed uint64, detail func(map[string]any) map[string]any) {
	d := func(extra map[string]any) map[string]any {
		m := detail(map[string]any{"sequence": seq, "normalized": printed, "normalized_variables": string(variables), "remap": remap})
		for k, v := range extra {
			m[k] = v
		}
		return m
	}
	vm, err := rig.VarsForRemapped(variables, remap)
	if err != nil {
		res.Violate("normalize.variables-json", "variables after normalisation: "+err.Error(), map[string]string{"sequence": seq}, d(nil))
		return
	}
	res.Count("normalized_validated", 1)
	// valid for gqlparser
	qd, gerrs := ss.LoadQuery(printed)
	if gerrs != nil {
		cls := classifyGqlErr(gerrs.Error())
		res.Violate("normalize.invalid-output", "normalised operation is not valid (gqlparser): "+gerrs.Error(), map[string]string{"sequence": seq, "validator": "gqlparser", "rule": cls, "nullability_only_conflict": fmt.Sprint(nullabilityOnlyConflict(gerrs.Error())), "spread_directive_without_inline_fragment_location": caseSpreadDirFact}, d(nil))
		return
	}
	// valid for the repository's own validator
	{
		req := &graphql.Request{Query: printed, Variables: variables}
		vres, err := req.ValidateForSchema(ss.Repo)
		if err != nil || !vres.Valid {
			msg := ""
			if err != nil {
				msg = err.Error()
			} else {
				msg = vres.Errors.Error()
			}
			res.Violate("normalize.invalid-output", "normalised operation is not valid (repository validator): "+msg, map[string]string{"sequence": seq, "validator": "repo", "rule": classifyGqlErr(msg), "nullability_only_conflict": fmt.Sprint(nullabilityOnlyConflict(msg)), "spread_directive_without_inline_fragment_location": caseSpreadDirFact}, d(nil))
		}
	}
	nviol := len(res.Violations)
	p.judgeCanonical(res, ss, seq, qd, vm, remap, d)
	if len(res.Violations) > nviol {
		return
	}
	op := rig.PickOperation(qd, "")
	var got []string
	for _, u := range universes(ss, seed) {
		data, errs, cerr := rig.RefExec(ss.Gql, op, vm, u, rootFor(ss, op), nil)
		if cerr != nil {
			res.Violate("normalize.variables-uncoercible", "variables after normalisation are not coercible for the normalised operation: "+cerr.Error(), map[string]string{"sequence": seq}, d(nil))
			return
		}
		hasErr := "noerr"
		if len(errs) > 0 {
			hasErr = "err"
		}
		var dd any
		if data != nil {
			dd = rig.StripInternal(data)
		}
		got = append(got, ref.Canon(dd)+"|"+hasErr)
	}
	res.Count("exec_compared", int64(len(got)))
	for i := range got {
		if got[i] != want[i] {
			res.Violate("normalize.meaning", "normalised operation produces a different response than the original", map[string]string{"sequence": seq}, d(map[string]any{"universe": i, "expected": want[i], "observed": got[i]}))
			return
		}
	}
}

var reConflictTypes = regexp.MustCompile(`conflicting types ["']([^"']+)["'] and ["']([^"']+)["']`)

// nullabilityOnlyConflict: every reported conflict is between two types that differ only in "!".
func nullabilityOnlyConflict(msg string) bool {
	ms := reConflictTypes.FindAllStringSubmatch(msg, -1)
	if len(ms) == 0 {
		return false
	}
	for _, m := range ms {
		if strings.ReplaceAll(m[1], "!", "") != strings.ReplaceAll(m[2], "!", "") {
			return false
		}
	}
	return true
}

var reOpHeader = regexp.MustCompile(`^(query|mutation|subscription)[ _0-9A-Za-z]*\([^)]*\)`)
var reVarName = regexp.MustCompile(`\$[a-z]+`)
var reInlineOn = regexp.MustCompile(`\.\.\. on [_A-Za-z][_0-9A-Za-z]* ?`)

// onlyFragmentStructure: the two prints select the same multiset of field tokens and differ only in
// inline-fragment wrappers (`... on T {` / `}`) and in repeated occurrences of a token.
func onlyFragmentStructure(a, b string) bool {
	norm := func(s string) string {
		// variable letters follow the order of first use, which fragment nesting can permute
		// (the header is cut by pattern: an operation-level directive may follow the variable list)
		if m := reOpHeader.FindStringIndex(s); m != nil {
			s = s[m[1]:]
		}
		s = reVarName.ReplaceAllString(s, "$$")
		s = reInlineOn.ReplaceAllString(s, " ")
		s = strings.NewReplacer("{", " ", "}", " ").Replace(s)
		toks := strings.Fields(s)
		set := map[string]bool{}
		for _, t := range toks {
			set[t] = true
		}
		keys := make([]string, 0, len(set))
		for k := range set {
			keys = append(keys, k)
		}
		sort.Strings(keys)
		return strings.Join(keys, " ")
	}
	return a != b && norm(a) == norm(b)
}

// caseSpreadDirFact: fact of the case being run (cases run one at a time per worker process).
var caseSpreadDirFact = "false"

func classifyGqlErr(msg string) string {
	for _, k := range []string{"never used", "is not defined", "Unknown argument", "Unknown type", "Cannot query field", "cannot be spread", "conflict", "Expected", "expected type", "must have a selection", "must not have a selection", "Unknown directive", "unused", "not used", "may not be used on INLINE_FRAGMENT", "not allowed on node of kind: INLINE_FRAGMENT", "used in position expecting", "must be unique", "can be only one variable named"} {
		if strings.Contains(msg, k) {
			return k
		}
	}
	return "other"
}

var _ = astnormalization.NewVariablesMapper
var _ = astprinter.Print
var _ operationreport.Report
