package c03

import (
	"fmt"
	"regexp"
	"strings"

	"verifharness/internal/fw"
	"verifharness/internal/rig"
)

// Directed family "listpair": the SAME literal at two argument positions whose types have the same
// named type but differ in list depth and in the nullability of the list and of its items
// (T, T!, [T], [T]!, [T!], [T!]!, [[T]], … [[T!]!]!), in both orders. Variable extraction may share one
// variable between two positions only when that is a legal variable usage at both; list coercion
// has to wrap single values per position. The family is enumerated exhaustively in both tiers:
// case = (named type, shape of first position, shape of second position), every literal that is
// legal at both positions is one operation of the case, judged like every other case (valid,
// same meaning, idempotent).

type lpShape struct {
	depth int
	nn    [3]bool // nn[0] = outermost wrapper … nn[depth] = named type
}

func (s lpShape) String(named string) string {
	out := named
	if s.nn[s.depth] {
		out += "!"
	}
	for d := s.depth - 1; d >= 0; d-- {
		out = "[" + out + "]"
		if s.nn[d] {
			out += "!"
		}
	}
	return out
}

func lpAllShapes() []lpShape {
	var out []lpShape
	for depth := 0; depth <= 2; depth++ {
		for bits := 0; bits < 1<<(depth+1); bits++ {
			s := lpShape{depth: depth}
			for i := 0; i <= depth; i++ {
				s.nn[i] = bits&(1<<i) != 0
			}
			out = append(out, s)
		}
	}
	return out
}

var lpShapes = lpAllShapes() // 2 + 4 + 8 = 14

type lpNamed struct {
	name string
	leaf string // a literal of the named type
}

var lpNameds = []lpNamed{
	{"String", `"x"`},
	{"Int", `1`},
	{"ID", `"id1"`},
	{"Color", `RED`},
	{"Inp", `{a: 1}`},
	{"Any", `"x"`},
}

const lpTypesSDL = `
enum Color { RED GREEN }
scalar Any
input Inp { a: Int, b: [String!], c: Int = 5 }
`

// lpLit is a literal: null, the leaf, or a list of literals.
type lpLit struct {
	null  bool
	leaf  bool
	items []*lpLit
}

func (l *lpLit) render(leaf string) string {
	switch {
	case l.null:
		return "null"
	case l.leaf:
		return leaf
	}
	parts := make([]string, len(l.items))
	for i, it := range l.items {
		parts[i] = it.render(leaf)
	}
	return "[" + strings.Join(parts, ", ") + "]"
}

// lpLegal: the literal is coercible to the shape from wrapper level lvl on (spec: null only where
// nullable; a non-list value at a list type is coerced as the single item).
func lpLegal(l *lpLit, s lpShape, lvl int) bool {
	if l.null {
		return !s.nn[lvl]
	}
	if lvl == s.depth {
		return l.leaf
	}
	if l.leaf {
		return lpLegal(l, s, lvl+1)
	}
	for _, it := range l.items {
		if !lpLegal(it, s, lvl+1) {
			return false
		}
	}
	return true
}

func lpLiterals() []*lpLit {
	null := &lpLit{null: true}
	b := &lpLit{leaf: true}
	list := func(items ...*lpLit) *lpLit { return &lpLit{items: items} }
	return []*lpLit{
		b,
		null,
		list(),
		list(b),
		list(null),
		list(b, null),
		list(b, b),
		list(list()),
		list(list(b)),
		list(list(null)),
		list(list(b), null),
		list(list(b, null)),
		list(list(b), b),
	}
}

var lpLits = lpLiterals()

var reArgP = regexp.MustCompile(`x: p\(arg: (\$[_0-9A-Za-z]+)\)`)
var reArgQ = regexp.MustCompile(`y: q\(arg: (\$[_0-9A-Za-z]+)\)`)

func numListPairCases() int { return len(lpNameds) * len(lpShapes) * len(lpShapes) }

func (p c03) runListPair(k int) fw.Result {
	caseSpreadDirFact = "false"
	nS := len(lpShapes)
	named := lpNameds[k/(nS*nS)]
	a := lpShapes[(k/nS)%nS]
	b := lpShapes[k%nS]
	ta, tb := a.String(named.name), b.String(named.name)
	res := fw.Result{Key: fw.HashKey("listpair", named.name, ta, tb)}
	sdl := lpTypesSDL + fmt.Sprintf("type Query {\n  p(arg: %s): String\n  q(arg: %s): String\n  r(arg: %s): String\n}\n", ta, tb, ta)
	res.Sample = map[string]any{"listpair": named.name, "first": ta, "second": tb}
	ss, err := rig.LoadSchemas(sdl)
	if err != nil {
		res.Broken("listpair schema: "+err.Error(), map[string]any{"sdl": sdl})
		return res
	}
	eng, err := rig.NewAdmissionEngine(ss.Repo)
	if err != nil {
		res.Broken("engine construction: "+err.Error(), map[string]any{"sdl": sdl})
		return res
	}
	defer eng.Close()
	seen := map[string]bool{}
	for _, l := range lpLits {
		if !lpLegal(l, a, 0) || !lpLegal(l, b, 0) {
			continue
		}
		lit := l.render(named.leaf)
		if seen[lit] {
			continue
		}
		seen[lit] = true
		ops := []string{
			fmt.Sprintf("query Q { x: p(arg: %s) y: q(arg: %s) }", lit, lit),
			// the literal a third time at a position of the first type, after the second
			fmt.Sprintf("{ x: p(arg: %s) y: q(arg: %s) z: r(arg: %s) }", lit, lit, lit),
		}
		for oi, op := range ops {
			if oi == 1 && ta == tb {
				continue
			}
			w := witness{Name: "listpair " + ta + " / " + tb + " / " + lit, SDL: sdl, Operation: op, Variables: "{}"}
			if oi == 0 {
				w.OperationName = "Q"
			}
			before := len(res.Violations)
			printed := p.judgeFixed(&res, ss, eng, w, map[string]any{"family": "listpair", "first_type": ta, "second_type": tb, "literal": lit})
			res.Count("listpair_operations", 1)
			res.Nontrivial = true
			// the first and the second position were given one variable
			mp, mq := reArgP.FindStringSubmatch(printed), reArgQ.FindStringSubmatch(printed)
			if mp != nil && mq != nil && mp[1] == mq[1] {
				res.Count("listpair_variable_shared_between_positions", 1)
				if ta != tb {
					res.Count("listpair_variable_shared_between_different_types", 1)
				}
			}
			if ta != tb {
				res.Count("listpair_operations_with_different_types", 1)
			}
			if len(res.Violations) > before {
				// one witness per case is enough
				return res
			}
		}
	}
	return res
}
