package c03

import (
	"fmt"
	"math/rand/v2"
	"sort"
	"strings"

	gast "github.com/vektah/gqlparser/v2/ast"

	"verifharness/internal/fw"
	"verifharness/internal/gen"
	"verifharness/internal/ref"
	"verifharness/internal/rig"
)

// Directed family "dirvar": generated operations in which VARIABLES are used as arguments of
// schema-defined executable directives that survive normalisation (on fields, inline fragments,
// fragment spreads, the operation). The variable canonicalisation (VariablesMapper) has to rename
// those uses together with the definitions; the judge is the one of the generated cases plus the
// mapping, renaming-invariance and directive-argument oracles below (which run on every case).

var evaluatedAway = map[string]bool{"skip": true, "include": true, "defer": true}

// ---- what the original operation says (per case; cases run one at a time per worker process)

type caseOriginal struct {
	varTypes map[string]string // client variable name -> declared type
	dirs     map[string]bool   // resolved applications of schema-defined directives; nil = unavailable
}

var caseOrig *caseOriginal

// caseFacts: additional facts of the running case, added to the match facts of the oracles below.
var caseFacts map[string]string

func withCaseFacts(m map[string]string) map[string]string {
	for k, v := range caseFacts {
		m[k] = v
	}
	return m
}

func clearCaseOriginal() { caseOrig = nil }

func setCaseOriginal(ss *rig.Schemas, text, opName string, vars map[string]any) {
	caseOrig = nil
	qd, gerrs := ss.LoadQuery(text)
	if gerrs != nil {
		return
	}
	op := rig.PickOperation(qd, opName)
	if op == nil {
		return
	}
	co := &caseOriginal{varTypes: map[string]string{}}
	for _, vd := range op.VariableDefinitions {
		co.varTypes[vd.Variable] = vd.Type.String()
	}
	co.dirs, _, _ = directiveApplications(ss, op, vars)
	caseOrig = co
}

// directiveApplications resolves every application of a schema-defined directive reachable from
// the operation (through fragment spreads) to `@name{coerced arguments}`, variables substituted.
// nVarArgs counts the arguments of those applications whose value is directly a variable.
func directiveApplications(ss *rig.Schemas, op *gast.OperationDefinition, vars map[string]any) (set map[string]bool, nVarArgs int, err error) {
	c := ref.Coercer{Schema: ss.Gql}
	cv, cerr := c.CoerceVariableValues(op, vars)
	if cerr != nil {
		return nil, 0, cerr
	}
	out := map[string]bool{}
	var firstErr error
	apply := func(ds gast.DirectiveList) {
		for _, d := range ds {
			if evaluatedAway[d.Name] || d.Definition == nil {
				continue
			}
			for _, a := range d.Arguments {
				if a.Value != nil && a.Value.Kind == gast.Variable {
					nVarArgs++
				}
			}
			args, err := c.CoerceArguments(d.Definition.Arguments, d.Arguments, cv)
			if err != nil {
				if firstErr == nil {
					firstErr = err
				}
				continue
			}
			out["@"+d.Name+ref.Canon(args)] = true
		}
	}
	seenFrag := map[string]bool{}
	var walk func(ss gast.SelectionSet)
	walk = func(sels gast.SelectionSet) {
		for _, s := range sels {
			switch x := s.(type) {
			case *gast.Field:
				apply(x.Directives)
				walk(x.SelectionSet)
			case *gast.InlineFragment:
				apply(x.Directives)
				walk(x.SelectionSet)
			case *gast.FragmentSpread:
				apply(x.Directives)
				if x.Definition != nil && !seenFrag[x.Name] {
					seenFrag[x.Name] = true
					apply(x.Definition.Directives)
					walk(x.Definition.SelectionSet)
				}
			}
		}
	}
	apply(op.Directives)
	walk(op.SelectionSet)
	if firstErr != nil {
		return nil, nVarArgs, firstErr
	}
	return out, nVarArgs, nil
}

// judgeCanonical: oracles on the canonicalised result of the engine sequence (called by judge
// after the result was found valid). qd is the parsed + validated normalised document, vm its
// variables keyed by the names it uses.
func (p c03) judgeCanonical(res *fw.Result, ss *rig.Schemas, seq string, qd *gast.QueryDocument, vm map[string]any, remap map[string]string, d func(map[string]any) map[string]any) {
	op := rig.PickOperation(qd, "")
	if op == nil {
		return
	}
	// (1) the mapping covers every variable of the result, is injective, and keeps the type
	if remap != nil {
		res.Count("mapping_checked", 1)
		clients := map[string]string{}
		for _, vd := range op.VariableDefinitions {
			if vd.Type.Name() == "Upload" {
				continue // file upload variables keep their names by design
			}
			client, ok := remap[vd.Variable]
			if !ok {
				res.Violate("normalize.mapping", "variable $"+vd.Variable+" of the canonicalised operation has no entry in the variable mapping", withCaseFacts(map[string]string{"sequence": seq, "what": "unmapped-variable"}), d(nil))
				return
			}
			if other, dup := clients[client]; dup {
				res.Violate("normalize.mapping", "variables $"+other+" and $"+vd.Variable+" of the canonicalised operation both map to the client's $"+client, withCaseFacts(map[string]string{"sequence": seq, "what": "not-injective"}), d(nil))
				return
			}
			clients[client] = vd.Variable
			// (a client variable named like the names variable extraction hands out — a, b, …, aa, … — can
			// have been removed as unused and its name given to an extracted variable: not compared)
			if caseOrig != nil && !extractionName(client) {
				if t, ok := caseOrig.varTypes[client]; ok && strings.ReplaceAll(t, "!", "") != strings.ReplaceAll(vd.Type.String(), "!", "") {
					res.Violate("normalize.mapping", "variable $"+vd.Variable+": "+vd.Type.String()+" maps to the client's $"+client+": "+t, withCaseFacts(map[string]string{"sequence": seq, "what": "type"}), d(nil))
					return
				}
			}
			res.Count("mapping_entries_checked", 1)
		}
	}
	// (2) every surviving application of a schema-defined directive resolves, with the rewritten
	// variables, to the arguments one of the original's applications of that directive resolves to
	if caseOrig != nil && caseOrig.dirs != nil {
		got, nVarArgs, err := directiveApplications(ss, op, vm)
		if nVarArgs > 0 {
			res.Count("variable_on_surviving_directive", int64(nVarArgs))
			if caseFacts["family"] == "dirvar" {
				res.Count("dirvar_variable_on_surviving_directive", int64(nVarArgs))
			}
		}
		if err != nil {
			res.Violate("normalize.directive-meaning", "directive arguments of the normalised operation are not coercible with the rewritten variables: "+err.Error(), withCaseFacts(map[string]string{"sequence": seq, "what": "uncoercible"}), d(nil))
			return
		}
		keys := make([]string, 0, len(got))
		for k := range got {
			keys = append(keys, k)
		}
		sort.Strings(keys)
		for _, k := range keys {
			res.Count("directive_applications_compared", 1)
			if !caseOrig.dirs[k] {
				orig := make([]string, 0, len(caseOrig.dirs))
				for o := range caseOrig.dirs {
					orig = append(orig, o)
				}
				sort.Strings(orig)
				res.Violate("normalize.directive-meaning", "the normalised operation applies "+k+", which the original operation with the original variables does not", withCaseFacts(map[string]string{"sequence": seq, "what": "arguments"}), d(map[string]any{"observed_application": k, "original_applications": orig}))
				return
			}
		}
	}
}

// extractionName: one lower-case letter repeated (a, b, …, z, aa, bb, …).
func extractionName(n string) bool {
	if n == "" || n[0] < 'a' || n[0] > 'z' {
		return false
	}
	return strings.Count(n, n[:1]) == len(n)
}

// ---- renaming with names the canonicalisation itself hands out

var renamePool = []string{"a", "b", "c", "d", "e", "f", "g", "aa", "bb", "z", "zz", "id", "w", "width", "input", "_a", "A", "a1", "v1", "v2", "first"}

// renameCanonical renames every variable of the (single) operation to a distinct name drawn from
// a pool that contains the canonical names.
func renameCanonical(r *rand.Rand, doc *gen.Doc, vals map[string]*gen.Val) (*gen.Doc, map[string]*gen.Val, map[string]string) {
	d := doc.Clone()
	op := d.Ops[0]
	perm := r.Perm(len(renamePool))
	m := map[string]string{}
	tmp := map[string]string{}
	for i, v := range op.Vars {
		n := ""
		if i < len(perm) {
			n = renamePool[perm[i]]
		} else {
			n = fmt.Sprintf("q%d", i)
		}
		m[v.Name] = n
		// two steps (old -> unique temporary -> new): a new name may equal another variable's old name
		tmp[v.Name] = fmt.Sprintf("\x00%d", i)
	}
	back := map[string]string{}
	for old, t := range tmp {
		back[t] = m[old]
	}
	for _, step := range []map[string]string{tmp, back} {
		for _, v := range op.Vars {
			if n, ok := step[v.Name]; ok {
				v.Name = n
			}
		}
		renameInDirs(op.Dirs, step)
		renameInSels(op.Sel, step)
		for _, f := range d.Frags {
			renameInDirs(f.Dirs, step)
			renameInSels(f.Sel, step)
		}
	}
	nv := map[string]*gen.Val{}
	for k, v := range vals {
		if n, ok := m[k]; ok {
			nv[n] = v
		} else {
			nv[k] = v
		}
	}
	return d, nv, m
}

func renameInVal(v *gen.Val, m map[string]string) {
	if v == nil {
		return
	}
	switch v.Kind {
	case gen.VVar:
		if n, ok := m[v.Str]; ok {
			v.Str = n
		}
	case gen.VList:
		for _, it := range v.Items {
			renameInVal(it, m)
		}
	case gen.VObject:
		for _, f := range v.Fields {
			renameInVal(f.Val, m)
		}
	}
}

func renameInDirs(ds []*gen.Dir, m map[string]string) {
	for _, d := range ds {
		for _, a := range d.Args {
			renameInVal(a.Val, m)
		}
	}
}

func renameInSels(sels []*gen.Sel, m map[string]string) {
	for _, x := range sels {
		switch {
		case x.Field != nil:
			for _, a := range x.Field.Args {
				renameInVal(a.Val, m)
			}
			renameInDirs(x.Field.Dirs, m)
			renameInSels(x.Field.Sel, m)
		case x.Inline != nil:
			renameInDirs(x.Inline.Dirs, m)
			renameInSels(x.Inline.Sel, m)
		case x.Spread != nil:
			renameInDirs(x.Spread.Dirs, m)
		}
	}
}

// ---- the dirvar generator

type dirSite struct {
	dirs *[]*gen.Dir
	loc  string
}

func collectDirSites(doc *gen.Doc) []dirSite {
	var out []dirSite
	var walk func(sels []*gen.Sel)
	walk = func(sels []*gen.Sel) {
		for _, x := range sels {
			switch {
			case x.Field != nil:
				out = append(out, dirSite{&x.Field.Dirs, "FIELD"})
				walk(x.Field.Sel)
			case x.Inline != nil:
				out = append(out, dirSite{&x.Inline.Dirs, "INLINE_FRAGMENT"})
				walk(x.Inline.Sel)
			case x.Spread != nil:
				out = append(out, dirSite{&x.Spread.Dirs, "FRAGMENT_SPREAD"})
			}
		}
	}
	op := doc.Ops[0]
	out = append(out, dirSite{&op.Dirs, "QUERY"})
	walk(op.Sel)
	for _, f := range doc.Frags {
		walk(f.Sel)
	}
	return out
}

type dirVarGen struct {
	r                *rand.Rand
	schema           *gen.Schema
	doc              *gen.Doc
	vals             map[string]*gen.Val
	n                int
	budget           int // directive arguments still to be touched (keeps the documents readable)
	direct           int // variables placed directly as a directive argument
	nested           int // variables placed inside a list literal of a directive argument
	conditionalPairs int // nodes given a second (or two) conditional directives
}

// variable returns a variable usable at a position of type t holding val (or, when re-used, its own value).
func (g *dirVarGen) variable(t *gen.TypeRef, val *gen.Val) *gen.Val {
	op := g.doc.Ops[0]
	if g.r.IntN(3) == 0 {
		want, wantNN := t.String(), t.Required().String()
		for _, v := range op.Vars {
			if s := v.Type.String(); s == want || s == wantNN {
				return gen.VarV(v.Name)
			}
		}
	}
	g.n++
	vt := t
	if !t.NonNull && val.Kind != gen.VNull && g.r.IntN(3) == 0 {
		vt = t.Required()
	}
	v := &gen.VarDef{Name: fmt.Sprintf("dv%d", g.n), Type: vt}
	at := g.r.IntN(len(op.Vars) + 1)
	op.Vars = append(op.Vars, nil)
	copy(op.Vars[at+1:], op.Vars[at:])
	op.Vars[at] = v
	g.vals[v.Name] = val
	return gen.VarV(v.Name)
}

func (g *dirVarGen) directive(name string) *gen.DirectiveDef {
	for _, d := range g.schema.Directives {
		if d.Name == name {
			return d
		}
	}
	return nil
}

func hasDir(ds []*gen.Dir, name string) bool {
	for _, d := range ds {
		if d.Name == name {
			return true
		}
	}
	return false
}

const ownDirective = "fmt"
const ownInput = "FmtOpts"

func (g *dirVarGen) ownApplication(allowNested bool) *gen.Dir {
	d := &gen.Dir{Name: ownDirective}
	w := gen.IntV(int64(1 + g.r.IntN(3)))
	if g.r.IntN(4) == 0 {
		d.Args = append(d.Args, &gen.ArgVal{Name: "width", Val: w})
	} else {
		d.Args = append(d.Args, &gen.ArgVal{Name: "width", Val: g.variable(gen.Named("Int", true), w)})
		g.direct++
	}
	if g.r.IntN(3) == 0 {
		d.Args = append(d.Args, &gen.ArgVal{Name: "pad", Val: g.variable(gen.Named("Int", false), gen.IntV(int64(g.r.IntN(3))))})
		g.direct++
	}
	if g.r.IntN(3) == 0 {
		tag := gen.StrV([]string{"x", "y", "a"}[g.r.IntN(3)])
		switch {
		case allowNested && g.r.IntN(2) == 0:
			d.Args = append(d.Args, &gen.ArgVal{Name: "tags", Val: gen.ListV(g.variable(gen.Named("String", true), tag))})
			g.nested++
		case g.r.IntN(2) == 0:
			d.Args = append(d.Args, &gen.ArgVal{Name: "tags", Val: g.variable(gen.ListOf(gen.Named("String", true), false), gen.ListV(tag))})
			g.direct++
		default:
			d.Args = append(d.Args, &gen.ArgVal{Name: "tags", Val: gen.ListV(tag)})
		}
	}
	if g.r.IntN(3) == 0 {
		w := gen.IntV(int64(g.r.IntN(4)))
		optsT := gen.Named(ownInput, false)
		switch k := g.r.IntN(5); {
		case allowNested && k == 0:
			d.Args = append(d.Args, &gen.ArgVal{Name: "opts", Val: gen.ObjV(gen.ObjField{Name: "w", Val: g.variable(gen.Named("Int", false), w)})})
			g.nested++
		case allowNested && k == 1:
			d.Args = append(d.Args, &gen.ArgVal{Name: "opts", Val: gen.ObjV(gen.ObjField{Name: "t", Val: gen.ListV(gen.StrV("lit"), g.variable(gen.Named("String", true), gen.StrV("x")))})})
			g.nested++
		case allowNested && k == 2:
			d.Args = append(d.Args, &gen.ArgVal{Name: "opts", Val: gen.ObjV(gen.ObjField{Name: "inner", Val: gen.ObjV(gen.ObjField{Name: "w", Val: g.variable(gen.Named("Int", false), w)})}, gen.ObjField{Name: "w", Val: gen.IntV(7)})})
			g.nested++
		case k == 3:
			d.Args = append(d.Args, &gen.ArgVal{Name: "opts", Val: g.variable(optsT, gen.ObjV(gen.ObjField{Name: "w", Val: w}))})
			g.direct++
		default:
			d.Args = append(d.Args, &gen.ArgVal{Name: "opts", Val: gen.ObjV(gen.ObjField{Name: "w", Val: w})})
		}
	}
	if g.r.IntN(3) == 0 {
		g.r.Shuffle(len(d.Args), func(i, j int) { d.Args[i], d.Args[j] = d.Args[j], d.Args[i] })
	}
	return d
}

func (g *dirVarGen) inject(allowNested bool) {
	sites := collectDirSites(g.doc)
	g.r.Shuffle(len(sites), func(i, j int) { sites[i], sites[j] = sites[j], sites[i] })
	own := g.directive(ownDirective)
	allowed := map[string]bool{}
	for _, l := range own.Locations {
		allowed[l] = true
	}
	for _, s := range sites {
		// constants on the generated applications of the schema's own directives become variables
		for _, d := range *s.dirs {
			def := g.directive(d.Name)
			if evaluatedAway[d.Name] || def == nil {
				continue
			}
			for _, a := range d.Args {
				var ad *gen.Arg
				for _, x := range def.Args {
					if x.Name == a.Name {
						ad = x
					}
				}
				if ad == nil || a.Val.HasVar() || g.r.IntN(2) != 0 || g.budget <= 0 {
					continue
				}
				g.budget--
				if ad.Type.NonNull && a.Val.Kind == gen.VNull {
					continue
				}
				a.Val = g.variable(ad.Type, a.Val)
				g.direct++
			}
		}
		if allowed[s.loc] && !hasDir(*s.dirs, ownDirective) && g.r.IntN(3) == 0 && g.budget > 0 {
			g.budget--
			*s.dirs = append(*s.dirs, g.ownApplication(allowNested))
		}
	}
	// several conditional directives next to the schema's own ones on one node (each combination of
	// evaluated-away and node-removing outcomes)
	twice := 0
	for _, s := range sites {
		if s.loc == "QUERY" || twice >= 3 {
			continue
		}
		hasSkip, hasInclude := hasDir(*s.dirs, "skip"), hasDir(*s.dirs, "include")
		var add []string
		switch {
		case hasSkip && hasInclude:
		case hasSkip && g.r.IntN(2) == 0:
			add = []string{"include"}
		case hasInclude && g.r.IntN(2) == 0:
			add = []string{"skip"}
		case !hasSkip && !hasInclude && len(*s.dirs) > 0 && g.r.IntN(6) == 0:
			add = []string{"include", "skip"}
			if g.r.IntN(2) == 0 {
				add[0], add[1] = add[1], add[0]
			}
		}
		if len(add) == 0 {
			continue
		}
		twice++
		g.conditionalPairs++
		for _, name := range add {
			var val *gen.Val
			if g.r.IntN(2) == 0 {
				val = gen.BoolV(g.r.IntN(2) == 0)
			} else {
				val = g.variable(gen.Named("Boolean", true), gen.BoolV(g.r.IntN(2) == 0))
			}
			d := &gen.Dir{Name: name, Args: []*gen.ArgVal{{Name: "if", Val: val}}}
			at := g.r.IntN(len(*s.dirs) + 1)
			*s.dirs = append(*s.dirs, nil)
			copy((*s.dirs)[at+1:], (*s.dirs)[at:])
			(*s.dirs)[at] = d
		}
	}
	if g.direct == 0 {
		// at least one variable directly on a directive of a field of the operation
		for _, s := range sites {
			if s.loc == "FIELD" && !hasDir(*s.dirs, ownDirective) {
				d := &gen.Dir{Name: ownDirective, Args: []*gen.ArgVal{{Name: "width", Val: g.variable(gen.Named("Int", true), gen.IntV(2))}}}
				*s.dirs = append(*s.dirs, d)
				g.direct++
				break
			}
		}
	}
}

// varDirectiveRightAfterSkipInclude: some directive list has @skip/@include, directly followed by
// a directive with a variable in its arguments, followed by at least one more directive (the
// shape in which the walker passes over the middle directive once the first was removed).
func varDirectiveRightAfterSkipInclude(doc *gen.Doc) bool {
	for _, s := range collectDirSites(doc) {
		ds := *s.dirs
		for i := 0; i+2 < len(ds); i++ {
			if ds[i].Name != "skip" && ds[i].Name != "include" {
				continue
			}
			for _, a := range ds[i+1].Args {
				if a.Val.HasVar() {
					return true
				}
			}
		}
	}
	return false
}

func (p c03) runDirVar(c *fw.Ctx, idx int) fw.Result {
	res := fw.Result{}
	r := c.Rng(idx, "c03-dirvar")
	sp := gen.DefaultProfile(r)
	sp.ExecDirectives = idx%2 == 0
	schema := gen.GenSchema(r, sp)
	schema.Add(&gen.TypeDef{Name: ownInput, Kind: gen.Input, InputFields: []*gen.Arg{
		{Name: "w", Type: gen.Named("Int", false)},
		{Name: "t", Type: gen.ListOf(gen.Named("String", true), false)},
		{Name: "inner", Type: gen.Named(ownInput, false)},
	}})
	schema.Directives = append(schema.Directives, &gen.DirectiveDef{
		Name: ownDirective,
		Args: []*gen.Arg{
			{Name: "width", Type: gen.Named("Int", true)},
			{Name: "pad", Type: gen.Named("Int", false)},
			{Name: "tags", Type: gen.ListOf(gen.Named("String", true), false)},
			{Name: "opts", Type: gen.Named(ownInput, false)},
		},
		Locations: []string{"FIELD", "FRAGMENT_SPREAD", "INLINE_FRAGMENT", "QUERY"},
	})
	sdl := schema.SDL()
	ss, err := rig.LoadSchemas(sdl)
	if err != nil {
		res.Broken("schema self-check: "+err.Error(), map[string]any{"sdl": sdl})
		return res
	}
	op := gen.DefaultOpProfile(r)
	op.NoSingletonVars = idx%2 == 0
	op.MultiFrag = idx%3 != 0
	op.CustomDirs = true
	if idx%4 == 1 {
		op.VarBias = 7
	}
	doc, vals := gen.GenOperation(r, schema, op)
	if vals == nil {
		vals = map[string]*gen.Val{}
	}
	g := &dirVarGen{r: r, schema: schema, doc: doc, vals: vals, budget: 3 + r.IntN(6)}
	// a variable inside a list literal of a directive argument is a shape of its own (fact below)
	allowNested := idx%2 == 1
	g.inject(allowNested)
	if doc.Ops[0].Name == "" {
		doc.Ops[0].Name = "Q" // variables were added: the shorthand form is no longer possible
	}
	caseSpreadDirFact = fmt.Sprint(gen.SpreadDirectiveNotForInline(schema, doc))
	caseFacts = map[string]string{"family": "dirvar", "variable_in_directive_literal": fmt.Sprint(g.nested > 0),
		"variable_on_directive_right_after_skip_include": fmt.Sprint(varDirectiveRightAfterSkipInclude(doc))}
	defer func() { caseFacts = nil }()
	out := p.runDoc(c, idx, r, schema, ss, sdl, doc, vals, false, map[string]any{"family": "dirvar", "variables_directly_on_directives": g.direct, "variables_in_directive_literals": g.nested})
	for i := range out.Violations {
		if out.Violations[i].Kind == "harness-broken" {
			continue
		}
		if out.Violations[i].Match == nil {
			out.Violations[i].Match = map[string]string{}
		}
		withCaseFacts(out.Violations[i].Match)
	}
	out.Count("dirvar_cases", 1)
	out.Count("dirvar_variables_directly_on_directives", int64(g.direct))
	if g.nested > 0 {
		out.Count("dirvar_cases_with_variable_in_directive_literal", 1)
	}
	out.Count("dirvar_nodes_with_skip_and_include", int64(g.conditionalPairs))
	return out
}
