package c02

import (
	"bytes"
	"context"
	"fmt"
	"io"
	"net/http"
	"runtime/debug"
	"sync"

	"github.com/jensneuse/abstractlogger"

	"github.com/wundergraph/graphql-go-tools/execution/engine"
	"github.com/wundergraph/graphql-go-tools/execution/graphql"
	"github.com/wundergraph/graphql-go-tools/v2/pkg/ast"
	"github.com/wundergraph/graphql-go-tools/v2/pkg/engine/datasource/graphql_datasource"
	"github.com/wundergraph/graphql-go-tools/v2/pkg/engine/datasource/httpclient"
	"github.com/wundergraph/graphql-go-tools/v2/pkg/engine/plan"
	"github.com/wundergraph/graphql-go-tools/v2/pkg/engine/postprocess"
	"github.com/wundergraph/graphql-go-tools/v2/pkg/engine/resolve"
	"github.com/wundergraph/graphql-go-tools/v2/pkg/operationreport"

	"verifharness/internal/fw"
)

type renderResult struct {
	out      []byte
	err      error
	panicked bool
	panicMsg string
	panicSig string
	stack    string
}

func guarded(fn func() ([]byte, error)) (rr renderResult) {
	defer func() {
		if r := recover(); r != nil {
			st := string(debug.Stack())
			rr.panicked = true
			rr.panicMsg = fmt.Sprint(r)
			rr.panicSig = fw.PanicSignature(rr.panicMsg, st)
			if len(st) > 3000 {
				st = st[:3000] + "…"
			}
			rr.stack = st
		}
	}()
	rr.out, rr.err = fn()
	return rr
}

// renderResolvable drives resolve.Resolvable directly: Init with the merged subgraph data, Resolve.
func renderResolvable(root *resolve.Object, payload []byte, o *renderOpts) renderResult {
	return guarded(func() ([]byte, error) {
		ctx := resolve.NewContext(context.Background())
		o.applyCtx(ctx)
		r := resolve.NewResolvable(nil, o.resolvable())
		if err := r.Init(ctx, payload, ast.OperationTypeQuery); err != nil {
			return nil, fmt.Errorf("init: %w", err)
		}
		out := &bytes.Buffer{}
		err := r.Resolve(context.Background(), root, nil, out)
		return out.Bytes(), err
	})
}

// ---- Resolver.ResolveGraphQLResponse with a static data source

type staticSource struct{ data []byte }

func (s *staticSource) Load(ctx context.Context, headers http.Header, input []byte) ([]byte, error) {
	return s.data, nil
}

func (s *staticSource) LoadWithFiles(ctx context.Context, headers http.Header, input []byte, files []*httpclient.FileUpload) ([]byte, error) {
	return s.data, nil
}

var (
	resolverOnce sync.Once
	theResolver  *resolve.Resolver
)

func sharedResolver() *resolve.Resolver {
	resolverOnce.Do(func() {
		theResolver = resolve.New(context.Background(), resolve.ResolverOptions{MaxConcurrency: 64, PropagateSubgraphErrors: true, PropagateSubgraphStatusCodes: true})
	})
	return theResolver
}

// subgraphBody wraps the payload into the subgraph's response; with options the subgraph may also
// send extensions and errors.
func subgraphBody(payload []byte, o *renderOpts) []byte {
	body := append([]byte(`{"data":`), payload...)
	if o != nil && o.BodyErrors != "" {
		body = append(append(body, `,"errors":`...), o.BodyErrors...)
	}
	if o != nil && o.BodyExtensions != "" {
		body = append(append(body, `,"extensions":`...), o.BodyExtensions...)
	}
	return append(body, '}')
}

// newOptionResolver builds a Resolver for one resolver-level option set; cancel stops its goroutines.
func newOptionResolver(ro *resolverOpts) (*resolve.Resolver, context.CancelFunc) {
	ctx, cancel := context.WithCancel(context.Background())
	return resolve.New(ctx, ro.options(64)), cancel
}

func renderResolver(rs *resolve.Resolver, root *resolve.Object, payload []byte, o *renderOpts) renderResult {
	return guarded(func() ([]byte, error) {
		body := subgraphBody(payload, o)
		resp := &resolve.GraphQLResponse{
			Data: root,
			Info: &resolve.GraphQLResponseInfo{OperationType: ast.OperationTypeQuery},
			Fetches: resolve.Single(&resolve.SingleFetch{
				// a JSON fetch input as the planner would render it (tracing redacts / annotates the input)
				InputTemplate: resolve.InputTemplate{Segments: []resolve.TemplateSegment{{SegmentType: resolve.StaticSegmentType, Data: []byte(`{"method":"POST","url":"http://ds/","body":{"query":"{q}"}}`)}}},
				FetchConfiguration: resolve.FetchConfiguration{
					DataSource:     &staticSource{data: body},
					PostProcessing: resolve.PostProcessingConfiguration{SelectResponseDataPath: []string{"data"}, SelectResponseErrorsPath: []string{"errors"}},
				},
				Info: &resolve.FetchInfo{DataSourceID: dsName, DataSourceName: dsName},
			}),
		}
		ctx := resolve.NewContext(context.Background())
		o.applyCtx(ctx)
		out := &bytes.Buffer{}
		_, err := rs.ResolveGraphQLResponse(ctx, resp, nil, out)
		return out.Bytes(), err
	})
}

// ---- ExecutionEngine with the real planner and one GraphQL data source answering with the payload

type payloadTransport struct {
	mu      sync.Mutex
	payload []byte
	body    []byte
	calls   int
	lastReq string
}

func (t *payloadTransport) RoundTrip(req *http.Request) (*http.Response, error) {
	t.mu.Lock()
	defer t.mu.Unlock()
	t.calls++
	if req.Body != nil {
		b, _ := io.ReadAll(req.Body)
		t.lastReq = string(b)
	}
	body := t.body
	return &http.Response{StatusCode: 200, Body: io.NopCloser(bytes.NewReader(body)), Header: http.Header{"Content-Type": []string{"application/json"}}, Request: req}, nil
}

type engineRig struct {
	eng    *engine.ExecutionEngine
	schema *graphql.Schema
	tr     *payloadTransport
	cancel context.CancelFunc
}

func newEngineRig(s *schema, ro *resolverOpts) (*engineRig, error) {
	sdl := s.sdl()
	ctx, cancel := context.WithCancel(context.Background())
	tr := &payloadTransport{}
	client := &http.Client{Transport: tr}
	factory, err := graphql_datasource.NewFactory(ctx, client, graphql_datasource.NewGraphQLSubscriptionClient(ctx, graphql_datasource.WithUpgradeClient(client), graphql_datasource.WithStreamingClient(client)))
	if err != nil {
		cancel()
		return nil, err
	}
	sc, err := graphql_datasource.NewSchemaConfiguration(sdl, nil)
	if err != nil {
		cancel()
		return nil, err
	}
	cfg, err := graphql_datasource.NewConfiguration(graphql_datasource.ConfigurationInput{
		Fetch:               &graphql_datasource.FetchConfiguration{URL: "http://" + dsName + "/", Method: "POST"},
		SchemaConfiguration: sc,
	})
	if err != nil {
		cancel()
		return nil, err
	}
	md := &plan.DataSourceMetadata{}
	for _, n := range s.order {
		t := s.types[n]
		if t.kind != tObject && t.kind != tInterface {
			continue
		}
		tf := plan.TypeField{TypeName: t.name}
		for _, f := range t.fields {
			tf.FieldNames = append(tf.FieldNames, f.name)
		}
		if t.name == "Query" {
			md.RootNodes = append(md.RootNodes, tf)
		} else {
			md.ChildNodes = append(md.ChildNodes, tf)
		}
	}
	ds, err := plan.NewDataSourceConfigurationWithName[graphql_datasource.Configuration](dsName, dsName, factory, md, cfg)
	if err != nil {
		cancel()
		return nil, err
	}
	gs, err := graphql.NewSchemaFromString(sdl)
	if err != nil {
		cancel()
		return nil, fmt.Errorf("schema: %w", err)
	}
	conf := engine.NewConfiguration(gs)
	conf.SetDataSources([]plan.DataSource{ds})
	conf.VerifPlannerConfiguration().CustomResolveMap = map[string]resolve.CustomResolve{"CR": theCustomResolve}
	eng, err := engine.NewExecutionEngine(ctx, abstractlogger.Noop{}, conf, ro.options(16))
	if err != nil {
		cancel()
		return nil, err
	}
	return &engineRig{eng: eng, schema: gs, tr: tr, cancel: cancel}, nil
}

// realTree plans the operation with the repository's normaliser, validator, planner and
// post-processor (the engine's own sequence) and returns plan.Response.Data.
func (e *engineRig) realTree(query string) (*resolve.Object, error) {
	req := &graphql.Request{Query: query}
	if res, err := req.Normalize(e.schema); err != nil {
		return nil, err
	} else if !res.Successful {
		return nil, fmt.Errorf("normalize: %v", res.Errors)
	}
	if res, err := req.ValidateForSchema(e.schema); err != nil {
		return nil, err
	} else if !res.Valid {
		return nil, fmt.Errorf("validate: %v", res.Errors)
	}
	planner, err := plan.NewPlanner(*e.eng.VerifPlannerConfiguration())
	if err != nil {
		return nil, err
	}
	var report operationreport.Report
	p := planner.Plan(req.Document(), e.schema.Document(), "", &report)
	if report.HasErrors() {
		return nil, fmt.Errorf("plan: %s", report.Error())
	}
	postprocess.NewProcessor().Process(p)
	sp, ok := p.(*plan.SynchronousResponsePlan)
	if !ok {
		return nil, fmt.Errorf("plan is %T", p)
	}
	return sp.Response.Data, nil
}

func (e *engineRig) execute(query string, payload []byte, o *renderOpts) renderResult {
	return guarded(func() ([]byte, error) {
		e.tr.mu.Lock()
		e.tr.payload = payload
		e.tr.body = subgraphBody(payload, o)
		e.tr.mu.Unlock()
		w := graphql.NewEngineResultWriter()
		var opts []engine.ExecutionOptions
		if o != nil {
			opts = append(opts, engine.VerifWithResolveContext(o.applyCtx))
		}
		err := e.eng.Execute(context.Background(), &graphql.Request{Query: query}, &w, opts...)
		return append([]byte(nil), w.Bytes()...), err
	})
}
