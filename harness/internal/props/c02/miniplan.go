package c02

import (
	"fmt"
	"sort"
	"strings"

	"github.com/wundergraph/graphql-go-tools/v2/pkg/engine/plan"
	"github.com/wundergraph/graphql-go-tools/v2/pkg/engine/postprocess"
	"github.com/wundergraph/graphql-go-tools/v2/pkg/engine/resolve"
)

// miniPlanner builds the response plan tree for a normalised operation the way
// plan.Visitor.EnterField / resolveFieldValue / resolveOnTypeNames do (single data source, no
// federation, no @skip/@include/@defer), then hands it to the repository's own post-processor
// (merge_fields) exactly as the engine does.

type identityResolve struct{}

func (identityResolve) Resolve(_ *resolve.Context, value []byte) ([]byte, error) { return value, nil }

var theCustomResolve = identityResolve{}

const dsName = "ds"

type miniPlanner struct {
	s *schema
}

func (m *miniPlanner) plan(op *selset) *resolve.Object {
	root := &resolve.Object{Fields: []*resolve.Field{}}
	m.fillFields(&root.Fields, op, nil)
	pl := &plan.SynchronousResponsePlan{Response: &resolve.GraphQLResponse{Data: root}}
	postprocess.NewProcessor().Process(pl)
	return pl.Response.Data
}

// fillFields appends the fields of one selection set. grand is the type of the selection set that
// contains the inline fragment (nil when the fields are not inside a fragment).
func (m *miniPlanner) fillFields(dst *[]*resolve.Field, ss *selset, onTypeNames [][]byte) {
	if ss.parent.abstract() && onTypeNames == nil {
		ss = m.rewriteAbstract(ss)
	}
	for _, it := range ss.items {
		if it.frag {
			m.fillFields(dst, it.set, m.resolveOnTypeNames(it.on, ss.parent))
			continue
		}
		f := &resolve.Field{Name: []byte(it.responseKey()), OnTypeNames: onTypeNames}
		enclosing := ss.parent
		if it.typename {
			f.Info = m.info("__typename", "String", enclosing, onTypeNames)
			if enclosing.name == "Query" {
				f.Value = &resolve.StaticString{Path: []string{it.responseKey()}, Value: "Query"}
			} else {
				f.Value = &resolve.String{Nullable: false, Path: []string{it.responseKey()}, IsTypeName: true}
			}
			*dst = append(*dst, f)
			continue
		}
		f.Info = m.info(it.field.name, it.field.typ.named, enclosing, onTypeNames)
		f.Value = m.resolveFieldValue(it, it.field.typ, 0, true, []string{it.responseKey()})
		*dst = append(*dst, f)
	}
}

// rewriteAbstract mirrors plan.fieldSelectionRewriter for a single data source without entities:
// a selection set on an interface / union that contains a fragment on an interface which some
// possible type of the parent does not implement is rewritten into fragments on concrete types
// (shared fields first for an interface parent, then the object fragments, then the interface
// fragments distributed over their implementers), and normalisation merges the fragments per type.
func (m *miniPlanner) rewriteAbstract(ss *selset) *selset {
	poss := m.s.possibleTypes(ss.parent)
	need := false
	for _, it := range ss.items {
		if it.frag && m.s.types[it.on].kind == tInterface {
			for _, p := range poss {
				if !contains(m.s.types[it.on].members, p) {
					need = true
				}
			}
		}
	}
	if !need {
		return ss
	}
	out := &selset{parent: ss.parent}
	var frags []*sel
	add := func(typ string, fields []*sel) {
		var fr *sel
		for _, f := range frags {
			if f.on == typ {
				fr = f
			}
		}
		if fr == nil {
			fr = &sel{frag: true, on: typ, set: &selset{parent: m.s.types[typ]}}
			frags = append(frags, fr)
		}
		fr.set = mergeSelSets(fr.set, &selset{parent: fr.set.parent, items: fields})
	}
	var direct []*sel
	for _, it := range ss.items {
		if !it.frag {
			direct = append(direct, it)
		}
	}
	if ss.parent.kind == tInterface {
		if len(direct) > 0 {
			for _, p := range poss {
				add(p, direct)
			}
		}
	} else {
		// union: only __typename can be selected directly; it is preserved
		out.items = append(out.items, direct...)
	}
	for _, it := range ss.items {
		if it.frag && m.s.types[it.on].kind == tObject && contains(poss, it.on) {
			add(it.on, it.set.items)
		}
	}
	for _, it := range ss.items {
		if it.frag && m.s.types[it.on].kind == tInterface {
			for _, t := range m.s.possibleTypes(m.s.types[it.on]) {
				if contains(poss, t) {
					add(t, it.set.items)
				}
			}
		}
	}
	out.items = append(out.items, frags...)
	return out
}

// mergeSelSets is normalisation's field / fragment merging: equal response keys merge (their
// sub-selections recursively), fragments with the same type condition merge; first occurrence keeps its place.
func mergeSelSets(a, b *selset) *selset {
	out := &selset{parent: a.parent}
	push := func(it *sel) {
		for i, ex := range out.items {
			if it.frag != ex.frag {
				continue
			}
			if it.frag {
				if it.on == ex.on {
					c := *ex
					c.set = mergeSelSets(ex.set, it.set)
					out.items[i] = &c
					return
				}
				continue
			}
			if ex.responseKey() == it.responseKey() {
				if ex.sub != nil && it.sub != nil {
					c := *ex
					c.sub = mergeSelSets(ex.sub, it.sub)
					out.items[i] = &c
				}
				return
			}
		}
		out.items = append(out.items, it)
	}
	for _, it := range a.items {
		push(it)
	}
	for _, it := range b.items {
		push(it)
	}
	return out
}

func (m *miniPlanner) info(fieldName, named string, enclosing *typeDef, onTypeNames [][]byte) *resolve.FieldInfo {
	parents := []string{enclosing.name}
	for _, n := range onTypeNames {
		if string(n) != enclosing.name {
			parents = append(parents, string(n))
		}
	}
	if enclosing.kind == tInterface {
		parents = append(parents, m.s.possibleTypes(enclosing)...)
	}
	sort.Strings(parents)
	out := parents[:0]
	for i, p := range parents {
		if i == 0 || p != parents[i-1] {
			out = append(out, p)
		}
	}
	return &resolve.FieldInfo{
		Name: fieldName, NamedType: named, ParentTypeNames: out, ExactParentTypeName: enclosing.name,
		Source: resolve.TypeFieldSource{IDs: []string{dsName}, Names: []string{dsName}},
	}
}

// resolveOnTypeNames mirrors plan.Visitor.resolveOnTypeNames for a field directly inside
// `... on cond { }` whose fragment sits in a selection set of type grand.
func (m *miniPlanner) resolveOnTypeNames(cond string, grand *typeDef) [][]byte {
	ct := m.s.types[cond]
	if !ct.abstract() {
		return [][]byte{[]byte(cond)}
	}
	names := m.s.possibleTypes(ct)
	var out [][]byte
	for _, n := range names {
		keep := true
		switch grand.kind {
		case tUnion, tInterface:
			keep = contains(grand.members, n)
		case tObject:
			keep = n == grand.name
		}
		if keep {
			out = append(out, []byte(n))
		}
	}
	return out
}

func (m *miniPlanner) resolveFieldValue(it *sel, t typeRef, level int, nullable bool, path []string) resolve.Node {
	if level < len(t.lists) {
		// NonNull wrapper → nullable=false for the list; the item starts nullable, with a nil path
		item := m.resolveFieldValue(it, t, level+1, true, nil)
		// the item's own nullability is decided when its (possible) NonNull wrapper is unwrapped
		return &resolve.Array{Nullable: t.lists[level], Path: path, Item: item}
	}
	_ = nullable
	nul := t.nullable
	td := m.s.types[t.named]
	switch td.kind {
	case tString:
		return &resolve.String{Path: path, Nullable: nul}
	case tBoolean:
		return &resolve.Boolean{Path: path, Nullable: nul}
	case tInt:
		return &resolve.Integer{Path: path, Nullable: nul}
	case tFloat:
		return &resolve.Float{Path: path, Nullable: nul}
	case tBigInt:
		return &resolve.BigInt{Path: path, Nullable: nul}
	case tCustom:
		return &resolve.CustomNode{CustomResolve: theCustomResolve, Path: path, Nullable: nul}
	case tID, tJSON, tDateTime:
		return &resolve.Scalar{Path: path, Nullable: nul}
	case tEnum:
		inacc := make([]string, 0)
		inacc = append(inacc, td.inaccessible...)
		return &resolve.Enum{Path: path, Nullable: nul, TypeName: td.name, Values: append([]string(nil), td.enumValues...), InaccessibleValues: inacc}
	default:
		obj := &resolve.Object{Nullable: nul, Path: path, Fields: []*resolve.Field{}, TypeName: td.name, PossibleTypes: map[string]struct{}{}, SourceName: dsName}
		for _, p := range m.s.possibleTypes(td) {
			obj.PossibleTypes[p] = struct{}{}
		}
		m.fillFields(&obj.Fields, it.sub, nil)
		return obj
	}
}

// ---- canonical dump of a plan tree (shape signature, tree comparison)

func dumpNode(n resolve.Node, sb *strings.Builder, withNames bool) {
	nn := func(b bool) string {
		if b {
			return "?"
		}
		return "!"
	}
	p := func(path []string) string {
		if !withNames {
			if path == nil {
				return "-"
			}
			return "p"
		}
		if path == nil {
			return "-"
		}
		return strings.Join(path, ".")
	}
	switch t := n.(type) {
	case *resolve.Object:
		sb.WriteString("O" + nn(t.Nullable) + "(" + p(t.Path))
		if withNames {
			sb.WriteString(" " + t.TypeName + "<" + strings.Join(sortedKeys(t.PossibleTypes), "|") + ">")
		} else {
			fmt.Fprintf(sb, " pt%d", len(t.PossibleTypes))
		}
		sb.WriteString("){")
		for i, f := range t.Fields {
			if i > 0 {
				sb.WriteString(",")
			}
			if withNames {
				sb.WriteString(string(f.Name))
			}
			if f.OnTypeNames != nil {
				if withNames {
					sb.WriteString("@" + joinBytes(f.OnTypeNames))
				} else {
					fmt.Fprintf(sb, "@%d", len(f.OnTypeNames))
				}
			}
			for _, pt := range f.ParentOnTypeNames {
				if withNames {
					fmt.Fprintf(sb, "^%d:%s", pt.Depth, joinBytes(pt.Names))
				} else {
					fmt.Fprintf(sb, "^%d", pt.Depth)
				}
			}
			sb.WriteString(":")
			dumpNode(f.Value, sb, withNames)
		}
		sb.WriteString("}")
	case *resolve.Array:
		sb.WriteString("L" + nn(t.Nullable) + "(" + p(t.Path) + ")[")
		dumpNode(t.Item, sb, withNames)
		sb.WriteString("]")
	case *resolve.String:
		if t.IsTypeName {
			sb.WriteString("T" + nn(t.Nullable) + "(" + p(t.Path) + ")")
		} else {
			sb.WriteString("S" + nn(t.Nullable) + "(" + p(t.Path) + ")")
		}
	case *resolve.StaticString:
		sb.WriteString("St(" + p(t.Path) + ")")
	case *resolve.Integer:
		sb.WriteString("I" + nn(t.Nullable) + "(" + p(t.Path) + ")")
	case *resolve.Float:
		sb.WriteString("F" + nn(t.Nullable) + "(" + p(t.Path) + ")")
	case *resolve.Boolean:
		sb.WriteString("B" + nn(t.Nullable) + "(" + p(t.Path) + ")")
	case *resolve.BigInt:
		sb.WriteString("Bi" + nn(t.Nullable) + "(" + p(t.Path) + ")")
	case *resolve.Scalar:
		sb.WriteString("Sc" + nn(t.Nullable) + "(" + p(t.Path) + ")")
	case *resolve.CustomNode:
		sb.WriteString("C" + nn(t.Nullable) + "(" + p(t.Path) + ")")
	case *resolve.Enum:
		sb.WriteString("E" + nn(t.Nullable) + "(" + p(t.Path))
		if withNames {
			sb.WriteString(" " + t.TypeName + "<" + strings.Join(t.Values, "|") + ">-<" + strings.Join(t.InaccessibleValues, "|") + ">")
		}
		sb.WriteString(")")
	default:
		fmt.Fprintf(sb, "?%T", n)
	}
}

func joinBytes(b [][]byte) string {
	s := make([]string, len(b))
	for i := range b {
		s[i] = string(b[i])
	}
	sort.Strings(s)
	return strings.Join(s, "|")
}

func dumpTree(n resolve.Node, withNames bool) string {
	var sb strings.Builder
	dumpNode(n, &sb, withNames)
	return sb.String()
}
