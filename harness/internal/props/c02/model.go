package c02

import (
	"fmt"
	"math/rand/v2"
	"sort"
	"strings"
)

// A small client-schema model, a generator for it, and a generator of *normalised* operations
// (the form the planner sees: no named fragments, inline fragments only inside abstract selection
// sets, no duplicate response keys inside one selection set).

type tkind int

const (
	tString tkind = iota
	tInt
	tFloat
	tBoolean
	tID       // planner: resolve.Scalar
	tJSON     // custom scalar "JSON"  -> resolve.Scalar
	tDateTime // custom scalar         -> resolve.Scalar
	tBigInt   // scalar "BigInt"       -> resolve.BigInt
	tCustom   // scalar "CR" with an entry in CustomResolveMap -> resolve.CustomNode
	tEnum
	tObject
	tInterface
	tUnion
)

type typeDef struct {
	name         string
	kind         tkind
	fields       []*fieldDef // object / interface
	implements   []string    // object
	members      []string    // union members / interface implementers, in schema order of the object definitions
	enumValues   []string
	inaccessible []string
}

func (t *typeDef) composite() bool { return t.kind >= tObject }
func (t *typeDef) abstract() bool  { return t.kind == tInterface || t.kind == tUnion }

func (t *typeDef) field(name string) *fieldDef {
	for _, f := range t.fields {
		if f.name == name {
			return f
		}
	}
	return nil
}

// typeRef: named type with list wrappers. lists[i] is the nullability of the i-th list level
// (outermost first); nullable is the nullability of the named type itself.
type typeRef struct {
	named    string
	lists    []bool
	nullable bool
}

func (r typeRef) String() string {
	s := r.named
	if !r.nullable {
		s += "!"
	}
	for i := len(r.lists) - 1; i >= 0; i-- {
		s = "[" + s + "]"
		if !r.lists[i] {
			s += "!"
		}
	}
	return s
}

type fieldDef struct {
	name string
	typ  typeRef
}

type schema struct {
	types map[string]*typeDef
	order []string // definition order
}

func (s *schema) add(t *typeDef) {
	s.types[t.name] = t
	s.order = append(s.order, t.name)
}

var builtinScalars = map[string]tkind{"String": tString, "Int": tInt, "Float": tFloat, "Boolean": tBoolean, "ID": tID, "JSON": tJSON, "DateTime": tDateTime, "BigInt": tBigInt, "CR": tCustom}

var objectNames = []string{"A", "Ab", "B", "Bb", "C"}

type schemaOpts struct {
	dense bool // denser list nesting / nullability mixes than typical schemas
}

func genSchema(r *rand.Rand, o schemaOpts) *schema {
	s := &schema{types: map[string]*typeDef{}}
	for n, k := range builtinScalars {
		s.types[n] = &typeDef{name: n, kind: k}
	}
	nEnum := 1 + r.IntN(2)
	var enums []string
	for i := 0; i < nEnum; i++ {
		e := &typeDef{name: fmt.Sprintf("E%d", i), kind: tEnum}
		nv := 2 + r.IntN(3)
		for j := 0; j < nv; j++ {
			e.enumValues = append(e.enumValues, fmt.Sprintf("V%d_%d", i, j))
		}
		if r.IntN(5) == 0 {
			e.inaccessible = []string{e.enumValues[len(e.enumValues)-1]}
		}
		s.add(e)
		enums = append(enums, e.name)
	}
	nObj := 2 + r.IntN(4)
	var objs []*typeDef
	for i := 0; i < nObj; i++ {
		// names share prefixes on purpose (A / Ab, B / Bb): a type-condition test that is not an exact comparison shows
		objs = append(objs, &typeDef{name: objectNames[i], kind: tObject})
	}
	nIface := r.IntN(3)
	var ifaces []*typeDef
	for i := 0; i < nIface; i++ {
		it := &typeDef{name: fmt.Sprintf("I%d", i), kind: tInterface}
		ifaces = append(ifaces, it)
	}
	nUnion := r.IntN(3)
	if nIface == 0 && nUnion == 0 && r.IntN(3) != 0 {
		nUnion = 1
	}
	var unions []*typeDef
	for i := 0; i < nUnion; i++ {
		u := &typeDef{name: fmt.Sprintf("U%d", i), kind: tUnion}
		unions = append(unions, u)
	}
	// membership
	for _, it := range ifaces {
		for _, ob := range objs {
			if r.IntN(3) != 0 {
				it.members = append(it.members, ob.name)
				ob.implements = append(ob.implements, it.name)
			}
		}
		if len(it.members) == 0 {
			it.members = append(it.members, objs[0].name)
			objs[0].implements = append(objs[0].implements, it.name)
		}
	}
	for _, u := range unions {
		for _, ob := range objs {
			if r.IntN(2) == 0 {
				u.members = append(u.members, ob.name)
			}
		}
		if len(u.members) == 0 {
			u.members = append(u.members, objs[r.IntN(len(objs))].name)
		}
	}
	leafNames := []string{"String", "Int", "Float", "Boolean", "ID", "JSON", "DateTime", "BigInt", "String", "Int", "Float", "Boolean"}
	if r.IntN(4) == 0 {
		leafNames = append(leafNames, "CR")
	}
	leafNames = append(leafNames, enums...)
	leafNames = append(leafNames, enums...)
	var compNames []string
	for _, ob := range objs {
		compNames = append(compNames, ob.name)
	}
	for _, it := range ifaces {
		compNames = append(compNames, it.name, it.name)
	}
	for _, u := range unions {
		compNames = append(compNames, u.name, u.name)
	}
	wrap := func(named string) typeRef {
		t := typeRef{named: named, nullable: r.IntN(2) == 0}
		depth := 0
		x := r.IntN(100)
		switch {
		case o.dense && x < 25, !o.dense && x < 55:
			depth = 0
		case o.dense && x < 55, !o.dense && x < 85:
			depth = 1
		case o.dense && x < 85, !o.dense && x < 96:
			depth = 2
		default:
			depth = 3
		}
		for i := 0; i < depth; i++ {
			t.lists = append(t.lists, r.IntN(2) == 0)
		}
		return t
	}
	leafField := func(name string) *fieldDef {
		return &fieldDef{name: name, typ: wrap(leafNames[r.IntN(len(leafNames))])}
	}
	anyField := func(name string) *fieldDef {
		if r.IntN(5) < 2 {
			return &fieldDef{name: name, typ: wrap(compNames[r.IntN(len(compNames))])}
		}
		return leafField(name)
	}
	for i, it := range ifaces {
		it.fields = append(it.fields, leafField(fmt.Sprintf("i%dl", i)))
		n := r.IntN(3)
		for j := 0; j < n; j++ {
			it.fields = append(it.fields, anyField(fmt.Sprintf("i%df%d", i, j)))
		}
	}
	for _, ob := range objs {
		ln := strings.ToLower(ob.name)
		ob.fields = append(ob.fields, leafField(ln+"l"))
		n := 1 + r.IntN(4)
		for j := 0; j < n; j++ {
			ob.fields = append(ob.fields, anyField(fmt.Sprintf("%sf%d", ln, j)))
		}
		for _, in := range ob.implements {
			for _, f := range s.lookupPending(ifaces, in).fields {
				ob.fields = append(ob.fields, &fieldDef{name: f.name, typ: f.typ})
			}
		}
	}
	q := &typeDef{name: "Query", kind: tObject}
	nq := 2 + r.IntN(4)
	for j := 0; j < nq; j++ {
		if r.IntN(4) == 0 {
			q.fields = append(q.fields, leafField(fmt.Sprintf("ql%d", j)))
		} else {
			q.fields = append(q.fields, &fieldDef{name: fmt.Sprintf("q%d", j), typ: wrap(compNames[r.IntN(len(compNames))])})
		}
	}
	s.add(q)
	for _, it := range ifaces {
		s.add(it)
	}
	for _, ob := range objs {
		s.add(ob)
	}
	for _, u := range unions {
		s.add(u)
	}
	return s
}

func (s *schema) lookupPending(ifaces []*typeDef, name string) *typeDef {
	for _, it := range ifaces {
		if it.name == name {
			return it
		}
	}
	return nil
}

// possibleTypes of a composite type, in definition order of the object types.
func (s *schema) possibleTypes(t *typeDef) []string {
	switch t.kind {
	case tObject:
		return []string{t.name}
	case tInterface, tUnion:
		set := map[string]bool{}
		for _, m := range t.members {
			set[m] = true
		}
		var out []string
		for _, n := range s.order {
			if set[n] {
				out = append(out, n)
			}
		}
		return out
	}
	return nil
}

func (s *schema) sdl() string {
	var sb strings.Builder
	usesInaccessible := false
	for _, n := range s.order {
		if len(s.types[n].inaccessible) > 0 {
			usesInaccessible = true
		}
	}
	if usesInaccessible {
		sb.WriteString("directive @inaccessible on FIELD_DEFINITION | OBJECT | INTERFACE | UNION | ENUM | ENUM_VALUE | SCALAR | INPUT_OBJECT | INPUT_FIELD_DEFINITION | ARGUMENT_DEFINITION\n")
	}
	sb.WriteString("scalar JSON\nscalar DateTime\nscalar BigInt\nscalar CR\nschema { query: Query }\n")
	for _, n := range s.order {
		t := s.types[n]
		switch t.kind {
		case tEnum:
			sb.WriteString("enum " + t.name + " {")
			for _, v := range t.enumValues {
				sb.WriteString(" " + v)
				for _, ia := range t.inaccessible {
					if ia == v {
						sb.WriteString(" @inaccessible")
					}
				}
			}
			sb.WriteString(" }\n")
		case tObject, tInterface:
			kw := "type"
			if t.kind == tInterface {
				kw = "interface"
			}
			sb.WriteString(kw + " " + t.name)
			if len(t.implements) > 0 {
				sb.WriteString(" implements " + strings.Join(t.implements, " & "))
			}
			sb.WriteString(" {")
			for _, f := range t.fields {
				sb.WriteString(" " + f.name + ": " + f.typ.String())
			}
			sb.WriteString(" }\n")
		case tUnion:
			sb.WriteString("union " + t.name + " = " + strings.Join(t.members, " | ") + "\n")
		}
	}
	return sb.String()
}

// ---- selections (normalised form)

type sel struct {
	// field selection
	field    *fieldDef // nil for __typename and for fragments
	typename bool
	alias    string
	sub      *selset
	// inline fragment
	frag bool
	on   string
	set  *selset
}

func (s *sel) responseKey() string {
	if s.alias != "" {
		return s.alias
	}
	if s.typename {
		return "__typename"
	}
	return s.field.name
}

type selset struct {
	parent *typeDef
	items  []*sel
}

type opGen struct {
	r *rand.Rand
	s *schema
}

func (g *opGen) leafFields(t *typeDef) []*fieldDef {
	var out []*fieldDef
	for _, f := range t.fields {
		if !g.s.types[f.typ.named].composite() {
			out = append(out, f)
		}
	}
	return out
}

// fieldSelections picks distinct fields of t (plus aliases / __typename) — the content of one
// selection set or fragment body. Response keys are a function of (alias prefix, field name), so
// equal response keys anywhere in the operation denote the same schema field (field merging is valid).
func (g *opGen) fieldSelections(t *typeDef, depth int, min int) []*sel {
	var out []*sel
	cands := t.fields
	if depth <= 0 {
		cands = g.leafFields(t)
	}
	if len(cands) > 0 {
		n := min + g.r.IntN(4)
		if n > len(cands) {
			n = len(cands)
		}
		perm := g.r.Perm(len(cands))
		for _, pi := range perm[:n] {
			f := cands[pi]
			out = append(out, g.fieldSel(f, depth))
			if g.r.IntN(12) == 0 {
				// the same field a second time under another alias
				s2 := g.fieldSel(f, depth)
				s2.alias = "b_" + f.name
				out = append(out, s2)
			}
		}
	}
	if t.name != "Query" && g.r.IntN(4) == 0 || len(out) == 0 {
		ts := &sel{typename: true}
		if g.r.IntN(4) == 0 {
			ts.alias = "tn"
		}
		// insert at a random position
		i := g.r.IntN(len(out) + 1)
		out = append(out[:i:i], append([]*sel{ts}, out[i:]...)...)
	}
	return out
}

func (g *opGen) fieldSel(f *fieldDef, depth int) *sel {
	s := &sel{field: f}
	if g.r.IntN(5) == 0 {
		s.alias = "a_" + f.name
	}
	ft := g.s.types[f.typ.named]
	if ft.composite() {
		s.sub = g.selSet(ft, depth-1)
	}
	return s
}

func (g *opGen) selSet(t *typeDef, depth int) *selset {
	ss := &selset{parent: t}
	switch t.kind {
	case tObject:
		ss.items = g.fieldSelections(t, depth, 1)
	case tInterface, tUnion:
		if t.kind == tInterface {
			if g.r.IntN(4) != 0 {
				ss.items = g.fieldSelections(t, depth, 0)
			}
		} else if g.r.IntN(2) == 0 {
			ts := &sel{typename: true}
			if g.r.IntN(5) == 0 {
				ts.alias = "tn"
			}
			ss.items = append(ss.items, ts)
		}
		// fragments: on concrete possible types, sometimes on an overlapping interface
		poss := g.s.possibleTypes(t)
		var conds []string
		conds = append(conds, poss...)
		for _, n := range g.s.order {
			it := g.s.types[n]
			if it.kind != tInterface || it.name == t.name {
				continue
			}
			if t.kind == tInterface && g.allImplement(poss, it.name) {
				// every possible type implements it: normalisation would flatten such a fragment
				continue
			}
			for _, p := range poss {
				if contains(it.members, p) {
					conds = append(conds, it.name)
					break
				}
			}
		}
		nf := g.r.IntN(4)
		if len(ss.items) == 0 && nf == 0 {
			nf = 1
		}
		used := map[string]bool{}
		for i := 0; i < nf; i++ {
			c := conds[g.r.IntN(len(conds))]
			if used[c] {
				continue
			}
			used[c] = true
			ct := g.s.types[c]
			body := &selset{parent: ct, items: g.fieldSelections(ct, depth, 1)}
			ss.items = append(ss.items, &sel{frag: true, on: c, set: body})
		}
		if len(ss.items) == 0 {
			ss.items = append(ss.items, &sel{typename: true})
		}
	}
	return ss
}

func (g *opGen) allImplement(objs []string, iface string) bool {
	it := g.s.types[iface]
	for _, o := range objs {
		if !contains(it.members, o) {
			return false
		}
	}
	return true
}

func contains(l []string, s string) bool {
	for _, x := range l {
		if x == s {
			return true
		}
	}
	return false
}

func (g *opGen) operation(depth int) *selset {
	q := g.s.types["Query"]
	ss := &selset{parent: q}
	n := 1 + g.r.IntN(3)
	if n > len(q.fields) {
		n = len(q.fields)
	}
	perm := g.r.Perm(len(q.fields))
	for _, pi := range perm[:n] {
		ss.items = append(ss.items, g.fieldSel(q.fields[pi], depth))
	}
	if g.r.IntN(8) == 0 {
		ts := &sel{typename: true}
		if g.r.IntN(2) == 0 {
			ts.alias = "tn"
		}
		ss.items = append(ss.items, ts)
	}
	return ss
}

func (ss *selset) print(sb *strings.Builder) {
	sb.WriteString("{")
	for _, it := range ss.items {
		sb.WriteString(" ")
		switch {
		case it.frag:
			sb.WriteString("... on " + it.on + " ")
			it.set.print(sb)
		case it.typename:
			if it.alias != "" {
				sb.WriteString(it.alias + ": ")
			}
			sb.WriteString("__typename")
		default:
			if it.alias != "" {
				sb.WriteString(it.alias + ": ")
			}
			sb.WriteString(it.field.name)
			if it.sub != nil {
				sb.WriteString(" ")
				it.sub.print(sb)
			}
		}
	}
	sb.WriteString(" }")
}

func (ss *selset) String() string {
	var sb strings.Builder
	ss.print(&sb)
	return sb.String()
}

func sortedKeys(m map[string]struct{}) []string {
	out := make([]string, 0, len(m))
	for k := range m {
		out = append(out, k)
	}
	sort.Strings(out)
	return out
}
