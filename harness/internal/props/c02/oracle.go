package c02

import (
	"bytes"
	"encoding/json"
	"fmt"
	"math"
	"sort"
	"strconv"
	"strings"

	"github.com/wundergraph/graphql-go-tools/v2/pkg/engine/resolve"
)

// The reference oracle of DESIGN Appendix F2. It reads only the plan tree T (its Nullable, Path,
// OnTypeNames, ParentOnTypeNames, PossibleTypes, TypeName, enum Values), the payload j that was
// handed to the renderer, the recorded offences, and the bytes the renderer wrote.

type viol struct {
	kind  string
	msg   string
	match map[string]string
}

type gqlError struct {
	path    rpath
	hasPath bool
	message string
	channel string // "errors" or "valueCompletion" (extensions.valueCompletion with the value-completion option)
}

type verdict struct {
	viols       []viol
	positions   int64
	errorPaths  int64
	errors      int64
	exact       bool
	dataNull    bool
	expected    *jv
	expectedSet bool
	counts      map[string]int64
	sets        map[string][]string
}

func (v *verdict) count(name string) {
	if v.counts == nil {
		v.counts = map[string]int64{}
	}
	v.counts[name]++
}

func (v *verdict) observe(set, item string) {
	if v.sets == nil {
		v.sets = map[string][]string{}
	}
	v.sets[set] = append(v.sets[set], item)
}

func (v *verdict) add(kind, msg string, match map[string]string) {
	v.viols = append(v.viols, viol{kind, msg, match})
}

const (
	classClean    = "clean"
	classNullOnly = "null-only"
	classIll      = "ill-typed"
)

// classify: clean = no offence, or only legitimate nulls at nullable positions; null-only = only
// null / missing-key offences; ill-typed otherwise.
func classify(offs []offence) string {
	cls := classClean
	for _, o := range offs {
		if o.Benign {
			continue
		}
		if o.NullClass {
			if cls == classClean {
				cls = classNullOnly
			}
			continue
		}
		return classIll
	}
	return cls
}

// ---- reference CompleteValue (GraphQL spec §6.4.3/6.4.4 over the plan tree)

type refRun struct {
	absorbed []rpath // positions that took a propagated null (empty path = data:null)
	broken   string  // the payload was not well-typed where the reference needed it to be
}

func (rr *refRun) complete(n resolve.Node, v *jv, resp rpath, stack []string) (*jv, bool) {
	if v.isNull() {
		if nodeNullable(n) {
			return jnull(), false
		}
		return nil, true
	}
	switch t := n.(type) {
	case *resolve.Object:
		out, raised := rr.object(t, v, resp, stack)
		if raised {
			if t.Nullable {
				rr.absorbed = append(rr.absorbed, resp)
				return jnull(), false
			}
			return nil, true
		}
		return out, false
	case *resolve.Array:
		if v.k != jArr {
			rr.broken = "non-list at " + resp.String()
			return nil, true
		}
		out := &jv{k: jArr, a: []*jv{}}
		for i, it := range v.a {
			c, raised := rr.complete(t.Item, it, resp.withIdx(i), stack)
			if raised {
				if t.Nullable {
					rr.absorbed = append(rr.absorbed, resp)
					return jnull(), false
				}
				return nil, true
			}
			out.a = append(out.a, c)
		}
		return out, false
	default:
		return v, false
	}
}

func (rr *refRun) object(o *resolve.Object, v *jv, resp rpath, stack []string) (*jv, bool) {
	if v.k != jObj {
		rr.broken = "non-object at " + resp.String()
		return nil, true
	}
	rt, valid := runtimeType(o, v)
	if !valid {
		rr.broken = "invalid runtime type at " + resp.String()
		return nil, true
	}
	st := append(append([]string(nil), stack...), rt)
	out := jobj()
	for _, f := range o.Fields {
		if !fieldSelected(f, st) {
			continue
		}
		name := string(f.Name)
		if out.has(name) {
			continue
		}
		if ss, ok := f.Value.(*resolve.StaticString); ok {
			out.set(name, jstr(ss.Value))
			continue
		}
		k, ok := dataKey(f.Value)
		if !ok {
			rr.broken = "field without a single-element path at " + resp.withKey(name).String()
			return nil, true
		}
		c, raised := rr.complete(f.Value, v.get(k), resp.withKey(name), st)
		if raised {
			return nil, true
		}
		out.set(name, c)
	}
	return out, false
}

// reference returns the expected `data` (nil = data:null) for payloads whose only deviations are
// nulls / missing keys.
func reference(root *resolve.Object, j *jv) (data *jv, rr *refRun) {
	rr = &refRun{}
	out, raised := rr.object(root, j, nil, nil)
	if raised {
		rr.absorbed = []rpath{{}}
		return nil, rr
	}
	// keep the maximal nulled positions only (a position nulled inside a later nulled ancestor is gone)
	var max []rpath
	for i, r := range rr.absorbed {
		inner := false
		for k, o := range rr.absorbed {
			if k != i && len(o) < len(r) && r.hasPrefix(o) {
				inner = true
			}
		}
		if !inner {
			max = append(max, r)
		}
	}
	rr.absorbed = max
	return out, rr
}

// ---- the joint walk: typesafe(out.data, T), surviving values equal the payload's, nulled positions

type walker struct {
	v         *verdict
	replaced  []rpath // out is null, the payload value there is not
	class     string
	ambiguous bool
	opts      *renderOpts
	// floatDiffs: Float leaves already reported as differing under float truncation; the whole-data
	// comparison then only pins down the structure and the other leaves
	floatDiffs int
}

// doubleDistance classifies how far two doubles are apart (in representable values).
func doubleDistance(a, b float64) string {
	if math.IsInf(a, 0) || math.IsInf(b, 0) || math.IsNaN(a) || math.IsNaN(b) {
		return "not-finite"
	}
	if (a < 0) != (b < 0) && a != 0 && b != 0 {
		return "sign-differs"
	}
	ua, ub := math.Float64bits(math.Abs(a)), math.Float64bits(math.Abs(b))
	d := ua - ub
	if ub > ua {
		d = ub - ua
	}
	switch {
	case d <= 1:
		return "1-ulp"
	case d <= 16:
		return "2-16-ulp"
	}
	return "more"
}

// two63 = 2^63: a float of this magnitude or more does not fit an int64.
const two63 = 9223372036854775808.0

// leafEqual: is the rendered leaf the payload's value. Default: the same JSON value, numbers compared
// exactly by value. Two options deliberately re-spell a leaf:
//   - float truncation: an integral Float may be printed without its fraction / exponent; GraphQL's
//     Float is an IEEE 754 double, so the rendered literal must denote the same double as the payload's
//   - __typename renaming: a configured From may be rendered as its To (whether it is, is not judged)
//
// extra carries match facts when the leaf differs under such an option.
func (w *walker) leafEqual(n resolve.Node, out, jval *jv) (ok bool, extra map[string]string) {
	switch t := n.(type) {
	case *resolve.Float:
		if w.opts != nil && w.opts.Truncate && out.k == jNum && jval.k == jNum {
			w.v.count("floats_compared_under_truncation")
			pf, perr := strconv.ParseFloat(jval.n, 64)
			of, oerr := strconv.ParseFloat(out.n, 64)
			beyond := perr == nil && math.Abs(pf) >= two63
			integral := perr == nil && pf == math.Trunc(pf)
			if beyond {
				w.v.count("floats_beyond_int64_under_truncation")
			}
			if integral {
				w.v.count("floats_integral_under_truncation")
			} else {
				w.v.count("floats_fractional_under_truncation")
			}
			if out.n != jval.n {
				w.v.count("floats_respelled_under_truncation")
			}
			if numEqual(out.n, jval.n) {
				return true, nil
			}
			if perr == nil && oerr == nil && pf == of {
				w.v.count("floats_equal_as_double_only_under_truncation")
				return true, nil
			}
			w.floatDiffs++
			dist := "unparsable"
			if perr == nil && oerr == nil {
				dist = doubleDistance(pf, of)
			}
			return false, map[string]string{"option": "truncate-floats", "payload_beyond_int64": fmt.Sprint(beyond), "payload_integral": fmt.Sprint(integral), "double_distance": dist}
		}
	case *resolve.String:
		if t.IsTypeName && w.opts != nil && len(w.opts.Rename) > 0 && out.k == jStr && jval.k == jStr {
			if to, hit := w.opts.Rename[jval.s]; hit {
				switch out.s {
				case to:
					w.v.count("typenames_rendered_renamed")
					return true, nil
				case jval.s:
					w.v.count("typenames_rename_not_applied")
					return true, nil
				}
				return false, map[string]string{"option": "rename-typenames"}
			}
		}
	}
	return jequal(out, jval), nil
}

func (w *walker) violate(kind string, resp rpath, n resolve.Node, msg string, extra map[string]string) {
	m := map[string]string{"node": nodeKindName(n), "class": w.class}
	for k, v := range extra {
		m[k] = v
	}
	w.v.add(kind, msg+" at "+resp.String(), m)
}

func (w *walker) check(n resolve.Node, jval, out *jv, resp rpath, stack []string) {
	w.v.positions++
	if out == nil {
		// cannot happen: callers only pass existing members
		return
	}
	if out.k == jNull {
		if !nodeNullable(n) {
			w.violate("typesafe.null-at-non-null", resp, n, "null rendered at a non-null position inside non-null data", nil)
		}
		if !jval.isNull() {
			w.replaced = append(w.replaced, resp)
		}
		return
	}
	switch t := n.(type) {
	case *resolve.StaticString:
		if out.k != jStr || out.s != t.Value {
			w.violate("typesafe.kind", resp, n, "static __typename rendered as "+out.String(), nil)
		}
		return
	case *resolve.Object:
		if out.k != jObj {
			w.violate("typesafe.kind", resp, n, "object position rendered as "+out.k.String(), map[string]string{"rendered": out.k.String()})
			return
		}
		if jval.isNull() || jval.k != jObj {
			w.violate("value.not-from-payload", resp, n, "an object was rendered where the payload has "+kindOf(jval), map[string]string{"payload": kindOf(jval)})
			return
		}
		rt, valid := runtimeType(t, jval)
		if !valid {
			w.violate("typesafe.runtime-type", resp, n, fmt.Sprintf("an object was rendered although its runtime type (%q) is not a possible type of the position", rt), nil)
			return
		}
		st := append(append([]string(nil), stack...), rt)
		want := map[string]*resolve.Field{}
		var order []string
		for _, f := range t.Fields {
			if !fieldSelected(f, st) {
				continue
			}
			name := string(f.Name)
			if _, dup := want[name]; dup {
				w.ambiguous = true
				continue
			}
			want[name] = f
			order = append(order, name)
		}
		var missing, extra []string
		for _, name := range order {
			if !out.has(name) {
				missing = append(missing, name)
			}
		}
		for _, k := range out.keys {
			if _, ok := want[k]; !ok {
				extra = append(extra, k)
			}
		}
		if len(missing) > 0 || len(extra) > 0 {
			w.violate("keys.mismatch", resp, n, fmt.Sprintf("rendered object keys differ from the selected response keys for runtime type %q: missing %v, extra %v", rt, missing, extra),
				map[string]string{"missing": fmt.Sprint(len(missing) > 0), "extra": fmt.Sprint(len(extra) > 0), "typename_in_payload": fmt.Sprint(jval.has("__typename"))})
		}
		for _, name := range order {
			o := out.get(name)
			if o == nil {
				continue
			}
			f := want[name]
			var child *jv
			if k, ok := dataKey(f.Value); ok {
				child = jval.get(k)
			}
			w.check(f.Value, child, o, resp.withKey(name), st)
		}
		return
	case *resolve.Array:
		if out.k != jArr {
			w.violate("typesafe.kind", resp, n, "list position rendered as "+out.k.String(), map[string]string{"rendered": out.k.String()})
			return
		}
		if jval.isNull() || jval.k != jArr {
			w.violate("value.not-from-payload", resp, n, "a list was rendered where the payload has "+kindOf(jval), map[string]string{"payload": kindOf(jval)})
			return
		}
		if len(out.a) != len(jval.a) {
			w.violate("value.list-length", resp, n, fmt.Sprintf("rendered list has %d items, the payload's has %d", len(out.a), len(jval.a)), nil)
			return
		}
		for i := range out.a {
			w.check(t.Item, jval.a[i], out.a[i], resp.withIdx(i), stack)
		}
		return
	}
	// leaves
	ok := true
	switch t := n.(type) {
	case *resolve.String:
		ok = out.k == jStr
	case *resolve.Integer, *resolve.Float:
		ok = out.k == jNum
	case *resolve.Boolean:
		ok = out.k == jBool
	case *resolve.Enum:
		ok = out.k == jStr && contains(t.Values, out.s) && !contains(t.InaccessibleValues, out.s)
	case *resolve.Scalar, *resolve.BigInt, *resolve.CustomNode:
		ok = true
	default:
		w.violate("oracle.unknown-node", resp, n, fmt.Sprintf("plan node %T is not modelled", n), nil)
		return
	}
	if !ok {
		w.violate("typesafe.kind", resp, n, "value "+clip(out.String(), 80)+" does not conform to the declared type", map[string]string{"rendered": out.k.String()})
		return
	}
	if jval.isNull() {
		w.violate("value.leaf-differs", resp, n, "rendered leaf "+clip(out.String(), 80)+" differs from the payload's "+clip(jval.String(), 80), nil)
		return
	}
	if same, extra := w.leafEqual(n, out, jval); !same {
		w.violate("value.leaf-differs", resp, n, "rendered leaf "+clip(out.String(), 80)+" differs from the payload's "+clip(jval.String(), 80), extra)
	}
}

func kindOf(v *jv) string {
	if v == nil {
		return "nothing"
	}
	return v.k.String()
}

func clip(s string, n int) string {
	if len(s) > n {
		return s[:n] + "…"
	}
	return s
}

// ---- error paths

type posInfo struct {
	real   bool
	reason string
	node   resolve.Node
}

// locate walks an error path through T under the payload j. A path denotes a position when every
// element selects a response key of the object selected for its runtime type, or an index inside
// the payload's list; the walk may end at (but not pass through) a null / missing / ill-typed value.
func locate(root *resolve.Object, j *jv, opaque map[*jv]bool, p rpath) posInfo {
	var node resolve.Node = root
	val := j
	var stack []string
	for i, e := range p {
		switch t := node.(type) {
		case *resolve.Object:
			if e.isI {
				return posInfo{false, "index-into-object", node}
			}
			if val.isNull() || val.k != jObj {
				return posInfo{false, "below-non-object-value", node}
			}
			rt, valid := runtimeType(t, val)
			if !valid || opaque[val] {
				return posInfo{false, "below-object-of-invalid-type", node}
			}
			stack = append(append([]string(nil), stack...), rt)
			var hit *resolve.Field
			for _, f := range t.Fields {
				if string(f.Name) == e.key && fieldSelected(f, stack) {
					hit = f
					break
				}
			}
			if hit == nil {
				reason := "unknown-key"
				for _, f := range t.Fields {
					if k, ok := dataKey(f.Value); ok && k == e.key && fieldSelected(f, stack) {
						reason = "data-key-not-response-key"
					}
				}
				if reason == "unknown-key" {
					for _, f := range t.Fields {
						if string(f.Name) == e.key {
							reason = "field-not-selected-for-runtime-type"
						}
					}
				}
				return posInfo{false, reason, node}
			}
			node = hit.Value
			if k, ok := dataKey(hit.Value); ok {
				val = val.get(k)
			} else {
				val = nil
			}
		case *resolve.Array:
			if !e.isI {
				return posInfo{false, "key-into-list", node}
			}
			if val.isNull() || val.k != jArr {
				return posInfo{false, "below-non-list-value", node}
			}
			if e.idx >= len(val.a) {
				return posInfo{false, "index-out-of-range", node}
			}
			node = t.Item
			val = val.a[e.idx]
		default:
			_ = i
			return posInfo{false, "below-leaf", node}
		}
	}
	return posInfo{true, "", node}
}

// ---- the whole check of one rendered response

type renderInput struct {
	root   *resolve.Object
	j      *jv
	opaque map[*jv]bool
	offs   []offence
	out    []byte
	opts   *renderOpts // nil = default options
}

// escapeForwardedKeys rewrites every `"<raw key>":` of the subgraph's extensions object whose key
// needs escaping into its escaped spelling.
func escapeForwardedKeys(out []byte, bodyExtensions string) ([]byte, bool) {
	ext, _, err := parseStrict([]byte(bodyExtensions))
	if err != nil || ext.k != jObj {
		return out, false
	}
	changed := false
	for _, k := range ext.keys {
		esc, _ := json.Marshal(k)
		raw := `"` + k + `"`
		if string(esc) == raw {
			continue
		}
		if bytes.Contains(out, []byte(raw+":")) {
			out = bytes.ReplaceAll(out, []byte(raw+":"), append(append([]byte(nil), esc...), ':'))
			changed = true
		}
	}
	return out, changed
}

// parseErrorList reads a list of GraphQL error objects (errors, or extensions.valueCompletion).
func parseErrorList(v *verdict, ev *jv, channel, class string) (errs []gqlError) {
	for _, e := range ev.a {
		if e.k != jObj || e.get("message") == nil || e.get("message").k != jStr {
			v.add("envelope.errors", "an entry of "+channel+" is not an object with a string message: "+clip(e.String(), 120), map[string]string{"class": class, "channel": channel})
			continue
		}
		ge := gqlError{message: e.get("message").s, channel: channel}
		if pv := e.get("path"); pv != nil {
			p, ok := pathFromJSON(pv)
			if !ok {
				v.add("envelope.errors", "a path in "+channel+" is not a list of strings and non-negative integers: "+clip(pv.String(), 120), map[string]string{"class": class, "channel": channel})
				continue
			}
			ge.path, ge.hasPath = p, true
		}
		errs = append(errs, ge)
	}
	return errs
}

func checkRender(in renderInput) *verdict {
	v := &verdict{}
	class := classify(in.offs)
	doc, dup, err := parseStrict(in.out)
	if err != nil && in.opts != nil && in.opts.ExtKeyEscapes {
		// The subgraph sent an extensions key that needs JSON escaping and extension forwarding is on.
		// When escaping exactly those keys makes the bytes valid, that is the cause; the repaired
		// document is judged further so that nothing else is masked.
		if fixed, changed := escapeForwardedKeys(in.out, in.opts.BodyExtensions); changed {
			if d2, dup2, err2 := parseStrict(fixed); err2 == nil {
				v.add("json.invalid", "the rendered bytes are not one valid JSON document: a forwarded subgraph extensions key is written without JSON escaping", map[string]string{"class": class, "cause": "forwarded-extension-key-not-escaped"})
				doc, dup, err = d2, dup2, nil
			}
		}
	}
	if err != nil {
		v.add("json.invalid", "the rendered bytes are not one valid JSON document: "+err.Error(), map[string]string{"class": class})
		return v
	}
	if dup != "" {
		v.add("json.duplicate-key", "duplicate object key in the rendered response at "+dup, map[string]string{"class": class, "in_data": fmt.Sprint(strings.HasPrefix(dup, "/data"))})
	}
	if doc.k != jObj {
		v.add("envelope.shape", "the response is not a JSON object", map[string]string{"class": class})
		return v
	}
	for _, k := range doc.keys {
		if k != "data" && k != "errors" && k != "extensions" {
			v.add("envelope.shape", "unexpected top-level key "+k, map[string]string{"class": class})
		}
	}
	data := doc.get("data")
	if data == nil {
		v.add("envelope.shape", "the response has no data entry", map[string]string{"class": class})
		return v
	}
	opts := in.opts
	if ext := doc.get("extensions"); ext != nil {
		v.count("responses_with_extensions")
		if ext.k != jObj {
			v.add("envelope.shape", "extensions is present but not a JSON object: "+clip(ext.String(), 120), map[string]string{"class": class})
		} else {
			for _, k := range ext.keys {
				v.observe("extension_keys", clip(k, 40))
			}
		}
	}
	if opts != nil && opts.SkipLoader {
		// ExecutionOptions.SkipLoader: nothing was loaded and the renderer deliberately writes
		// data:null (+ extensions) without errors. Only the syntax and the envelope are judged.
		v.count("not_judged_skip_loader_beyond_syntax_and_envelope")
		if data.k != jNull {
			v.count("skip_loader_rendered_data")
		}
		return v
	}
	var errs []gqlError
	if ev := doc.get("errors"); ev != nil {
		if ev.k != jArr || len(ev.a) == 0 {
			v.add("envelope.errors", "errors is present but not a non-empty list", map[string]string{"class": class})
		} else {
			errs = parseErrorList(v, ev, "errors", class)
		}
	}
	// With the value-completion option the renderer reports null / invalid-enum / invalid-__typename
	// replacements in extensions.valueCompletion instead of errors: same entry shape, and the entries
	// are read as the reports the statement asks for.
	var reports []gqlError
	reports = append(reports, errs...)
	if opts != nil && opts.ValueCompletion {
		if vc := doc.get("extensions").get("valueCompletion"); vc != nil {
			if vc.k != jArr {
				v.add("envelope.errors", "extensions.valueCompletion is not a list", map[string]string{"class": class, "channel": "valueCompletion"})
			} else {
				l := parseErrorList(v, vc, "valueCompletion", class)
				for range l {
					v.count("value_completion_entries")
				}
				reports = append(reports, l...)
			}
		}
	}
	// the subgraph itself sent errors (resolver driver): the loader forwards / wraps them per the
	// error options; they are not reports of the renderer, their paths are the subgraph's
	subgraphErrors := opts != nil && opts.BodyErrors != "" && opts.BodyErrors != "[]"
	if subgraphErrors {
		v.count("not_judged_error_paths_and_coverage_subgraph_sent_errors")
	}
	v.errors = int64(len(errs))

	// always: every error path denotes a position of T under j
	for _, e := range reports {
		if !e.hasPath || subgraphErrors {
			continue
		}
		v.errorPaths++
		if e.channel == "valueCompletion" {
			v.count("value_completion_paths_checked")
		}
		pi := locate(in.root, in.j, in.opaque, e.path)
		if pi.real {
			continue
		}
		m := map[string]string{"reason": pi.reason, "doubled_last_element": "false", "message_class": messageClass(e.message)}
		if e.channel != "errors" {
			m["channel"] = e.channel
		}
		if n := len(e.path); n >= 2 && !e.path[n-1].isI && e.path[n-1] == e.path[n-2] {
			pp := locate(in.root, in.j, in.opaque, e.path[:n-1])
			if pp.real || pp.reason == "data-key-not-response-key" {
				m["doubled_last_element"] = "true"
			}
		}
		v.add("error-path.not-a-position", fmt.Sprintf("error path %s does not denote a position of the response (%s); message: %s", e.path, pi.reason, clip(e.message, 120)), m)
	}

	// the joint walk
	w := &walker{v: v, class: class, opts: opts}
	if data.k == jNull {
		v.dataNull = true
		w.replaced = append(w.replaced, rpath{})
		v.positions++
	} else {
		w.check(in.root, in.j, data, nil, nil)
	}
	if w.ambiguous {
		v.add("oracle.ambiguous-tree", "two selected fields of one object share a response key", map[string]string{"class": class})
	}

	// every nulled position is an ancestor-or-self of an offence and is covered by an error at an offending position
	for _, r := range w.replaced {
		var under []offence
		for _, o := range in.offs {
			if !o.Harmless && o.Resp.hasPrefix(r) {
				under = append(under, o)
			}
		}
		if len(under) == 0 {
			v.add("nulled.unjustified", "position "+r.String()+" was nulled although no offending value lies at or below it", map[string]string{"class": class, "data_null": fmt.Sprint(len(r) == 0)})
			continue
		}
		if subgraphErrors {
			continue
		}
		covered := false
		for _, e := range reports {
			if !e.hasPath {
				continue
			}
			for _, o := range under {
				if e.path.equal(o.Resp) {
					covered = true
					if e.channel == "valueCompletion" {
						v.count("replacements_covered_by_value_completion")
					}
				}
			}
		}
		if covered {
			continue
		}
		// why: which kind of error path (if any) was reported instead of an offending position
		cause := "no-error"
		if len(reports) > 0 {
			cause = "errors-without-path"
		}
		rank := map[string]int{"no-error": 0, "errors-without-path": 1, "error-elsewhere": 2, "error-below-offence": 3, "error-at-ancestor": 4, "error-at-data-key-path": 5, "error-at-doubled-data-key-path": 6, "error-at-doubled-path": 7}
		up := func(c string) {
			if rank[c] > rank[cause] {
				cause = c
			}
		}
		nodes := map[string]bool{}
		for _, o := range under {
			nodes[o.NodeKind] = true
			for _, e := range reports {
				if !e.hasPath {
					continue
				}
				up("error-elsewhere")
				n, dn := len(o.Resp), len(o.Data)
				switch {
				case n > 0 && !o.Resp[n-1].isI && len(e.path) == n+1 && e.path[:n].equal(o.Resp) && e.path[n] == o.Resp[n-1]:
					up("error-at-doubled-path")
				case !o.Data.equal(o.Resp) && e.path.equal(o.Data):
					up("error-at-data-key-path")
				case !o.Data.equal(o.Resp) && dn > 0 && !o.Data[dn-1].isI && len(e.path) == dn+1 && e.path[:dn].equal(o.Data) && e.path[dn] == o.Data[dn-1]:
					up("error-at-doubled-data-key-path")
				case len(e.path) < n && o.Resp.hasPrefix(e.path):
					up("error-at-ancestor")
				case len(e.path) > n && e.path.hasPrefix(o.Resp):
					up("error-below-offence")
				}
			}
		}
		facts := map[string]string{"cause": cause}
		if opts != nil && opts.ValueCompletion {
			facts["option"] = "value-completion"
		}
		_ = nodes
		if cause != "error-at-doubled-path" && cause != "error-at-data-key-path" && cause != "error-at-doubled-data-key-path" {
			inacc := false
			for _, o := range under {
				if o.Kind == "inaccessible-enum" {
					inacc = true
				}
			}
			facts["involves_inaccessible_enum_value"] = fmt.Sprint(inacc)
		}
		v.add("replacement.uncovered", fmt.Sprintf("position %s was replaced by null but no error carries the response path of an offending position below it (offences: %s)", r, describe(under)), facts)
	}

	// exact expectations
	switch class {
	case classClean, classNullOnly:
		exp, rr := reference(in.root, in.j)
		if rr.broken != "" {
			v.add("oracle.reference-broken", "reference completion met an ill-typed payload in class "+class+": "+rr.broken, nil)
			break
		}
		v.exact = true
		v.expected, v.expectedSet = exp, true
		same := (exp == nil && data.k == jNull) || (exp != nil && data.k != jNull && jequalUnder(exp, data, opts, w.floatDiffs > 0))
		if !same {
			kind := "data.not-projection"
			msg := "well-typed payload: rendered data differs from the projection of the payload through the selection"
			if class == classNullOnly {
				kind = "data.null-propagation"
				msg = "null/missing-only offences: rendered data differs from null propagation to the nearest nullable ancestor"
			}
			v.add(kind, msg, map[string]string{"class": class, "rendered_data_null": fmt.Sprint(data.k == jNull), "expected_data_null": fmt.Sprint(exp == nil)})
		}
		if class == classClean {
			missingOnly := false
			for _, o := range in.offs {
				if o.Kind == "missing" {
					missingOnly = true
				}
			}
			if subgraphErrors {
				// errors are present because the subgraph sent some
			} else if len(errs) > 0 && !missingOnly {
				v.add("errors.on-well-typed", fmt.Sprintf("well-typed payload but the response carries %d error(s): %s", len(errs), clip(errs[0].message, 120)), map[string]string{"class": class})
			} else if doc.get("errors") != nil && len(errs) == 0 && !missingOnly {
				v.add("errors.on-well-typed", "well-typed payload but an errors entry is present", map[string]string{"class": class})
			}
			if len(reports) > len(errs) && !missingOnly {
				// the statement speaks of errors only; value-completion entries for well-typed data are counted
				v.count("not_judged_value_completion_entries_on_well_typed")
			}
		} else if !subgraphErrors {
			// each absorption point needs an error at an offending position inside it
			for _, r := range rr.absorbed {
				covered := false
				for _, o := range in.offs {
					if o.Harmless || !o.Resp.hasPrefix(r) {
						continue
					}
					for _, e := range reports {
						if e.hasPath && e.path.equal(o.Resp) {
							covered = true
						}
					}
				}
				if !covered {
					already := false
					for _, x := range v.viols {
						if x.kind == "replacement.uncovered" {
							already = true
						}
					}
					if !already {
						v.add("replacement.uncovered", "expected nulled position "+r.String()+" has no error at an offending position inside it", map[string]string{"cause": "reference-only"})
					}
				}
			}
		}
	}
	return v
}

// jequalUnder: jequal with the deliberate re-spellings of the options (see walker.leafEqual; the
// joint walk judges each leaf against its node type, this comparison pins down where the nulls are).
func jequalUnder(exp, out *jv, o *renderOpts, anyNumber bool) bool {
	if o == nil || (!o.Truncate && len(o.Rename) == 0) {
		return jequal(exp, out)
	}
	if exp.isNull() || out.isNull() {
		return exp.isNull() && out.isNull()
	}
	if exp.k != out.k {
		return false
	}
	switch exp.k {
	case jNum:
		if anyNumber || numEqual(exp.n, out.n) {
			return true
		}
		if o.Truncate {
			a, ea := strconv.ParseFloat(exp.n, 64)
			b, eb := strconv.ParseFloat(out.n, 64)
			return ea == nil && eb == nil && a == b
		}
		return false
	case jStr:
		if exp.s == out.s {
			return true
		}
		to, hit := o.Rename[exp.s]
		return hit && to == out.s
	case jArr:
		if len(exp.a) != len(out.a) {
			return false
		}
		for i := range exp.a {
			if !jequalUnder(exp.a[i], out.a[i], o, anyNumber) {
				return false
			}
		}
		return true
	case jObj:
		if len(exp.keys) != len(out.keys) {
			return false
		}
		for i, k := range exp.keys {
			c := out.get(k)
			if c == nil || !jequalUnder(exp.vals[i], c, o, anyNumber) {
				return false
			}
		}
		return true
	}
	return jequal(exp, out)
}

func messageClass(m string) string {
	switch {
	case strings.HasPrefix(m, "Cannot return null for non-nullable"):
		return "non-null"
	case strings.HasPrefix(m, "Object cannot represent"):
		return "object-kind"
	case strings.HasPrefix(m, "Array cannot represent"):
		return "array-kind"
	case strings.Contains(m, "cannot represent"):
		return "leaf-kind"
	case strings.Contains(m, "__typename"):
		return "typename"
	}
	return "other"
}

func joinSet(m map[string]bool) string {
	var l []string
	for k := range m {
		l = append(l, k)
	}
	sort.Strings(l)
	return strings.Join(l, ",")
}

func describe(offs []offence) string {
	var l []string
	for _, o := range offs {
		l = append(l, o.Kind+"@"+o.Path+"("+o.NodeKind+")")
	}
	return strings.Join(l, " ")
}
