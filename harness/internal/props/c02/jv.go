package c02

import (
	"bytes"
	"encoding/json"
	"fmt"
	"io"
	"math/big"
	"strconv"
	"strings"
)

// jv is a JSON value with ordered objects. It is the harness' own representation (independent of
// astjson): payloads are built with it, the rendered response is decoded into it.
type jkind uint8

const (
	jNull jkind = iota
	jBool
	jNum
	jStr
	jArr
	jObj
)

func (k jkind) String() string {
	return [...]string{"null", "bool", "number", "string", "array", "object"}[k]
}

type jv struct {
	k    jkind
	b    bool
	n    string // number literal
	s    string
	a    []*jv
	keys []string
	vals []*jv
	// raw, when set, is emitted verbatim for a string (lets the payload use escape spellings that
	// encoding/json would not produce); s still holds the decoded value.
	raw string
}

func jnull() *jv            { return &jv{k: jNull} }
func jbool(b bool) *jv      { return &jv{k: jBool, b: b} }
func jnum(lit string) *jv   { return &jv{k: jNum, n: lit} }
func jstr(s string) *jv     { return &jv{k: jStr, s: s} }
func jarr(items ...*jv) *jv { return &jv{k: jArr, a: items} }
func jobj() *jv             { return &jv{k: jObj} }

func (v *jv) isNull() bool { return v == nil || v.k == jNull }

func (v *jv) get(key string) *jv {
	if v == nil || v.k != jObj {
		return nil
	}
	for i, k := range v.keys {
		if k == key {
			return v.vals[i]
		}
	}
	return nil
}

func (v *jv) has(key string) bool { return v.get(key) != nil }

func (v *jv) set(key string, val *jv) {
	for i, k := range v.keys {
		if k == key {
			v.vals[i] = val
			return
		}
	}
	v.keys = append(v.keys, key)
	v.vals = append(v.vals, val)
}

func (v *jv) del(key string) {
	for i, k := range v.keys {
		if k == key {
			v.keys = append(v.keys[:i:i], v.keys[i+1:]...)
			v.vals = append(v.vals[:i:i], v.vals[i+1:]...)
			return
		}
	}
}

func (v *jv) clone() *jv {
	if v == nil {
		return nil
	}
	c := *v
	if v.a != nil {
		c.a = make([]*jv, len(v.a))
		for i := range v.a {
			c.a[i] = v.a[i].clone()
		}
	}
	if v.keys != nil {
		c.keys = append([]string(nil), v.keys...)
		c.vals = make([]*jv, len(v.vals))
		for i := range v.vals {
			c.vals[i] = v.vals[i].clone()
		}
	}
	return &c
}

func (v *jv) marshalTo(sb *bytes.Buffer) {
	if v == nil {
		sb.WriteString("null")
		return
	}
	switch v.k {
	case jNull:
		sb.WriteString("null")
	case jBool:
		if v.b {
			sb.WriteString("true")
		} else {
			sb.WriteString("false")
		}
	case jNum:
		sb.WriteString(v.n)
	case jStr:
		if v.raw != "" {
			sb.WriteString(v.raw)
		} else {
			b, _ := json.Marshal(v.s)
			sb.Write(b)
		}
	case jArr:
		sb.WriteByte('[')
		for i, it := range v.a {
			if i > 0 {
				sb.WriteByte(',')
			}
			it.marshalTo(sb)
		}
		sb.WriteByte(']')
	case jObj:
		sb.WriteByte('{')
		for i, k := range v.keys {
			if i > 0 {
				sb.WriteByte(',')
			}
			b, _ := json.Marshal(k)
			sb.Write(b)
			sb.WriteByte(':')
			v.vals[i].marshalTo(sb)
		}
		sb.WriteByte('}')
	}
}

func (v *jv) String() string {
	var sb bytes.Buffer
	v.marshalTo(&sb)
	return sb.String()
}

// jequal: deep equality; numbers compare by value, object key order is irrelevant.
func jequal(a, b *jv) bool {
	if a.isNull() || b.isNull() {
		return a.isNull() && b.isNull()
	}
	if a.k != b.k {
		return false
	}
	switch a.k {
	case jBool:
		return a.b == b.b
	case jNum:
		return numEqual(a.n, b.n)
	case jStr:
		return a.s == b.s
	case jArr:
		if len(a.a) != len(b.a) {
			return false
		}
		for i := range a.a {
			if !jequal(a.a[i], b.a[i]) {
				return false
			}
		}
		return true
	case jObj:
		if len(a.keys) != len(b.keys) {
			return false
		}
		for i, k := range a.keys {
			o := b.get(k)
			if o == nil || !jequal(a.vals[i], o) {
				return false
			}
		}
		return true
	}
	return true
}

func numEqual(a, b string) bool {
	if a == b {
		return true
	}
	fa, _, ea := big.ParseFloat(a, 10, 200, big.ToNearestEven)
	fb, _, eb := big.ParseFloat(b, 10, 200, big.ToNearestEven)
	if ea != nil || eb != nil {
		return false
	}
	return fa.Cmp(fb) == 0
}

// parseStrict decodes exactly one JSON document. It reports syntax errors, trailing data and
// duplicate object keys (dup = the first duplicated key path).
func parseStrict(b []byte) (v *jv, dup string, err error) {
	if !json.Valid(b) {
		// json.Valid is the syntax referee (RFC 8259); the decoder below builds the tree
		return nil, "", fmt.Errorf("not a valid JSON document")
	}
	dec := json.NewDecoder(bytes.NewReader(b))
	dec.UseNumber()
	v, err = parseValue(dec, "", &dup)
	if err != nil {
		return nil, dup, err
	}
	if _, e := dec.Token(); e != io.EOF {
		return nil, dup, fmt.Errorf("trailing data after the JSON document")
	}
	return v, dup, nil
}

func parseValue(dec *json.Decoder, path string, dup *string) (*jv, error) {
	tok, err := dec.Token()
	if err != nil {
		return nil, err
	}
	switch t := tok.(type) {
	case nil:
		return jnull(), nil
	case bool:
		return jbool(t), nil
	case json.Number:
		return jnum(t.String()), nil
	case string:
		return jstr(t), nil
	case json.Delim:
		switch t {
		case '[':
			out := &jv{k: jArr, a: []*jv{}}
			for i := 0; dec.More(); i++ {
				it, err := parseValue(dec, path+"/"+strconv.Itoa(i), dup)
				if err != nil {
					return nil, err
				}
				out.a = append(out.a, it)
			}
			if _, err := dec.Token(); err != nil {
				return nil, err
			}
			return out, nil
		case '{':
			out := &jv{k: jObj}
			for dec.More() {
				kt, err := dec.Token()
				if err != nil {
					return nil, err
				}
				key, ok := kt.(string)
				if !ok {
					return nil, fmt.Errorf("object key is not a string")
				}
				val, err := parseValue(dec, path+"/"+key, dup)
				if err != nil {
					return nil, err
				}
				if out.has(key) {
					if *dup == "" {
						*dup = path + "/" + key
					}
					continue
				}
				out.keys = append(out.keys, key)
				out.vals = append(out.vals, val)
			}
			if _, err := dec.Token(); err != nil {
				return nil, err
			}
			return out, nil
		}
	}
	return nil, fmt.Errorf("unexpected token %v", tok)
}

// ---- response paths

type pelem struct {
	key string
	idx int
	isI bool
}

type rpath []pelem

func (p rpath) withKey(k string) rpath {
	out := make(rpath, len(p)+1)
	copy(out, p)
	out[len(p)] = pelem{key: k}
	return out
}

func (p rpath) withIdx(i int) rpath {
	out := make(rpath, len(p)+1)
	copy(out, p)
	out[len(p)] = pelem{idx: i, isI: true}
	return out
}

func (p rpath) String() string {
	var sb strings.Builder
	sb.WriteByte('[')
	for i, e := range p {
		if i > 0 {
			sb.WriteByte(',')
		}
		if e.isI {
			sb.WriteString(strconv.Itoa(e.idx))
		} else {
			sb.WriteString(strconv.Quote(e.key))
		}
	}
	sb.WriteByte(']')
	return sb.String()
}

func (p rpath) equal(o rpath) bool {
	if len(p) != len(o) {
		return false
	}
	for i := range p {
		if p[i] != o[i] {
			return false
		}
	}
	return true
}

// hasPrefix: pre is an ancestor-or-self of p.
func (p rpath) hasPrefix(pre rpath) bool {
	if len(pre) > len(p) {
		return false
	}
	for i := range pre {
		if p[i] != pre[i] {
			return false
		}
	}
	return true
}

// pathFromJSON converts an error's "path" value. ok=false when it is not an array of strings / non-negative integers.
func pathFromJSON(v *jv) (rpath, bool) {
	if v == nil || v.k != jArr {
		return nil, false
	}
	out := make(rpath, 0, len(v.a))
	for _, e := range v.a {
		switch e.k {
		case jStr:
			out = append(out, pelem{key: e.s})
		case jNum:
			i, err := strconv.Atoi(e.n)
			if err != nil || i < 0 {
				return nil, false
			}
			out = append(out, pelem{idx: i, isI: true})
		default:
			return nil, false
		}
	}
	return out, true
}
