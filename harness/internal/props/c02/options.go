package c02

import (
	"encoding/json"
	"io"
	"math/rand/v2"
	"sort"
	"strings"

	"github.com/wundergraph/graphql-go-tools/v2/pkg/engine/resolve"
)

// The option dimension: every option of resolve.ResolvableOptions, resolve.Context (ExecutionOptions,
// TracingOptions, RateLimitOptions, RenameTypeNames, InlineArguments, field value renderer,
// authorizer / rate limiter response extensions) and resolve.ResolverOptions that changes what
// Resolvable.Resolve writes. A zero renderOpts is the default configuration the base renders use.
type renderOpts struct {
	// resolve.ResolvableOptions (resolver-level when driven through Resolver / ExecutionEngine)
	Truncate        bool `json:"truncate_floats,omitempty"`           // ApolloCompatibilityTruncateFloatValues
	ValueCompletion bool `json:"value_completion,omitempty"`          // ApolloCompatibilityValueCompletionInExtensions
	CostControl     bool `json:"cost_control,omitempty"`              // EnableCostControl (statistics only)
	SuppressFetch   bool `json:"suppress_fetch_errors,omitempty"`     // ApolloCompatibilitySuppressFetchErrors
	ReplaceVarErr   bool `json:"replace_invalid_var_error,omitempty"` // ApolloCompatibilityReplaceInvalidVarError

	// resolve.Context
	Rename       map[string]string `json:"rename_typenames,omitempty"` // Context.RenameTypeNames
	PassRenderer bool              `json:"field_renderer,omitempty"`   // SetFieldValueRenderer (writes FieldValue.Data verbatim)
	QueryPlan    bool              `json:"query_plan,omitempty"`       // ExecutionOptions.IncludeQueryPlanInResponse
	SkipLoader   bool              `json:"skip_loader,omitempty"`      // ExecutionOptions.SkipLoader
	Trace        bool              `json:"trace,omitempty"`            // TracingOptions.Enable + IncludeTraceOutputInResponseExtensions
	InlineArgs   bool              `json:"inline_arguments,omitempty"` // Context.InlineArguments
	RateLimitExt bool              `json:"rate_limit_ext,omitempty"`   // RateLimitOptions.IncludeStatsInResponseExtension + limiter
	AuthExt      bool              `json:"authorizer_ext,omitempty"`   // authorizer with response extension data (no field rules)

	// resolve.ResolverOptions beyond ResolvableOptions (resolver / engine drivers only)
	Resolver *resolverOpts `json:"resolver,omitempty"`

	// what the subgraph sends next to data (resolver driver only)
	BodyExtensions string `json:"subgraph_extensions,omitempty"` // raw JSON object
	BodyErrors     string `json:"subgraph_errors,omitempty"`     // raw JSON array
	ExtKeyEscapes  bool   `json:"subgraph_extension_key_needs_escaping,omitempty"`
}

type resolverOpts struct {
	Truncate        bool `json:"truncate_floats,omitempty"`
	ValueCompletion bool `json:"value_completion,omitempty"`
	CostControl     bool `json:"cost_control,omitempty"`
	SuppressFetch   bool `json:"suppress_fetch_errors,omitempty"`
	ReplaceVarErr   bool `json:"replace_invalid_var_error,omitempty"`

	ForwardExt bool     `json:"forward_subgraph_extensions,omitempty"` // AllowCustomExtensionProperties
	ExtAllow   []string `json:"allowed_subgraph_extensions,omitempty"` // ResolvableOptions.AllowedSubgraphExtensions
	ExtAlgo    string   `json:"extension_forwarding_algorithm,omitempty"`

	NoPropagate       bool     `json:"no_propagate_subgraph_errors,omitempty"`
	PassThrough       bool     `json:"pass_through_errors,omitempty"`
	RewritePaths      bool     `json:"rewrite_error_paths,omitempty"`
	OmitLocations     bool     `json:"omit_error_locations,omitempty"`
	OmitExtensions    bool     `json:"omit_error_extensions,omitempty"`
	AllowAllExtFields bool     `json:"allow_all_error_extension_fields,omitempty"`
	AllowedExtFields  []string `json:"allowed_error_extension_fields,omitempty"`
	AttachServiceName bool     `json:"attach_service_name,omitempty"`
	DefaultCode       string   `json:"default_error_extension_code,omitempty"`
	AllowedErrFields  []string `json:"allowed_subgraph_error_fields,omitempty"`
	ApolloRouterHTTP  bool     `json:"apollo_router_http_error,omitempty"`
}

func (o *renderOpts) isDefault() bool { return o == nil || len(o.names()) == 0 }

// names lists the active options (counter suffixes, witness).
func (o *renderOpts) names() []string {
	if o == nil {
		return nil
	}
	var l []string
	add := func(b bool, n string) {
		if b {
			l = append(l, n)
		}
	}
	add(o.Truncate, "truncate_floats")
	add(o.ValueCompletion, "value_completion")
	add(o.CostControl, "cost_control")
	add(o.SuppressFetch, "suppress_fetch_errors")
	add(o.ReplaceVarErr, "replace_invalid_var_error")
	add(len(o.Rename) > 0, "rename_typenames")
	add(o.PassRenderer, "field_renderer")
	add(o.QueryPlan, "query_plan")
	add(o.SkipLoader, "skip_loader")
	add(o.Trace, "trace")
	add(o.InlineArgs, "inline_arguments")
	add(o.RateLimitExt, "rate_limit_ext")
	add(o.AuthExt, "authorizer_ext")
	if r := o.Resolver; r != nil {
		add(r.ForwardExt, "forward_subgraph_extensions")
		add(r.ForwardExt && len(r.ExtAllow) > 0, "allowed_subgraph_extensions")
		add(r.ForwardExt && r.ExtAlgo == string(resolve.ExtensionForwardingAlgorithmLastWrite), "extension_last_write")
		add(r.NoPropagate, "no_propagate_subgraph_errors")
		add(r.PassThrough, "pass_through_errors")
		add(r.RewritePaths, "rewrite_error_paths")
		add(r.OmitLocations, "omit_error_locations")
		add(r.OmitExtensions, "omit_error_extensions")
		add(r.AllowAllExtFields, "allow_all_error_extension_fields")
		add(len(r.AllowedExtFields) > 0, "allowed_error_extension_fields")
		add(r.AttachServiceName, "attach_service_name")
		add(r.DefaultCode != "", "default_error_extension_code")
		add(len(r.AllowedErrFields) > 0, "allowed_subgraph_error_fields")
		add(r.ApolloRouterHTTP, "apollo_router_http_error")
	}
	add(o.BodyExtensions != "", "subgraph_sends_extensions")
	add(o.BodyErrors != "", "subgraph_sends_errors")
	return l
}

func (o *renderOpts) String() string { return strings.Join(o.names(), ",") }

func (o *renderOpts) resolvable() resolve.ResolvableOptions {
	if o == nil {
		return resolve.ResolvableOptions{}
	}
	return resolve.ResolvableOptions{
		ApolloCompatibilityTruncateFloatValues:         o.Truncate,
		ApolloCompatibilityValueCompletionInExtensions: o.ValueCompletion,
		ApolloCompatibilitySuppressFetchErrors:         o.SuppressFetch,
		ApolloCompatibilityReplaceInvalidVarError:      o.ReplaceVarErr,
		EnableCostControl:                              o.CostControl,
	}
}

func (ro *resolverOpts) options(maxConcurrency int) resolve.ResolverOptions {
	out := resolve.ResolverOptions{MaxConcurrency: maxConcurrency, PropagateSubgraphErrors: true, PropagateSubgraphStatusCodes: true}
	if ro == nil {
		return out
	}
	out.ResolvableOptions = resolve.ResolvableOptions{
		ApolloCompatibilityTruncateFloatValues:         ro.Truncate,
		ApolloCompatibilityValueCompletionInExtensions: ro.ValueCompletion,
		ApolloCompatibilitySuppressFetchErrors:         ro.SuppressFetch,
		ApolloCompatibilityReplaceInvalidVarError:      ro.ReplaceVarErr,
		EnableCostControl:                              ro.CostControl,
	}
	if ro.ForwardExt {
		out.AllowCustomExtensionProperties = true
		if len(ro.ExtAllow) > 0 {
			out.ResolvableOptions.AllowedSubgraphExtensions = map[string]struct{}{}
			for _, k := range ro.ExtAllow {
				out.ResolvableOptions.AllowedSubgraphExtensions[k] = struct{}{}
			}
		}
		out.ResolvableOptions.ExtensionForwardingAlgorithm = resolve.ExtensionForwardingAlgorithm(ro.ExtAlgo)
	}
	out.PropagateSubgraphErrors = !ro.NoPropagate
	if ro.PassThrough {
		out.SubgraphErrorPropagationMode = resolve.SubgraphErrorPropagationModePassThrough
	}
	out.RewriteSubgraphErrorPaths = ro.RewritePaths
	out.OmitSubgraphErrorLocations = ro.OmitLocations
	out.OmitSubgraphErrorExtensions = ro.OmitExtensions
	out.AllowAllErrorExtensionFields = ro.AllowAllExtFields
	out.AllowedErrorExtensionFields = ro.AllowedExtFields
	out.AttachServiceNameToErrorExtensions = ro.AttachServiceName
	out.DefaultErrorExtensionCode = ro.DefaultCode
	out.AllowedSubgraphErrorFields = ro.AllowedErrFields
	out.ApolloRouterCompatibilitySubrequestHTTPError = ro.ApolloRouterHTTP
	return out
}

// ---- stubs plugged into resolve.Context

type stubLimiter struct{}

func (stubLimiter) RateLimitPreFetch(*resolve.Context, *resolve.FetchInfo, json.RawMessage) (*resolve.RateLimitDeny, error) {
	return nil, nil
}

func (stubLimiter) RenderResponseExtension(_ *resolve.Context, out io.Writer) error {
	_, err := out.Write([]byte(`{"requestRate":1,"remaining":9,"retryAfterMs":0}`))
	return err
}

type stubAuthorizer struct{}

func (stubAuthorizer) AuthorizePreFetch(*resolve.Context, string, json.RawMessage, resolve.GraphCoordinate) (*resolve.AuthorizationDeny, error) {
	return nil, nil
}

func (stubAuthorizer) AuthorizeObjectField(*resolve.Context, string, json.RawMessage, resolve.GraphCoordinate) (*resolve.AuthorizationDeny, error) {
	return nil, nil
}

func (stubAuthorizer) HasResponseExtensionData(*resolve.Context) bool { return true }

func (stubAuthorizer) RenderResponseExtension(_ *resolve.Context, out io.Writer) error {
	_, err := out.Write([]byte(`{"missingScopes":[]}`))
	return err
}

// passRenderer is the identity field value renderer: it must leave the response unchanged.
type passRenderer struct{}

func (passRenderer) RenderFieldValue(_ *resolve.Context, v resolve.FieldValue, out io.Writer) error {
	_, err := out.Write(v.Data)
	return err
}

// applyCtx sets the request-level options on a resolve.Context.
func (o *renderOpts) applyCtx(ctx *resolve.Context) {
	if o == nil {
		return
	}
	if len(o.Rename) > 0 {
		from := make([]string, 0, len(o.Rename))
		for k := range o.Rename {
			from = append(from, k)
		}
		sort.Strings(from)
		for _, f := range from {
			ctx.RenameTypeNames = append(ctx.RenameTypeNames, resolve.RenameTypeName{From: []byte(f), To: []byte(o.Rename[f])})
		}
	}
	if o.PassRenderer {
		ctx.SetFieldValueRenderer(passRenderer{})
	}
	if o.QueryPlan {
		ctx.ExecutionOptions.IncludeQueryPlanInResponse = true
	}
	if o.SkipLoader {
		ctx.ExecutionOptions.SkipLoader = true
	}
	if o.Trace {
		ctx.TracingOptions = resolve.TraceOptions{Enable: true, IncludeTraceOutputInResponseExtensions: true, EnablePredictableDebugTimings: true, Debug: true}
	}
	if o.InlineArgs {
		ctx.InlineArguments = []string{"first", "where_in", "a0"}
	}
	if o.RateLimitExt {
		ctx.RateLimitOptions = resolve.RateLimitOptions{Enable: true, IncludeStatsInResponseExtension: true, Rate: 1000, Burst: 1000}
		ctx.SetRateLimiter(stubLimiter{})
	}
	if o.AuthExt {
		ctx.SetAuthorizer(stubAuthorizer{})
	}
}

// ---- drawing option sets

func pct(r *rand.Rand, p int) bool { return r.IntN(100) < p }

// allFieldsHaveInfo: the field value renderer reads Field.Info of the field being rendered; the
// planner always sets it (DisableIncludeInfo is not used), a tree without it is not a supported input.
func allFieldsHaveInfo(n resolve.Node) bool {
	switch t := n.(type) {
	case *resolve.Object:
		for _, f := range t.Fields {
			if f.Info == nil || !allFieldsHaveInfo(f.Value) {
				return false
			}
		}
	case *resolve.Array:
		return allFieldsHaveInfo(t.Item)
	}
	return true
}

func treeTypeNames(n resolve.Node, set map[string]struct{}) {
	switch t := n.(type) {
	case *resolve.Object:
		for k := range t.PossibleTypes {
			set[k] = struct{}{}
		}
		if t.TypeName != "" {
			set[t.TypeName] = struct{}{}
		}
		for _, f := range t.Fields {
			for _, tn := range f.OnTypeNames {
				set[string(tn)] = struct{}{}
			}
			treeTypeNames(f.Value, set)
		}
	case *resolve.Array:
		treeTypeNames(t.Item, set)
	}
}

func hasTypeNameLeaf(n resolve.Node) bool {
	switch t := n.(type) {
	case *resolve.Object:
		for _, f := range t.Fields {
			if hasTypeNameLeaf(f.Value) {
				return true
			}
		}
	case *resolve.Array:
		return hasTypeNameLeaf(t.Item)
	case *resolve.String:
		return t.IsTypeName
	}
	return false
}

func hasFloatLeaf(n resolve.Node) bool {
	switch t := n.(type) {
	case *resolve.Object:
		for _, f := range t.Fields {
			if hasFloatLeaf(f.Value) {
				return true
			}
		}
	case *resolve.Array:
		return hasFloatLeaf(t.Item)
	case *resolve.Float:
		return true
	}
	return false
}

// drawResolvableFlags: the ResolvableOptions part. Options that matter for the tree at hand are
// preferred (truncation when the tree has Float leaves).
func drawResolvableFlags(r *rand.Rand, root *resolve.Object) (truncate, vc, cost, suppress, replaceVar bool) {
	pt := 30
	if root != nil && hasFloatLeaf(root) {
		pt = 60
	}
	return pct(r, pt), pct(r, 35), pct(r, 20), pct(r, 8), pct(r, 8)
}

// drawCtxOpts: the request-level options.
func drawCtxOpts(r *rand.Rand, root *resolve.Object, o *renderOpts) {
	pr := 15
	if hasTypeNameLeaf(root) {
		pr = 45
	}
	if pct(r, pr) {
		set := map[string]struct{}{}
		treeTypeNames(root, set)
		names := sortedKeys(set)
		if len(names) > 0 {
			o.Rename = map[string]string{}
			n := 1 + r.IntN(2)
			for i := 0; i < n; i++ {
				f := names[r.IntN(len(names))]
				o.Rename[f] = "Renamed_" + f
			}
		}
	}
	if pct(r, 15) && allFieldsHaveInfo(root) {
		o.PassRenderer = true
	}
	o.QueryPlan = pct(r, 15)
	o.Trace = pct(r, 10)
	o.InlineArgs = pct(r, 15)
	o.RateLimitExt = pct(r, 10)
	o.AuthExt = pct(r, 10)
	o.SkipLoader = pct(r, 2)
}

// drawDirectOpts: a non-default option set for the direct Resolvable driver.
func drawDirectOpts(r *rand.Rand, root *resolve.Object) *renderOpts {
	o := &renderOpts{}
	o.Truncate, o.ValueCompletion, o.CostControl, o.SuppressFetch, o.ReplaceVarErr = drawResolvableFlags(r, root)
	drawCtxOpts(r, root, o)
	if o.isDefault() {
		o.Truncate = true
	}
	return o
}

var subgraphExtensionBodies = []struct {
	body    string
	escapes bool
}{
	{`{"cost":{"estimated":12,"actual":9.5},"zz":[1,2,{"a":null}]}`, false},
	{`{"zz":"plain","trace":{"reserved":true},"valueCompletion":[{"message":"from subgraph"}],"queryPlan":1,"rateLimit":2,"authorization":3}`, false},
	{`{"cost":1,"cost":2,"unicode é":"ü","empty":{}}`, false},
	{`{"zz":null,"cost":"x"}`, false},
	{`{}`, false},
	{`{"a\"b":1,"cost":2}`, true},
	{`{"back\\slash":true,"line\nbreak":[]}`, true},
}

// drawResolverOpts: one resolver-level option set per case (a Resolver / engine is built for it).
func drawResolverOpts(r *rand.Rand) *resolverOpts {
	ro := &resolverOpts{}
	ro.Truncate, ro.ValueCompletion, ro.CostControl, ro.SuppressFetch, ro.ReplaceVarErr = drawResolvableFlags(r, nil)
	if pct(r, 50) {
		ro.ForwardExt = true
		if pct(r, 40) {
			ro.ExtAllow = []string{"cost", "zz", "trace", `a"b`}[:1+r.IntN(4)]
		}
		switch r.IntN(3) {
		case 0:
			ro.ExtAlgo = string(resolve.ExtensionForwardingAlgorithmLastWrite)
		case 1:
			ro.ExtAlgo = string(resolve.ExtensionForwardingAlgorithmFirstWrite)
		}
	}
	if pct(r, 50) {
		ro.NoPropagate = pct(r, 25)
		ro.PassThrough = pct(r, 60)
		ro.RewritePaths = pct(r, 40)
		ro.OmitLocations = pct(r, 40)
		ro.OmitExtensions = pct(r, 30)
		ro.AllowAllExtFields = pct(r, 30)
		if pct(r, 50) {
			ro.AllowedExtFields = []string{"code", "other"}[:1+r.IntN(2)]
		}
		ro.AttachServiceName = pct(r, 40)
		if pct(r, 40) {
			ro.DefaultCode = "DOWNSTREAM_SERVICE_ERROR"
		}
		if pct(r, 30) {
			ro.AllowedErrFields = []string{"custom", "locations"}[:1+r.IntN(2)]
		}
		ro.ApolloRouterHTTP = pct(r, 20)
	}
	if !ro.Truncate && !ro.ValueCompletion && !ro.ForwardExt {
		ro.Truncate = true
	}
	return ro
}

var subgraphErrorBodies = []string{
	`[{"message":"boom","path":["q0"],"locations":[{"line":1,"column":2}],"extensions":{"code":"X","other":{"a":1}}}]`,
	`[{"message":"no path"}]`,
	`[{"message":"first","path":["q1",0,"x"],"extensions":null,"custom":1},{"message":"second","locations":[{"line":0,"column":0},{"line":3,"column":4}],"extensions":{"other":"y"}}]`,
	`[{"message":"quote\"d \\ line\nbreak","path":[],"extensions":{"code":"Y","statusCode":418}}]`,
	`[]`,
}

// drawViaResolverOpts: a render through Resolver / ExecutionEngine built for ro; request-level
// options are drawn per render; withBody: the subgraph body may carry extensions / errors.
func drawViaResolverOpts(r *rand.Rand, root *resolve.Object, ro *resolverOpts, withBody bool) *renderOpts {
	o := &renderOpts{Resolver: ro, Truncate: ro.Truncate, ValueCompletion: ro.ValueCompletion, CostControl: ro.CostControl, SuppressFetch: ro.SuppressFetch, ReplaceVarErr: ro.ReplaceVarErr}
	drawCtxOpts(r, root, o)
	o.SkipLoader = false
	if withBody {
		if ro.ForwardExt && pct(r, 80) || pct(r, 10) {
			b := subgraphExtensionBodies[r.IntN(len(subgraphExtensionBodies))]
			o.BodyExtensions, o.ExtKeyEscapes = b.body, b.escapes
		}
		if pct(r, 35) {
			o.BodyErrors = subgraphErrorBodies[r.IntN(len(subgraphErrorBodies))]
		}
	}
	return o
}
