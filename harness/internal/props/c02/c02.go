// Package c02 — C02: the rendered response is well-formed and type-safe whatever subgraphs return.
//
// Runtime monitor: generated response plan trees × payloads built from the tree and then spoiled at
// recorded positions are rendered by the real code (resolve.Resolvable, resolve.Resolver with a
// static data source, ExecutionEngine with the real planner); the written bytes are judged by an
// independent reference (oracle.go).
package c02

import (
	"bytes"
	"fmt"
	"math/rand/v2"
	"strings"

	"verifharness/internal/fw"

	"github.com/wundergraph/graphql-go-tools/v2/pkg/engine/resolve"
)

type c02 struct{ fw.Base }

func init() { fw.Register(c02{}) }

func (c02) ID() string             { return "C02" }
func (c02) CrashIsViolation() bool { return true }
func (c02) Race() bool             { return false }
func (c02) CaseTimeout(string) int { return 300 }

func (c02) Rule() string {
	return "case kinds: (S) a generated client schema (objects, interfaces, unions, enums incl. @inaccessible values, built-in / custom / BigInt / custom-resolve scalars, lists nested up to depth 3 with every nullability mix; odd cases use the dense profile) and " + fmt.Sprint(treesPerCase) + " normalised operations over it, each turned into a response plan tree by a mirror of plan.Visitor.EnterField/resolveFieldValue/resolveOnTypeNames followed by the repository's own post-processor (merge_fields); some trees carry planner merge aliases (response key != data key). Per tree " + fmt.Sprint(variantsPerTree) + " payloads are built FROM the tree (well-typed by construction, runtime types drawn from PossibleTypes, legitimate nulls, extra keys, escape-heavy strings) and spoiled by 0-3 recorded offences (null, missing key, every wrong JSON kind, invalid / inaccessible enum value, unknown / missing / null / non-string __typename, array<->object), rendered through Resolvable.Init/Resolve and, for a slice, Resolver.ResolveGraphQLResponse with a static data source. (E) the same schemas and operations planned by the real normaliser + validator + planner + post-processor; the real plan tree is compared with the mirror's and used for the oracle while ExecutionEngine.Execute renders with a GraphQL data source whose transport returns the payload. Every render is judged by the F2 reference. (O) the option dimension, drawn from its own PRNG stream so that the base renders stay what they were: every (tree, payload) of the Resolvable driver is rendered a second time under a drawn non-default option set; per case one resolver-level option set is drawn for which a Resolver (S: 3 extra renders per tree) and an ExecutionEngine (E: every render repeated) are built, request-level options are drawn per render. Each option is on in a PRNG-determined share of these renders: ResolvableOptions truncate-floats (30%, 60% when the tree has Float leaves), value-completion-in-extensions (35%), cost control (20%), suppress-fetch-errors / replace-invalid-var-error (8%); Context RenameTypeNames of 1-2 type names of the tree (15%, 45% when a __typename is selected), identity field value renderer (15%), query plan / inline arguments (15%), trace / rate-limit / authorizer response extensions (10%), SkipLoader (2%); ResolverOptions subgraph-extension forwarding with allow-list and first/last-write (50% of cases; the subgraph then sends extensions incl. reserved, duplicate and escape-needing keys), subgraph-error shaping (pass-through / wrapped, propagate, rewrite paths, omit locations / extensions, allowed extension and error fields, service name, default code; 50% of cases; the subgraph sends errors next to data in 35% of those renders). Float payload values come from a table of fractions, small / large / at-and-beyond-int64 / negative integral floats, -0 and exponent spellings. A render is non-trivial when at least one response position was compared; distinct by hash of (tree, payload, option set)."
}

func (c02) Assumptions() []string {
	return []string{
		"kind-level conformance only: Int/Float positions require a JSON number (fractional Int values are not judged), ID/custom/BigInt/custom-resolve scalars accept any non-null JSON",
		"a null at a nullable position is a well-typed value; a missing key at a nullable position must render as null, whether an error accompanies it is not judged",
		"for ill-typed offences only what the statement says is demanded: type-safe output, surviving non-null leaves equal the payload's, every nulled position is an ancestor-or-self of an offence, every replacement is covered by an error whose path is the response path of an offending position; which ancestor takes the null is judged only for null/missing-only payloads",
		"number and order of errors, error messages and extensions are not judged; errors without a path are never counted as covering a replacement",
		"the runtime type of a concrete object position is its declared type when the payload carries no __typename",
		"field authorisation rules, @defer and __skipErrors markers are unused; value renderers other than the identity renderer are unused",
		"float truncation: GraphQL Float is an IEEE 754 double, so under ApolloCompatibilityTruncateFloatValues a rendered Float leaf must denote the same double as the payload's literal (it may be re-spelled without fraction / exponent; whether it is truncated is not judged); without the option numbers are compared exactly",
		"value completion: with ApolloCompatibilityValueCompletionInExtensions the entries of extensions.valueCompletion are read as the reports the statement asks of errors (same coverage and path demands, match fact channel=valueCompletion); such entries for well-typed data are counted, not judged",
		"RenameTypeNames: a selected __typename whose value is a configured From may be rendered as From or as its To; the runtime type used for type conditions is the payload's",
		"options that only add response extensions (query plan, trace, inline arguments, rate-limit / authorizer extension, forwarded subgraph extensions, cost control) must leave data and errors as without them; the content of extensions is not judged beyond being a JSON object",
		"SkipLoader deliberately renders data:null without loading: only syntax and envelope are judged (counted)",
		"when the subgraph itself sends errors, the loader's forwarding / wrapping of them per the error options is not judged: error paths, coverage of replacements by errors and errors-on-well-typed are skipped for those renders (counted); syntax, envelope, type safety, keys, surviving values, justification of nulled positions and the exact projection are still judged",
		"the root payload is always a JSON object (the loader, not the renderer, handles other shapes of a subgraph's data entry)",
	}
}

func (c02) RequiredCounters(string) []string {
	return []string{"renders", "renders_resolvable", "renders_resolver", "renders_engine", "class_clean", "class_null_only", "class_ill_typed", "offences_applied", "error_paths_checked", "positions_compared", "exact_compares", "trees", "trees_with_abstract", "trees_with_nested_list", "planner_trees_compared",
		"renders_with_options", "renders_with_options_resolvable", "renders_with_options_resolver", "renders_with_options_engine",
		"opt_truncate_floats", "opt_value_completion", "opt_cost_control", "opt_rename_typenames", "opt_field_renderer", "opt_query_plan", "opt_trace", "opt_inline_arguments", "opt_rate_limit_ext", "opt_authorizer_ext", "opt_skip_loader",
		"opt_forward_subgraph_extensions", "opt_subgraph_sends_extensions", "opt_subgraph_sends_errors", "opt_pass_through_errors",
		"floats_compared_under_truncation", "floats_integral_under_truncation", "floats_fractional_under_truncation", "floats_beyond_int64_under_truncation", "floats_respelled_under_truncation",
		"value_completion_entries", "value_completion_paths_checked", "replacements_covered_by_value_completion", "typenames_rendered_renamed", "responses_with_extensions"}
}

const (
	treesPerCase    = 10
	variantsPerTree = 11
	engineOps       = 4
	engineVariants  = 8
	quickS          = 270
	quickE          = 40
)

func (c02) NumCases(tier string) int {
	if tier == fw.Thorough {
		return (quickS + quickE) * 66
	}
	return quickS + quickE
}

type acc struct {
	res      *fw.Result
	keys     map[string]bool
	perClass map[string]int
	sample   map[string]any
}

func (a *acc) violate(kind, msg string, match map[string]string, detail map[string]any) {
	cls := kind
	for _, k := range []string{"panic", "doubled_last_element", "cause", "reason", "node", "rendered", "option", "channel", "double_distance"} {
		if v, ok := match[k]; ok {
			cls += "|" + k + "=" + v
		}
	}
	a.perClass[cls]++
	if a.perClass[cls] > 1 {
		a.res.Count("violations_suppressed_as_repeats", 1)
		return
	}
	a.res.Violate(kind, msg, match, detail)
}

type renderCase struct {
	driver string
	root   *resolve.Object
	tree   string // dump with names
	op     string
	j      *jv
	opaque map[*jv]bool
	offs   []offence
	opts   *renderOpts // nil: default options (the base renders)
}

// judge renders through the chosen driver result and applies the oracle.
func (a *acc) judge(rc renderCase, payload []byte, rr renderResult) {
	res := a.res
	res.Count("renders", 1)
	res.Count("renders_"+rc.driver, 1)
	class := classify(rc.offs)
	res.Count("class_"+strings.ReplaceAll(class, "-", "_"), 1)
	if class == classClean && len(rc.offs) > 0 {
		res.Count("class_clean_with_offended_nullable_nulls", 1)
	}
	withOpts := !rc.opts.isDefault()
	if withOpts {
		res.Count("renders_with_options", 1)
		res.Count("renders_with_options_"+rc.driver, 1)
		res.Count("renders_with_options_class_"+strings.ReplaceAll(class, "-", "_"), 1)
		for _, n := range rc.opts.names() {
			res.Count("opt_"+n, 1)
		}
	}
	detail := func() map[string]any {
		d := map[string]any{"driver": rc.driver, "tree": rc.tree, "payload": string(payload), "offences": rc.offs, "class": class}
		if rc.op != "" {
			d["operation"] = rc.op
		}
		if withOpts {
			d["options"] = rc.opts
		}
		return d
	}
	facts := func(m map[string]string) map[string]string {
		if m == nil {
			m = map[string]string{}
		}
		if rc.driver != "resolvable" {
			// the renderer is the same code behind every driver; only note the driver when it is not the direct one
			m["driver"] = rc.driver
		}
		if withOpts {
			// input-based: the render ran with a non-default option set (the witness lists it)
			m["non_default_options"] = "true"
		}
		return m
	}
	if rr.panicked {
		res.Count("panics", 1)
		d := detail()
		d["panic"] = rr.panicMsg
		d["stack"] = rr.stack
		a.violate("panic", "rendering panicked: "+rr.panicMsg, facts(map[string]string{"panic": rr.panicSig}), d)
		return
	}
	if rr.err != nil {
		res.Count("render_errors", 1)
		d := detail()
		d["error"] = rr.err.Error()
		d["output"] = clip(string(rr.out), 2000)
		a.violate("render.error", "no response: the renderer returned an error: "+clip(rr.err.Error(), 200), facts(map[string]string{}), d)
		return
	}
	v := checkRender(renderInput{root: rc.root, j: rc.j, opaque: rc.opaque, offs: rc.offs, out: rr.out, opts: rc.opts})
	for n, c := range v.counts {
		res.Count(n, c)
	}
	for set, items := range v.sets {
		for _, it := range items {
			res.Observe(set, it)
		}
	}
	res.Count("positions_compared", v.positions)
	res.Count("error_paths_checked", v.errorPaths)
	res.Count("errors_seen", v.errors)
	if v.exact {
		res.Count("exact_compares", 1)
	}
	if v.dataNull {
		res.Count("responses_with_data_null", 1)
	}
	if v.positions > 0 {
		k := fw.HashKey(rc.tree, payload, rc.opts.String())
		if len(a.keys) < 2000 {
			a.keys[k] = true
		}
	}
	for _, x := range v.viols {
		d := detail()
		d["output"] = clip(string(rr.out), 4000)
		if v.expectedSet {
			if v.expected == nil {
				d["expected_data"] = "null"
			} else {
				d["expected_data"] = clip(v.expected.String(), 4000)
			}
		}
		a.violate(x.kind, x.msg, facts(x.match), d)
	}
	if a.sample == nil && len(rc.offs) > 0 && len(rr.out) < 600 && len(payload) < 600 {
		a.sample = map[string]any{"driver": rc.driver, "tree": clip(rc.tree, 600), "payload": string(payload), "offences": rc.offs, "output": string(rr.out), "class": class}
	}
}

func marshal(j *jv) []byte {
	var sb bytes.Buffer
	j.marshalTo(&sb)
	return sb.Bytes()
}

// spoil applies 0..3 offences to a copy of nothing: j is mutated in place.
func (a *acc) spoil(r *rand.Rand, root *resolve.Object, j *jv, n int) (offs []offence, opaque map[*jv]bool) {
	opaque = map[*jv]bool{}
	for k := 0; k < n; k++ {
		pos := enumerate(root, j, opaque)
		if len(pos) == 0 {
			break
		}
		var of offence
		ok := false
		for try := 0; try < 6 && !ok; try++ {
			p := pos[r.IntN(len(pos))]
			// prefer deeper positions a little: they exercise propagation
			if len(p.resp) < 2 && r.IntN(3) == 0 {
				p = pos[r.IntN(len(pos))]
			}
			of, ok = applyOffence(r, p, opaque)
		}
		if !ok {
			continue
		}
		// an offence at an ancestor-or-self of earlier ones replaces them
		kept := offs[:0]
		for _, o := range offs {
			if !o.Resp.hasPrefix(of.Resp) {
				kept = append(kept, o)
			}
		}
		offs = append(kept, of)
		a.res.Count("offences_applied", 1)
		a.res.Count("offence_"+of.Kind, 1)
		if of.Harmless {
			a.res.Count("offences_at_nullable_position_harmless", 1)
		}
		if of.ListDepth >= 2 {
			a.res.Count("offences_inside_nested_list", 1)
		}
	}
	return offs, opaque
}

func numOffences(r *rand.Rand) int {
	x := r.IntN(100)
	switch {
	case x < 50:
		return 1
	case x < 80:
		return 2
	default:
		return 3
	}
}

// treeFacts: coarse properties for the counters.
func treeFacts(n resolve.Node, listDepth int, f *struct {
	abstract, nestedList, conds, parentConds bool
	maxList                                  int
}) {
	switch t := n.(type) {
	case *resolve.Object:
		if objAbstract(t) {
			f.abstract = true
		}
		for _, fl := range t.Fields {
			if fl.OnTypeNames != nil {
				f.conds = true
			}
			if fl.ParentOnTypeNames != nil {
				f.parentConds = true
			}
			treeFacts(fl.Value, 0, f)
		}
	case *resolve.Array:
		if listDepth+1 > f.maxList {
			f.maxList = listDepth + 1
		}
		if listDepth+1 >= 2 {
			f.nestedList = true
		}
		treeFacts(t.Item, listDepth+1, f)
	}
}

// addMergeAliases mimics plan.aliasConflictingMemberFields (active with relaxed nullability field
// merging): fields selected under a concrete member fragment of an abstract object keep their
// response name while the upstream key becomes __internal_merge_<Type>_<name>.
func addMergeAliases(r *rand.Rand, n resolve.Node) int {
	cnt := 0
	switch t := n.(type) {
	case *resolve.Object:
		for _, f := range t.Fields {
			if len(f.OnTypeNames) == 1 && objAbstract(t) && r.IntN(2) == 0 {
				if p := f.Value.NodePath(); len(p) == 1 && p[0] != "__typename" {
					if setPath(f.Value, []string{"__internal_merge_" + string(f.OnTypeNames[0]) + "_" + string(f.Name)}) {
						cnt++
					}
				}
			}
			cnt += addMergeAliases(r, f.Value)
		}
	case *resolve.Array:
		cnt += addMergeAliases(r, t.Item)
	}
	return cnt
}

func setPath(n resolve.Node, p []string) bool {
	switch t := n.(type) {
	case *resolve.Object:
		t.Path = p
	case *resolve.Array:
		t.Path = p
	case *resolve.String:
		if t.IsTypeName {
			return false
		}
		t.Path = p
	case *resolve.Integer:
		t.Path = p
	case *resolve.Float:
		t.Path = p
	case *resolve.Boolean:
		t.Path = p
	case *resolve.Enum:
		t.Path = p
	case *resolve.Scalar:
		t.Path = p
	case *resolve.BigInt:
		t.Path = p
	case *resolve.CustomNode:
		t.Path = p
	default:
		return false
	}
	return true
}

func (a *acc) noteTree(root *resolve.Object) {
	res := a.res
	res.Count("trees", 1)
	var f struct {
		abstract, nestedList, conds, parentConds bool
		maxList                                  int
	}
	treeFacts(root, 0, &f)
	if f.abstract {
		res.Count("trees_with_abstract", 1)
	}
	if f.nestedList {
		res.Count("trees_with_nested_list", 1)
	}
	if f.conds {
		res.Count("trees_with_type_conditions", 1)
	}
	if f.parentConds {
		res.Count("trees_with_parent_type_conditions", 1)
	}
	res.Count(fmt.Sprintf("trees_max_list_depth_%d", f.maxList), 1)
	res.Observe("tree_shapes", fw.HashKey(dumpTree(root, false)))
}

func (p c02) Run(c *fw.Ctx, idx int) fw.Result {
	res := fw.Result{}
	a := &acc{res: &res, keys: map[string]bool{}, perClass: map[string]int{}}
	per := quickS + quickE
	kind := "S"
	if idx%per >= quickS {
		kind = "E"
	}
	res.Count("cases_"+kind, 1)
	r := c.Rng(idx, "c02")
	// the option dimension draws from its own stream: the base cases stay what they were
	ro := c.Rng(idx, "c02-opts")
	caseRO := drawResolverOpts(ro)
	s := genSchema(r, schemaOpts{dense: idx%2 == 1})
	og := &opGen{r: r, s: s}
	mp := &miniPlanner{s: s}
	pg := &payloadGen{r: r}
	switch kind {
	case "S":
		optResolver, cancelOptResolver := newOptionResolver(caseRO)
		defer cancelOptResolver()
		for t := 0; t < treesPerCase; t++ {
			op := og.operation(1 + r.IntN(3))
			root := mp.plan(op)
			if r.IntN(10) == 0 {
				if n := addMergeAliases(r, root); n > 0 {
					res.Count("trees_with_merge_alias", 1)
				}
			}
			a.noteTree(root)
			tree := dumpTree(root, true)
			opText := op.String()
			for v := 0; v < variantsPerTree; v++ {
				nullRate := 10
				if v%4 == 3 {
					nullRate = 0
				}
				j := pg.object(root, nil, nullRate, true)
				var offs []offence
				opaque := map[*jv]bool{}
				if v >= 2 {
					offs, opaque = a.spoil(r, root, j, numOffences(r))
				}
				payload := marshal(j)
				rc := renderCase{driver: "resolvable", root: root, tree: tree, op: opText, j: j, opaque: opaque, offs: offs}
				a.judge(rc, payload, renderResolvable(root, payload, nil))
				// the same (tree, payload) under a drawn non-default option set
				rc.opts = drawDirectOpts(ro, root)
				a.judge(rc, payload, renderResolvable(root, payload, rc.opts))
				if v == 1 || v == 5 || v == 8 {
					rc.driver = "resolver"
					if v != 8 {
						rc.opts = nil
						a.judge(rc, payload, renderResolver(sharedResolver(), root, payload, nil))
					}
					rc.opts = drawViaResolverOpts(ro, root, caseRO, true)
					a.judge(rc, payload, renderResolver(optResolver, root, payload, rc.opts))
				}
			}
		}
	case "E":
		rig, err := newEngineRig(s, nil)
		if err != nil {
			res.Inconclusive = "engine-setup: " + clip(err.Error(), 300)
			res.Observe("engine_setup_errors", clip(err.Error(), 200))
			break
		}
		defer rig.cancel()
		optRig, err := newEngineRig(s, caseRO)
		if err != nil {
			res.Inconclusive = "engine-setup: " + clip(err.Error(), 300)
			res.Observe("engine_setup_errors", clip(err.Error(), 200))
			break
		}
		defer optRig.cancel()
		for t := 0; t < engineOps; t++ {
			op := og.operation(1 + r.IntN(3))
			opText := op.String()
			real, err := rig.realTree(opText)
			if err != nil {
				res.Count("planner_rejected_operations", 1)
				res.Observe("planner_rejections", clip(err.Error(), 160)+" :: "+clip(opText, 200))
				continue
			}
			mirror := mp.plan(op)
			res.Count("planner_trees_compared", 1)
			rd, md := dumpTree(real, true), dumpTree(mirror, true)
			if rd == md {
				res.Count("planner_tree_equals_mirror", 1)
			} else {
				res.Count("planner_tree_differs_from_mirror", 1)
				res.Observe("planner_tree_differences", clip(opText, 300)+"\n real:   "+clip(rd, 700)+"\n mirror: "+clip(md, 700))
			}
			a.noteTree(real)
			for v := 0; v < engineVariants; v++ {
				j := pg.object(real, nil, 10, true)
				var offs []offence
				opaque := map[*jv]bool{}
				if v >= 1 {
					offs, opaque = a.spoil(r, real, j, numOffences(r))
				}
				payload := marshal(j)
				rc := renderCase{driver: "engine", root: real, tree: rd, op: opText, j: j, opaque: opaque, offs: offs}
				before := rig.tr.calls
				rr := rig.execute(opText, payload, nil)
				if rig.tr.calls == before && !rr.panicked {
					res.Count("engine_runs_without_subgraph_call", 1)
				}
				a.judge(rc, payload, rr)
				rc.opts = drawViaResolverOpts(ro, real, caseRO, true)
				before = optRig.tr.calls
				rr = optRig.execute(opText, payload, rc.opts)
				if optRig.tr.calls == before && !rr.panicked {
					res.Count("engine_runs_without_subgraph_call", 1)
				}
				a.judge(rc, payload, rr)
			}
		}
	}
	for k := range a.keys {
		res.Keys = append(res.Keys, k)
	}
	res.Key = fw.HashKey("C02", idx, c.Seed)
	res.Nontrivial = len(a.keys) > 0
	if a.sample != nil {
		a.sample["case_kind"] = kind
		res.Sample = a.sample
	}
	return res
}
