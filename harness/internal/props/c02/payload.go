package c02

import (
	"fmt"
	"math/rand/v2"
	"strconv"

	"github.com/wundergraph/graphql-go-tools/v2/pkg/engine/resolve"
)

// ---- reading the plan tree (the meaning of T's annotations)

func nodeNullable(n resolve.Node) bool {
	switch n.(type) {
	case *resolve.StaticString:
		return false
	}
	return n.NodeNullable()
}

func dataKey(n resolve.Node) (string, bool) {
	if _, ok := n.(*resolve.StaticString); ok {
		return "", false
	}
	p := n.NodePath()
	if len(p) != 1 {
		return "", false
	}
	return p[0], true
}

// objAbstract: the object stands for an interface/union position (same reading as the plan's
// PossibleTypes/TypeName annotations).
func objAbstract(o *resolve.Object) bool {
	if len(o.PossibleTypes) > 1 {
		return true
	}
	if len(o.PossibleTypes) == 1 {
		_, self := o.PossibleTypes[o.TypeName]
		return !self
	}
	return false
}

// fieldSelected: does field f apply given the runtime types of the enclosing objects
// (stack[len-1] = the object holding f; "" = unknown).
func fieldSelected(f *resolve.Field, stack []string) bool {
	for _, layer := range f.ParentOnTypeNames {
		i := len(stack) - 1 - layer.Depth
		if i < 0 || stack[i] == "" {
			return false
		}
		ok := false
		for _, n := range layer.Names {
			if string(n) == stack[i] {
				ok = true
				break
			}
		}
		if !ok {
			return false
		}
	}
	if f.OnTypeNames != nil {
		if len(stack) == 0 || stack[len(stack)-1] == "" {
			return false
		}
		ok := false
		for _, n := range f.OnTypeNames {
			if string(n) == stack[len(stack)-1] {
				ok = true
				break
			}
		}
		if !ok {
			return false
		}
	}
	return true
}

// runtimeType reads the runtime type of an object value against its plan node. valid=false: the
// value cannot be an instance of the position's type (unknown type, or an abstract position
// without a usable __typename).
func runtimeType(o *resolve.Object, v *jv) (rt string, valid bool) {
	tn := v.get("__typename")
	if tn != nil && tn.k == jStr {
		rt = tn.s
		if len(o.PossibleTypes) > 0 {
			if _, ok := o.PossibleTypes[rt]; !ok {
				return rt, false
			}
		}
		return rt, true
	}
	if objAbstract(o) {
		return "", false
	}
	// concrete position: the runtime type is the declared one
	if len(o.PossibleTypes) == 1 {
		return o.TypeName, true
	}
	return "", true
}

// ---- clean payload j0 from T

type payloadGen struct {
	r *rand.Rand
}

var trickyStrings = []string{"", "a", "hello world", "ünïcødé", "quote\"d", "back\\slash", "line\nbreak\ttab", "\u0000\u001f", "<&>", "  ", "😀 emoji", "{\"json\":\"inside\"}", "null", "true", "123", "[1,2]", "/slash/", "\u007f"}

var rawStrings = [][2]string{{`"\u00e9"`, "é"}, {`"\/"`, "/"}, {`"\ud83d\ude00"`, "😀"}, {`"\u0061A"`, "aA"}, {`"\b\f\r"`, "\b\f\r"}}

func (g *payloadGen) str() *jv {
	if g.r.IntN(8) == 0 {
		p := rawStrings[g.r.IntN(len(rawStrings))]
		return &jv{k: jStr, s: p[1], raw: p[0]}
	}
	if g.r.IntN(3) == 0 {
		return jstr(trickyStrings[g.r.IntN(len(trickyStrings))])
	}
	return jstr(fmt.Sprintf("s%d", g.r.IntN(1000)))
}

var intLits = []string{"0", "1", "-1", "42", "2147483647", "-2147483648", "7", "100"}

// floatLits: Float payload values. Beyond ordinary fractions the table holds what makes the float
// options matter: integral floats (small, large, at and beyond the int64 range, negative, -0),
// non-integral ones, and exponent spellings of both.
var floatLits = []string{"1.5", "-0.25", "3", "0.0", "1e3", "1E-2", "-12.75", "2.5e+2", "123456.789",
	// integral, small
	"2.0", "-7.0", "100", "0", "-0.0", "4.000", "1E2", "1e+0", "12e1", "0.5e1", "0e0", "-1.0e0",
	// integral, large but inside the int64 range
	"9007199254740992", "9007199254740993", "-9007199254740993.0", "4611686018427387904", "9.2e18", "-9223372036854775808", "1e15", "123456789012.0", "-9.2E+18",
	// integral, at / beyond the int64 range (2^63 = 9223372036854775808)
	"9223372036854775807", "9223372036854775808", "-9223372036854775809", "1e19", "-3e25", "12345678901234567890", "-1e19", "18446744073709551616", "1.5e300", "-1.7976931348623157e308", "9.3e18",
	// non-integral
	"0.1", "1e-7", "-2.5E-3", "5e-324", "3.141592653589793", "1234567.5", "-0.000001", "9007199254740992.5",
}

func (g *payloadGen) anyJSON(depth int) *jv {
	switch g.r.IntN(7) {
	case 0:
		return g.str()
	case 1:
		return jnum(intLits[g.r.IntN(len(intLits))])
	case 2:
		return jnum(floatLits[g.r.IntN(len(floatLits))])
	case 3:
		return jbool(g.r.IntN(2) == 0)
	case 4:
		if depth > 1 {
			return jstr("deep")
		}
		o := jobj()
		n := g.r.IntN(3)
		for i := 0; i < n; i++ {
			o.set(fmt.Sprintf("k%d", i), g.anyJSONOrNull(depth+1))
		}
		return o
	case 5:
		if depth > 1 {
			return jnum("5")
		}
		a := &jv{k: jArr, a: []*jv{}}
		n := g.r.IntN(3)
		for i := 0; i < n; i++ {
			a.a = append(a.a, g.anyJSONOrNull(depth+1))
		}
		return a
	default:
		return jstr("2024-01-01T00:00:00Z")
	}
}

func (g *payloadGen) anyJSONOrNull(depth int) *jv {
	if g.r.IntN(5) == 0 {
		return jnull()
	}
	return g.anyJSON(depth)
}

func typeCandidates(o *resolve.Object) []string {
	if len(o.PossibleTypes) > 0 {
		return sortedKeys(o.PossibleTypes)
	}
	set := map[string]struct{}{}
	for _, f := range o.Fields {
		for _, n := range f.OnTypeNames {
			set[string(n)] = struct{}{}
		}
	}
	if len(set) > 0 {
		return sortedKeys(set)
	}
	if o.TypeName != "" {
		return []string{o.TypeName}
	}
	return nil
}

// value builds a well-typed value for node. stack = runtime types of the enclosing objects.
// nullRate (percent) is the chance that a nullable position is a legitimate null.
func (g *payloadGen) value(n resolve.Node, stack []string, nullRate int) *jv {
	if nodeNullable(n) && g.r.IntN(100) < nullRate {
		return jnull()
	}
	switch t := n.(type) {
	case *resolve.Object:
		return g.object(t, stack, nullRate, false)
	case *resolve.Array:
		a := &jv{k: jArr, a: []*jv{}}
		x := g.r.IntN(100)
		l := 2
		switch {
		case x < 12:
			l = 0
		case x < 45:
			l = 1
		case x < 85:
			l = 2
		default:
			l = 3
		}
		for i := 0; i < l; i++ {
			a.a = append(a.a, g.value(t.Item, stack, nullRate))
		}
		return a
	case *resolve.String:
		if t.IsTypeName {
			if len(stack) > 0 && stack[len(stack)-1] != "" {
				return jstr(stack[len(stack)-1])
			}
			return jstr("Unknown")
		}
		return g.str()
	case *resolve.Integer:
		return jnum(intLits[g.r.IntN(len(intLits))])
	case *resolve.Float:
		return jnum(floatLits[g.r.IntN(len(floatLits))])
	case *resolve.Boolean:
		return jbool(g.r.IntN(2) == 0)
	case *resolve.Enum:
		var ok []string
		for _, v := range t.Values {
			if !contains(t.InaccessibleValues, v) {
				ok = append(ok, v)
			}
		}
		if len(ok) == 0 {
			return jstr("NOVALUE")
		}
		return jstr(ok[g.r.IntN(len(ok))])
	case *resolve.BigInt:
		if g.r.IntN(2) == 0 {
			return jnum("1152921504606846976")
		}
		return jstr("1152921504606846976")
	case *resolve.Scalar, *resolve.CustomNode:
		return g.anyJSON(0)
	}
	return jnull()
}

func (g *payloadGen) object(o *resolve.Object, stack []string, nullRate int, root bool) *jv {
	out := jobj()
	rt := ""
	if !root {
		if c := typeCandidates(o); len(c) > 0 {
			rt = c[g.r.IntN(len(c))]
		}
	}
	st := append(append([]string(nil), stack...), rt)
	needTN := false
	if rt != "" {
		needTN = objAbstract(o) || len(o.PossibleTypes) == 0 || g.r.IntN(5) < 2
		for _, f := range o.Fields {
			if s, ok := f.Value.(*resolve.String); ok && s.IsTypeName && len(s.Path) == 1 && s.Path[0] == "__typename" {
				needTN = true
			}
		}
	}
	tnLast := g.r.IntN(5) == 0
	if needTN && !tnLast {
		out.set("__typename", jstr(rt))
	}
	for _, f := range o.Fields {
		if !fieldSelected(f, st) {
			continue
		}
		k, ok := dataKey(f.Value)
		if !ok || out.has(k) {
			continue
		}
		out.set(k, g.value(f.Value, st, nullRate))
	}
	if needTN && tnLast {
		out.set("__typename", jstr(rt))
	}
	if g.r.IntN(6) == 0 {
		out.set("zz_extra", g.anyJSONOrNull(1))
	}
	return out
}

// ---- positions and offences

type position struct {
	resp      rpath
	data      rpath // the same position spelled with the payload's keys
	node      resolve.Node
	parent    *jv
	key       string
	idx       int
	inArray   bool
	val       *jv  // nil = key missing
	aliasDiff bool // some element of resp is a response key that differs from the data key
	listDepth int  // number of enclosing list levels within the current field (0 = a field position)
}

type offence struct {
	Resp      rpath  `json:"-"`
	Data      rpath  `json:"-"`
	Path      string `json:"path"`
	Kind      string `json:"kind"`
	NodeKind  string `json:"node"`
	Nullable  bool   `json:"nullable_position"`
	Benign    bool   `json:"benign"`   // a legitimate value for the position (null at a nullable position)
	Harmless  bool   `json:"harmless"` // null or missing key at a nullable position: nothing has to be replaced or reported
	NullClass bool   `json:"null_or_missing"`
	AliasDiff bool   `json:"response_key_differs_from_data_key"`
	ListDepth int    `json:"list_depth"`
	InArray   bool   `json:"is_list_item"`
}

func nodeKindName(n resolve.Node) string {
	switch t := n.(type) {
	case *resolve.Object:
		if objAbstract(t) {
			return "abstract-object"
		}
		return "object"
	case *resolve.Array:
		return "list"
	case *resolve.String:
		if t.IsTypeName {
			return "typename"
		}
		return "String"
	case *resolve.Integer:
		return "Int"
	case *resolve.Float:
		return "Float"
	case *resolve.Boolean:
		return "Boolean"
	case *resolve.Enum:
		return "enum"
	case *resolve.BigInt:
		return "BigInt"
	case *resolve.Scalar:
		return "scalar"
	case *resolve.CustomNode:
		return "custom"
	case *resolve.StaticString:
		return "static"
	}
	return fmt.Sprintf("%T", n)
}

// enumerate lists the positions of T under the current payload, walking only where the payload
// still conforms (it stops at null / missing / ill-typed values and at opaque objects).
func enumerate(root *resolve.Object, j *jv, opaque map[*jv]bool) []position {
	var out []position
	var visitObj func(o *resolve.Object, v *jv, resp, data rpath, stack []string, aliasDiff bool)
	var visit func(n resolve.Node, v *jv, resp, data rpath, stack []string, aliasDiff bool, listDepth int)
	visit = func(n resolve.Node, v *jv, resp, data rpath, stack []string, aliasDiff bool, listDepth int) {
		if v.isNull() {
			return
		}
		switch t := n.(type) {
		case *resolve.Object:
			if v.k == jObj && !opaque[v] {
				visitObj(t, v, resp, data, stack, aliasDiff)
			}
		case *resolve.Array:
			if v.k == jArr {
				for i, it := range v.a {
					out = append(out, position{resp: resp.withIdx(i), data: data.withIdx(i), node: t.Item, parent: v, idx: i, inArray: true, val: it, aliasDiff: aliasDiff, listDepth: listDepth + 1})
					visit(t.Item, it, resp.withIdx(i), data.withIdx(i), stack, aliasDiff, listDepth+1)
				}
			}
		}
	}
	visitObj = func(o *resolve.Object, v *jv, resp, data rpath, stack []string, aliasDiff bool) {
		rt, valid := runtimeType(o, v)
		if !valid {
			return
		}
		st := append(append([]string(nil), stack...), rt)
		seen := map[string]bool{}
		for _, f := range o.Fields {
			if !fieldSelected(f, st) {
				continue
			}
			k, ok := dataKey(f.Value)
			if !ok || seen[string(f.Name)] {
				continue
			}
			seen[string(f.Name)] = true
			ad := aliasDiff || k != string(f.Name)
			child := v.get(k)
			r := resp.withKey(string(f.Name))
			d := data.withKey(k)
			if k == "__typename" && objAbstract(o) {
				// the runtime type marker of an abstract object: offended through the object-level typename offences
				continue
			}
			out = append(out, position{resp: r, data: d, node: f.Value, parent: v, key: k, val: child, aliasDiff: ad})
			visit(f.Value, child, r, d, st, ad, 0)
		}
	}
	visitObj(root, j, nil, nil, nil, false)
	return out
}

var wrongKinds = map[string][]string{
	"String":          {"number", "bool", "array", "object"},
	"typename":        {"number", "bool"},
	"Int":             {"string", "numeric-string", "bool", "array", "object"},
	"Float":           {"string", "numeric-string", "bool", "array", "object"},
	"Boolean":         {"string", "number", "array", "object"},
	"enum":            {"invalid-enum", "invalid-enum", "inaccessible-enum", "number", "bool", "array", "object"},
	"object":          {"string", "number", "bool", "array-empty", "array-of-object", "array-wrapping-self", "typename-unknown", "typename-unknown"},
	"abstract-object": {"string", "number", "array-empty", "array-wrapping-self", "typename-unknown", "typename-unknown", "typename-missing", "typename-missing", "typename-null", "typename-number"},
	"list":            {"string", "number", "bool", "object-empty", "object-indexed", "object-instead-of-list"},
}

// applyOffence mutates the payload at p. It returns the recorded offence, or ok=false when the
// chosen kind does not apply there.
func applyOffence(r *rand.Rand, p position, opaque map[*jv]bool) (offence, bool) {
	nk := nodeKindName(p.node)
	present := p.val != nil
	nonNull := present && p.val.k != jNull
	var kinds []string
	if nonNull {
		kinds = append(kinds, "null", "null")
		kinds = append(kinds, wrongKinds[nk]...)
	}
	if present && !p.inArray {
		kinds = append(kinds, "missing")
		if nonNull {
			kinds = append(kinds, "missing")
		}
	}
	if len(kinds) == 0 {
		return offence{}, false
	}
	kind := kinds[r.IntN(len(kinds))]
	of := offence{Resp: p.resp, Data: p.data, Path: p.resp.String(), Kind: kind, NodeKind: nk, Nullable: nodeNullable(p.node), AliasDiff: p.aliasDiff, ListDepth: p.listDepth, InArray: p.inArray}
	put := func(v *jv) {
		if p.inArray {
			p.parent.a[p.idx] = v
		} else {
			p.parent.set(p.key, v)
		}
	}
	switch kind {
	case "null":
		put(jnull())
		of.NullClass = true
		of.Benign = of.Nullable
		of.Harmless = of.Nullable
	case "missing":
		p.parent.del(p.key)
		of.NullClass = true
		of.Harmless = of.Nullable
	case "string":
		put(jstr("wrong"))
	case "numeric-string":
		put(jstr("12"))
	case "number":
		put(jnum("42"))
	case "bool":
		put(jbool(false))
	case "array", "array-empty":
		if kind == "array" && r.IntN(2) == 0 {
			put(jarr(p.val))
		} else {
			put(&jv{k: jArr, a: []*jv{}})
		}
	case "array-of-object":
		o := jobj()
		o.set("zz", jnum("1"))
		put(jarr(o, jnull()))
	case "array-wrapping-self":
		put(jarr(p.val))
	case "object", "object-empty":
		put(jobj())
	case "object-indexed":
		o := jobj()
		for i, it := range p.val.a {
			o.set(strconv.Itoa(i), it)
		}
		put(o)
	case "object-instead-of-list":
		if len(p.val.a) > 0 && !p.val.a[0].isNull() {
			put(p.val.a[0])
			if p.val.a[0].k == jArr {
				// a list item that is itself a list would still be a list: use an object
				put(jobj())
			}
		} else {
			put(jobj())
		}
	case "invalid-enum":
		put(jstr("NOT_A_VALUE"))
	case "inaccessible-enum":
		e := p.node.(*resolve.Enum)
		if len(e.InaccessibleValues) == 0 {
			return offence{}, false
		}
		put(jstr(e.InaccessibleValues[0]))
	case "typename-unknown":
		o := p.node.(*resolve.Object)
		if len(o.PossibleTypes) == 0 || p.val.k != jObj {
			return offence{}, false
		}
		p.val.set("__typename", jstr("Zzz"))
		opaque[p.val] = true
	case "typename-missing":
		if p.val.k != jObj || !p.val.has("__typename") {
			return offence{}, false
		}
		p.val.del("__typename")
		opaque[p.val] = true
	case "typename-null":
		if p.val.k != jObj {
			return offence{}, false
		}
		p.val.set("__typename", jnull())
		opaque[p.val] = true
	case "typename-number":
		if p.val.k != jObj {
			return offence{}, false
		}
		p.val.set("__typename", jnum("42"))
		opaque[p.val] = true
	default:
		return offence{}, false
	}
	return of, true
}
