// Package props links every property implementation into the vcheck binary.
package props

import (
	_ "verifharness/internal/props/c01"
	_ "verifharness/internal/props/c02"
	_ "verifharness/internal/props/c03"
	_ "verifharness/internal/props/c04"
	_ "verifharness/internal/props/c05"
	_ "verifharness/internal/props/c06"
	_ "verifharness/internal/props/c07"
	_ "verifharness/internal/props/c08"
	_ "verifharness/internal/props/c10"
	_ "verifharness/internal/props/c09"
	_ "verifharness/internal/props/c11"
	_ "verifharness/internal/props/c12"
	_ "verifharness/internal/props/c13"
	_ "verifharness/internal/props/c14"
	_ "verifharness/internal/props/c15"
	_ "verifharness/internal/props/c16"
	_ "verifharness/internal/props/c17"
	_ "verifharness/internal/props/c18"
	_ "verifharness/internal/props/c19"
	_ "verifharness/internal/props/c20"
)
