// Package props links every property implementation into the vcheck binary.
package props

import (
	_ "verifharness/internal/props/c05"
)
