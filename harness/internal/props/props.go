// Package props links every property implementation into the binary.
package props
