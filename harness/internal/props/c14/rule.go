package c14

import (
	"bytes"
	"context"
	"encoding/json"
	"fmt"
	"io"
	"net/http"
	"strings"
	"sync"

	"github.com/wundergraph/graphql-go-tools/v2/pkg/ast"
	"github.com/wundergraph/graphql-go-tools/v2/pkg/engine/datasource/httpclient"
	"github.com/wundergraph/graphql-go-tools/v2/pkg/engine/plan"
	"github.com/wundergraph/graphql-go-tools/v2/pkg/engine/postprocess"
	"github.com/wundergraph/graphql-go-tools/v2/pkg/engine/resolve"

	"verifharness/internal/fw"
	"verifharness/internal/ref"
)

// The planner gives every mutation root field its own fetch, so generated operations never produce
// a mutation request with several root fields. The loader rule ("a mutation request is not sent
// when ANY root field is denied, a query request when ALL are") is therefore also enumerated on
// hand-built plans: one fetch with 1..3 root fields, every subset protected, every decision
// function, every authorizer mode, run through the real post-processor (which collects the
// coordinates) and the real Resolver/Loader with a recording data source.

type countingDS struct {
	mu    sync.Mutex
	calls int
	body  []byte
}

func (d *countingDS) Load(_ context.Context, _ http.Header, _ []byte) ([]byte, error) {
	d.mu.Lock()
	d.calls++
	d.mu.Unlock()
	return d.body, nil
}

func (d *countingDS) LoadWithFiles(ctx context.Context, h http.Header, in []byte, _ []*httpclient.FileUpload) ([]byte, error) {
	return d.Load(ctx, h, in)
}

type maskAuthorizer struct {
	rootType string
	deny     map[string]bool // field name → denied
	mu       sync.Mutex
	asked    int
}

func (a *maskAuthorizer) decide(c resolve.GraphCoordinate) *resolve.AuthorizationDeny {
	a.mu.Lock()
	a.asked++
	a.mu.Unlock()
	if c.TypeName == a.rootType && a.deny[c.FieldName] {
		return &resolve.AuthorizationDeny{Reason: denyReason}
	}
	return nil
}

func (a *maskAuthorizer) AuthorizePreFetch(_ *resolve.Context, _ string, _ json.RawMessage, c resolve.GraphCoordinate) (*resolve.AuthorizationDeny, error) {
	return a.decide(c), nil
}

func (a *maskAuthorizer) AuthorizeObjectField(_ *resolve.Context, _ string, _ json.RawMessage, c resolve.GraphCoordinate) (*resolve.AuthorizationDeny, error) {
	return a.decide(c), nil
}

func (a *maskAuthorizer) AuthorizeFields(_ *resolve.Context, cs []resolve.GraphCoordinate) ([]resolve.AuthorizationDecision, error) {
	out := make([]resolve.AuthorizationDecision, len(cs))
	for i, c := range cs {
		if dn := a.decide(c); dn != nil {
			out[i] = resolve.AuthorizationDecision{Allowed: false, Reason: dn.Reason}
		} else {
			out[i] = resolve.AuthorizationDecision{Allowed: true}
		}
	}
	return out, nil
}

func (p c14) runLoaderRule(c *fw.Ctx, idx int, mutation bool) fw.Result {
	res := fw.Result{}
	res.Count("cases_loader_rule", 1)
	opType, rootType, opKind := ast.OperationTypeQuery, "Query", "query"
	if mutation {
		opType, rootType, opKind = ast.OperationTypeMutation, "Mutation", "mutation"
	}
	ctx, cancel := context.WithCancel(context.Background())
	defer cancel()
	resolver := resolve.New(ctx, resolve.ResolverOptions{MaxConcurrency: 8, PropagateSubgraphErrors: true})
	var keys []string
	run := 0
	for n := 1; n <= 3; n++ {
		for prot := 0; prot < 1<<n; prot++ {
			for deny := 0; deny < 1<<n; deny++ {
				if deny&^prot != 0 {
					continue
				}
				for _, mode := range []string{"field", "prefetch", "both"} {
					for _, nullable := range []bool{true, false} {
						run++
						names := make([]string, n)
						sentinels := make([]string, n)
						var body strings.Builder
						body.WriteString(`{"data":{`)
						for i := 0; i < n; i++ {
							names[i] = fmt.Sprintf("f%d", i)
							sentinels[i] = fmt.Sprintf("SENTINEL-%s.%s-%d-%d", rootType, names[i], idx, run)
							if i > 0 {
								body.WriteByte(',')
							}
							fmt.Fprintf(&body, "%q:%q", names[i], sentinels[i])
						}
						body.WriteString(`}}`)
						ds := &countingDS{body: []byte(body.String())}
						auth := &maskAuthorizer{rootType: rootType, deny: map[string]bool{}}
						resp := &resolve.GraphQLResponse{Info: &resolve.GraphQLResponseInfo{OperationType: opType}, Data: &resolve.Object{}}
						var roots []resolve.GraphCoordinate
						nDenied := 0
						for i := 0; i < n; i++ {
							protected := prot&(1<<i) != 0
							if deny&(1<<i) != 0 {
								auth.deny[names[i]] = true
								nDenied++
							}
							roots = append(roots, resolve.GraphCoordinate{TypeName: rootType, FieldName: names[i], HasAuthorizationRule: protected})
							resp.Data.Fields = append(resp.Data.Fields, &resolve.Field{
								Name:  []byte(names[i]),
								Value: &resolve.String{Path: []string{names[i]}, Nullable: nullable},
								Info: &resolve.FieldInfo{Name: names[i], NamedType: "String", ParentTypeNames: []string{rootType}, ExactParentTypeName: rootType,
									Source: resolve.TypeFieldSource{IDs: []string{"s0"}, Names: []string{"s0"}}, HasAuthorizationRule: protected},
							})
						}
						sf := &resolve.SingleFetch{
							FetchDependencies: resolve.FetchDependencies{FetchID: 0},
							FetchConfiguration: resolve.FetchConfiguration{
								Input:      `{"op":"x"}`,
								DataSource: ds,
								PostProcessing: resolve.PostProcessingConfiguration{
									SelectResponseDataPath:   []string{"data"},
									SelectResponseErrorsPath: []string{"errors"},
								},
							},
							Info: &resolve.FetchInfo{DataSourceID: "s0", DataSourceName: "s0", OperationType: opType, RootFields: roots},
						}
						resp.RawFetches = append(resp.RawFetches, resolve.FetchItemWithPath(sf, ""))
						postprocess.NewProcessor().Process(&plan.SynchronousResponsePlan{Response: resp})
						rctx := resolve.NewContext(context.Background())
						if mode == "field" || mode == "both" {
							rctx.SetAuthorizer(authExt{auth})
						}
						if mode == "prefetch" || mode == "both" {
							rctx.SetPreFetchFieldAuthorizer(auth)
						}
						var buf bytes.Buffer
						var rerr error
						desc := map[string]any{"operation_type": opKind, "root_fields": names, "protected_mask": prot, "denied_mask": deny, "mode": mode, "nullable_fields": nullable}
						fw.SetContext(desc)
						if run%2 == 0 {
							_, rerr = resolver.ArenaResolveGraphQLResponse(rctx, resp, &buf)
						} else {
							_, rerr = resolver.ResolveGraphQLResponse(rctx, resp, nil, &buf)
						}
						res.Count("loader_rule_executions", 1)
						res.Count("executions_"+mode+"_mode", 1)
						if mutation {
							res.Count("mutation_executions", 1)
						}
						ds.mu.Lock()
						calls := ds.calls
						ds.mu.Unlock()
						out := buf.String()
						desc["response"] = out
						desc["data_source_calls"] = calls
						match := map[string]string{"mode": mode, "operation_kind": opKind, "hand_built_plan": "true", "root_fields": fmt.Sprint(n)}
						if rerr != nil {
							res.Violate("execute-error", "the resolver fails under an authorization decision: "+rerr.Error(), match, desc)
							continue
						}
						// request rule
						if mode != "field" {
							res.Count("requests_rule_checked", 1)
							res.Count("loader_rule_requests_checked", 1)
							if mutation {
								res.Count("mutation_requests_rule_checked", 1)
								if nDenied > 0 && nDenied < n {
									res.Count("loader_rule_mutation_partially_denied", 1)
								}
							}
							switch {
							case mutation && nDenied > 0 && calls > 0:
								res.Violate("request-sent", "a mutation request was sent although a root field of it is denied ("+mode+" mode, hand-built plan)", withFacts(match, "rule", "mutation-any", "denied_root_fields", fmt.Sprint(nDenied)), desc)
							case !mutation && nDenied == n && calls > 0:
								res.Violate("request-sent", "a query request was sent although all of its root fields are denied ("+mode+" mode, hand-built plan)", withFacts(match, "rule", "all-denied"), desc)
							case calls == 0 && nDenied == 0:
								res.Count("loader_rule_request_suppressed_without_denial", 1)
							}
							if calls == 0 {
								res.Count("requests_suppressed", 1)
								res.Count("prefetch_requests_suppressed", 1)
							}
						}
						// response: denied fields null/absent, reported, sentinel-free
						dv, derr := ref.DecodeJSON([]byte(out))
						m, _ := ref.NormalizeJSON(dv).(map[string]any)
						if derr != nil || m == nil {
							res.Violate("execute-error", "the response is not a JSON object", match, desc)
							continue
						}
						data, _ := m["data"].(map[string]any)
						errs, _ := m["errors"].([]any)
						for i := 0; i < n; i++ {
							if deny&(1<<i) == 0 {
								continue
							}
							res.Count("denied_positions_checked", 1)
							res.Count("sentinel_tags_searched", 1)
							if strings.Contains(out, sentinels[i]) {
								res.Violate("sentinel-in-response", "the response bytes contain data of the denied coordinate "+rootType+"."+names[i]+" ("+mode+" mode, hand-built plan)", match, desc)
							}
							if data != nil && data[names[i]] != nil {
								res.Violate("denied-value-present", "a non-null value at a position whose coordinate "+rootType+"."+names[i]+" is denied ("+mode+" mode, hand-built plan)", match, desc)
								continue
							}
							found := false
							any_ := false
							for _, e := range errs {
								ep := errPath(e)
								if len(ep) == 1 && ep[0] == names[i] {
									found = true
								}
								if len(ep) == 1 && strings.HasPrefix(ep[0], "f") || ep == nil && hasAuthCode(e) {
									// a denial, or the non-null failure of a sibling whose (unsent) request delivered nothing
									any_ = true
								}
							}
							switch {
							case found:
								res.Count("denial_errors_matched", 1)
							case data == nil && any_:
								// non-null fields: the whole data is null and a failure inside it is reported
								res.Count("denied_positions_swallowed_by_reported_denial", 1)
							default:
								res.Violate("denial-not-reported", "a denied position is null but no error carries its path ("+mode+" mode, hand-built plan)", withFacts(match, "swallowed", "false"), desc)
							}
						}
						if nDenied > 0 {
							keys = append(keys, fw.HashKey("rule", opKind, n, prot, deny, mode, nullable))
						}
						if res.Sample == nil && nDenied > 0 && nDenied < n && mode == "prefetch" {
							res.Sample = desc
						}
					}
				}
			}
		}
	}
	res.Count("exhaustive_decision_spaces", 1)
	res.Keys = keys
	res.Key = fw.HashKey("c14-rule", idx)
	res.Nontrivial = len(keys) > 0
	return res
}

// authExt completes maskAuthorizer to a resolve.Authorizer.
type authExt struct{ *maskAuthorizer }

func (authExt) HasResponseExtensionData(*resolve.Context) bool { return false }

func (authExt) RenderResponseExtension(*resolve.Context, io.Writer) error { return nil }
