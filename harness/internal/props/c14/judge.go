package c14

import (
	"encoding/json"
	"fmt"
	"sort"
	"strings"

	gast "github.com/vektah/gqlparser/v2/ast"

	"github.com/wundergraph/graphql-go-tools/execution/engine"
	"github.com/wundergraph/graphql-go-tools/v2/pkg/engine/resolve"

	"verifharness/internal/fed"
	"verifharness/internal/fw"
	"verifharness/internal/ref"
)

// violate records a violation; per case only the first witness of every class (kind + the facts
// that distinguish defects) is kept, the rest is counted.
func (e *caseEnv) violate(res *fw.Result, kind, msg string, match map[string]string, detail any) {
	key := kind
	for _, f := range []string{"rule", "direction", "swallowed", "deferred", "request_after_initial_frame", "entity_request", "entity_types_below_abstract_field", "same_object_field_reported_at_another_position", "panic", "tracing"} {
		key += "|" + match[f]
	}
	if e.violSeen == nil {
		e.violSeen = map[string]int{}
	}
	e.violSeen[key]++
	res.Count("violations_"+kind, 1)
	if e.violSeen[key] > 1 {
		res.Count("violation_witnesses_beyond_first_of_class_in_case", 1)
		return
	}
	res.Violate(kind, msg, match, detail)
}

// view is what the client received: the single response, or the merge of all incremental frames.
type view struct {
	data    any
	hasData bool
	errors  []any  // every error entry of every frame (initial, incremental items, completed entries)
	bytes   string // every byte written
	frames  int
	problem string // frames that cannot be merged (harness cannot judge)
	// orphans: incremental items whose target position is null or absent in the result delivered so far
	orphans []string
	// failed: deferred fragments completed with errors (anchor path of the pending entry, error paths)
	failed []failedFragment
	// firstFlush: logical clock (transport ticks) of the flush of the initial frame (0 = single response)
	firstFlush int64
}

type failedFragment struct {
	anchor []string
	errors []any
}

func viewOf(r *fed.Result) *view {
	v := viewOf0(r)
	if r2, ok := flushTicks.LoadAndDelete(r); ok && len(r.Frames) > 0 {
		if ts := r2.([]int64); len(ts) > 0 {
			v.firstFlush = ts[0]
		}
	}
	return v
}

func viewOf0(r *fed.Result) *view {
	if len(r.Frames) == 0 {
		v := &view{hasData: r.HasData, errors: r.Errors, bytes: r.Raw, frames: 1}
		if r.HasData {
			v.data = ref.NormalizeJSON(r.Data)
		}
		return v
	}
	return mergeFrames(r.Frames)
}

func jsonPath(p any) []any {
	pa, _ := p.([]any)
	out := make([]any, 0, len(pa))
	for _, el := range pa {
		switch x := el.(type) {
		case string:
			out = append(out, x)
		case int64:
			out = append(out, int(x))
		case float64:
			out = append(out, int(x))
		default:
			out = append(out, fmt.Sprint(x))
		}
	}
	return out
}

func lookup(data any, path []any) (any, bool) {
	cur := data
	for _, el := range path {
		switch x := cur.(type) {
		case map[string]any:
			v, ok := x[fmt.Sprint(el)]
			if !ok {
				return nil, false
			}
			cur = v
		case []any:
			n, ok := el.(int)
			if !ok || n < 0 || n >= len(x) {
				return nil, false
			}
			cur = x[n]
		default:
			return nil, false
		}
	}
	return cur, true
}

func deepMerge(dst, src map[string]any) {
	for k, sv := range src {
		dv, has := dst[k]
		if !has {
			dst[k] = sv
			continue
		}
		switch s := sv.(type) {
		case map[string]any:
			if d, ok := dv.(map[string]any); ok {
				deepMerge(d, s)
				continue
			}
		case []any:
			if d, ok := dv.([]any); ok && len(d) == len(s) {
				for i := range s {
					sm, ok1 := s[i].(map[string]any)
					dm, ok2 := d[i].(map[string]any)
					if ok1 && ok2 {
						deepMerge(dm, sm)
					} else if s[i] != nil {
						d[i] = s[i]
					}
				}
				continue
			}
		}
		if sv != nil {
			dst[k] = sv
		}
	}
}

// mergeFrames applies the incremental delivery frames ({data,errors,pending,hasNext} followed by
// {incremental:[{id,subPath,data,errors}],completed:[{id,errors}],pending,hasNext}) to one result.
func mergeFrames(frames []string) *view {
	v := &view{frames: len(frames), bytes: strings.Join(frames, "\n")}
	pending := map[string][]any{}
	addPending := func(m map[string]any) {
		ps, _ := m["pending"].([]any)
		for _, p := range ps {
			pm, _ := p.(map[string]any)
			if pm == nil {
				continue
			}
			pending[fmt.Sprint(pm["id"])] = jsonPath(pm["path"])
		}
	}
	for i, f := range frames {
		dv, err := ref.DecodeJSON([]byte(f))
		if err != nil {
			v.problem = fmt.Sprintf("frame %d is not JSON", i)
			return v
		}
		m, _ := ref.NormalizeJSON(dv).(map[string]any)
		if m == nil {
			v.problem = fmt.Sprintf("frame %d is not an object", i)
			return v
		}
		if es, ok := m["errors"].([]any); ok {
			v.errors = append(v.errors, es...)
		}
		if i == 0 {
			v.data, v.hasData = m["data"]
			addPending(m)
			continue
		}
		addPending(m)
		incs, _ := m["incremental"].([]any)
		for _, inc := range incs {
			im, _ := inc.(map[string]any)
			if im == nil {
				continue
			}
			if es, ok := im["errors"].([]any); ok {
				v.errors = append(v.errors, es...)
			}
			base, known := pending[fmt.Sprint(im["id"])]
			if !known {
				v.problem = "incremental item for an id that was never pending"
				return v
			}
			path := append(append([]any{}, base...), jsonPath(im["subPath"])...)
			src, _ := im["data"].(map[string]any)
			if src == nil {
				continue
			}
			target, ok := lookup(v.data, path)
			tm, isMap := target.(map[string]any)
			if !ok || !isMap {
				if len(v.orphans) < 5 {
					v.orphans = append(v.orphans, ref.PathKey(path)+" <- "+truncate(ref.Canon(src), 200))
				}
				continue
			}
			deepMerge(tm, src)
		}
		cs, _ := m["completed"].([]any)
		for _, c := range cs {
			cm, _ := c.(map[string]any)
			if es, ok := cm["errors"].([]any); ok {
				v.errors = append(v.errors, es...)
				if anchor, known := pending[fmt.Sprint(cm["id"])]; known && len(es) > 0 {
					v.failed = append(v.failed, failedFragment{anchor: pathStrings(anchor), errors: es})
				}
			}
		}
	}
	return v
}

// judge executes the operation under (d, mode) and applies every oracle. It returns whether the
// execution was non-trivial.
func (p c14) judge(res *fw.Result, env *caseEnv, oc *opCase, d *decision, mode string, prof fed.Profile, detail func(map[string]any) map[string]any) bool {
	rec := newRecorder()
	var opts []engine.ExecutionOptions
	if mode == "field" || mode == "both" {
		opts = append(opts, engine.WithAuthorizer(&fieldAuthorizer{env: env, d: d, rec: rec}))
	}
	if mode == "prefetch" || mode == "both" {
		opts = append(opts, engine.WithPreFetchFieldAuthorizer(&batchAuthorizer{env: env, d: d, rec: rec}))
	}
	opKind := "query"
	if oc.mutation {
		opKind = "mutation"
	}
	deniedList := d.describe(env)
	hiddenDenied := false
	for c := range oc.hidden {
		if env.denied(d, c) {
			hiddenDenied = true
		}
	}
	match := map[string]string{"mode": mode, "operation_kind": opKind, "hidden_input_denied": fmt.Sprint(hiddenDenied), "protected_set": env.kind, "deferred": fmt.Sprint(oc.deferred)}
	if env.tracing {
		// request tracing on the resolve context (trace output not included in the response)
		opts = append(opts, engine.WithRequestTraceOptions(resolve.TraceOptions{Enable: true, EnablePredictableDebugTimings: true, Debug: true}))
		match["tracing"] = "on"
	}
	dbg("EXEC mode=%s decision=%s denied=%v op=%s", mode, d.name, deniedList, strings.Join(strings.Fields(oc.text), " "))
	got, pan := safeExecute(env.gw, oc.text, oc.vars, opts...)
	if debugOn && got != nil {
		for _, rq := range got.Requests {
			dbg("   REQ %s %s", rq.Subgraph, rq.Query)
		}
		dbg("   RESP %s%s", got.Raw, strings.Join(got.Frames, "\n        "))
	}
	res.Count("executions", 1)
	res.Count("executions_"+mode+"_mode", 1)
	if oc.mutation {
		res.Count("mutation_executions", 1)
	}
	if oc.deferred {
		res.Count("deferred_executions", 1)
	}
	if hiddenDenied {
		res.Count("hidden_coordinate_denied_runs", 1)
	}
	res.Observe("decision_kinds", strings.SplitN(d.name, "-", 2)[0])
	var gv *view
	full := func(extra map[string]any) map[string]any {
		m := map[string]any{"mode": mode, "decision": d.name, "denied": deniedList, "features": featureString(prof)}
		if got != nil {
			var reqDump []map[string]any
			for _, rq := range got.Requests {
				reqDump = append(reqDump, map[string]any{"subgraph": rq.Subgraph, "query": rq.Query, "variables": rq.Variables, "response": truncate(rq.Response, 400)})
			}
			m["requests"] = reqDump
			if len(got.Frames) > 0 {
				m["gateway_frames"] = truncate(strings.Join(got.Frames, "\n"), 4000)
			} else {
				m["gateway_response"] = truncate(got.Raw, 3000)
			}
		}
		for k, v := range extra {
			m[k] = v
		}
		return detail(m)
	}
	if pan != nil {
		env.violate(res, "panic", "the engine panicked under an authorization decision: "+pan.msg, withFacts(match, "panic", pan.sig), full(map[string]any{"stack": pan.stack}))
		return false
	}
	if got.Err != nil {
		env.violate(res, "execute-error", "Execute fails under an authorization decision although the authorizer-free run succeeds: "+got.Err.Error(), match, full(nil))
		return false
	}
	rec.mu.Lock()
	res.Count("authorizer_object_field_calls", int64(rec.objectFieldAsks))
	res.Count("authorizer_prefetch_calls", int64(rec.preFetchAsks))
	res.Count("batch_authorizer_calls", int64(rec.batchCalls))
	res.Count("batch_authorizer_coordinates", int64(len(rec.batchCoords)))
	res.Count("authorizer_asked_for_unprotected_coordinate", int64(len(rec.unprotected)))
	rec.mu.Unlock()

	gv = viewOf(got)
	if gv.problem != "" {
		res.Count("executions_not_judged_frames_not_mergeable", 1)
		res.Observe("frame_problem", gv.problem)
		// the bytes are judged all the same
		p.checkSentinels(res, env, d, mode, gv.bytes, false, match, full)
		return false
	}
	if gv.frames > 1 {
		res.Count("incremental_frames_observed", int64(gv.frames-1))
	}
	if len(gv.orphans) > 0 {
		// a deferred payload delivers data below a position that the initial response (or an earlier
		// payload) nulled: the null did not propagate "like any other null"
		env.violate(res, "null-propagation", "an incremental payload delivers data at a position that is null or absent in the result delivered so far ("+mode+" mode)", withFacts(match, "direction", "incremental-data-below-null"), full(map[string]any{"orphan_incremental_items": gv.orphans}))
	}
	gotData := gv.data

	// ---- (1) no non-null value at a denied position
	var leaks []leak
	checked := 0
	findDeniedValues(env, d, oc.prov, gotData, nil, &leaks, &checked)
	res.Count("response_positions_checked", int64(checked))
	for _, lk := range leaks {
		env.violate(res, "denied-value-present", "a non-null value at a position whose coordinate "+lk.coord+" is denied ("+mode+" mode)", withFacts(match, "coordinate_in_interface_family", fmt.Sprint(len(env.members[env.fam[lk.coord]]) > 1)), full(map[string]any{"position": lk.path, "coordinate": lk.coord, "value": lk.value}))
		break
	}

	// ---- (2) data equals the reference execution with denied coordinates failing
	// Fields computed by @requires from a denied input: the statement is silent about them. Where the
	// gateway returns null for them they are failed in the reference too; where it returns a value
	// (computed by the subgraph from whatever input it was sent) the value is not compared.
	// Fields fetched in the same entity request as such a field share its fate when the request
	// cannot be built (the input fetch was skipped): they may be null too, their values are compared.
	collateral := map[string]bool{} // PathKey → requires-dependent of a denied input, or co-fetched with one
	extra := map[string]bool{}
	var masked [][]any
	cofetched := map[string]bool{}
	for _, roots := range oc.entityReqs {
		hit := false
		for _, c := range roots {
			if env.requiresDeniedInput(d, c) {
				hit = true
			}
		}
		if hit {
			for _, c := range roots {
				cofetched[c] = true
			}
		}
	}
	nCofetchedNull := 0
	for pk, pv := range oc.prov {
		coord := pv.ParentType + "." + pv.Field
		derived := env.requiresDeniedInput(d, coord)
		if !derived && (!cofetched[coord] || env.denied(d, coord)) {
			continue
		}
		collateral[pk] = true
		pa := pathOfKey(pk, oc.prov)
		switch {
		case nullPrefix(gotData, pa) != -1:
			extra[pk] = true
			if !derived {
				nCofetchedNull++
			}
		case derived:
			masked = append(masked, pa)
		}
	}
	if len(collateral) > 0 {
		res.Count("executions_with_requires_dependent_of_denied_input", 1)
	}
	canonMasked := func(v any) string {
		if len(masked) == 0 {
			return ref.Canon(v)
		}
		c := deepCopy(ref.NormalizeJSON(v))
		for _, pa := range masked {
			setAt(c, pa, "<computed-from-denied-input>")
		}
		return ref.Canon(c)
	}
	want, werrs := p.expected(env, oc, d, nil)
	if !oc.deferred {
		// (with @defer the null propagation of a deferred fragment stops at the fragment, so the merged
		// result legitimately differs from the undeferred execution: only oracles 1, 3, 4, 5 apply)
		res.Count("responses_compared", 1)
		wantCanon := canonMasked(anyOf(want))
		gotCanon := canonMasked(gotData)
		if !gv.hasData {
			gotCanon = "<no data>"
			if want == nil {
				// errors without a data member: equivalent to data:null for this statement
				gotCanon = wantCanon
				res.Count("responses_without_data_member", 1)
			}
		}
		if gotCanon != wantCanon && len(extra) > 0 {
			want2, werrs2 := p.expected(env, oc, d, extra)
			if c2 := canonMasked(anyOf(want2)); c2 == gotCanon || (!gv.hasData && want2 == nil) {
				want, werrs, wantCanon = want2, werrs2, c2
				if !gv.hasData {
					gotCanon = wantCanon
				}
				res.Count("responses_with_null_requires_dependent_of_denied_input", 1)
				if nCofetchedNull > 0 {
					res.Count("responses_with_null_fields_cofetched_with_requires_dependent_of_denied_input", 1)
				}
			}
		}
		if len(masked) > 0 {
			res.Count("responses_with_requires_dependent_computed_despite_denied_input", 1)
		}
		if gotCanon != wantCanon && len(leaks) == 0 {
			dir := "other"
			switch {
			case isNullRefinement(ref.NormalizeJSON(anyOf(want)), gotData):
				dir = "over-null"
			case isNullRefinement(gotData, ref.NormalizeJSON(anyOf(want))):
				dir = "under-null"
			}
			env.violate(res, "null-propagation", "data under an authorization decision differs from the reference execution with the denied fields failing ("+dir+", "+mode+" mode)", withFacts(match, "direction", dir), full(map[string]any{"expected": truncate(wantCanon, 3000), "observed": truncate(gotCanon, 3000), "first_difference": firstDiff(wantCanon, gotCanon)}))
		}
	}

	// ---- (3) every denied position the reference visits is reported
	nDenied := p.checkErrors(res, env, oc, d, mode, gv, werrs, collateral, match, full)

	// ---- (4) sentinels
	p.checkSentinels(res, env, d, mode, gv.bytes, len(leaks) > 0, match, full)

	// ---- (5) request rule
	suppressed := p.checkRequests(res, env, oc, d, mode, got, gv.firstFlush, rec, prof, match, full)

	// tracing must not change what the client receives: same data, same errors as the execution of
	// the same (decision, mode) without tracing
	var es []string
	for _, e := range gv.errors {
		es = append(es, ref.Canon(e))
	}
	sort.Strings(es)
	sig := fmt.Sprint(gv.hasData) + "|" + ref.Canon(gotData) + "|" + strings.Join(es, ";")
	sigKey := d.name + "\x00" + strings.Join(deniedList, ",") + "\x00" + mode
	if oc.sigs == nil {
		oc.sigs = map[string]string{}
	}
	if !env.tracing {
		oc.sigs[sigKey] = sig
	} else {
		res.Count("executions_with_tracing", 1)
		if plain, ok := oc.sigs[sigKey]; ok {
			res.Count("tracing_responses_compared_with_untraced", 1)
			if plain != sig {
				env.violate(res, "tracing-changes-response", "with request tracing enabled the response under the same authorization decision carries other data or errors ("+mode+" mode)", match, full(map[string]any{"untraced": truncate(plain, 3000), "traced": truncate(sig, 3000), "first_difference": firstDiff(plain, sig)}))
			}
		}
	}

	nontrivial := nDenied > 0 || suppressed > 0
	if nontrivial && res.Sample == nil && nDenied > 0 && suppressed > 0 {
		res.Sample = map[string]any{"layout": env.l.Describe, "case_kind": env.kind, "operation": oc.text, "variables": string(oc.vars), "mode": mode, "denied": deniedList, "denied_positions": nDenied, "requests_authorizer_free": len(oc.base.Requests), "requests_sent": len(got.Requests), "response": truncate(gv.bytes, 700)}
	}
	return nontrivial
}

// checkErrors: every denied position the reference execution visits must be reported. Returns the
// number of denied visited positions.
func (c14) checkErrors(res *fw.Result, env *caseEnv, oc *opCase, d *decision, mode string, gv *view, werrs []ref.ExecError, collateral map[string]bool, match map[string]string, full func(map[string]any) map[string]any) int {
	gotData := gv.data
	var gotPaths [][]string
	for _, e := range gv.errors {
		gotPaths = append(gotPaths, errPath(e))
	}
	// explains: an error inside region whose own position is denied / a failed requires-dependent /
	// not a position of the reference
	explains := func(region []string) bool {
		for i, gp := range gotPaths {
			if gp == nil {
				if len(region) == 0 && hasAuthCode(gv.errors[i]) {
					// the whole data is null and a denial is reported without a path (request-level rejection)
					res.Count("swallowed_position_explained_by_pathless_authorization_error", 1)
					return true
				}
				continue
			}
			if ok, _ := hasPrefixPath(gp, region); !ok {
				continue
			}
			pk := "/" + strings.Join(gp, "/")
			if pv, ok := oc.prov[pk]; ok {
				if env.denied(d, pv.ParentType+"."+pv.Field) {
					return true
				}
				if collateral[pk] {
					res.Count("swallowed_position_explained_by_failed_requires_dependent", 1)
					return true
				}
				continue
			}
			res.Count("swallowed_position_explained_by_error_at_unknown_position", 1)
			return true
		}
		return false
	}
	nDenied := 0
	for _, we := range werrs {
		if !strings.HasPrefix(we.Message, deniedMsgPrefix) {
			continue
		}
		nDenied++
		res.Count("denied_positions_checked", 1)
		wp := pathStrings(we.Path)
		z := nullPrefix(gotData, we.Path)
		switch {
		case z == -1:
			// non-null: reported by oracle 1
			res.Count("denied_positions_not_null_in_response", 1)
		case z == -2:
			// the position does not exist in the result
			if !oc.deferred {
				// shape mismatch: reported by oracle 2
				res.Count("denied_positions_absent_in_response", 1)
				continue
			}
			// deferred fragment that was not delivered: its completed entry (or any frame) must carry
			// a denial below the deepest existing ancestor
			n := len(we.Path)
			for n > 0 {
				if _, ok := lookup(gotData, we.Path[:n]); ok {
					break
				}
				n--
			}
			if explains(wp[:n]) {
				res.Count("denied_positions_in_undelivered_deferred_fragment", 1)
				continue
			}
			// or a reported denial of a non-null field of an enclosing object: undeferred, its null
			// propagation would have swallowed this position
			enclosing := false
			for _, gp := range gotPaths {
				if len(gp) == 0 || len(gp)-1 > len(wp) {
					continue
				}
				if ok, _ := hasPrefixPath(wp, gp[:len(gp)-1]); !ok {
					continue
				}
				pv, ok := oc.prov["/"+strings.Join(gp, "/")]
				if !ok || !env.denied(d, pv.ParentType+"."+pv.Field) {
					continue
				}
				if def := env.super.Types[pv.ParentType]; def != nil {
					if fd := def.Fields.ForName(pv.Field); fd != nil && fd.Type.NonNull {
						enclosing = true
						break
					}
				}
			}
			if enclosing {
				res.Count("denied_positions_in_undelivered_deferred_fragment_below_reported_non_null_denial", 1)
				continue
			}
			// or a failed fragment (completed with errors) anchored at an ancestor reports a denial: the
			// whole fragment, with this position in it, was dropped
			inFailed := false
			// failedClass: what the failed fragments anchored above this position report instead (match fact)
			failedClass := "no-failed-fragment"
			for _, ff := range gv.failed {
				if ok, _ := hasPrefixPath(wp, ff.anchor); !ok {
					continue
				}
				if failedClass == "no-failed-fragment" {
					failedClass = "other-error"
				}
				for _, e := range ff.errors {
					if em, _ := json.Marshal(e); strings.Contains(string(em), "unable to merge results from subgraph") && strings.Contains(string(em), "differing types") {
						failedClass = "merge-differing-types"
					}
					ep := errPath(e)
					if ep == nil {
						continue
					}
					pk := "/" + strings.Join(ep, "/")
					if pv, ok := oc.prov[pk]; !ok || env.denied(d, pv.ParentType+"."+pv.Field) || collateral[pk] {
						inFailed = true
					}
				}
			}
			if inFailed {
				res.Count("denied_positions_in_failed_deferred_fragment_reporting_a_denial", 1)
				continue
			}
			env.violate(res, "denial-not-reported", "a denied position of an undelivered deferred fragment has no reported denial below its parent ("+mode+" mode)", withFacts(withFacts(match, "swallowed", "undelivered-fragment"), "failed_fragment_reports", failedClass), full(map[string]any{"position": ref.PathKey(we.Path), "gateway_errors": gv.errors}))
		case z == len(we.Path):
			found, len1 := false, false
			for _, gp := range gotPaths {
				if len(gp) != len(wp) {
					continue
				}
				if ok, l := hasPrefixPath(gp, wp); ok {
					found, len1 = true, l
					break
				}
			}
			if found {
				res.Count("denial_errors_matched", 1)
				if len1 {
					res.Count("denial_errors_matched_through_merge_alias", 1)
				}
				continue
			}
			env.violate(res, "denial-not-reported", "a denied position is null but no error carries its path ("+mode+" mode)", withFacts(match, "swallowed", "false"), full(map[string]any{"position": ref.PathKey(we.Path), "coordinate": strings.TrimPrefix(we.Message, deniedMsgPrefix), "gateway_errors": gv.errors}))
		default:
			// swallowed by the null propagation of another failure: the nulled region must contain a
			// reported denial
			region := wp[:z]
			if explains(region) {
				res.Count("denied_positions_swallowed_by_reported_denial", 1)
				continue
			}
			// fact: is the denial of the same (object, field, arguments) reported at another response
			// position (the same entity occurring twice in the response)
			elsewhere := false
			if pv, ok := oc.prov[ref.PathKey(we.Path)]; ok {
				key := fed.ProvKey(pv.ParentType, pv.ObjID, pv.Field, pv.Args)
				for _, gp := range gotPaths {
					if gp == nil {
						continue
					}
					if qv, ok := oc.prov["/"+strings.Join(gp, "/")]; ok && fed.ProvKey(qv.ParentType, qv.ObjID, qv.Field, qv.Args) == key {
						elsewhere = true
					}
				}
			}
			env.violate(res, "denial-not-reported", "a denied position was swallowed by null propagation but no denial is reported inside the nulled region ("+mode+" mode)", withFacts(match, "swallowed", "true", "same_object_field_reported_at_another_position", fmt.Sprint(elsewhere)), full(map[string]any{"position": ref.PathKey(we.Path), "nulled_region": "/" + strings.Join(region, "/"), "gateway_errors": gv.errors}))
		}
	}
	// errors with the authorization code at positions that are not denied: observation only
	for i, e := range gv.errors {
		m, _ := e.(map[string]any)
		ext, _ := m["extensions"].(map[string]any)
		if code, _ := ext["code"].(string); code != "UNAUTHORIZED_FIELD_OR_TYPE" {
			res.Count("errors_without_authorization_code", 1)
			continue
		}
		res.Count("authorization_errors_seen", 1)
		gp := gotPaths[i]
		if gp == nil {
			res.Count("authorization_errors_without_path", 1)
			continue
		}
		unreached := false
		for _, el := range gp {
			if el == "@" {
				unreached = true
			}
		}
		if unreached {
			res.Count("authorization_errors_at_unreached_positions", 1)
			continue
		}
		if pv, ok := oc.prov["/"+strings.Join(gp, "/")]; ok {
			if !env.denied(d, pv.ParentType+"."+pv.Field) {
				res.Count("authorization_errors_at_allowed_positions", 1)
				res.Observe("authorization_error_at_allowed_position", mode+" "+pv.ParentType+"."+pv.Field)
			}
		} else {
			res.Count("authorization_errors_at_positions_absent_from_reference", 1)
		}
	}
	return nDenied
}

func hasAuthCode(e any) bool {
	m, _ := e.(map[string]any)
	ext, _ := m["extensions"].(map[string]any)
	code, _ := ext["code"].(string)
	return code == "UNAUTHORIZED_FIELD_OR_TYPE"
}

// checkSentinels: no tag of a denied String/ID coordinate anywhere in the bytes written.
func (c14) checkSentinels(res *fw.Result, env *caseEnv, d *decision, mode, raw string, leaked bool, match map[string]string, full func(map[string]any) map[string]any) {
	for fi, on := range d.denyFam {
		if !on || !env.protFam[fi] {
			continue
		}
		for _, coord := range env.members[fi] {
			dot := strings.IndexByte(coord, '.')
			def := env.super.Types[coord[:dot]]
			if def == nil || def.Kind != gast.Object {
				continue
			}
			fd := def.Fields.ForName(coord[dot+1:])
			if fd == nil || !taggable(fd) {
				continue
			}
			res.Count("sentinel_tags_searched", 1)
			tag := coord + "#"
			n := strings.Count(raw, tag)
			if n == 0 {
				continue
			}
			// inside the value of a field computed from it by @requires: `req:T.g#id(\"T.f#id/hhhh\")`
			nDerived := strings.Count(raw, `(\"`+tag) + strings.Count(raw, `(\"id:`+tag)
			if n == nDerived {
				res.Count("sentinel_only_inside_requires_derived_value", 1)
				continue
			}
			at := strings.Index(raw, tag)
			lo, hi := at-80, at+80
			if lo < 0 {
				lo = 0
			}
			if hi > len(raw) {
				hi = len(raw)
			}
			env.violate(res, "sentinel-in-response", "the response bytes contain data of the denied coordinate "+coord+" ("+mode+" mode)", withFacts(match, "at_response_position", fmt.Sprint(leaked)), full(map[string]any{"coordinate": coord, "context": raw[lo:hi]}))
			return
		}
	}
}

// checkRequests applies the request rule (up-front modes) to every recorded subgraph request and
// returns the number of requests of the authorizer-free run that were not sent.
func (c14) checkRequests(res *fw.Result, env *caseEnv, oc *opCase, d *decision, mode string, got *fed.Result, firstFlush int64, rec *recorder, prof fed.Profile, match map[string]string, full func(map[string]any) map[string]any) int {
	sent := map[string]bool{}
	suppressed := 0
	for _, rq := range got.Requests {
		sent[rq.Subgraph+"\x00"+rq.Query] = true
	}
	for k := range oc.baseReqs {
		if !sent[k] {
			suppressed++
		}
	}
	res.Count("requests_observed", int64(len(got.Requests)))
	res.Count("requests_suppressed", int64(suppressed))
	for _, rq := range got.Requests {
		ri := env.infoOf(rq)
		if ri.err != "" || len(ri.roots) == 0 {
			res.Count("requests_without_parsable_root_fields", 1)
			continue
		}
		nd := 0
		for _, c := range ri.roots {
			if env.denied(d, c) {
				nd++
			}
		}
		if mode == "field" {
			// the statement states the request rule for up-front authorization only
			if nd > 0 && ri.kind == "mutation" {
				res.Count("field_mode_mutation_request_sent_with_denied_root_field", 1)
			}
			if nd == len(ri.roots) {
				res.Count("field_mode_request_sent_with_all_root_fields_denied", 1)
			}
			continue
		}
		res.Count("requests_rule_checked", 1)
		if ri.kind == "mutation" {
			res.Count("mutation_requests_rule_checked", 1)
		}
		if ri.kind != "query" && nd == 0 || ri.kind == "query" && nd < len(ri.roots) {
			continue
		}
		// facts for known-finding matching: does the entity request serve objects below an
		// abstract-typed field of the operation
		submitted := 0
		belowAbstract := ri.entities
		rec.mu.Lock()
		for _, c := range ri.roots {
			if rec.batchCoords[c] {
				submitted++
			}
			if !oc.abstractReach[c[:strings.IndexByte(c, '.')]] {
				belowAbstract = false
			}
		}
		rec.mu.Unlock()
		rd := map[string]any{"subgraph": rq.Subgraph, "request": rq.Query, "root_fields": ri.roots, "root_coordinates_submitted_to_batch_authorizer": fmt.Sprintf("%d of %d", submitted, len(ri.roots))}
		facts := withFacts(match, "entity_request", fmt.Sprint(ri.entities), "entity_types_below_abstract_field", fmt.Sprint(belowAbstract), "request_after_initial_frame", fmt.Sprint(firstFlush > 0 && rq.Arrival > firstFlush))
		if ri.kind != "query" {
			facts["rule"] = "mutation-any"
			env.violate(res, "request-sent", "a "+ri.kind+" request was sent although a root field of it is denied ("+mode+" mode)", facts, full(rd))
		} else {
			facts["rule"] = "all-denied"
			env.violate(res, "request-sent", "a subgraph request was sent although all of its root fields are denied ("+mode+" mode)", facts, full(rd))
		}
	}
	if mode != "field" && suppressed > 0 {
		res.Count("prefetch_requests_suppressed", int64(suppressed))
		if oc.mutation {
			res.Count("prefetch_mutation_runs_with_suppressed_request", 1)
		}
	}
	return suppressed
}
