// Package c14: denied fields never reach the client and denied mutations never reach a subgraph.
package c14

import (
	"context"
	"encoding/json"
	"errors"
	"fmt"
	"io"
	"math/rand/v2"
	"os"
	"runtime/debug"
	"sort"
	"strings"
	"sync"

	"github.com/vektah/gqlparser/v2"
	gast "github.com/vektah/gqlparser/v2/ast"

	"github.com/wundergraph/graphql-go-tools/execution/engine"
	"github.com/wundergraph/graphql-go-tools/execution/graphql"
	"github.com/wundergraph/graphql-go-tools/v2/pkg/engine/plan"
	"github.com/wundergraph/graphql-go-tools/v2/pkg/engine/resolve"

	"verifharness/internal/fed"
	"verifharness/internal/fw"
	"verifharness/internal/gen"
	"verifharness/internal/ref"
)

type c14 struct{ fw.Base }

func init() { fw.Register(c14{}) }

func (c14) ID() string { return "C14" }
func (c14) NumCases(tier string) int {
	if tier == fw.Thorough {
		return 12000
	}
	return 800
}
func (c14) CaseTimeout(string) int { return 240 }

const (
	opsPerCase        = 5
	exhaustiveUpTo    = 4 // used protected families: every decision function over them is enumerated
	seededDecisions   = 7 // otherwise: all-allow, all-deny + this many generated decision functions
	denyReason        = "c14-policy"
	deniedMsgPrefix   = "DENIED "
	internalMergeName = "__internal_merge_"
)

func (c14) Rule() string {
	return "Case kinds by index. (a) idx 0,1 = loader request rule ENUMERATED on hand-built plans (the planner gives every mutation root field its own fetch, so generated operations never yield a mutation request with several root fields): one fetch with 1..3 root fields of Query (idx 0) / Mutation (idx 1) x every subset protected x every decision function over it x nullable / non-null fields x {per-field Authorizer, up-front BatchAuthorizer, both}, run through the real post-processor (coordinate collection) and the real Resolver/Loader (alternating ResolveGraphQLResponse / ArenaResolveGraphQLResponse) with a recording data source. " +
		"(b) all other indices = generated federation layout (as C01: 2-3 subgraphs, entities with keys, @requires, @provides, @shareable, interfaces/unions over entities, mutations) x a set P of protected coordinates configured as plan.FieldConfiguration.HasAuthorizationRule (all coordinates, or a seeded half) x " + fmt.Sprint(opsPerCase) + " valid operations (fragments on abstract types, aliases, duplicates, @skip/@include, variables; every third a mutation when the layout has them) x decision functions d: P -> {allow,deny}: EVERY function over the protected coordinate families the operation touches when there are <= " + fmt.Sprint(exhaustiveUpTo) + " of them, else all-allow, all-deny and " + fmt.Sprint(seededDecisions) + " generated ones (single touched family, seeded halves/quarters, all-but-one, exactly the entity-fetched fields, exactly the fields fetched only as @requires/@key inputs, only non-null fields, only root fields, only leaves, only composites, only keys) x authorizer modes {per-field resolve.Authorizer, up-front resolve.BatchAuthorizer, and (1 in 4) both}; idx%8 in {3,6}: P is an arbitrary set of OBJECT-type coordinates (every coordinate decided on its own, interface coordinates unprotected, operations never select a field on an interface, so the static and the runtime parent type of every position coincide); idx%8 = 7: @defer queries (every frame is merged by the incremental-delivery rules); else P and d are closed over interface families (Interface.f and every Implementer.f protected and decided alike). Executed by a real ExecutionEngine over in-process semantic subgraphs on a hash-defined universe whose String/ID values embed 'Type.field#' tags. " +
		"(c) idx%32 = 5: SUBSCRIPTION UPDATES: generated GraphQLSubscription plans (Subscription.ev: Event with leaf fields, an Item object and optionally a list of Items; nullability of every level seeded; aliases) shaped as planner output and run through the real post-processor (trigger appended to the fetch tree, protected coordinates collected), in two shapes - served by the trigger alone, or with an entity-style fetch to a second data source after every event - driven through Resolver.AsyncResolveGraphQLSubscription with a source emitting " + fmt.Sprint(subEvents) + " events and a recording writer; P = all selected coordinates or a seeded half, every decision function when <= " + fmt.Sprint(exhaustiveUpTo) + " protected coordinates (else all-allow, all-deny, every single one, 4 seeded halves) x the three authorizer modes; EVERY update is judged with oracles 1-4 against the reference execution of the selection over that event's data; request rule: with a denied subscription root field the source must not be started (up-front modes), the per-event fetch must not be sent when its root field is denied. " +
		"Option dimension (idx%4 = 0, generated-layout cases): every up-front-mode execution is repeated with request tracing enabled on the resolve context (engine.WithRequestTraceOptions, trace output not included in the response) and judged by all oracles, in particular the request rule at the subgraph boundary, plus: same data and errors as the untraced execution (fact tracing:on). " +
		"Ground truth: the coordinate of every response position comes from the provenance of the monolithic reference execution (independent parser/executor), never from the plan; the expected response is the reference execution with denied coordinates failing (error + null + spec null propagation); the root fields of a subgraph request are parsed from the recorded request text (fields of Query/Mutation, or of the entity fragments of _entities). " +
		"Oracles per execution: (1) no non-null value at a position whose coordinate is denied (initial response and merged deferred payloads); (2) data equals the expected data (null propagation like any other null; fields computed by @requires from a denied input, and fields fetched in the same entity request as such a field, may additionally be null and the value of such a computed field is not compared - counted; with @defer instead: no incremental payload addresses a position that is null or absent in the result delivered so far); (3) every denied position the reference visits has an error with exactly its path, or lies in a region nulled by propagation (or in a deferred fragment completed with errors) that contains a reported denial; (4) no tag of a denied coordinate in any byte written (tags inside an allowed @requires-derived value are counted apart); (5) up-front modes: no recorded subgraph request whose root fields are all denied, no mutation request with any denied root field. Operations whose authorizer-free run differs from the reference are left to C01 (counted). Non-trivial = an execution with >= 1 denied response position or >= 1 suppressed subgraph request; distinct by hash of (layout, P, operation, variables, decision, mode)."
}

func (c14) Assumptions() []string {
	return []string{
		"decision functions are data-independent functions of the coordinate (the engine memoises decisions per data source + coordinate by design)",
		"where a field can be selected through an interface, P and d are closed over the interface family (what composition emits), so the verdict does not depend on whether the engine keys a decision by the static or the runtime parent type; arbitrary (unclosed) sets of object-type coordinates are exercised only with operations that never select a field on an interface",
		"the per-field authorizer answers AuthorizePreFetch and AuthorizeObjectField from the same function d",
		"covered: the only response of queries and mutations, the initial response and every incremental payload of @defer queries, every update of subscriptions on generated plans at the resolver level (the federation rig has no subscriptions: planner-produced subscription plans, websocket/SSE transports and subscription filters are not driven); the statement does not promise delivery, so a missing update is counted, not judged",
		"the request rule is judged in the up-front modes only (the statement states it for up-front authorization); in per-field mode requests with denied root fields are only counted",
		"fields computed by @requires from a denied input (and fields fetched by the same entity request) are outside the statement: they may be null, or computed from whatever input the subgraph received; counted",
		"operations with a union-typed fragment inside a non-union parent (C01-F1) are not generated; operations the gateway already answers differently from the reference without any authorizer (C01 findings) are skipped and counted",
		"error paths through planner merge aliases (__internal_merge_*, C02-F4/F5) are matched leniently by suffix",
		"the sentinel oracle covers String and ID valued fields (universe values embed 'Type.field#'); entity key values (id) are embedded in every value of the entity by the universe and are judged by position only",
	}
}

func (c14) RequiredCounters(string) []string {
	return []string{"layouts", "operations", "executions_field_mode", "executions_prefetch_mode", "executions_both_mode", "denied_positions_checked", "denial_errors_matched", "denied_positions_swallowed_by_reported_denial", "sentinel_tags_searched", "requests_rule_checked", "mutation_requests_rule_checked", "requests_suppressed", "exhaustive_decision_spaces", "seeded_decision_spaces", "hidden_coordinate_denied_runs", "mutation_executions", "responses_compared", "loader_rule_executions", "loader_rule_mutation_partially_denied", "cases_closed", "cases_concrete", "cases_defer", "cases_subscription", "executions_with_tracing", "tracing_responses_compared_with_untraced", "subscription_updates_judged", "subscription_executions_served_by_trigger_alone", "subscription_executions_with_per_event_fetch", "subscription_triggers_not_started", "subscription_per_event_fetches_suppressed", "deferred_executions", "incremental_frames_observed", "response_positions_checked", "batch_authorizer_calls", "authorizer_object_field_calls"}
}

// ---------------------------------------------------------------------------------------------
// coordinates, families, decisions

type caseEnv struct {
	l        *fed.Layout
	super    *gast.Schema
	u        *ref.Universe
	gw       *fed.Gateway
	fam      map[string]int // coordinate → family index
	members  [][]string     // family → coordinates
	protFam  map[int]bool   // protected families
	reqCache map[string]*reqInfo
	kind     string // case kind
	violSeen map[string]int
	tracing  bool // the execution being judged runs with request tracing enabled
}

// buildFamilies groups coordinates: Interface.f with Implementer.f for every implementer.
func buildFamilies(s *gast.Schema, closed bool) (map[string]int, [][]string) {
	parent := map[string]string{}
	var find func(x string) string
	find = func(x string) string {
		for parent[x] != x {
			parent[x] = parent[parent[x]]
			x = parent[x]
		}
		return x
	}
	var names []string
	for n := range s.Types {
		names = append(names, n)
	}
	sort.Strings(names)
	var coords []string
	for _, n := range names {
		def := s.Types[n]
		if strings.HasPrefix(n, "__") || (def.Kind != gast.Object && def.Kind != gast.Interface) {
			continue
		}
		for _, f := range def.Fields {
			if strings.HasPrefix(f.Name, "__") {
				continue
			}
			c := n + "." + f.Name
			parent[c] = c
			coords = append(coords, c)
		}
	}
	for _, n := range names {
		def := s.Types[n]
		if !closed || def.Kind != gast.Object && def.Kind != gast.Interface {
			continue
		}
		for _, in := range def.Interfaces {
			idef := s.Types[in]
			if idef == nil {
				continue
			}
			for _, f := range idef.Fields {
				a, b := n+"."+f.Name, in+"."+f.Name
				if _, ok := parent[a]; !ok {
					continue
				}
				if _, ok := parent[b]; !ok {
					continue
				}
				parent[find(a)] = find(b)
			}
		}
	}
	fam := map[string]int{}
	var members [][]string
	idx := map[string]int{}
	for _, c := range coords {
		root := find(c)
		i, ok := idx[root]
		if !ok {
			i = len(members)
			idx[root] = i
			members = append(members, nil)
		}
		fam[c] = i
		members[i] = append(members[i], c)
	}
	return fam, members
}

type decision struct {
	name    string
	denyFam map[int]bool
}

func (e *caseEnv) denied(d *decision, coord string) bool {
	f, ok := e.fam[coord]
	return ok && e.protFam[f] && d.denyFam[f]
}

// requiresDeniedInput: coord is computed (@requires) from a sibling field whose coordinate is denied.
func (e *caseEnv) requiresDeniedInput(d *decision, coord string) bool {
	if e.l == nil {
		return false
	}
	fi := e.l.Fields[coord]
	if fi == nil || fi.Requires == "" {
		return false
	}
	dot := strings.IndexByte(coord, '.')
	return e.denied(d, coord[:dot]+"."+fi.Requires)
}

func (e *caseEnv) isProtected(coord string) bool {
	f, ok := e.fam[coord]
	return ok && e.protFam[f]
}

func (d *decision) describe(e *caseEnv) []string {
	var out []string
	for f := range d.denyFam {
		if d.denyFam[f] && e.protFam[f] {
			out = append(out, strings.Join(e.members[f], "="))
		}
	}
	sort.Strings(out)
	return out
}

// ---------------------------------------------------------------------------------------------
// authorizers handed to the engine

type recorder struct {
	mu              sync.Mutex
	objectFieldAsks int
	preFetchAsks    int
	batchCalls      int
	batchCoords     map[string]bool
	unprotected     map[string]bool
}

func newRecorder() *recorder {
	return &recorder{batchCoords: map[string]bool{}, unprotected: map[string]bool{}}
}

type fieldAuthorizer struct {
	env *caseEnv
	d   *decision
	rec *recorder
}

func (a *fieldAuthorizer) decide(c resolve.GraphCoordinate) *resolve.AuthorizationDeny {
	coord := c.TypeName + "." + c.FieldName
	if !a.env.isProtected(coord) {
		a.rec.mu.Lock()
		a.rec.unprotected[coord] = true
		a.rec.mu.Unlock()
		return nil
	}
	if a.env.denied(a.d, coord) {
		return &resolve.AuthorizationDeny{Reason: denyReason}
	}
	return nil
}

func (a *fieldAuthorizer) AuthorizePreFetch(_ *resolve.Context, _ string, _ json.RawMessage, c resolve.GraphCoordinate) (*resolve.AuthorizationDeny, error) {
	a.rec.mu.Lock()
	a.rec.preFetchAsks++
	a.rec.mu.Unlock()
	return a.decide(c), nil
}

func (a *fieldAuthorizer) AuthorizeObjectField(_ *resolve.Context, _ string, _ json.RawMessage, c resolve.GraphCoordinate) (*resolve.AuthorizationDeny, error) {
	a.rec.mu.Lock()
	a.rec.objectFieldAsks++
	a.rec.mu.Unlock()
	return a.decide(c), nil
}

func (a *fieldAuthorizer) HasResponseExtensionData(*resolve.Context) bool { return false }

func (a *fieldAuthorizer) RenderResponseExtension(*resolve.Context, io.Writer) error { return nil }

type batchAuthorizer struct {
	env *caseEnv
	d   *decision
	rec *recorder
}

func (b *batchAuthorizer) AuthorizeFields(_ *resolve.Context, cs []resolve.GraphCoordinate) ([]resolve.AuthorizationDecision, error) {
	out := make([]resolve.AuthorizationDecision, len(cs))
	b.rec.mu.Lock()
	b.rec.batchCalls++
	for _, c := range cs {
		b.rec.batchCoords[c.TypeName+"."+c.FieldName] = true
	}
	b.rec.mu.Unlock()
	for i, c := range cs {
		coord := c.TypeName + "." + c.FieldName
		if b.env.denied(b.d, coord) {
			out[i] = resolve.AuthorizationDecision{Allowed: false, Reason: denyReason}
		} else {
			out[i] = resolve.AuthorizationDecision{Allowed: true}
		}
	}
	return out, nil
}

// ---------------------------------------------------------------------------------------------
// subgraph request ground truth

type reqInfo struct {
	kind     string   // query | mutation | subscription
	roots    []string // coordinates of the root fields
	entities bool
	err      string
}

func collectRoots(sels gast.SelectionSet, parent string, out map[string]bool, ent *bool, depth int) {
	if depth > 16 {
		return
	}
	for _, s := range sels {
		switch x := s.(type) {
		case *gast.Field:
			if x.Name == "_entities" && depth == 0 {
				*ent = true
				collectRoots(x.SelectionSet, "_Entity", out, ent, depth+1)
				continue
			}
			if strings.HasPrefix(x.Name, "__") {
				continue
			}
			p := parent
			if x.ObjectDefinition != nil {
				p = x.ObjectDefinition.Name
			}
			out[p+"."+x.Name] = true
		case *gast.InlineFragment:
			p := parent
			if x.TypeCondition != "" {
				p = x.TypeCondition
			}
			collectRoots(x.SelectionSet, p, out, ent, depth+1)
		case *gast.FragmentSpread:
			if x.Definition != nil {
				collectRoots(x.Definition.SelectionSet, x.Definition.TypeCondition, out, ent, depth+1)
			}
		}
	}
}

func (e *caseEnv) infoOf(rq *fed.Request) *reqInfo {
	key := rq.Subgraph + "\x00" + rq.Query
	if ri, ok := e.reqCache[key]; ok {
		return ri
	}
	ri := &reqInfo{}
	e.reqCache[key] = ri
	srv := e.gw.Servers[rq.Subgraph]
	if srv == nil {
		ri.err = "unknown subgraph"
		return ri
	}
	doc, gerrs := gqlparser.LoadQuery(srv.Schema, rq.Query)
	if gerrs != nil || len(doc.Operations) == 0 {
		ri.err = "request text not valid for the subgraph schema"
		return ri
	}
	op := doc.Operations[0]
	ri.kind = string(op.Operation)
	root := "Query"
	if op.Operation == gast.Mutation {
		root = "Mutation"
	}
	set := map[string]bool{}
	collectRoots(op.SelectionSet, root, set, &ri.entities, 0)
	for c := range set {
		ri.roots = append(ri.roots, c)
	}
	sort.Strings(ri.roots)
	return ri
}

// ---------------------------------------------------------------------------------------------

func varsJSON(vals map[string]*gen.Val) []byte {
	m := map[string]any{}
	for k, v := range vals {
		x, _ := v.JSON(nil)
		m[k] = x
	}
	b, _ := json.Marshal(m)
	return b
}

func featureString(p fed.Profile) string {
	var fs []string
	add := func(b bool, s string) {
		if b {
			fs = append(fs, s)
		}
	}
	add(p.Interface, "interface")
	add(p.Union, "union")
	add(p.Requires, "requires")
	add(p.Provides, "provides")
	add(p.Shareable, "shareable")
	add(p.Mutation, "mutation")
	return fmt.Sprintf("s%d:", p.Subgraphs) + strings.Join(fs, "+")
}

func truncate(s string, n int) string {
	if len(s) > n {
		return s[:n] + "…"
	}
	return s
}

func anyOf(m map[string]any) any {
	if m == nil {
		return nil
	}
	return m
}

func withFacts(m map[string]string, kv ...string) map[string]string {
	out := map[string]string{}
	for a, b := range m {
		out[a] = b
	}
	for i := 0; i+1 < len(kv); i += 2 {
		out[kv[i]] = kv[i+1]
	}
	return out
}

type panicInfo struct{ msg, sig, stack string }

// flushTicks: result → logical clock of every writer flush (the transport's clock, so that flushes
// and request arrivals are ordered on one clock).
var flushTicks sync.Map

// execute is fed.Gateway.Execute with the flush clock recorded.
func execute(gw *fed.Gateway, ctx context.Context, query string, vars []byte, opts ...engine.ExecutionOptions) *fed.Result {
	gw.Transport.Reset()
	w := graphql.NewEngineResultWriter()
	res := &fed.Result{}
	var fmu sync.Mutex
	var ticks []int64
	w.SetFlushCallback(func(data []byte) {
		fmu.Lock()
		res.Frames = append(res.Frames, string(data))
		ticks = append(ticks, gw.Transport.Tick())
		fmu.Unlock()
	})
	req := &graphql.Request{Query: query, Variables: vars}
	res.Err = gw.Engine.Execute(ctx, req, &w, opts...)
	res.Raw = w.String()
	res.Requests = gw.Transport.Log()
	fmu.Lock()
	if len(ticks) > 0 {
		flushTicks.Store(res, append([]int64(nil), ticks...))
	}
	fmu.Unlock()
	if res.Err == nil && len(res.Frames) == 0 {
		v, err := ref.DecodeJSON([]byte(res.Raw))
		if err != nil {
			res.Err = fmt.Errorf("response is not valid JSON: %v", err)
			return res
		}
		if m, ok := v.(map[string]any); ok {
			res.Data, res.HasData = m["data"]
			res.Errors, _ = m["errors"].([]any)
		}
	}
	return res
}

func safeExecute(gw *fed.Gateway, text string, vars []byte, opts ...engine.ExecutionOptions) (res *fed.Result, p *panicInfo) {
	defer func() {
		if r := recover(); r != nil {
			st := string(debug.Stack())
			p = &panicInfo{msg: fmt.Sprint(r), sig: fw.PanicSignature(fmt.Sprint(r), st), stack: truncate(st, 5000)}
		}
	}()
	return execute(gw, context.Background(), text, vars, opts...), nil
}

var debugOn = os.Getenv("C14_DEBUG") != ""

func dbg(format string, a ...any) {
	if debugOn {
		fmt.Fprintf(os.Stderr, format+"\n", a...)
	}
}

// opCase is everything known about one operation before decisions are applied.
type opCase struct {
	text     string
	vars     []byte
	gop      *gast.OperationDefinition
	cv       map[string]any
	root     *ref.Obj
	mutation bool
	resolver ref.FieldResolver   // data of the reference execution (nil = the layout's reference resolver)
	deferred bool                // the operation uses @defer: frames are merged, data equality is not demanded
	A        map[string]any      // all-allow reference data
	prov     map[string]ref.Prov // provenance of every field position of A
	base     *fed.Result         // authorizer-free gateway run
	// coordinates
	posCoords    map[string]bool   // coordinates (runtime parent type) of response positions
	staticCoords map[string]bool   // coordinates by static parent type of every field of the operation
	fetchCoords  map[string]bool   // coordinates resolved by subgraph requests of the authorizer-free run
	entityRoots  map[string]bool   // root coordinates of _entities requests of the authorizer-free run
	entityReqs   [][]string        // root coordinates per _entities request of the authorizer-free run
	hidden       map[string]bool   // fetched but never at a response position nor selected statically (@requires / @key inputs)
	usedFams     []int             // protected families touched by any of the above
	baseReqs     map[string]bool   // subgraph + query of the authorizer-free run
	sigs         map[string]string // (decision, mode) → data+errors of the untraced execution
	// abstractReach: object types reachable as runtime type of a field of the operation whose static
	// return type is an interface or a union
	abstractReach map[string]bool
}

func abstractReachOf(s *gast.Schema, sels gast.SelectionSet, out map[string]bool, seen map[string]bool) {
	for _, sel := range sels {
		switch x := sel.(type) {
		case *gast.Field:
			if x.Definition != nil && x.Definition.Type != nil {
				if def := s.Types[x.Definition.Type.Name()]; def != nil && (def.Kind == gast.Interface || def.Kind == gast.Union) {
					for _, pt := range s.GetPossibleTypes(def) {
						out[pt.Name] = true
					}
				}
			}
			abstractReachOf(s, x.SelectionSet, out, seen)
		case *gast.InlineFragment:
			abstractReachOf(s, x.SelectionSet, out, seen)
		case *gast.FragmentSpread:
			if x.Definition != nil && !seen[x.Name] {
				seen[x.Name] = true
				abstractReachOf(s, x.Definition.SelectionSet, out, seen)
			}
		}
	}
}

func staticCoordsOf(sels gast.SelectionSet, out map[string]bool, seen map[string]bool) {
	for _, s := range sels {
		switch x := s.(type) {
		case *gast.Field:
			if !strings.HasPrefix(x.Name, "__") && x.ObjectDefinition != nil {
				out[x.ObjectDefinition.Name+"."+x.Name] = true
			}
			staticCoordsOf(x.SelectionSet, out, seen)
		case *gast.InlineFragment:
			staticCoordsOf(x.SelectionSet, out, seen)
		case *gast.FragmentSpread:
			if x.Definition != nil && !seen[x.Name] {
				seen[x.Name] = true
				staticCoordsOf(x.Definition.SelectionSet, out, seen)
			}
		}
	}
}

// case kinds by index: 0,1 = enumerated hand-built plans (loader request rule); then by idx%8:
// idx%32 = 5: subscription updates on generated subscription plans (sub.go);
// 3,6 = unclosed P over object-type coordinates (fields never selected through an interface);
// 7 = @defer queries; the rest = P closed over interface families.
func caseKind(idx int) string {
	switch {
	case idx == 0:
		return "rule-query"
	case idx == 1:
		return "rule-mutation"
	}
	if idx%32 == 5 {
		return "subscription"
	}
	switch idx % 8 {
	case 3, 6:
		return "concrete"
	case 7:
		return "defer"
	}
	return "closed"
}

func (p c14) Run(c *fw.Ctx, idx int) fw.Result {
	kind := caseKind(idx)
	switch kind {
	case "rule-query":
		return p.runLoaderRule(c, idx, false)
	case "rule-mutation":
		return p.runLoaderRule(c, idx, true)
	case "subscription":
		return p.runSubscriptions(c, idx)
	}
	res := fw.Result{}
	res.Count("cases_"+kind, 1)
	r := c.Rng(idx, "c14")
	prof := fed.RandomProfile(r)
	// the features this property is about occur more often than in C01
	if r.IntN(2) == 0 {
		prof.Requires = true
	}
	if r.IntN(2) == 0 {
		prof.Mutation = true
	}
	if r.IntN(3) == 0 || kind == "concrete" {
		prof.Interface = true
	}
	l := fed.GenLayout(r, prof)
	layoutDetail := func() map[string]any {
		d := map[string]any{"supergraph": l.SuperSDL, "layout": l.Describe, "case_kind": kind}
		for _, sg := range l.Subgraphs {
			d["sdl_"+sg.Name] = sg.SDL
		}
		return d
	}
	superGql, err := gqlparser.LoadSchema(&gast.Source{Name: "super", Input: l.SuperSDL})
	if err != nil {
		res.Broken("supergraph self-check: "+err.Error(), layoutDetail())
		return res
	}
	ents := map[string]bool{}
	for e := range l.Entities {
		ents[e] = true
	}
	pool := 4
	if r.IntN(2) == 0 {
		pool = 1 << 40
	}
	u := &ref.Universe{Seed: r.Uint64(), Schema: superGql, NullRate: 1, Entities: ents, PoolSize: pool, MaxList: 2}
	env := &caseEnv{l: l, super: superGql, u: u, protFam: map[int]bool{}, reqCache: map[string]*reqInfo{}, kind: kind}
	env.fam, env.members = buildFamilies(superGql, kind != "concrete")
	// ---- P
	pKind := "all"
	switch r.IntN(3) {
	case 0:
		for f := range env.members {
			env.protFam[f] = true
		}
	default:
		pKind = "half"
		for f := range env.members {
			if r.IntN(2) == 0 {
				env.protFam[f] = true
			}
		}
	}
	if kind == "concrete" {
		// interface coordinates stay unprotected; the operations never select a field on an interface
		for f, ms := range env.members {
			if def := superGql.Types[ms[0][:strings.IndexByte(ms[0], '.')]]; def != nil && def.Kind == gast.Interface {
				delete(env.protFam, f)
			}
		}
	}
	fcs := append(plan.FieldConfigurations(nil), l.FieldConfigs...)
	var pList []string
	for f, ms := range env.members {
		if !env.protFam[f] {
			continue
		}
		for _, coord := range ms {
			pList = append(pList, coord)
			dot := strings.IndexByte(coord, '.')
			tn, fn := coord[:dot], coord[dot+1:]
			found := false
			for i := range fcs {
				if fcs[i].TypeName == tn && fcs[i].FieldName == fn {
					fcs[i].HasAuthorizationRule = true
					found = true
				}
			}
			if !found {
				fcs = append(fcs, plan.FieldConfiguration{TypeName: tn, FieldName: fn, HasAuthorizationRule: true})
			}
		}
	}
	sort.Strings(pList)
	gw, err := fed.NewGateway(l, superGql, u, fed.GatewayOptions{Configure: func(conf *engine.Configuration) { conf.SetFieldConfigurations(fcs) }})
	if err != nil {
		res.Broken("gateway construction (generator self-check): "+err.Error(), layoutDetail())
		return res
	}
	defer gw.Close()
	env.gw = gw
	res.Count("layouts", 1)
	res.Count("protected_coordinates", int64(len(pList)))
	res.Observe("layout_features", featureString(prof))
	res.Observe("protected_set_kind", kind+"/"+pKind)

	var keys []string
	for k := 0; k < opsPerCase; k++ {
		op := gen.DefaultOpProfile(r)
		op.MaxDepth = 2 + r.IntN(3)
		op.NoSingletonVars = true
		if l.Super.Mutation != "" && k%3 == 2 && kind != "defer" {
			op.Kind = "mutation"
		}
		if kind == "defer" {
			op.Defer = true
			op.Fragments = true
		}
		if kind == "concrete" {
			op.FieldFilter = func(parent string, _ *gen.Field) bool { return l.Super.KindOf(parent) != gen.Interface }
		}
		doc, vals := gen.GenOperation(r, l.Super, op)
		if gen.UnionFragmentInNonUnionParent(l.Super, doc) {
			res.Count("operations_skipped_union_fragment_in_non_union_parent", 1)
			continue
		}
		oc := &opCase{text: doc.String(), vars: varsJSON(vals)}
		oc.deferred = kind == "defer" && strings.Contains(oc.text, "@defer")
		detail := func(extra map[string]any) map[string]any {
			d := layoutDetail()
			d["operation"], d["variables"], d["protected"] = oc.text, string(oc.vars), pList
			for k, v := range extra {
				d[k] = v
			}
			return d
		}
		fw.SetContext(detail(nil))
		qd, gerrs := gqlparser.LoadQuery(superGql, oc.text)
		if gerrs != nil {
			res.Broken("operation self-check: "+gerrs.Error(), detail(nil))
			continue
		}
		oc.gop = qd.Operations[0]
		vm, _ := ref.DecodeJSON(oc.vars)
		vmm, _ := vm.(map[string]any)
		oc.root = &ref.Obj{Type: "Query", ID: "root"}
		if oc.gop.Operation == gast.Mutation {
			oc.root.Type = "Mutation"
			oc.mutation = true
		}
		co := ref.Coercer{Schema: superGql}
		cv, cerr := co.CoerceVariableValues(oc.gop, vmm)
		if cerr != nil {
			res.Broken("variables self-check: "+cerr.Error(), detail(nil))
			continue
		}
		oc.cv = cv
		oc.prov = map[string]ref.Prov{}
		ex0 := &ref.Executor{Schema: superGql, Resolver: fed.NewReferenceResolver(l, u), Vars: cv, Prov: oc.prov}
		oc.A = ex0.ExecuteOperation(oc.gop, oc.root)
		if len(ex0.Errors) > 0 {
			res.Count("operations_skipped_reference_has_errors", 1)
			continue
		}
		// ---- authorizer-free run: the gateway must agree with the reference (else C01's business)
		base, pan := safeExecute(gw, oc.text, oc.vars)
		if pan != nil {
			res.Count("operations_skipped_baseline_panics_judged_by_c01", 1)
			continue
		}
		if base.Err != nil {
			res.Count("operations_skipped_baseline_execute_error_judged_by_c01", 1)
			continue
		}
		bv := viewOf(base)
		if bv.problem != "" {
			res.Count("operations_skipped_baseline_frames_not_mergeable", 1)
			res.Observe("baseline_frame_problem", bv.problem)
			continue
		}
		if !bv.hasData || ref.Canon(bv.data) != ref.Canon(anyOf(oc.A)) || len(bv.errors) > 0 {
			if oc.deferred {
				res.Count("operations_skipped_baseline_deferred_result_differs_from_reference", 1)
			} else {
				res.Count("operations_skipped_baseline_differs_judged_by_c01", 1)
			}
			continue
		}
		bad := false
		for _, rq := range base.Requests {
			if len(rq.Problems) > 0 {
				bad = true
			}
		}
		if bad {
			res.Count("operations_skipped_baseline_bad_subgraph_request_judged_by_c01", 1)
			continue
		}
		oc.base = base
		res.Count("operations", 1)
		if oc.mutation {
			res.Count("mutation_operations", 1)
		}
		if oc.deferred {
			res.Count("deferred_operations", 1)
			if len(base.Frames) > 1 {
				res.Count("deferred_operations_with_incremental_frames", 1)
			}
		}
		p.prepare(env, oc)
		decisions := p.decisions(r, env, oc, &res)
		modes := []string{"field", "prefetch"}
		if r.IntN(4) == 0 {
			modes = append(modes, "both")
		}
		for _, d := range decisions {
			for _, mode := range modes {
				nt := p.judge(&res, env, oc, d, mode, prof, detail)
				if nt {
					keys = append(keys, fw.HashKey(l.SuperSDL, pList, oc.text, oc.vars, d.describe(env), mode))
				}
				// option dimension (index rule; consumes no randomness): the up-front modes once more with
				// request tracing enabled on the resolve context
				if idx%4 == 0 && mode != "field" {
					env.tracing = true
					if p.judge(&res, env, oc, d, mode, prof, detail) {
						keys = append(keys, fw.HashKey(l.SuperSDL, pList, oc.text, oc.vars, d.describe(env), mode, "tracing"))
					}
					env.tracing = false
				}
			}
		}
	}
	res.Keys = keys
	res.Key = fw.HashKey("c14", idx)
	res.Nontrivial = len(keys) > 0
	return res
}

// prepare computes the coordinate sets of the operation.
func (c14) prepare(env *caseEnv, oc *opCase) {
	oc.posCoords = map[string]bool{}
	for _, pv := range oc.prov {
		oc.posCoords[pv.ParentType+"."+pv.Field] = true
	}
	oc.staticCoords = map[string]bool{}
	staticCoordsOf(oc.gop.SelectionSet, oc.staticCoords, map[string]bool{})
	oc.abstractReach = map[string]bool{}
	abstractReachOf(env.super, oc.gop.SelectionSet, oc.abstractReach, map[string]bool{})
	oc.fetchCoords = map[string]bool{}
	oc.entityRoots = map[string]bool{}
	oc.baseReqs = map[string]bool{}
	for _, rq := range oc.base.Requests {
		oc.baseReqs[rq.Subgraph+"\x00"+rq.Query] = true
		for _, s := range rq.Selected {
			if !strings.HasSuffix(s, "._entities") {
				oc.fetchCoords[s] = true
			}
		}
		if ri := env.infoOf(rq); ri.err == "" && ri.entities {
			for _, c := range ri.roots {
				oc.entityRoots[c] = true
			}
			oc.entityReqs = append(oc.entityReqs, ri.roots)
		}
	}
	// a coordinate is hidden when no member of its family is selected by the client
	clientFam := map[int]bool{}
	for c := range oc.posCoords {
		if f, ok := env.fam[c]; ok {
			clientFam[f] = true
		}
	}
	for c := range oc.staticCoords {
		if f, ok := env.fam[c]; ok {
			clientFam[f] = true
		}
	}
	oc.hidden = map[string]bool{}
	used := map[int]bool{}
	for f := range clientFam {
		used[f] = true
	}
	for c := range oc.fetchCoords {
		f, ok := env.fam[c]
		if !ok {
			continue
		}
		used[f] = true
		if !clientFam[f] {
			oc.hidden[c] = true
		}
	}
	for f := range used {
		if env.protFam[f] {
			oc.usedFams = append(oc.usedFams, f)
		}
	}
	sort.Ints(oc.usedFams)
}

func (e *caseEnv) famsOf(coords map[string]bool) map[int]bool {
	out := map[int]bool{}
	for c := range coords {
		if f, ok := e.fam[c]; ok && e.protFam[f] {
			out[f] = true
		}
	}
	return out
}

// decisions generates the decision functions for one operation.
func (c14) decisions(r *rand.Rand, env *caseEnv, oc *opCase, res *fw.Result) []*decision {
	var out []*decision
	n := len(oc.usedFams)
	if n <= exhaustiveUpTo {
		res.Count("exhaustive_decision_spaces", 1)
		for mask := 0; mask < 1<<n; mask++ {
			d := &decision{name: fmt.Sprintf("exhaustive-%d/%d", mask, 1<<n), denyFam: map[int]bool{}}
			for i, f := range oc.usedFams {
				if mask&(1<<i) != 0 {
					d.denyFam[f] = true
				}
			}
			out = append(out, d)
		}
		return out
	}
	res.Count("seeded_decision_spaces", 1)
	out = append(out, &decision{name: "all-allow", denyFam: map[int]bool{}})
	all := &decision{name: "all-deny", denyFam: map[int]bool{}}
	for f := range env.members {
		all.denyFam[f] = true
	}
	out = append(out, all)
	fromSet := func(name string, fams map[int]bool) *decision {
		if len(fams) == 0 {
			return nil
		}
		d := &decision{name: name, denyFam: map[int]bool{}}
		for f := range fams {
			d.denyFam[f] = true
		}
		return d
	}
	fieldDef := func(coord string) *gast.FieldDefinition {
		dot := strings.IndexByte(coord, '.')
		def := env.super.Types[coord[:dot]]
		if def == nil {
			return nil
		}
		return def.Fields.ForName(coord[dot+1:])
	}
	filterPos := func(keep func(coord string, fd *gast.FieldDefinition) bool) map[int]bool {
		m := map[string]bool{}
		for c := range oc.posCoords {
			if fd := fieldDef(c); fd != nil && keep(c, fd) {
				m[c] = true
			}
		}
		return env.famsOf(m)
	}
	var special []*decision
	add := func(d *decision) {
		if d != nil {
			special = append(special, d)
		}
	}
	add(fromSet("hidden-inputs-only", env.famsOf(oc.hidden)))
	add(fromSet("entity-fetched-fields", env.famsOf(oc.entityRoots)))
	add(fromSet("non-null-fields", filterPos(func(_ string, fd *gast.FieldDefinition) bool { return fd.Type.NonNull })))
	add(fromSet("root-fields", filterPos(func(c string, _ *gast.FieldDefinition) bool {
		return strings.HasPrefix(c, "Query.") || strings.HasPrefix(c, "Mutation.")
	})))
	add(fromSet("leaf-fields", filterPos(func(_ string, fd *gast.FieldDefinition) bool {
		def := env.super.Types[fd.Type.Name()]
		return def == nil || def.Kind == gast.Scalar || def.Kind == gast.Enum
	})))
	add(fromSet("composite-fields", filterPos(func(_ string, fd *gast.FieldDefinition) bool {
		def := env.super.Types[fd.Type.Name()]
		return def != nil && def.Kind != gast.Scalar && def.Kind != gast.Enum
	})))
	add(fromSet("key-fields", filterPos(func(c string, _ *gast.FieldDefinition) bool { return strings.HasSuffix(c, ".id") })))
	r.Shuffle(len(special), func(i, j int) { special[i], special[j] = special[j], special[i] })
	budget := seededDecisions
	for _, d := range special {
		if budget <= 3 {
			break
		}
		out = append(out, d)
		budget--
	}
	for budget > 0 {
		budget--
		d := &decision{denyFam: map[int]bool{}}
		switch r.IntN(4) {
		case 0:
			f := oc.usedFams[r.IntN(n)]
			d.name = "single"
			d.denyFam[f] = true
		case 1:
			d.name = "quarter"
			for _, f := range oc.usedFams {
				if r.IntN(4) == 0 {
					d.denyFam[f] = true
				}
			}
		case 2:
			d.name = "all-but-one"
			keep := oc.usedFams[r.IntN(n)]
			for f := range env.members {
				d.denyFam[f] = f != keep
			}
		default:
			d.name = "half"
			for _, f := range oc.usedFams {
				if r.IntN(2) == 0 {
					d.denyFam[f] = true
				}
			}
		}
		out = append(out, d)
	}
	return out
}

// ---------------------------------------------------------------------------------------------
// the oracle

func pathStrings(p []any) []string {
	out := make([]string, len(p))
	for i, x := range p {
		out[i] = fmt.Sprint(x)
	}
	return out
}

// errPath extracts the path of a response error entry (nil when absent).
func errPath(e any) []string {
	m, ok := e.(map[string]any)
	if !ok {
		return nil
	}
	pa, ok := m["path"].([]any)
	if !ok {
		return nil
	}
	return pathStrings(pa)
}

func elemMatches(got, want string) (ok, lenient bool) {
	if got == want {
		return true, false
	}
	if strings.HasPrefix(got, internalMergeName) && strings.HasSuffix(got, "_"+want) {
		return true, true
	}
	return false, false
}

// hasPrefixPath: want is a prefix of got (element-wise, merge aliases matched by suffix).
func hasPrefixPath(got, want []string) (ok, lenient bool) {
	if len(got) < len(want) {
		return false, false
	}
	for i := range want {
		m, l := elemMatches(got[i], want[i])
		if !m {
			return false, false
		}
		lenient = lenient || l
	}
	return true, lenient
}

// nullPrefix walks data along path and returns the length of the shortest prefix whose value is
// null; -1 when the whole path resolves to a non-null value; -2 when the path does not exist.
func nullPrefix(data any, path []any) int {
	cur := data
	if cur == nil {
		return 0
	}
	for i, el := range path {
		switch x := cur.(type) {
		case map[string]any:
			v, ok := x[fmt.Sprint(el)]
			if !ok {
				return -2
			}
			cur = v
		case []any:
			n, ok := el.(int)
			if !ok || n < 0 || n >= len(x) {
				return -2
			}
			cur = x[n]
		default:
			return -2
		}
		if cur == nil {
			return i + 1
		}
	}
	return -1
}

type leak struct {
	path  string
	coord string
	value string
}

// findDeniedValues walks the gateway data: every non-null value at a field position whose
// coordinate (by reference provenance) is denied.
func findDeniedValues(env *caseEnv, d *decision, prov map[string]ref.Prov, v any, path []any, out *[]leak, checked *int) {
	switch x := v.(type) {
	case map[string]any:
		keys := make([]string, 0, len(x))
		for k := range x {
			keys = append(keys, k)
		}
		sort.Strings(keys)
		for _, k := range keys {
			cp := append(append(make([]any, 0, len(path)+1), path...), k)
			if pv, ok := prov[ref.PathKey(cp)]; ok {
				*checked++
				coord := pv.ParentType + "." + pv.Field
				if env.denied(d, coord) && x[k] != nil {
					if len(*out) < 5 {
						*out = append(*out, leak{ref.PathKey(cp), coord, truncate(ref.Canon(x[k]), 200)})
					}
					continue
				}
			}
			findDeniedValues(env, d, prov, x[k], cp, out, checked)
		}
	case []any:
		for i, it := range x {
			cp := append(append(make([]any, 0, len(path)+1), path...), i)
			findDeniedValues(env, d, prov, it, cp, out, checked)
		}
	}
}

func taggable(fd *gast.FieldDefinition) bool {
	n := fd.Type.Name()
	return (n == "String" || n == "ID") && fd.Name != "id"
}

func firstDiff(a, b string) string {
	i := 0
	for i < len(a) && i < len(b) && a[i] == b[i] {
		i++
	}
	lo := i - 120
	if lo < 0 {
		lo = 0
	}
	cut := func(s string) string {
		hi := i + 160
		if hi > len(s) {
			hi = len(s)
		}
		if lo > len(s) {
			return ""
		}
		return s[lo:hi]
	}
	return "expected: …" + cut(a) + "\nobserved: …" + cut(b)
}

// expected runs the reference with denied coordinates failing; extraFail lists positions
// (PathKey) that fail in addition.
func (c14) expected(env *caseEnv, oc *opCase, d *decision, extraFail map[string]bool) (map[string]any, []ref.ExecError) {
	var rs ref.FieldResolver = oc.resolver
	if rs == nil {
		rs = fed.NewReferenceResolver(env.l, env.u)
	}
	ex := &ref.Executor{Schema: env.super, Resolver: rs, Vars: oc.cv}
	ex.OnField = func(obj *ref.Obj, fd *gast.FieldDefinition, _ map[string]any, path []any) error {
		coord := obj.Type + "." + fd.Name
		if env.denied(d, coord) {
			return errors.New(deniedMsgPrefix + coord)
		}
		if extraFail != nil && extraFail[ref.PathKey(path)] {
			return errors.New("COLLATERAL " + coord)
		}
		return nil
	}
	data := ex.ExecuteOperation(oc.gop, oc.root)
	return data, ex.Errors
}

// pathOfKey rebuilds a path from a PathKey ("/a/0/b"): numeric elements are list indices unless the
// prefix so far is itself a field position whose key is numeric (response keys are never numeric
// here: aliases are a<N>, field names are identifiers).
func pathOfKey(pk string, _ map[string]ref.Prov) []any {
	if pk == "" {
		return nil
	}
	parts := strings.Split(pk[1:], "/")
	out := make([]any, len(parts))
	for i, s := range parts {
		n, isNum := 0, len(s) > 0
		for _, ch := range s {
			if ch < '0' || ch > '9' {
				isNum = false
				break
			}
			n = n*10 + int(ch-'0')
		}
		if isNum {
			out[i] = n
		} else {
			out[i] = s
		}
	}
	return out
}

func deepCopy(v any) any {
	switch x := v.(type) {
	case map[string]any:
		out := make(map[string]any, len(x))
		for k, it := range x {
			out[k] = deepCopy(it)
		}
		return out
	case []any:
		out := make([]any, len(x))
		for i, it := range x {
			out[i] = deepCopy(it)
		}
		return out
	}
	return v
}

// setAt replaces the value at path (when the path resolves to a non-null value).
func setAt(data any, path []any, v any) {
	cur := data
	for i, el := range path {
		last := i == len(path)-1
		switch x := cur.(type) {
		case map[string]any:
			k := fmt.Sprint(el)
			nv, ok := x[k]
			if !ok || nv == nil {
				return
			}
			if last {
				x[k] = v
				return
			}
			cur = nv
		case []any:
			n, ok := el.(int)
			if !ok || n < 0 || n >= len(x) || x[n] == nil {
				return
			}
			if last {
				x[n] = v
				return
			}
			cur = x[n]
		default:
			return
		}
	}
}

// isNullRefinement: b is a with some positions replaced by null.
func isNullRefinement(a, b any) bool {
	if b == nil {
		return true
	}
	if a == nil {
		return false
	}
	switch x := a.(type) {
	case map[string]any:
		y, ok := b.(map[string]any)
		if !ok || len(x) != len(y) {
			return false
		}
		for k, v := range x {
			w, has := y[k]
			if !has || !isNullRefinement(v, w) {
				return false
			}
		}
		return true
	case []any:
		y, ok := b.([]any)
		if !ok || len(x) != len(y) {
			return false
		}
		for i := range x {
			if !isNullRefinement(x[i], y[i]) {
				return false
			}
		}
		return true
	}
	return ref.Canon(a) == ref.Canon(b)
}
