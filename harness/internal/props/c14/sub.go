package c14

import (
	"context"
	"encoding/json"
	"fmt"
	"math/rand/v2"
	"net/http"
	"sort"
	"strings"
	"sync"
	"sync/atomic"
	"time"

	"github.com/cespare/xxhash/v2"
	"github.com/vektah/gqlparser/v2"
	gast "github.com/vektah/gqlparser/v2/ast"

	"github.com/wundergraph/graphql-go-tools/v2/pkg/ast"
	"github.com/wundergraph/graphql-go-tools/v2/pkg/engine/datasource/httpclient"
	"github.com/wundergraph/graphql-go-tools/v2/pkg/engine/plan"
	"github.com/wundergraph/graphql-go-tools/v2/pkg/engine/postprocess"
	"github.com/wundergraph/graphql-go-tools/v2/pkg/engine/resolve"

	"verifharness/internal/fw"
	"verifharness/internal/ref"
)

// Subscription updates. The federation rig has no subscriptions, so this family drives
// Resolver.AsyncResolveGraphQLSubscription directly: generated GraphQLSubscription plans (shaped as
// planner output and run through the real post-processor, which appends the trigger to the fetch
// tree and collects the protected coordinates), a source that emits several events and a recording
// writer. Two plan shapes: the subscription is served by its trigger alone, or an entity-style
// fetch to a second data source runs after every event. Every update is judged with the oracles of
// the query cases against a reference execution of the same selection over the event's data.

const subEvents = 3

type snode struct {
	key         string // response key
	name        string
	parent      string
	typ         string // named type
	nonNull     bool
	list        bool
	itemNonNull bool
	fetched     bool // delivered by the per-event fetch (data source s1)
	sel         []*snode
}

func (n *snode) coord() string { return n.parent + "." + n.name }

func (n *snode) typeSDL() string {
	t := n.typ
	if n.list {
		if n.itemNonNull {
			t += "!"
		}
		t = "[" + t + "]"
	}
	if n.nonNull {
		t += "!"
	}
	return t
}

func (n *snode) selection(sb *strings.Builder) {
	if n.key != n.name {
		sb.WriteString(n.key + ": ")
	}
	sb.WriteString(n.name)
	if len(n.sel) > 0 {
		sb.WriteString(" { ")
		for _, c := range n.sel {
			c.selection(sb)
			sb.WriteString(" ")
		}
		sb.WriteString("}")
	}
}

type subShape struct {
	root      *snode
	withFetch bool
	sdl       string
	operation string
	desc      string
}

func genSubShape(r *rand.Rand) *subShape {
	sh := &subShape{withFetch: r.IntN(2) == 0}
	leaf := func(parent, name, typ string, nonNull bool) *snode {
		return &snode{key: name, name: name, parent: parent, typ: typ, nonNull: nonNull}
	}
	nameNonNull := r.IntN(4) == 0
	itemSel := func(withExtra bool) []*snode {
		out := []*snode{leaf("Item", "id", "ID", true), leaf("Item", "name", "String", nameNonNull)}
		if r.IntN(3) == 0 {
			out[0], out[1] = out[1], out[0]
		}
		if withExtra {
			x := leaf("Item", "extra", "String", false)
			x.fetched = true
			out = append(out, x)
		}
		return out
	}
	ev := &snode{key: "ev", name: "ev", parent: "Subscription", typ: "Event", nonNull: r.IntN(4) == 0}
	secret := leaf("Event", "secret", "String", r.IntN(3) == 0)
	if r.IntN(4) == 0 {
		secret.key = "s1"
	}
	ev.sel = append(ev.sel, leaf("Event", "text", "String", false), secret)
	item := &snode{key: "item", name: "item", parent: "Event", typ: "Item", nonNull: r.IntN(4) == 0, sel: itemSel(sh.withFetch)}
	ev.sel = append(ev.sel, item)
	itemsNonNull, itemsItemNonNull := r.IntN(4) == 0, r.IntN(2) == 0
	if r.IntN(2) == 0 {
		ev.sel = append(ev.sel, &snode{key: "items", name: "items", parent: "Event", typ: "Item", list: true, nonNull: itemsNonNull, itemNonNull: itemsItemNonNull, sel: itemSel(false)})
	}
	if r.IntN(3) == 0 {
		r.Shuffle(len(ev.sel), func(i, j int) { ev.sel[i], ev.sel[j] = ev.sel[j], ev.sel[i] })
	}
	sh.root = ev
	nn := func(b bool) string {
		if b {
			return "!"
		}
		return ""
	}
	itemsT := "[Item" + nn(itemsItemNonNull) + "]" + nn(itemsNonNull)
	sh.sdl = "type Query { _q: Boolean }\n" +
		"type Subscription { ev: Event" + nn(ev.nonNull) + " }\n" +
		"type Event { text: String secret: String" + nn(secret.nonNull) + " item: Item" + nn(item.nonNull) + " items: " + itemsT + " }\n" +
		"type Item { id: ID! name: String" + nn(nameNonNull) + " extra: String }\n"
	var sb strings.Builder
	sb.WriteString("subscription { ")
	ev.selection(&sb)
	sb.WriteString(" }")
	sh.operation = sb.String()
	sh.desc = fmt.Sprintf("per_event_fetch=%v %s", sh.withFetch, strings.ReplaceAll(sh.sdl, "\n", " "))
	return sh
}

func (sh *subShape) coords() []string {
	set := map[string]bool{}
	var walk func(n *snode)
	walk = func(n *snode) {
		set[n.coord()] = true
		for _, c := range n.sel {
			walk(c)
		}
	}
	walk(sh.root)
	var out []string
	for c := range set {
		out = append(out, c)
	}
	sort.Strings(out)
	return out
}

// subResolver is the data of event k for the reference execution: every value is a function of
// (object type, field, object id), object ids embed the event number.
type subResolver struct{ k int }

func subValue(typ, field, objID string) string { return fmt.Sprintf("%s.%s#%s/v", typ, field, objID) }

func (s subResolver) Resolve(obj *ref.Obj, _ *gast.Definition, fd *gast.FieldDefinition, _ map[string]any, _ []any) (any, error) {
	switch fd.Type.Name() {
	case "Event":
		return &ref.Obj{Type: "Event", ID: fmt.Sprintf("e%d", s.k)}, nil
	case "Item":
		if fd.Type.Elem != nil {
			return []any{&ref.Obj{Type: "Item", ID: fmt.Sprintf("it%da", s.k)}, &ref.Obj{Type: "Item", ID: fmt.Sprintf("it%db", s.k)}}, nil
		}
		return &ref.Obj{Type: "Item", ID: fmt.Sprintf("it%d", s.k)}, nil
	case "ID":
		return obj.ID, nil
	case "String":
		return subValue(obj.Type, fd.Name, obj.ID), nil
	}
	return nil, nil
}

// planNode builds the resolve tree of a selection node.
func (sh *subShape) planField(n *snode, env *caseEnv, isRoot bool) *resolve.Field {
	ds := "s0"
	if n.fetched {
		ds = "s1"
	}
	info := &resolve.FieldInfo{Name: n.name, NamedType: n.typ, ParentTypeNames: []string{n.parent}, ExactParentTypeName: n.parent,
		Source: resolve.TypeFieldSource{IDs: []string{ds}, Names: []string{ds}}, HasAuthorizationRule: env.isProtected(n.coord())}
	if isRoot {
		info.FetchID = 0
	}
	var value resolve.Node
	object := func(path []string, nullable bool) *resolve.Object {
		o := &resolve.Object{Path: path, Nullable: nullable, TypeName: n.typ}
		for _, c := range n.sel {
			o.Fields = append(o.Fields, sh.planField(c, env, false))
		}
		return o
	}
	switch {
	case n.list:
		value = &resolve.Array{Path: []string{n.key}, Nullable: !n.nonNull, Item: object(nil, !n.itemNonNull)}
	case len(n.sel) > 0:
		value = object([]string{n.key}, !n.nonNull)
	default:
		value = &resolve.String{Path: []string{n.key}, Nullable: !n.nonNull}
	}
	return &resolve.Field{Name: []byte(n.key), Value: value, Info: info}
}

type subSource struct {
	events  [][]byte
	started atomic.Int64
}

func (s *subSource) HashTriggerInput(input []byte, xxh *xxhash.Digest) error {
	_, err := xxh.Write(input)
	return err
}

func (s *subSource) Start(_ *resolve.Context, _ http.Header, _ []byte, updater resolve.SubscriptionUpdater) error {
	s.started.Add(1)
	go func() {
		for _, ev := range s.events {
			updater.Update(ev)
		}
		updater.Complete()
		updater.Done()
	}()
	return nil
}

type subWriter struct {
	mu       sync.Mutex
	buf      []byte
	messages []string
	errs     []string
	done     chan struct{}
	once     sync.Once
}

func (w *subWriter) Write(p []byte) (int, error) {
	w.mu.Lock()
	w.buf = append(w.buf, p...)
	w.mu.Unlock()
	return len(p), nil
}

func (w *subWriter) Flush() error {
	w.mu.Lock()
	w.messages = append(w.messages, string(w.buf))
	w.buf = nil
	w.mu.Unlock()
	return nil
}

func (w *subWriter) Complete()        { w.once.Do(func() { close(w.done) }) }
func (w *subWriter) Heartbeat() error { return nil }
func (w *subWriter) Error(data []byte) {
	w.mu.Lock()
	w.errs = append(w.errs, string(data))
	w.mu.Unlock()
	w.once.Do(func() { close(w.done) })
}

// extraDS answers the per-event fetch: {"id":"<item id>",...} → {"data":{"extra":value}}.
type extraDS struct {
	mu    sync.Mutex
	calls int
}

func (d *extraDS) Load(_ context.Context, _ http.Header, input []byte) ([]byte, error) {
	d.mu.Lock()
	d.calls++
	d.mu.Unlock()
	var in struct {
		ID string `json:"id"`
	}
	_ = json.Unmarshal(input, &in)
	out, _ := json.Marshal(map[string]any{"data": map[string]any{"extra": subValue("Item", "extra", in.ID)}})
	return out, nil
}

func (d *extraDS) LoadWithFiles(ctx context.Context, h http.Header, in []byte, _ []*httpclient.FileUpload) ([]byte, error) {
	return d.Load(ctx, h, in)
}

func stripFetched(n *snode, v any) any {
	switch x := v.(type) {
	case map[string]any:
		out := map[string]any{}
		for _, c := range n.sel {
			if c.fetched {
				continue
			}
			if cv, ok := x[c.key]; ok {
				out[c.key] = stripFetched(c, cv)
			}
		}
		return out
	case []any:
		out := make([]any, len(x))
		for i, it := range x {
			out[i] = stripFetched(n, it)
		}
		return out
	}
	return v
}

var subRun atomic.Int64

func (p c14) runSubscriptions(c *fw.Ctx, idx int) fw.Result {
	res := fw.Result{}
	res.Count("cases_subscription", 1)
	r := c.Rng(idx, "c14-sub")
	sh := genSubShape(r)
	superGql, err := gqlparser.LoadSchema(&gast.Source{Name: "sub", Input: sh.sdl})
	if err != nil {
		res.Broken("subscription schema self-check: "+err.Error(), sh.sdl)
		return res
	}
	qd, gerrs := gqlparser.LoadQuery(superGql, sh.operation)
	if gerrs != nil {
		res.Broken("subscription operation self-check: "+gerrs.Error(), sh.operation)
		return res
	}
	gop := qd.Operations[0]
	env := &caseEnv{super: superGql, protFam: map[int]bool{}, reqCache: map[string]*reqInfo{}, kind: "subscription"}
	env.fam, env.members = buildFamilies(superGql, false)
	coords := sh.coords()
	pKind := "all"
	if r.IntN(3) != 0 {
		pKind = "half"
	}
	var used []int
	var pList []string
	for _, co := range coords {
		f := env.fam[co]
		if pKind == "all" || r.IntN(2) == 0 {
			env.protFam[f] = true
			used = append(used, f)
			pList = append(pList, co)
		}
	}
	res.Observe("protected_set_kind", "subscription/"+pKind)
	res.Observe("subscription_plan_shapes", fmt.Sprintf("per_event_fetch=%v", sh.withFetch))
	// ---- decisions
	var decisions []*decision
	n := len(used)
	if n <= exhaustiveUpTo {
		res.Count("exhaustive_decision_spaces", 1)
		for mask := 0; mask < 1<<n; mask++ {
			d := &decision{name: fmt.Sprintf("exhaustive-%d/%d", mask, 1<<n), denyFam: map[int]bool{}}
			for i, f := range used {
				if mask&(1<<i) != 0 {
					d.denyFam[f] = true
				}
			}
			decisions = append(decisions, d)
		}
	} else {
		res.Count("seeded_decision_spaces", 1)
		decisions = append(decisions, &decision{name: "all-allow", denyFam: map[int]bool{}})
		all := &decision{name: "all-deny", denyFam: map[int]bool{}}
		for _, f := range used {
			all.denyFam[f] = true
		}
		decisions = append(decisions, all)
		for _, f := range used {
			decisions = append(decisions, &decision{name: "single", denyFam: map[int]bool{f: true}})
		}
		for i := 0; i < 4; i++ {
			d := &decision{name: "half", denyFam: map[int]bool{}}
			for _, f := range used {
				if r.IntN(2) == 0 {
					d.denyFam[f] = true
				}
			}
			decisions = append(decisions, d)
		}
	}
	// ---- per event: reference data with provenance, event payload
	type evCase struct {
		oc      *opCase
		payload []byte
	}
	root := &ref.Obj{Type: "Subscription", ID: "root"}
	var evs []*evCase
	for k := 0; k < subEvents; k++ {
		oc := &opCase{text: sh.operation, vars: []byte("{}"), gop: gop, cv: map[string]any{}, root: root, prov: map[string]ref.Prov{}, resolver: subResolver{k}}
		ex := &ref.Executor{Schema: superGql, Resolver: oc.resolver, Vars: oc.cv, Prov: oc.prov}
		oc.A = ex.ExecuteOperation(gop, root)
		if len(ex.Errors) > 0 || oc.A == nil {
			res.Broken("subscription reference self-check", sh.desc)
			return res
		}
		stripped := map[string]any{"ev": stripFetched(sh.root, oc.A["ev"])}
		payload, _ := json.Marshal(map[string]any{"data": stripped})
		evs = append(evs, &evCase{oc: oc, payload: payload})
	}
	ctx, cancel := context.WithCancel(context.Background())
	defer cancel()
	resolver := resolve.New(ctx, resolve.ResolverOptions{MaxConcurrency: 16, PropagateSubgraphErrors: true})
	rootDenied := func(d *decision) bool { return env.denied(d, "Subscription.ev") }
	extraDenied := func(d *decision) bool { return env.denied(d, "Item.extra") }
	var keys []string
	for _, d := range decisions {
		for _, mode := range []string{"field", "prefetch", "both"} {
			run := subRun.Add(1)
			// ---- plan (fresh: the post-processor mutates it)
			src := &subSource{}
			for _, e := range evs {
				src.events = append(src.events, e.payload)
			}
			eds := &extraDS{}
			resp := &resolve.GraphQLResponse{
				Info: &resolve.GraphQLResponseInfo{OperationType: ast.OperationTypeSubscription},
				Data: &resolve.Object{Fields: []*resolve.Field{sh.planField(sh.root, env, true)}},
			}
			if sh.withFetch {
				sf := &resolve.SingleFetch{
					FetchDependencies: resolve.FetchDependencies{FetchID: 1, DependsOnFetchIDs: []int{0}},
					FetchConfiguration: resolve.FetchConfiguration{
						Input:      `{"id":$$0$$}`,
						Variables:  resolve.NewVariables(&resolve.ObjectVariable{Path: []string{"id"}, Renderer: resolve.NewJSONVariableRenderer()}),
						DataSource: eds,
						PostProcessing: resolve.PostProcessingConfiguration{
							SelectResponseDataPath:   []string{"data"},
							SelectResponseErrorsPath: []string{"errors"},
						},
					},
					Info: &resolve.FetchInfo{DataSourceID: "s1", DataSourceName: "s1", OperationType: ast.OperationTypeQuery,
						RootFields: []resolve.GraphCoordinate{{TypeName: "Item", FieldName: "extra", HasAuthorizationRule: env.isProtected("Item.extra")}}},
				}
				resp.RawFetches = append(resp.RawFetches, resolve.FetchItemWithPath(sf, "ev.item", resolve.ObjectPath("ev"), resolve.ObjectPath("item")))
			}
			sub := &resolve.GraphQLSubscription{
				Response: resp,
				Trigger: resolve.GraphQLSubscriptionTrigger{
					Input:  []byte(fmt.Sprintf(`{"subscription":%q,"run":%d}`, sh.operation, run)),
					Source: src, SourceName: "s0", SourceID: "s0",
					PostProcessing: resolve.PostProcessingConfiguration{SelectResponseDataPath: []string{"data"}, SelectResponseErrorsPath: []string{"errors"}},
				},
			}
			postprocess.NewProcessor().Process(&plan.SubscriptionResponsePlan{Response: sub})
			triggerOnly := resp.Fetches != nil && len(resp.Fetches.ChildNodes) == 0
			rec := newRecorder()
			rctx := resolve.NewContext(ctx)
			if mode == "field" || mode == "both" {
				rctx.SetAuthorizer(&fieldAuthorizer{env: env, d: d, rec: rec})
			}
			if mode == "prefetch" || mode == "both" {
				rctx.SetPreFetchFieldAuthorizer(&batchAuthorizer{env: env, d: d, rec: rec})
			}
			w := &subWriter{done: make(chan struct{})}
			deniedList := d.describe(env)
			match := map[string]string{"mode": mode, "operation_kind": "subscription", "subscription": "true", "served_by_trigger_alone": fmt.Sprint(triggerOnly), "hidden_input_denied": "false", "protected_set": "subscription", "deferred": "false"}
			desc := func(extra map[string]any) map[string]any {
				w.mu.Lock()
				msgs := append([]string(nil), w.messages...)
				werrs := append([]string(nil), w.errs...)
				w.mu.Unlock()
				m := map[string]any{"schema": sh.sdl, "operation": sh.operation, "per_event_fetch": sh.withFetch, "protected": pList, "mode": mode, "decision": d.name, "denied": deniedList,
					"events": payloadStrings(src.events), "client_messages": msgs, "writer_errors": werrs, "trigger_starts": src.started.Load()}
				eds.mu.Lock()
				m["per_event_fetch_requests"] = eds.calls
				eds.mu.Unlock()
				for k, v := range extra {
					m[k] = v
				}
				return m
			}
			fw.SetContext(desc(nil))
			aerr := resolver.AsyncResolveGraphQLSubscription(rctx, sub, w, resolve.SubscriptionIdentifier{ConnectionID: resolve.ConnectionID(run), SubscriptionID: run})
			res.Count("subscription_executions", 1)
			res.Count("executions_"+mode+"_mode", 1)
			if triggerOnly {
				res.Count("subscription_executions_served_by_trigger_alone", 1)
			} else {
				res.Count("subscription_executions_with_per_event_fetch", 1)
			}
			if aerr != nil {
				env.violate(&res, "execute-error", "AsyncResolveGraphQLSubscription fails under an authorization decision: "+aerr.Error(), match, desc(nil))
				continue
			}
			select {
			case <-w.done:
			case <-time.After(30 * time.Second):
				res.Inconclusive = "subscription-watchdog: the subscription did not complete within 30 s"
				return res
			}
			w.mu.Lock()
			msgs := append([]string(nil), w.messages...)
			nWriterErrs := len(w.errs)
			allBytes := strings.Join(w.messages, "\n") + strings.Join(w.errs, "\n")
			w.mu.Unlock()
			starts := src.started.Load()
			eds.mu.Lock()
			fetchCalls := eds.calls
			eds.mu.Unlock()
			res.Count("subscription_updates_observed", int64(len(msgs)))
			res.Count("subscription_writer_errors", int64(nWriterErrs))
			full := func(extra map[string]any) map[string]any { return desc(extra) }

			// ---- request rule: the trigger, and the fetch after every event
			rejected := false
			if mode != "field" {
				res.Count("requests_rule_checked", 1)
				res.Count("subscription_trigger_rule_checked", 1)
				if rootDenied(d) {
					rejected = true
					if starts > 0 {
						env.violate(&res, "request-sent", "the upstream subscription was started although its root field is denied ("+mode+" mode)", withFacts(match, "rule", "subscription-any"), full(nil))
					} else {
						res.Count("requests_suppressed", 1)
						res.Count("subscription_triggers_not_started", 1)
					}
				}
				if sh.withFetch && starts > 0 {
					res.Count("requests_rule_checked", 1)
					res.Count("subscription_per_event_fetch_rule_checked", 1)
					if extraDenied(d) {
						if fetchCalls > 0 {
							env.violate(&res, "request-sent", "the request after a subscription event was sent although all of its root fields are denied ("+mode+" mode)", withFacts(match, "rule", "all-denied", "request_after_initial_frame", "false", "entity_types_below_abstract_field", "false"), full(nil))
						} else {
							res.Count("requests_suppressed", int64(len(msgs)))
							res.Count("subscription_per_event_fetches_suppressed", int64(len(msgs)))
						}
					}
				}
			} else if rootDenied(d) && starts > 0 {
				res.Count("field_mode_subscription_started_with_denied_root_field", 1)
			}
			nontrivial, anyLeak := false, false
			if rejected && starts == 0 {
				p.checkSentinels(&res, env, d, mode, allBytes, false, match, full)
				// the subscription was refused before it started: one terminal message, a denial reported
				res.Count("subscription_rejections_observed", 1)
				ok := false
				for _, m := range msgs {
					if v, err := ref.DecodeJSON([]byte(m)); err == nil {
						mm, _ := v.(map[string]any)
						es, _ := mm["errors"].([]any)
						for _, e := range es {
							if hasAuthCode(ref.NormalizeJSON(e)) {
								ok = true
							}
						}
						if mm["data"] != nil {
							env.violate(&res, "denied-value-present", "a refused subscription delivers data ("+mode+" mode)", match, full(nil))
						}
					}
				}
				res.Count("denied_positions_checked", 1)
				if ok {
					res.Count("denial_errors_matched", 1)
				} else {
					env.violate(&res, "denial-not-reported", "a refused subscription reports no authorization error ("+mode+" mode)", withFacts(match, "swallowed", "false"), full(nil))
				}
				keys = append(keys, fw.HashKey("sub", sh.sdl, sh.operation, pList, deniedList, mode))
				continue
			}
			if len(msgs) != len(evs) {
				// the statement does not promise delivery: judged are the updates that arrived, in order
				res.Count("subscription_executions_with_update_count_differing_from_events", 1)
			}
			for i, m := range msgs {
				if i >= len(evs) {
					break
				}
				oc := evs[i].oc
				dv, derr := ref.DecodeJSON([]byte(m))
				mm, _ := ref.NormalizeJSON(dv).(map[string]any)
				if derr != nil || mm == nil {
					env.violate(&res, "execute-error", "a subscription update is not a JSON object ("+mode+" mode)", match, full(map[string]any{"update": i}))
					continue
				}
				gv := &view{bytes: m, frames: 1}
				gv.data, gv.hasData = mm["data"]
				gv.errors, _ = mm["errors"].([]any)
				res.Count("subscription_updates_judged", 1)
				ufull := func(extra map[string]any) map[string]any {
					e2 := map[string]any{"update": i, "update_bytes": truncate(m, 2000)}
					for k, v := range extra {
						e2[k] = v
					}
					return desc(e2)
				}
				// (1)
				var leaks []leak
				checked := 0
				findDeniedValues(env, d, oc.prov, gv.data, nil, &leaks, &checked)
				res.Count("response_positions_checked", int64(checked))
				anyLeak = anyLeak || len(leaks) > 0
				for _, lk := range leaks {
					env.violate(&res, "denied-value-present", "a subscription update carries a non-null value at a position whose coordinate "+lk.coord+" is denied ("+mode+" mode)", withFacts(match, "coordinate_in_interface_family", "false"), ufull(map[string]any{"position": lk.path, "coordinate": lk.coord, "value": lk.value}))
					break
				}
				// (2)
				want, werrs := p.expected(env, oc, d, nil)
				res.Count("responses_compared", 1)
				wantCanon, gotCanon := ref.Canon(anyOf(want)), ref.Canon(gv.data)
				if !gv.hasData && want == nil {
					gotCanon = wantCanon
				}
				if gotCanon != wantCanon && len(leaks) == 0 {
					dir := "other"
					switch {
					case isNullRefinement(ref.NormalizeJSON(anyOf(want)), gv.data):
						dir = "over-null"
					case isNullRefinement(gv.data, ref.NormalizeJSON(anyOf(want))):
						dir = "under-null"
					}
					env.violate(&res, "null-propagation", "the data of a subscription update differs from the reference execution with the denied fields failing ("+dir+", "+mode+" mode)", withFacts(match, "direction", dir), ufull(map[string]any{"expected": truncate(wantCanon, 2000), "observed": truncate(gotCanon, 2000)}))
				}
				// (3)
				nd := p.checkErrors(&res, env, oc, d, mode, gv, werrs, map[string]bool{}, match, ufull)
				if nd > 0 {
					nontrivial = true
				}
			}
			// (4) sentinels in every byte written
			p.checkSentinels(&res, env, d, mode, allBytes, anyLeak, match, full)
			if nontrivial {
				keys = append(keys, fw.HashKey("sub", sh.sdl, sh.operation, pList, deniedList, mode))
				if res.Sample == nil && len(msgs) > 0 {
					res.Sample = map[string]any{"case_kind": "subscription", "schema": sh.sdl, "operation": sh.operation, "per_event_fetch": sh.withFetch, "mode": mode, "denied": deniedList, "first_event": string(evs[0].payload), "first_update": truncate(msgs[0], 700)}
				}
			}
		}
	}
	res.Keys = keys
	res.Key = fw.HashKey("c14-sub", idx)
	res.Nontrivial = len(keys) > 0
	return res
}

func payloadStrings(evs [][]byte) []string {
	out := make([]string, len(evs))
	for i, e := range evs {
		out[i] = string(e)
	}
	return out
}
