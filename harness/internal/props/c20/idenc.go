package c20

import (
	gast "github.com/vektah/gqlparser/v2/ast"

	"verifharness/internal/fw"
)

// ID-encoding cases. ID input coercion accepts an integer as well as a string, and routers pass on
// entity keys that another subgraph serialised as numbers: {"id": 7} and {"id": "7"} are the same
// request. One case = one operation whose integer-looking ID values (arguments as Int literals or
// JSON numbers in variables, fields of input objects, list items, keys and @requires fields of
// representations) are mostly written as numbers (q'), and the same operation with every ID
// written as a string (q). Oracles A and C on both, oracle B between them.

const (
	quickIDEncCases    = 300
	thoroughIDEncCases = 4500
)

func idEncCases(tier string) int {
	if tier == fw.Thorough {
		return thoroughIDEncCases
	}
	return quickIDEncCases
}

// takesID: does a value of this input type contain an ID somewhere?
func (m *schemaModel) takesID(t *gast.Type, depth int) bool {
	name := baseName(t)
	if name == "ID" {
		return true
	}
	def := m.typ(name)
	if def == nil || def.Kind != gast.InputObject || depth > 3 {
		return false
	}
	for _, f := range def.Fields {
		if m.takesID(f.Type, depth+1) {
			return true
		}
	}
	return false
}

func (m *schemaModel) rootsTakingID(root *gast.Definition, names []string) []string {
	var out []string
	for _, n := range names {
		fd := root.Fields.ForName(n)
		if fd == nil {
			continue
		}
		for _, a := range fd.Arguments {
			if m.takesID(a.Type, 0) {
				out = append(out, n)
				break
			}
		}
	}
	return out
}

// quotedIDs: a copy of the operation with every ID written as a string; n = how many were numbers.
func quotedIDs(op *operation) (*operation, int) {
	n := 0
	c := op.clone()
	c.visit(func(nd *node) {
		for i := range nd.args {
			if nd.args[i].v != nil {
				nd.args[i].v = nd.args[i].v.quoted(&n)
			}
		}
	})
	if c.reps != nil {
		c.reps = c.reps.quoted(&n)
	}
	return c, n
}

func (p c20) runIDEncoding(c *fw.Ctx, idx, h int) fw.Result {
	res := fw.Result{Key: fw.HashKey("C20", "idenc", c.Seed, h)}
	r, err := getRig()
	if err != nil {
		res.Inconclusive = "rig: " + err.Error()
		return res
	}
	r.conn.resetCase()
	res.Count("idenc_cases", 1)
	rng := c.Rng(idx, "idenc-gen")
	g := &gen{m: r.model, r: rng, budget: 18, feat: map[string]bool{}, numIDs: true}
	var numeric *operation
	var fed []fedConfig
	kind := "root"
	switch h % 3 {
	case 0:
		kind = "entity"
		numeric, fed = g.entityOperation()
	case 1:
		kind = "id-root"
		numeric = &operation{opType: "query"}
		root, names := r.model.s.Query, r.model.rootsTakingID(r.model.s.Query, r.model.queryFields)
		if h%9 == 1 && r.model.s.Mutation != nil {
			numeric.opType = "mutation"
			root, names = r.model.s.Mutation, r.model.rootsTakingID(r.model.s.Mutation, r.model.mutationFields)
		}
		used := map[string]bool{}
		for i, n := 0, 1+rng.IntN(2); i < n && len(names) > 0; i++ {
			nd := g.fieldNode(root.Name, root.Fields.ForName(names[rng.IntN(len(names))]), 1)
			g.uniqueRootAlias(used, nd)
			numeric.sels = append(numeric.sels, nd)
		}
	default:
		numeric = g.rootOperation(int(rng.Uint32() >> 1))
	}
	res.Count("idenc_cases_"+kind, 1)
	quoted, n := quotedIDs(numeric)
	q, vars := numeric.print()
	res.Key = fw.HashKey("C20", "idenc", q, vars)
	res.Sample = map[string]any{"kind": "id-encoding/" + kind, "query": trunc(q, 500), "variables": trunc(vars, 300), "ids_written_as_numbers": n}
	if n == 0 {
		res.Count("idenc_cases_without_numeric_id", 1)
		return res
	}
	res.Count("idenc_numeric_ids", int64(n))
	for _, op := range []*operation{quoted, numeric} {
		qq, _ := op.print()
		if msg := guardQuery(r, qq); msg != "" {
			res.Count("generator_rejected_by_gqlparser", 1)
			res.Observe("generator_rejections", errClass(msg))
			res.Inconclusive = "generator: gqlparser rejects the operation: " + msg + " :: " + trunc(qq, 300)
			return res
		}
	}
	b := evaluate(r, &res, quoted, fed, nil, false)
	switch b.status {
	case "generator":
		res.Count("generator_rejected_by_repository", 1)
		res.Inconclusive = "generator: the repository's normaliser/validator rejects the operation: " + trunc(b.errMsg, 300) + " :: " + trunc(b.query, 300)
		return res
	case "plan":
		res.Count("planner_errors", 1)
		res.Observe("planner_error_classes", errClass(b.errMsg))
		res.Inconclusive = "planner: " + errClass(b.errMsg)
		return res
	case "panic", "invalid-answer":
		return res
	case "ok":
		res.Count("operations_succeeded", 1)
	case "failed":
		res.Count("operations_failed", 1)
	}
	e := evaluate(r, &res, numeric, fed, []string{"id-as-number"}, false)
	switch e.status {
	case "generator", "plan":
		// the string form is accepted, the number form is not: the same request is refused
		res.Violate("metamorphic.success-differs", "q (IDs as strings) is planned, q' (the same IDs as numbers) is rejected: "+trunc(e.errMsg, 200),
			map[string]string{"path": "direct", "steps": "id-as-number", "direction": "reformulation-rejected", "error": errClass(e.errMsg)},
			map[string]any{"base": b.witness(), "reformulation": e.witness()})
		return res
	case "ok":
		res.Count("operations_succeeded", 1)
	case "failed":
		res.Count("operations_failed", 1)
	}
	res.Nontrivial = compare(&res, b, e, "direct", "idenc_")
	if len(res.Violations) > 6 {
		res.Violations = res.Violations[:6]
	}
	return res
}
