package c20

import (
	"bytes"
	"encoding/json"
	"fmt"
	"math"
	"regexp"
	"sort"
	"strconv"
	"strings"

	gast "github.com/vektah/gqlparser/v2/ast"
	"google.golang.org/protobuf/reflect/protoreflect"

	grpcdatasource "github.com/wundergraph/graphql-go-tools/v2/pkg/engine/datasource/grpc_datasource"
)

// ---- CollectFields (GraphQL spec 6.3.2) over the harness' own operation tree -----------------

type group struct {
	key   string
	name  string
	nodes []*node
}

func (g *group) children() []*node {
	var out []*node
	for _, n := range g.nodes {
		out = append(out, n.sels...)
	}
	return out
}

func collect(m *schemaModel, frags map[string]*fragDef, sels []*node, runtime string) []*group {
	var order []*group
	byKey := map[string]*group{}
	var rec func(sels []*node, depth int)
	rec = func(sels []*node, depth int) {
		if depth > 40 {
			return
		}
		for _, n := range sels {
			switch n.kind {
			case nField:
				g := byKey[n.key()]
				if g == nil {
					g = &group{key: n.key(), name: n.name}
					byKey[n.key()] = g
					order = append(order, g)
				}
				g.nodes = append(g.nodes, n)
			case nInline:
				if m.applies(n.cond, runtime) {
					rec(n.sels, depth+1)
				}
			case nSpread:
				if f := frags[n.cond]; f != nil && m.applies(f.cond, runtime) {
					rec(f.sels, depth+1)
				}
			}
		}
	}
	rec(sels, 0)
	return order
}

// ---- service data cursor -----------------------------------------------------------------------
// The cursor follows the recorded protobuf answer of a root RPC alongside the JSON, using only
// the field-name mapping (configuration). It is used for two things: to tell a null that projects
// absent service data from a null that drops present data, and to compare scalar leaves with the
// service data. Whenever the walk is not sure, the cursor becomes unknown and nothing is judged.

type ckind int

const (
	cMessage ckind = iota
	cList
	cScalar
)

type cursor struct {
	known   bool
	present bool
	kind    ckind
	msg     protoreflect.Message
	list    protoreflect.List
	scalar  protoreflect.Value
	fd      protoreflect.FieldDescriptor // descriptor of the scalar / the list elements
}

var unknownCursor = cursor{}

func cursorFromMessage(sub protoreflect.Message) cursor {
	d := sub.Descriptor()
	if strings.HasPrefix(string(d.FullName()), "google.protobuf.") {
		vfd := d.Fields().ByName("value")
		if vfd == nil {
			return unknownCursor
		}
		return cursor{known: true, present: true, kind: cScalar, scalar: sub.Get(vfd), fd: vfd}
	}
	if strings.HasPrefix(string(d.Name()), "ListOf") && d.Fields().Len() == 1 {
		lfd := d.Fields().ByNumber(1)
		if lfd == nil || lfd.Kind() != protoreflect.MessageKind || lfd.IsList() {
			return unknownCursor
		}
		if !sub.Has(lfd) {
			return cursor{known: true, present: false}
		}
		inner := sub.Get(lfd).Message()
		ifd := inner.Descriptor().Fields().ByNumber(1)
		if ifd == nil || !ifd.IsList() {
			return unknownCursor
		}
		return cursor{known: true, present: true, kind: cList, list: inner.Get(ifd).List(), fd: ifd}
	}
	return cursor{known: true, present: true, kind: cMessage, msg: sub}
}

func cursorFromField(msg protoreflect.Message, fd protoreflect.FieldDescriptor) cursor {
	if fd.IsMap() {
		return unknownCursor
	}
	if fd.IsList() {
		return cursor{known: true, present: true, kind: cList, list: msg.Get(fd).List(), fd: fd}
	}
	if fd.Kind() == protoreflect.MessageKind {
		if !msg.Has(fd) {
			return cursor{known: true, present: false}
		}
		return cursorFromMessage(msg.Get(fd).Message())
	}
	return cursor{known: true, present: true, kind: cScalar, scalar: msg.Get(fd), fd: fd}
}

func (c cursor) field(mp *grpcdatasource.GRPCMapping, typeName, fieldName string) cursor {
	if !c.known || !c.present || c.kind != cMessage {
		return unknownCursor
	}
	fm, ok := mp.Fields[typeName]
	if !ok {
		return unknownCursor
	}
	fdm, ok := fm[fieldName]
	if !ok || fdm.TargetName == "" {
		return unknownCursor
	}
	fd := c.msg.Descriptor().Fields().ByName(protoreflect.Name(fdm.TargetName))
	if fd == nil {
		return unknownCursor
	}
	return cursorFromField(c.msg, fd)
}

func (c cursor) index(i int) cursor {
	if !c.known || !c.present || c.kind != cList || i >= c.list.Len() {
		return unknownCursor
	}
	if c.fd.Kind() == protoreflect.MessageKind {
		return cursorFromMessage(c.list.Get(i).Message())
	}
	return cursor{known: true, present: true, kind: cScalar, scalar: c.list.Get(i), fd: c.fd}
}

// concrete unwraps the oneof wrapper message of an abstract type; returns the run-time type name.
func (c cursor) concrete() (cursor, string) {
	if !c.known || !c.present || c.kind != cMessage {
		return unknownCursor, ""
	}
	oo := c.msg.Descriptor().Oneofs()
	if oo.Len() != 1 || c.msg.Descriptor().Fields().Len() != oo.Get(0).Fields().Len() {
		return unknownCursor, ""
	}
	which := c.msg.WhichOneof(oo.Get(0))
	if which == nil {
		return cursor{known: true, present: false}, ""
	}
	if which.Kind() != protoreflect.MessageKind {
		return unknownCursor, ""
	}
	return cursorFromMessage(c.msg.Get(which).Message()), string(which.Message().Name())
}

// ---- shape oracle + position extraction -------------------------------------------------------

// pctx: facts about the selection path down to the current position; they end up in the match
// facts of a violation so that one specific defect can be told from another.
type pctx struct {
	belowResolver bool   // an ancestor field is a @connect__fieldResolver field
	belowRequires bool   // an ancestor field is a @requires field
	inEntity      bool   // below _entities
	listDepth     int    // list nesting of the field whose value is being looked at
	belowAbstract bool   // an ancestor position has an interface/union type
	resolverDepth int    // number of field-resolver ancestors
	parentKind    string // kind (plain|resolver|requires|root) of the field whose value holds the current object
	entityIdx     int    // 1+index of the current element of _entities (0 = not an entity element)
}

func (pc pctx) facts(extra map[string]string) map[string]string {
	m := map[string]string{
		"below_resolver":    strconv.FormatBool(pc.belowResolver),
		"below_requires":    strconv.FormatBool(pc.belowRequires),
		"in_entity":         strconv.FormatBool(pc.inEntity),
		"list_depth":        strconv.Itoa(pc.listDepth),
		"below_abstract":    strconv.FormatBool(pc.belowAbstract),
		"parent_field_kind": pc.parentKind,
	}
	for k, v := range extra {
		m[k] = v
	}
	return m
}

func (pc pctx) below() string {
	switch {
	case pc.belowRequires:
		return "requires"
	case pc.belowResolver:
		return "resolver"
	}
	return "plain"
}

func listDepthOf(t *gast.Type) int {
	n := 0
	for t.Elem != nil {
		n++
		t = t.Elem
	}
	return n
}

type shapeViolation struct {
	kind  string
	msg   string
	path  string // JSON path
	where string // Type.field (schema position)
	facts map[string]string
}

type posRec struct {
	path  string // origin path
	value string
	jpath string
	where string // Type.field
	below string // plain | resolver | requires: the nearest non-plain field at or above the position
}

type acc struct {
	viol     []shapeViolation
	pos      []posRec
	counters map[string]int64
	sets     map[string]map[string]bool
	// seq counts, per (RPC method, response path without indices), how many parent objects the
	// walk has met so far: the n-th one is answered by result[n] of a resolve / require RPC
	seq map[string]int
}

func newAcc() *acc {
	return &acc{counters: map[string]int64{}, sets: map[string]map[string]bool{}, seq: map[string]int{}}
}

// trial: a scratch accumulator that continues the sequence counters of a
func (a *acc) trial() *acc {
	t := newAcc()
	for k, v := range a.seq {
		t.seq[k] = v
	}
	return t
}

func (a *acc) count(n string, k int64) { a.counters[n] += k }
func (a *acc) observe(set, item string) {
	if a.sets[set] == nil {
		a.sets[set] = map[string]bool{}
	}
	a.sets[set][item] = true
}
func (a *acc) merge(b *acc) {
	a.seq = b.seq
	a.viol = append(a.viol, b.viol...)
	a.pos = append(a.pos, b.pos...)
	for k, v := range b.counters {
		a.counters[k] += v
	}
	for s, items := range b.sets {
		for it := range items {
			a.observe(s, it)
		}
	}
}

type entityRep struct{ typ, id string }

type oracle struct {
	calls   []rpcCall   // the RPCs of this Load (recorded by the memoising transport)
	reps    []entityRep // entity operations: __typename and id of each representation, in order
	m       *schemaModel
	mp      *grpcdatasource.GRPCMapping
	frags   map[string]*fragDef
	lenient bool // engine path: the upstream operation is the engine's (it adds __typename); extra __typename keys are tolerated
}

func rawJSON(v any) string {
	var buf bytes.Buffer
	enc := json.NewEncoder(&buf)
	enc.SetEscapeHTML(false)
	_ = enc.Encode(v)
	return strings.TrimSpace(buf.String())
}

func typeText(t *gast.Type) string { return t.String() }

func (o *oracle) value(a *acc, pc pctx, t *gast.Type, g *group, where string, v any, jpath, opath string, cur cursor) {
	if v == nil {
		a.pos = append(a.pos, posRec{opath, "null", jpath, where, pc.below()})
		switch {
		case cur.known && cur.present:
			kind := "projection.null-for-present-data"
			if t.NonNull {
				kind = "shape.null-in-non-null"
			}
			if cur.kind == cScalar && cur.fd != nil && cur.fd.Kind() == protoreflect.EnumKind {
				if _, ok := o.enumValue(cur); !ok {
					a.count("null_for_unmapped_enum", 1)
					return
				}
			}
			a.viol = append(a.viol, shapeViolation{kind: kind, path: jpath, where: where,
				msg:   fmt.Sprintf("%s is null in the answer although the service data has a value there (type %s)", where, typeText(t)),
				facts: pc.facts(map[string]string{"position": where})})
		case t.NonNull && cur.known:
			a.count("null_in_non_null_service_data_absent", 1)
			a.observe("null_in_non_null_service_data_absent", where)
		case t.NonNull:
			a.count("null_in_non_null_unattributed", 1)
			a.observe("null_in_non_null_unattributed", where)
		}
		return
	}
	if cur.known && !cur.present {
		// proto3 scalars are never absent, so this is an unset message / wrapper / oneof
		a.viol = append(a.viol, shapeViolation{kind: "projection.value-for-absent-data", path: jpath, where: where,
			msg: fmt.Sprintf("%s is %s in the answer although the service data has nothing there", where, trunc(rawJSON(v), 120)), facts: pc.facts(map[string]string{"position": where})})
		cur = unknownCursor
	}
	if t.Elem != nil {
		arr, ok := v.([]any)
		if !ok {
			a.viol = append(a.viol, shapeViolation{kind: "shape.not-a-list", path: jpath, where: where,
				msg: fmt.Sprintf("%s has list type %s but the answer holds %s", where, typeText(t), rawJSON(v)), facts: pc.facts(map[string]string{"position": where})})
			return
		}
		a.pos = append(a.pos, posRec{opath, fmt.Sprintf("list(%d)", len(arr)), jpath, where, pc.below()})
		if cur.known && cur.present && cur.kind == cList && cur.list.Len() != len(arr) {
			a.viol = append(a.viol, shapeViolation{kind: "projection.list-length", path: jpath, where: where,
				msg: fmt.Sprintf("%s has %d items in the answer, the service data has %d", where, len(arr), cur.list.Len()), facts: pc.facts(map[string]string{"position": where})})
		}
		if cur.known && cur.kind != cList {
			cur = unknownCursor
		}
		if where == "Query._entities" && len(o.reps) > 0 && len(arr) != len(o.reps) {
			a.viol = append(a.viol, shapeViolation{kind: "projection.entity-alignment", path: jpath, where: where,
				msg: fmt.Sprintf("_entities has %d items for %d representations", len(arr), len(o.reps)), facts: pc.facts(map[string]string{"position": where, "what": "count"})})
		}
		for i, e := range arr {
			epc := pc
			if where == "Query._entities" && i < len(o.reps) {
				epc.entityIdx = i + 1
			}
			o.value(a, epc, t.Elem, g, where, e, fmt.Sprintf("%s[%d]", jpath, i), fmt.Sprintf("%s[%d]", opath, i), cur.index(i))
		}
		return
	}
	if _, isList := v.([]any); isList {
		a.viol = append(a.viol, shapeViolation{kind: "shape.unexpected-list", path: jpath, where: where,
			msg: fmt.Sprintf("%s has type %s but the answer holds a list", where, typeText(t)), facts: pc.facts(map[string]string{"position": where})})
		return
	}
	def := o.m.typ(t.NamedType)
	if def == nil {
		return
	}
	switch def.Kind {
	case gast.Scalar, gast.Enum:
		a.pos = append(a.pos, posRec{opath, rawJSON(v), jpath, where, pc.below()})
		a.count("leaf_values_checked", 1)
		if msg := o.scalarKind(def, v); msg != "" {
			a.viol = append(a.viol, shapeViolation{kind: "shape.scalar-kind", path: jpath, where: where,
				msg: fmt.Sprintf("%s: %s", where, msg), facts: pc.facts(map[string]string{"position": where, "type": t.NamedType})})
			return
		}
		if cur.known && cur.present && cur.kind == cScalar {
			if exp, ok := o.expectScalar(def, cur); ok {
				a.count("leaf_values_compared_with_service_data", 1)
				if !sameScalar(exp, v) {
					a.viol = append(a.viol, shapeViolation{kind: "projection.value", path: jpath, where: where,
						msg: fmt.Sprintf("%s is %s in the answer, the service data says %s", where, rawJSON(v), rawJSON(exp)), facts: pc.facts(map[string]string{"position": where})})
				}
			}
		}
	case gast.Object, gast.Interface, gast.Union:
		obj, ok := v.(map[string]any)
		if !ok {
			a.viol = append(a.viol, shapeViolation{kind: "shape.not-an-object", path: jpath, where: where,
				msg: fmt.Sprintf("%s has composite type %s but the answer holds %s", where, typeText(t), rawJSON(v)), facts: pc.facts(map[string]string{"position": where})})
			return
		}
		a.pos = append(a.pos, posRec{opath, "object", jpath, where, pc.below()})
		o.object(a, pc, t.NamedType, g.children(), where, obj, jpath, opath, cur)
	}
}

func (o *oracle) scalarKind(def *gast.Definition, v any) string {
	if def.Kind == gast.Enum {
		s, ok := v.(string)
		if !ok {
			return fmt.Sprintf("enum %s expects a string, got %s", def.Name, rawJSON(v))
		}
		for _, ev := range def.EnumValues {
			if ev.Name == s {
				return ""
			}
		}
		return fmt.Sprintf("%q is not a value of enum %s", s, def.Name)
	}
	switch def.Name {
	case "String", "ID":
		if _, ok := v.(string); !ok {
			return fmt.Sprintf("%s expects a JSON string, got %s", def.Name, rawJSON(v))
		}
	case "Boolean":
		if _, ok := v.(bool); !ok {
			return fmt.Sprintf("Boolean expects true/false, got %s", rawJSON(v))
		}
	case "Int":
		n, ok := v.(json.Number)
		if !ok {
			return fmt.Sprintf("Int expects a JSON number, got %s", rawJSON(v))
		}
		i, err := strconv.ParseInt(n.String(), 10, 64)
		if err != nil || i > math.MaxInt32 || i < math.MinInt32 {
			return fmt.Sprintf("Int expects a 32-bit integer, got %s", n.String())
		}
	case "Float":
		n, ok := v.(json.Number)
		if !ok {
			return fmt.Sprintf("Float expects a JSON number, got %s", rawJSON(v))
		}
		if _, err := strconv.ParseFloat(n.String(), 64); err != nil {
			return fmt.Sprintf("Float expects a finite number, got %s", n.String())
		}
	}
	return ""
}

func (o *oracle) enumValue(cur cursor) (string, bool) {
	ed := cur.fd.Enum()
	evd := ed.Values().ByNumber(cur.scalar.Enum())
	if evd == nil {
		return "", false
	}
	for _, em := range o.mp.EnumValues[string(ed.Name())] {
		if em.TargetValue == string(evd.Name()) {
			return em.Value, true
		}
	}
	return "", false
}

// expectScalar: the JSON value the service data stands for, where that is unambiguous.
func (o *oracle) expectScalar(def *gast.Definition, cur cursor) (any, bool) {
	k := cur.fd.Kind()
	if def.Kind == gast.Enum {
		if k != protoreflect.EnumKind {
			return nil, false
		}
		s, ok := o.enumValue(cur)
		return s, ok
	}
	switch def.Name {
	case "String", "ID":
		if k == protoreflect.StringKind {
			return cur.scalar.String(), true
		}
	case "Boolean":
		if k == protoreflect.BoolKind {
			return cur.scalar.Bool(), true
		}
	case "Int":
		if k == protoreflect.Int32Kind || k == protoreflect.Sint32Kind || k == protoreflect.Sfixed32Kind {
			return json.Number(strconv.FormatInt(cur.scalar.Int(), 10)), true
		}
	case "Float":
		if k == protoreflect.DoubleKind || k == protoreflect.FloatKind {
			f := cur.scalar.Float()
			if math.IsNaN(f) || math.IsInf(f, 0) {
				return nil, false
			}
			return f, true
		}
	}
	return nil, false
}

func sameScalar(exp any, got any) bool {
	switch e := exp.(type) {
	case string:
		s, ok := got.(string)
		return ok && s == e
	case bool:
		b, ok := got.(bool)
		return ok && b == e
	case json.Number:
		n, ok := got.(json.Number)
		if !ok {
			return false
		}
		a, err1 := strconv.ParseInt(n.String(), 10, 64)
		b, err2 := strconv.ParseInt(e.String(), 10, 64)
		return err1 == nil && err2 == nil && a == b
	case float64:
		n, ok := got.(json.Number)
		if !ok {
			return false
		}
		f, err := strconv.ParseFloat(n.String(), 64)
		return err == nil && f == e
	}
	return false
}

func keysOf(obj map[string]any) []string {
	var ks []string
	for k := range obj {
		ks = append(ks, k)
	}
	sort.Strings(ks)
	return ks
}

// object checks obj against the selection sels made on typeName (object, interface or union).
func (o *oracle) object(a *acc, pc pctx, typeName string, sels []*node, where string, obj map[string]any, jpath, opath string, cur cursor) {
	candidates := o.m.possible(typeName)
	abstract := o.m.isAbstract(typeName)
	protoType := ""
	if abstract {
		cur, protoType = cur.concrete()
		a.count("abstract_positions", 1)
	}
	if len(candidates) == 0 {
		return
	}
	// engine path: the engine's upstream operation asks for __typename on abstract types
	if o.lenient && abstract {
		if tn, ok := obj["__typename"].(string); ok {
			for _, c := range candidates {
				if c == tn {
					candidates = []string{c}
				}
			}
		}
	}
	// an element of _entities answers the representation at the same index
	if pc.entityIdx > 0 && pc.entityIdx <= len(o.reps) {
		want := o.reps[pc.entityIdx-1]
		for _, c := range candidates {
			if c == want.typ {
				candidates = []string{c}
			}
		}
	}
	// the recorded service data names the concrete type: judge against that one
	if protoType != "" {
		for _, c := range candidates {
			if c == protoType {
				candidates = []string{c}
				a.count("abstract_positions_typed_by_service_data", 1)
			}
		}
	}
	type trialT struct {
		cand string
		a    *acc
	}
	var clean, all []trialT
	for _, cand := range candidates {
		t := trialT{cand, a.trial()}
		o.objectAs(t.a, pc, cand, abstract, sels, where, obj, jpath, opath, cur)
		all = append(all, t)
		if len(t.a.viol) == 0 {
			clean = append(clean, t)
		}
	}
	if len(clean) > 0 {
		if abstract {
			a.observe("runtime_types", typeName+"="+clean[0].cand)
		}
		a.merge(clean[0].a)
		return
	}
	// no possible type fits: report against the most plausible one (the one the answer names
	// through a selected __typename, else the one with the fewest deviations)
	// (keys the selection does not ask for weigh more than keys that are lacking; a lacking
	// resolver/@requires field says least about the type: it is filled in by a separate RPC)
	score := func(t trialT) int {
		n := 0
		for _, v := range t.a.viol {
			switch {
			case v.path == jpath && v.kind == "shape.extra-key":
				n += 10000
			case v.path == jpath && v.kind == "shape.missing-key" && (v.facts["field_kind"] == "resolver" || v.facts["field_kind"] == "requires"):
				n++
			default:
				n += 100
			}
		}
		return n
	}
	pick := all[0]
	for _, t := range all {
		if score(t) < score(pick) {
			pick = t
		}
	}
	for _, t := range all {
		for _, g := range collect(o.m, o.frags, sels, t.cand) {
			if g.name == "__typename" {
				if s, ok := obj[g.key].(string); ok && s == t.cand {
					pick = t
				}
			}
		}
	}
	a.merge(pick.a)
}

var reIndex = regexp.MustCompile(`\[\d+\]`)

// singleEntityType: all representations are of one type (then the n-th entity that carries a
// @requires field is the n-th context element of the require RPC).
func (o *oracle) singleEntityType() bool {
	for _, r := range o.reps {
		if r.typ != o.reps[0].typ {
			return false
		}
	}
	return len(o.reps) > 0
}

// batchResult: resolve / require RPCs answer a batch: result[n] belongs to the n-th parent object
// in document order. The cursor is attributed only when this Load made exactly one distinct
// request to that method.
func (o *oracle) batchResult(a *acc, rpc, target, jpath string) cursor {
	if o.lenient || target == "" {
		return unknownCursor
	}
	method := "/productv1.ProductService/" + rpc
	keys := map[string]bool{}
	var reply protoreflect.Message
	for i := range o.calls {
		c := &o.calls[i]
		if c.method == method {
			if c.err != nil {
				return unknownCursor
			}
			keys[c.key] = true
			reply = c.reply
		}
	}
	seqKey := method + "|" + reIndex.ReplaceAllString(jpath, "")
	n := a.seq[seqKey]
	a.seq[seqKey] = n + 1
	if len(keys) != 1 || reply == nil {
		return unknownCursor
	}
	rfd := reply.Descriptor().Fields().ByName("result")
	if rfd == nil || !rfd.IsList() || rfd.Kind() != protoreflect.MessageKind {
		return unknownCursor
	}
	list := reply.Get(rfd).List()
	if n >= list.Len() {
		return unknownCursor
	}
	item := list.Get(n).Message()
	fd := item.Descriptor().Fields().ByName(protoreflect.Name(target))
	if fd == nil {
		return unknownCursor
	}
	a.count("batch_results_followed_in_service_data", 1)
	return cursorFromField(item, fd)
}

func (o *oracle) fieldKind(runtime, name string) string {
	switch {
	case name == "__typename":
		return "typename"
	case o.m.resolver[runtime+"."+name]:
		return "resolver"
	case o.m.requires[runtime+"."+name] != "":
		return "requires"
	}
	return "plain"
}

func (o *oracle) objectAs(a *acc, pc pctx, runtime string, abstract bool, sels []*node, where string, obj map[string]any, jpath, opath string, cur cursor) {
	groups := collect(o.m, o.frags, sels, runtime)
	expected := map[string]bool{}
	nameCount := map[string]int{}
	for _, g := range groups {
		expected[g.key] = true
		nameCount[g.name]++
	}
	for _, k := range keysOf(obj) {
		if !expected[k] {
			if o.lenient && k == "__typename" {
				continue
			}
			// is the stray key a field of another entity type of the operation?
			foreign := "false"
			if pc.inEntity && where == "Query._entities" {
				for _, other := range o.m.possible("_Entity") {
					if other == runtime {
						continue
					}
					for _, g := range collect(o.m, o.frags, sels, other) {
						if g.key == k {
							foreign = o.fieldKind(other, g.name) + "-of-other-entity-type"
						}
					}
				}
			}
			a.viol = append(a.viol, shapeViolation{kind: "shape.extra-key", path: jpath, where: where,
				msg:   fmt.Sprintf("the object at %s (as %s) has key %q which the selection does not ask for (selection keys: %v)", jpath, runtime, k, groupKeys(groups)),
				facts: pc.facts(map[string]string{"position": where, "key_is_typename": strconv.FormatBool(k == "__typename"), "stray_key_is": foreign})})
		}
	}
	for _, g := range groups {
		v, present := obj[g.key]
		fwhere := runtime + "." + g.name
		sub := opath + "/" + strconv.Itoa(g.nodes[0].origin)
		kind := o.fieldKind(runtime, g.name)
		if !present {
			otherKey := nameCount[g.name] > 1
			if o.lenient && g.name == "__typename" && g.key != "__typename" {
				if _, has := obj["__typename"]; has {
					otherKey = true // the engine's upstream operation selects __typename itself
				}
			}
			a.viol = append(a.viol, shapeViolation{kind: "shape.missing-key", path: jpath, where: fwhere,
				msg: fmt.Sprintf("the object at %s (as %s) lacks response key %q (field %s); keys present: %v", jpath, runtime, g.key, g.name, keysOf(obj)),
				facts: pc.facts(map[string]string{"position": fwhere, "aliased": strconv.FormatBool(g.key != g.name), "in_abstract": strconv.FormatBool(abstract),
					"field_kind": kind, "same_field_under_other_key": strconv.FormatBool(otherKey)})})
			continue
		}
		if g.name == "__typename" {
			a.pos = append(a.pos, posRec{sub, rawJSON(v), jpath + "." + g.key, fwhere, pc.below()})
			s, ok := v.(string)
			if !ok || s != runtime {
				a.viol = append(a.viol, shapeViolation{kind: "shape.typename", path: jpath + "." + g.key, where: fwhere,
					msg: fmt.Sprintf("__typename at %s is %s, expected %q", jpath, rawJSON(v), runtime), facts: pc.facts(map[string]string{"position": fwhere})})
			}
			a.count("typename_values_checked", 1)
			continue
		}
		fd := o.m.field(runtime, g.name)
		if fd == nil {
			continue // cannot happen for validated operations
		}
		if pc.entityIdx > 0 && pc.entityIdx <= len(o.reps) && g.name == "id" {
			want := o.reps[pc.entityIdx-1]
			a.count("entity_keys_checked", 1)
			if sv, ok := v.(string); want.typ == runtime && (!ok || sv != want.id) {
				a.viol = append(a.viol, shapeViolation{kind: "projection.entity-alignment", path: jpath + "." + g.key, where: fwhere,
					msg:   fmt.Sprintf("the entity at %s answers the representation {__typename: %s, id: %q} but its id is %s", jpath, want.typ, want.id, rawJSON(v)),
					facts: pc.facts(map[string]string{"position": fwhere, "what": "key"})})
			}
		}
		ccur := unknownCursor
		cpc := pc
		cpc.entityIdx = 0
		cpc.listDepth = listDepthOf(fd.Type)
		cpc.belowAbstract = pc.belowAbstract || abstract
		cpc.parentKind = kind
		switch kind {
		case "resolver":
			cpc.belowResolver = true
			a.observe("field_resolvers_answered", fwhere)
			if rm, ok := o.mp.ResolveRPCs[runtime][g.name]; ok {
				ccur = o.batchResult(a, rm.RPC, rm.FieldMappingData.TargetName, jpath+"."+g.key)
			}
		case "requires":
			cpc.belowRequires = true
			a.observe("requires_fields_answered", fwhere)
			for _, ec := range o.mp.EntityRPCs[runtime] {
				if rq, ok := ec.RequiredFields[g.name]; ok && o.singleEntityType() {
					ccur = o.batchResult(a, rq.RPC, rq.TargetName, jpath+"."+g.key)
				}
			}
		default:
			if g.name != "_entities" {
				ccur = cur.field(o.mp, runtime, g.name)
			}
		}
		a.observe("types_covered", runtime)
		o.value(a, cpc, fd.Type, g, fwhere, v, jpath+"."+g.key, sub, ccur)
	}
}

func groupKeys(gs []*group) []string {
	var out []string
	for _, g := range gs {
		out = append(out, g.key)
	}
	return out
}

// positions folds the recorded (origin path -> value) pairs; the same origin path seen with two
// different values inside ONE answer (duplicated field under another alias) is a mismatch.
func positions(a *acc) (map[string]posRec, []string) {
	out := map[string]posRec{}
	var conflicts []string
	for _, p := range a.pos {
		if q, ok := out[p.path]; ok {
			if q.value != p.value {
				conflicts = append(conflicts, fmt.Sprintf("%s: %s at %s vs %s at %s", p.path, q.value, q.jpath, p.value, p.jpath))
			}
			continue
		}
		out[p.path] = p
	}
	return out, conflicts
}

func decodeJSON(b []byte) (any, error) {
	dec := json.NewDecoder(bytes.NewReader(b))
	dec.UseNumber()
	var v any
	if err := dec.Decode(&v); err != nil {
		return nil, err
	}
	if dec.More() {
		return nil, fmt.Errorf("trailing data after the JSON value")
	}
	return v, nil
}
