package c20

import (
	"fmt"
	"math/rand/v2"
	"strconv"

	gast "github.com/vektah/gqlparser/v2/ast"
)

// gen builds one base operation from the schema. Every field node gets a fresh origin id.
type gen struct {
	m       *schemaModel
	r       *rand.Rand
	nextID  int
	nextVar int
	budget  int // remaining field budget
	// boost (history cases): field resolvers on composite results are selected much more often, so
	// that most operations have chains of dependent resolve RPCs. false = the original rates.
	boost bool
	// numIDs (ID-encoding cases): an ID value that is a decimal integer is mostly written as a
	// number (Int literal / JSON number). false = always a string, no extra random draw.
	numIDs bool
	// features of the generated operation (evidence)
	feat map[string]bool
}

func (g *gen) id() int { g.nextID++; return g.nextID }

func (g *gen) chance(p float64) bool { return g.r.Float64() < p }

// fields (Type.field) whose RPC the mock service does not implement or deliberately answers
// wrongly; found by probing. They are still generated, rarely: a failing operation must fail in
// every equivalent reformulation too.
var rarelyGenerated = map[string]bool{
	"Subcategory.featuredCategory": true,
}

var stringPool = []string{"a", "b", "x y", "popularity_score", "unavailable", "error_action", "success", "é", "q\"uote", "", "tech", "premium", "e"}
var idPool = []string{"1", "2", "3", "7", "42", "abc", "storage-1"}

// small non-negative integers only: the mock service sizes slices by some arguments (depth, perPage, limit)
var intPool = []string{"0", "1", "2", "3", "5", "10"}
var floatPool = []string{"0.5", "1.5", "2.0", "10.25", "-3.75", "100", "99.99", "0"}

func (g *gen) value(t *gast.Type, depth int) *val {
	if !t.NonNull && g.chance(0.1) {
		return &val{kind: vNull}
	}
	if t.Elem != nil {
		n := g.r.IntN(4)
		out := &val{kind: vList}
		for i := 0; i < n; i++ {
			out.list = append(out.list, g.value(t.Elem, depth+1))
		}
		return out
	}
	def := g.m.typ(t.NamedType)
	if def == nil {
		return &val{kind: vNull}
	}
	switch def.Kind {
	case gast.Enum:
		ev := def.EnumValues[g.r.IntN(len(def.EnumValues))]
		return &val{kind: vEnum, s: ev.Name}
	case gast.InputObject:
		out := &val{kind: vObject}
		for _, f := range def.Fields {
			required := f.Type.NonNull && f.DefaultValue == nil
			if !required {
				p := 0.6
				if g.m.typ(baseName(f.Type)) != nil && g.m.typ(baseName(f.Type)).Kind == gast.InputObject && depth >= 2 {
					p = 0 // bound recursive inputs (ConditionsInput)
				}
				if !g.chance(p) {
					continue
				}
			}
			out.fields = append(out.fields, kv{f.Name, g.value(f.Type, depth+1)})
		}
		return out
	}
	switch t.NamedType {
	case "String":
		return &val{kind: vString, s: stringPool[g.r.IntN(len(stringPool))]}
	case "ID":
		return g.idValue(idPool[g.r.IntN(len(idPool))])
	case "Int":
		return &val{kind: vInt, s: intPool[g.r.IntN(len(intPool))]}
	case "Float":
		return &val{kind: vFloat, s: floatPool[g.r.IntN(len(floatPool))]}
	case "Boolean":
		return &val{kind: vBool, b: g.chance(0.5)}
	}
	return &val{kind: vNull}
}

func (g *gen) idValue(s string) *val {
	v := &val{kind: vString, s: s}
	if g.numIDs {
		if _, err := strconv.ParseUint(s, 10, 31); err == nil && g.chance(0.75) {
			v.num = true
		}
	}
	return v
}

func (g *gen) args(fd *gast.FieldDefinition) []argv {
	var out []argv
	for _, a := range fd.Arguments {
		required := a.Type.NonNull && a.DefaultValue == nil
		if !required && !g.chance(0.65) {
			continue
		}
		av := argv{name: a.Name, typ: a.Type.String(), v: g.value(a.Type, 0)}
		if g.chance(0.5) {
			g.nextVar++
			av.varName = "v" + strconv.Itoa(g.nextVar)
		}
		out = append(out, av)
	}
	return out
}

func (g *gen) typename(parent string) *node {
	return &node{kind: nField, name: "__typename", origin: g.id(), parent: parent}
}

// fieldNode builds a field selection on parent (object or interface type) for definition fd.
func (g *gen) fieldNode(parent string, fd *gast.FieldDefinition, depth int) *node {
	n := &node{kind: nField, name: fd.Name, origin: g.id(), parent: parent, args: g.args(fd)}
	g.budget--
	bt := baseName(fd.Type)
	if g.m.isComposite(bt) {
		n.sels = g.selection(bt, depth+1, false)
	}
	key := parent + "." + fd.Name
	if g.m.resolver[key] {
		g.feat["field-resolver"] = true
		if len(fd.Arguments) == 0 {
			g.feat["field-resolver-no-args"] = true
		}
	}
	if fd.Type.Elem != nil {
		g.feat["list"] = true
		if fd.Type.Elem.Elem != nil {
			g.feat["nested-list"] = true
		}
		if !fd.Type.NonNull {
			g.feat["nullable-list"] = true
		}
	}
	if def := g.m.typ(bt); def != nil && def.Kind == gast.Enum {
		g.feat["enum"] = true
	}
	if len(n.args) > 0 {
		g.feat["arguments"] = true
	}
	return n
}

// selection builds a non-empty selection set on the named composite type. entityTop is true for
// the selection directly inside an entity fragment (only there @requires fields are selectable).
func (g *gen) selection(typeName string, depth int, entityTop bool) []*node {
	def := g.m.typ(typeName)
	var out []*node
	if def == nil {
		return out
	}
	maxDepth := 5
	switch def.Kind {
	case gast.Object, gast.Interface:
		if g.chance(0.25) || (def.Kind == gast.Interface && g.chance(0.5)) {
			out = append(out, g.typename(typeName))
		}
		var scalars, composites []*gast.FieldDefinition
		for _, f := range def.Fields {
			k := typeName + "." + f.Name
			if g.m.external[k] {
				continue
			}
			if _, req := g.m.requires[k]; req {
				continue // selected only by the entity generator
			}
			if g.m.isComposite(baseName(f.Type)) {
				composites = append(composites, f)
			} else {
				scalars = append(scalars, f)
			}
		}
		for _, f := range scalars {
			p := 0.5
			if g.m.resolver[typeName+"."+f.Name] {
				p = 0.3
				if g.boost {
					p = 0.5
				}
			}
			if rarelyGenerated[typeName+"."+f.Name] {
				p = 0.03
			}
			if g.budget > 0 && g.chance(p) {
				out = append(out, g.fieldNode(typeName, f, depth))
			}
		}
		if depth < maxDepth {
			for _, f := range composites {
				p := 0.45 / float64(depth)
				if g.m.resolver[typeName+"."+f.Name] {
					p = 0.3 / float64(depth)
					if g.boost {
						p = 0.8
					}
				}
				if rarelyGenerated[typeName+"."+f.Name] {
					p = 0.02
				}
				if g.budget > 0 && g.chance(p) {
					out = append(out, g.fieldNode(typeName, f, depth))
				}
			}
		}
		if def.Kind == gast.Interface {
			g.feat["interface"] = true
			for _, p := range g.m.possible(typeName) {
				if g.budget > 0 && g.chance(0.65) {
					fr := &node{kind: nInline, cond: p, parent: typeName, sels: g.selection(p, depth, false)}
					out = append(out, fr)
					g.feat["inline-fragment"] = true
				}
			}
		}
		if len(out) == 0 || (len(out) == 1 && out[0].kind == nInline) {
			// guarantee at least one plain field
			if len(scalars) > 0 {
				var plain []*gast.FieldDefinition
				for _, f := range scalars {
					if !g.m.resolver[typeName+"."+f.Name] {
						plain = append(plain, f)
					}
				}
				if len(plain) > 0 {
					out = append(out, g.fieldNode(typeName, plain[g.r.IntN(len(plain))], depth))
				} else {
					out = append(out, g.typename(typeName))
				}
			} else {
				out = append(out, g.typename(typeName))
			}
		}
	case gast.Union:
		g.feat["union"] = true
		if g.chance(0.7) {
			out = append(out, g.typename(typeName))
		}
		for _, p := range g.m.possible(typeName) {
			if g.chance(0.7) {
				out = append(out, &node{kind: nInline, cond: p, parent: typeName, sels: g.selection(p, depth, false)})
				g.feat["inline-fragment"] = true
			}
		}
		if len(out) == 0 {
			out = append(out, g.typename(typeName))
		}
	}
	g.r.Shuffle(len(out), func(i, j int) { out[i], out[j] = out[j], out[i] })
	return out
}

func (g *gen) uniqueRootAlias(used map[string]bool, n *node) {
	if !used[n.key()] {
		used[n.key()] = true
		return
	}
	for i := 1; ; i++ {
		a := fmt.Sprintf("%s_%d", n.name, i)
		if !used[a] {
			n.alias = a
			used[a] = true
			g.feat["alias"] = true
			return
		}
	}
}

// rootOperation: a query or mutation over 1..3 root fields; idx steers the first root field so
// that every root field is used within few cases.
func (g *gen) rootOperation(idx int) *operation {
	op := &operation{opType: "query"}
	fields := g.m.queryFields
	root := g.m.s.Query
	if idx%6 == 5 {
		op.opType = "mutation"
		fields = g.m.mutationFields
		root = g.m.s.Mutation
		g.feat["mutation"] = true
	}
	n := 1
	if g.chance(0.35) {
		n = 2 + g.r.IntN(2)
	}
	used := map[string]bool{}
	for i := 0; i < n; i++ {
		name := fields[g.r.IntN(len(fields))]
		if i == 0 {
			name = fields[(idx/6)%len(fields)]
		}
		fd := root.Fields.ForName(name)
		nd := g.fieldNode(root.Name, fd, 1)
		g.uniqueRootAlias(used, nd)
		op.sels = append(op.sels, nd)
	}
	return op
}

// ---- entity operations (federation) ------------------------------------------------------------

func (g *gen) reqValue(typeName string, rs *reqSel, fieldName string) *val {
	fd := g.m.field(typeName, fieldName)
	if fd == nil {
		return &val{kind: vNull}
	}
	return g.reqTyped(fd.Type, rs)
}

func (g *gen) reqTyped(t *gast.Type, rs *reqSel) *val {
	if !t.NonNull && g.chance(0.12) {
		return &val{kind: vNull}
	}
	if t.Elem != nil {
		n := g.r.IntN(4)
		out := &val{kind: vList}
		for i := 0; i < n; i++ {
			out.list = append(out.list, g.reqTyped(t.Elem, rs))
		}
		return out
	}
	def := g.m.typ(t.NamedType)
	if def == nil {
		return &val{kind: vNull}
	}
	switch def.Kind {
	case gast.Object:
		return g.reqObject(t.NamedType, rs, false)
	case gast.Interface, gast.Union:
		// pick a concrete type among the fragments the @requires selection names
		choices := rs.forder
		if len(choices) == 0 {
			choices = g.m.possible(t.NamedType)
		}
		ct := choices[g.r.IntN(len(choices))]
		merged := newReqSel()
		merged.merge(rs)
		if fs, ok := rs.frags[ct]; ok {
			merged.merge(fs)
		}
		return g.reqObject(ct, merged, true)
	case gast.Enum:
		return &val{kind: vEnum, s: def.EnumValues[g.r.IntN(len(def.EnumValues))].Name}
	}
	return g.value(&gast.Type{NamedType: t.NamedType, NonNull: true}, 0)
}

func (g *gen) reqObject(typeName string, rs *reqSel, withTypename bool) *val {
	out := &val{kind: vObject}
	if withTypename {
		out.fields = append(out.fields, kv{"__typename", &val{kind: vString, s: typeName}})
	}
	for _, fn := range rs.order {
		if fn == "__typename" {
			continue
		}
		out.fields = append(out.fields, kv{fn, g.reqValue(typeName, rs.fields[fn], fn)})
	}
	return out
}

type fedConfig struct{ typeName, fieldName, selectionSet string }

// entityOperation: query($representations: [_Any!]!) { _entities(representations: $representations) { ... on T { __typename … } } }
func (g *gen) entityOperation() (*operation, []fedConfig) {
	g.feat["entity-lookup"] = true
	var types []string
	for _, t := range []string{"Product", "Storage"} {
		if g.chance(0.6) {
			types = append(types, t)
		}
	}
	if g.chance(0.04) {
		types = append(types, "Warehouse") // the mock answers with a wrong entity count: the operation fails
	}
	if len(types) == 0 {
		types = []string{[]string{"Product", "Storage"}[g.r.IntN(2)]}
	}
	var fed []fedConfig
	need := map[string]*reqSel{}
	ent := &node{kind: nField, name: "_entities", origin: g.id(), parent: "Query",
		args: []argv{{name: "representations", typ: "[_Any!]!", varName: "representations"}}}
	for _, t := range types {
		def := g.m.typ(t)
		fed = append(fed, fedConfig{typeName: t, selectionSet: "id"})
		fr := &node{kind: nInline, cond: t, parent: "_Entity"}
		fr.sels = append(fr.sels, g.typename(t))
		need[t] = newReqSel()
		var reqFields []*gast.FieldDefinition
		for _, f := range def.Fields {
			k := t + "." + f.Name
			if g.m.external[k] {
				continue
			}
			if _, ok := g.m.requires[k]; ok {
				reqFields = append(reqFields, f)
				continue
			}
			p := 0.45
			if g.m.isComposite(baseName(f.Type)) {
				p = 0.3
			}
			if g.chance(p) {
				fr.sels = append(fr.sels, g.fieldNode(t, f, 2))
			}
		}
		if len(reqFields) > 0 && g.chance(0.8) {
			k := 1 + g.r.IntN(4)
			for i := 0; i < k; i++ {
				f := reqFields[g.r.IntN(len(reqFields))]
				dup := false
				for _, s := range fr.sels {
					if s.name == f.Name {
						dup = true
					}
				}
				if dup {
					continue
				}
				key := t + "." + f.Name
				fr.sels = append(fr.sels, g.fieldNode(t, f, 2))
				fed = append(fed, fedConfig{typeName: t, fieldName: f.Name, selectionSet: g.m.requires[key]})
				need[t].merge(g.m.reqSels[key])
				g.feat["requires"] = true
				if len(f.Arguments) > 0 {
					g.feat["requires-with-arguments"] = true
				}
				if g.m.isAbstract(baseName(f.Type)) {
					g.feat["requires-abstract-result"] = true
				}
			}
		}
		g.r.Shuffle(len(fr.sels), func(i, j int) { fr.sels[i], fr.sels[j] = fr.sels[j], fr.sels[i] })
		ent.sels = append(ent.sels, fr)
	}
	// representations: 1..4, types interleaved
	n := 1 + g.r.IntN(4)
	reps := g.representations(types, need, n)
	op := &operation{opType: "query", entity: true, reps: reps, sels: []*node{ent}, entTypes: types, entNeed: need}
	return op, fed
}

// representations builds n representations of the given entity types (interleaved) with the
// fields the selected @requires fields need.
func (g *gen) representations(types []string, need map[string]*reqSel, n int) *val {
	reps := &val{kind: vList}
	for i := 0; i < n; i++ {
		t := types[g.r.IntN(len(types))]
		obj := &val{kind: vObject}
		obj.fields = append(obj.fields, kv{"__typename", &val{kind: vString, s: t}})
		obj.fields = append(obj.fields, kv{"id", g.idValue(idPool[g.r.IntN(4)])})
		body := g.reqObject(t, need[t], false)
		for _, f := range body.fields {
			if f.k == "id" {
				continue
			}
			obj.fields = append(obj.fields, f)
		}
		reps.list = append(reps.list, obj)
	}
	return reps
}

// revalue: the same operation with other argument values (literals and variables alike: the
// planner's normalisation extracts both into variables) resp. other representations. The
// selection, the aliases and the variable names stay as they are.
func (g *gen) revalue(op *operation) *operation {
	c := op.clone()
	c.visit(func(n *node) {
		if n.kind != nField || isEntityRoot(n) {
			return
		}
		fd := g.m.field(n.parent, n.name)
		if fd == nil {
			return
		}
		for i := range n.args {
			ad := fd.Arguments.ForName(n.args[i].name)
			if ad == nil || n.args[i].v == nil {
				continue
			}
			if g.chance(0.7) {
				n.args[i].v = g.value(ad.Type, 0)
			}
		}
	})
	if c.entity && len(c.entTypes) > 0 {
		n := g.r.IntN(5) // 0..4: an empty list of representations is a valid request
		c.reps = g.representations(c.entTypes, c.entNeed, n)
	}
	return c
}
