package c20

import (
	"encoding/json"
	"fmt"
	"sort"
	"strconv"
	"strings"
)

// ---- values (arguments, variables, representations) ------------------------------------------

type vkind int

const (
	vNull vkind = iota
	vString
	vInt
	vFloat
	vBool
	vEnum
	vList
	vObject
)

type kv struct {
	k string
	v *val
}

// val is a GraphQL input value that can be printed as a literal and as JSON.
type val struct {
	kind vkind
	s    string // string / enum / number text
	b    bool
	// num: an ID value (kind vString, s a decimal integer) written as a number: the Int literal 7
	// resp. the JSON number 7 instead of "7" (ID input coercion accepts both)
	num    bool
	list   []*val
	fields []kv
}

func (v *val) literal(sb *strings.Builder) {
	switch v.kind {
	case vNull:
		sb.WriteString("null")
	case vString:
		if v.num {
			sb.WriteString(v.s)
		} else {
			sb.WriteString(strconv.Quote(v.s))
		}
	case vInt, vFloat, vEnum:
		sb.WriteString(v.s)
	case vBool:
		sb.WriteString(strconv.FormatBool(v.b))
	case vList:
		sb.WriteByte('[')
		for i, e := range v.list {
			if i > 0 {
				sb.WriteString(", ")
			}
			e.literal(sb)
		}
		sb.WriteByte(']')
	case vObject:
		sb.WriteByte('{')
		for i, f := range v.fields {
			if i > 0 {
				sb.WriteString(", ")
			}
			sb.WriteString(f.k)
			sb.WriteString(": ")
			f.v.literal(sb)
		}
		sb.WriteByte('}')
	}
}

func (v *val) json(sb *strings.Builder) {
	switch v.kind {
	case vNull:
		sb.WriteString("null")
	case vString, vEnum:
		if v.kind == vString && v.num {
			sb.WriteString(v.s)
			break
		}
		b, _ := json.Marshal(v.s)
		sb.Write(b)
	case vInt, vFloat:
		sb.WriteString(v.s)
	case vBool:
		sb.WriteString(strconv.FormatBool(v.b))
	case vList:
		sb.WriteByte('[')
		for i, e := range v.list {
			if i > 0 {
				sb.WriteByte(',')
			}
			e.json(sb)
		}
		sb.WriteByte(']')
	case vObject:
		sb.WriteByte('{')
		for i, f := range v.fields {
			if i > 0 {
				sb.WriteByte(',')
			}
			b, _ := json.Marshal(f.k)
			sb.Write(b)
			sb.WriteByte(':')
			f.v.json(sb)
		}
		sb.WriteByte('}')
	}
}

// quoted: a deep copy in which every ID written as a number is written as a string; n = how many.
func (v *val) quoted(n *int) *val {
	if v == nil {
		return nil
	}
	c := *v
	if c.kind == vString && c.num {
		c.num = false
		*n++
	}
	c.list = nil
	for _, e := range v.list {
		c.list = append(c.list, e.quoted(n))
	}
	c.fields = nil
	for _, f := range v.fields {
		c.fields = append(c.fields, kv{f.k, f.v.quoted(n)})
	}
	return &c
}

func (v *val) jsonString() string {
	var sb strings.Builder
	v.json(&sb)
	return sb.String()
}

// ---- operation tree --------------------------------------------------------------------------

type nkind int

const (
	nField nkind = iota
	nInline
	nSpread
)

type argv struct {
	name    string
	typ     string // GraphQL type text of the argument (used for the variable definition)
	v       *val
	varName string // "" = printed as a literal
}

// node is a selection. Field nodes carry the id of the base-operation field they stem from
// (origin); copies made by reformulations keep it, synthetic nodes have origin 0.
type node struct {
	kind   nkind
	name   string // field name
	alias  string
	args   []argv
	sels   []*node
	origin int
	cond   string // inline fragment: type condition ("" = none); spread: fragment name
	parent string // name of the type the selection is made on (filled by the generator)
}

type fragDef struct {
	name string
	cond string
	sels []*node
}

type operation struct {
	opType string // "query" | "mutation"
	sels   []*node
	frags  []*fragDef
	// entity operations: the representations variable value (JSON array) and the federation
	// configuration handed to the datasource
	entity bool
	reps   *val
	// entity operations: what the representations are generated from (entity types of the
	// fragments, fields their selected @requires fields need); shared by clones, never modified
	entTypes []string
	entNeed  map[string]*reqSel
}

func (n *node) key() string {
	if n.alias != "" {
		return n.alias
	}
	return n.name
}

func (n *node) clone() *node {
	c := *n
	c.args = append([]argv(nil), n.args...)
	c.sels = make([]*node, len(n.sels))
	for i, s := range n.sels {
		c.sels[i] = s.clone()
	}
	if len(n.sels) == 0 {
		c.sels = nil
	}
	return &c
}

func (o *operation) clone() *operation {
	c := *o
	c.sels = make([]*node, len(o.sels))
	for i, s := range o.sels {
		c.sels[i] = s.clone()
	}
	c.frags = make([]*fragDef, len(o.frags))
	for i, f := range o.frags {
		fc := *f
		fc.sels = make([]*node, len(f.sels))
		for j, s := range f.sels {
			fc.sels[j] = s.clone()
		}
		c.frags[i] = &fc
	}
	return &c
}

// visit calls fn for every node reachable from the operation (fragment definitions included).
func (o *operation) visit(fn func(n *node)) {
	var rec func(ns []*node)
	rec = func(ns []*node) {
		for _, n := range ns {
			fn(n)
			rec(n.sels)
		}
	}
	rec(o.sels)
	for _, f := range o.frags {
		rec(f.sels)
	}
}

type varDef struct {
	name string
	typ  string
	v    *val
}

func (o *operation) variables() []varDef {
	seen := map[string]bool{}
	var out []varDef
	if o.entity {
		out = append(out, varDef{name: "representations", typ: "[_Any!]!", v: o.reps})
		seen["representations"] = true
	}
	o.visit(func(n *node) {
		for _, a := range n.args {
			if a.varName != "" && !seen[a.varName] {
				seen[a.varName] = true
				out = append(out, varDef{name: a.varName, typ: a.typ, v: a.v})
			}
		}
	})
	sort.SliceStable(out, func(i, j int) bool { return out[i].name < out[j].name })
	return out
}

func printSels(sb *strings.Builder, sels []*node) {
	sb.WriteString("{ ")
	for _, n := range sels {
		switch n.kind {
		case nField:
			if n.alias != "" {
				sb.WriteString(n.alias)
				sb.WriteString(": ")
			}
			sb.WriteString(n.name)
			if len(n.args) > 0 {
				sb.WriteByte('(')
				for i, a := range n.args {
					if i > 0 {
						sb.WriteString(", ")
					}
					sb.WriteString(a.name)
					sb.WriteString(": ")
					if a.varName != "" {
						sb.WriteByte('$')
						sb.WriteString(a.varName)
					} else {
						a.v.literal(sb)
					}
				}
				sb.WriteByte(')')
			}
			if len(n.sels) > 0 {
				sb.WriteByte(' ')
				printSels(sb, n.sels)
			}
		case nInline:
			sb.WriteString("...")
			if n.cond != "" {
				sb.WriteString(" on ")
				sb.WriteString(n.cond)
			}
			sb.WriteByte(' ')
			printSels(sb, n.sels)
		case nSpread:
			sb.WriteString("...")
			sb.WriteString(n.cond)
		}
		sb.WriteByte(' ')
	}
	sb.WriteString("}")
}

// print renders the client operation text and its variables JSON.
func (o *operation) print() (query string, variables string) {
	var sb strings.Builder
	vars := o.variables()
	sb.WriteString(o.opType)
	if len(vars) > 0 {
		sb.WriteByte('(')
		for i, v := range vars {
			if i > 0 {
				sb.WriteString(", ")
			}
			fmt.Fprintf(&sb, "$%s: %s", v.name, v.typ)
		}
		sb.WriteByte(')')
	}
	sb.WriteByte(' ')
	printSels(&sb, o.sels)
	for _, f := range o.frags {
		fmt.Fprintf(&sb, " fragment %s on %s ", f.name, f.cond)
		printSels(&sb, f.sels)
	}
	var vb strings.Builder
	vb.WriteByte('{')
	for i, v := range vars {
		if i > 0 {
			vb.WriteByte(',')
		}
		b, _ := json.Marshal(v.name)
		vb.Write(b)
		vb.WriteByte(':')
		v.v.json(&vb)
	}
	vb.WriteByte('}')
	return sb.String(), vb.String()
}
