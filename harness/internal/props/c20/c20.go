// Package c20 checks property C20: the answers of the gRPC datasource are consistent projections
// of the service data (shape of the selection, values stable under reformulation).
package c20

import (
	"fmt"
	"os"
	"sort"
	"strings"

	"github.com/vektah/gqlparser/v2"
	gast "github.com/vektah/gqlparser/v2/ast"
	"github.com/vektah/gqlparser/v2/parser"

	"verifharness/internal/fw"
)

type c20 struct{ fw.Base }

func init() { fw.Register(c20{}) }

func (c20) ID() string { return "C20" }

// Race: the history cases run concurrent Loads on one DataSource (the engine does: a cached plan
// serves many requests), so the workers are the -race binary.
func (c20) Race() bool             { return true }
func (c20) CrashIsViolation() bool { return false }
func (c20) CaseTimeout(string) int { return 120 }

const (
	quickCases    = 3000
	thoroughCases = 45000
	reformsPerOp  = 4
)

// cases [0, baseCases) are the reformulation cases (their indices are stable: pinned witnesses of
// listed findings refer to them), cases [baseCases, baseCases+historyCases) the history cases, the
// idEncCases after them the ID-encoding cases. New kinds of cases are appended, never inserted.
func (c20) NumCases(tier string) int {
	return baseCases(tier) + historyCases(tier) + idEncCases(tier) + selfFragCases(tier)
}

func guardQuery(r *rig, query string) string {
	if _, errs := gqlparser.LoadQuery(r.model.s, query); len(errs) > 0 {
		return errs[0].Message
	}
	return ""
}

func (c20) Rule() string {
	return "one case = one base operation q generated from grpctest/testdata/products.graphqls (schema model built with gqlparser, independent of the repository's AST) + 4 reformulations q'. " +
		"q: 4 of 5 cases a query/mutation over 1-3 root fields (the first root field is enumerated by the case index so that every Query/Mutation field the mock implements is used; every 6th is a mutation), 1 of 5 an entity lookup " +
		"query($representations){_entities(representations:$representations){... on Product|Storage|(rarely)Warehouse{__typename …}}} with plain, field-resolver and @requires fields, 1-4 representations of interleaved types whose required fields are generated from the @requires selection sets, and the federation configuration the planner would pass (key of each entity type + @requires of each selected field). " +
		"Selections are random over objects, lists, nested lists, nullable list/scalar wrappers, enums, interfaces and oneof-based unions with inline fragments and __typename, field resolvers (with/without arguments, nested), arguments as literals or variables built from the input types (small non-negative integers: the mock sizes slices by some of them). " +
		"q' = clone of q through the pipeline alias -> subset -> duplicate (same response key, or a second alias) -> reorder -> fragments (inline on the same type / without condition / named fragment / distribute an interface field over its concrete types); step masks per case: alias+reorder, duplicate+fragments, subset+random, random. " +
		"Every q and q' must pass gqlparser validation (generator guard) and reaches the datasource (D) the way graphql_datasource.Planner.ConfigureFetch does: print-kit normalisation (extract variables, inline fragment spreads, remove fragment definitions/unused variables) + validation + print + parse + NewDataSource + Load; every third non-entity case also (E) through ExecutionEngine with NewFactoryGRPC, where the bytes returned by Load are captured with LoaderHooks and the upstream operation is read from the request trace. " +
		"Oracles on the bytes returned by Load: A shape — exactly the response keys of the selection for the run-time type (CollectFields over the harness' own tree; D: client operation, E: the engine's upstream operation), list-ness, scalar kinds, enum values, __typename, entity i answers representation i; " +
		"B metamorphic — every field position (path of base-field ids + list indices) common to q and q' carries the same value, a field selected twice in one operation has one value, q' succeeds iff q succeeds (a subset of a succeeding q succeeds); also D against E when both issued the same RPC requests; " +
		"C projection — following the recorded protobuf answers by the configured field-name mapping (root RPC answers; result[n] of resolve/require RPCs for the n-th parent object), scalar leaves, list lengths, the concrete type of oneofs and presence (null <-> unset) equal the service data; wherever the walk is not certain nothing is judged. " +
		"A case is non-trivial when q succeeded and at least one reformulation was compared on >=1 common field position; distinct by hash of (q, variables). " +
		"HISTORY cases (indices after the reformulation cases; 900 quick / 13500 thorough): one operation with boosted field-resolver selection (2 of 4 over a Query field whose type has resolvers, 1 of 4 any root operation, 1 of 4 an entity lookup), ONE DataSource instance planned for it, " +
		"and a sequence of 2-5 requests served by that instance; a request = (one of up to 4 variants of the argument values / representations, 0-4 of them, that normalise to the same upstream operation) x (a world: the mock as it is, or a deterministic variation of the fake service keyed by (world, method, request): " +
		"root answers with emptied lists / unset objects, resolve RPCs whose results are all or partly null / empty, RPCs failing with Unavailable); the first request mostly in the unvaried world, every 6th request repeats an earlier one byte for byte (same arena key). " +
		"Oracle H history independence — each answer of the re-used instance equals (same kind data/errors; data: canonical JSON) the answer of a NEVER-USED DataSource of the same operation to that single request in the same world (no ground truth needed); oracles A and C run on every answer of the re-used instance. " +
		"Every second history case then serves the same requests from 3-6 goroutines x 2 rounds on the shared instance under the race detector, each answer judged by H against the sequential reference. " +
		"A history case is non-trivial when >=1 answer after an earlier request was compared. " +
		"ID-ENCODING cases (appended after the history cases; 300 quick / 4500 thorough): an entity lookup, a root operation over fields taking an ID (directly or inside input objects), or any root operation, whose integer-looking ID values (Int literals, JSON numbers in variables, input-object fields, list items, keys and @requires fields of representations) are written as numbers in q' and as strings in q; oracles A, C on both (entity i echoes the key of representation i in string form), B between them; non-trivial when >=1 ID was a number and >=1 field position was compared. " +
		"SELF-FRAGMENT cases (appended last; 300 quick / 4500 thorough): q = a resolver-boosted operation already in the datasource's input form without normalisation (every argument a variable, no named fragments, no duplicates), q' = q with the direct fields of selection sets on an interface (below root, resolver, @requires and plain fields) moved into `... on <that interface>`; both go parse -> NewDataSource -> Load like the package's own tests (the planner's normalisation would flatten exactly this fragment, and the schema has no other abstract-in-abstract shape); oracles A, C on both, B between them."
}

func (c20) Assumptions() []string {
	return []string{
		"the mock service uses math/rand: the client connection under the datasource's RPCTransport is wrapped by a memoising layer keyed by (method, deterministic protobuf marshal of the request), reset per case, so equal RPCs get equal answers within a case; the datasource is judged against that function",
		"the datasource's input domain is what the planner hands it: operations after the print-kit normalisation (named fragments inlined, literals extracted to variables); raw documents are not judged",
		"entity operations follow the planner's form: variable named representations, an un-aliased __typename inside every entity fragment, no alias on _entities, no selection directly under _entities, @requires fields only directly inside an entity fragment",
		"a planner error (NewDataSource fails) is inconclusive and counted by message class, never a violation; an answer {\"errors\":…} is a failed operation and is judged only through 'q' succeeds iff q succeeds' (error classes and whether an RPC failed are counted)",
		"a null is a violation only when the recorded service answer has data at that position; absent service data (the mock leaves e.g. Owner.pet unset) projected as null in a non-null position is counted, not judged",
		"order of keys inside JSON objects is not judged; root fields of mutations are neither reordered nor duplicated under a second alias",
		"the mock echoes the key of a looked-up entity (id), which is what the entity alignment check compares with the representation",
		"a DataSource is planned for one operation (Load reads only body.variables), so a history varies variables and service data, not the operation; DataSources of different operations share the RPCCompiler, the mapping and the transport within a worker process, as they do in the engine",
		"a DataSource is shared by concurrent requests (graphql_datasource plans it into the fetch of a plan that ExecutionEngine caches), so concurrent Loads on one instance are in scope; a data race with a repository frame is a violation",
		"history: two failed answers are the same answer whatever their error text (which of several failing RPCs is reported is not judged); a request whose never-used answer is not reproducible within the case is counted (history_fresh_answers_unstable), not judged; more/fewer RPCs with an equal answer are counted, not judged",
		"the worlds only remove data (empty list, unset message) or fail a call; a resolve RPC keeps one result per context element",
		"ID values are written as numbers only when they are non-negative integers below 2^31 (floats and big integers are not legal IDs); String values are never written as numbers",
		"self-fragment cases are the one place where an un-normalised operation reaches the datasource: a fragment on the interface a selection set is made on; it is unreachable through the engine with this schema (graphql_datasource's print kit merges it), so a violation there concerns the datasource's own API (NewDataSource + Load), as exercised by the package's tests",
	}
}

func (c20) RequiredCounters(string) []string {
	return []string{"operations", "operations_succeeded", "reformulations_compared", "field_positions_compared", "rpc_calls", "rpc_memo_hits",
		"leaf_values_checked", "typename_values_checked", "leaf_values_compared_with_service_data", "root_fields_followed_in_service_data", "batch_results_followed_in_service_data",
		"abstract_positions", "entity_operations_succeeded", "entity_keys_checked",
		"engine_operations", "engine_upstream_operations_judged", "engine_reformulations_compared", "cross_path_field_positions_compared",
		"history_cases", "history_variants", "history_answers_compared_after_a_different_request", "history_requests_skipping_calls_made_earlier", "history_fresh_answers_data", "history_fresh_answers_failed",
		"history_operations_with_2_resolver_levels", "history_operations_with_3_resolver_levels", "history_answers_judged_by_projection_oracles", "history_concurrent_answers_compared",
		"idenc_numeric_ids", "idenc_reformulations_compared", "idenc_field_positions_compared",
		"selffrag_reformulations_compared", "selffrag_fragments_below_resolver", "selffrag_fragments_below_root", "selffrag_field_positions_compared"}
}

// ---- one execution + oracle A/C -----------------------------------------------------------------

type evaluated struct {
	op      *operation
	query   string
	vars    string
	steps   []string
	lr      loadResult
	status  string // ok | failed | plan | generator | panic | invalid-answer
	errMsg  string
	pos     map[string]posRec
	acc     *acc
	rpcKeys map[string]bool
	opf     map[string]string
}

func trunc(s string, n int) string {
	if len(s) > n {
		return s[:n] + "…"
	}
	return s
}

func (e *evaluated) witness() map[string]any {
	w := map[string]any{"query": e.query, "variables": e.vars, "steps": stepsKey(e.steps)}
	if e.lr.normalized != "" {
		w["normalized"] = trunc(e.lr.normalized, 3000)
	}
	if e.lr.out != nil {
		w["load_output"] = trunc(string(e.lr.out), 3000)
	}
	if e.lr.detail != "" {
		w["detail"] = trunc(e.lr.detail, 600)
	}
	return w
}

func evaluate(r *rig, res *fw.Result, op *operation, fed []fedConfig, steps []string, viaEngine bool) *evaluated {
	e := &evaluated{op: op, steps: steps, acc: newAcc(), rpcKeys: map[string]bool{}, opf: opFacts(r.model, op)}
	e.query, e.vars = op.print()
	path := "direct"
	if viaEngine {
		path = "engine"
		e.lr = r.loadEngine(e.query, e.vars)
		res.Count("engine_operations", 1)
	} else {
		e.lr = r.loadDirect(e.query, e.vars, fed)
		res.Count("operations", 1)
	}
	return judge(r, res, e, viaEngine, path)
}

// judge runs oracles A and C on one executed operation (e.lr is filled in).
func judge(r *rig, res *fw.Result, e *evaluated, viaEngine bool, path string) *evaluated {
	op := e.op
	steps := e.steps
	for _, c := range e.lr.calls {
		e.rpcKeys[c.key] = true
		res.Count("rpc_calls", 1)
		if c.hit {
			res.Count("rpc_memo_hits", 1)
		}
		mn := strings.TrimPrefix(c.method, "/productv1.ProductService/")
		switch {
		case strings.HasPrefix(mn, "Resolve"):
			res.Observe("rpc_methods_resolve", mn)
		case strings.HasPrefix(mn, "Require"), strings.HasPrefix(mn, "Lookup"):
			res.Observe("rpc_methods_federation", mn)
		default:
			res.Observe("rpc_methods_root", mn)
		}
	}
	switch e.lr.stage {
	case "generator":
		e.status = "generator"
		e.errMsg = e.lr.detail
		return e
	case "plan":
		e.status = "plan"
		e.errMsg = e.lr.detail
		return e
	case "engine":
		e.status = "engine"
		e.errMsg = e.lr.detail
		return e
	case "panic":
		e.status = "panic"
		e.errMsg = e.lr.detail
		frame := panicFrame(e.lr.panicStack)
		w := e.witness()
		w["stack"] = trunc(e.lr.panicStack, 4000)
		res.Violate("load.panic", "panic while planning/loading a valid operation: "+trunc(e.lr.detail, 200),
			map[string]string{"panic": errClass(e.lr.detail), "frame": frame, "path": path}, w)
		return e
	case "load-error":
		e.status = "failed"
		e.errMsg = e.lr.detail
		return e
	}
	v, err := decodeJSON(e.lr.out)
	top, isObj := v.(map[string]any)
	if err != nil || !isObj {
		e.status = "invalid-answer"
		res.Violate("shape.invalid-json", "Load did not return a JSON object", map[string]string{"path": path}, e.witness())
		return e
	}
	if errs, has := top["errors"]; has {
		rpcFailed := false
		for _, c := range e.lr.calls {
			if c.err != nil {
				rpcFailed = true
			}
		}
		if !rpcFailed {
			res.Count("error_answers_without_rpc_failure", 1)
		} else {
			res.Count("error_answers_with_rpc_failure", 1)
		}
		e.status = "failed"
		e.errMsg = rawJSON(errs)
		if arr, ok := errs.([]any); ok && len(arr) > 0 {
			if m, ok := arr[0].(map[string]any); ok {
				e.errMsg = fmt.Sprint(m["message"])
			}
		}
		return e
	}
	data, ok := top["data"].(map[string]any)
	if !ok {
		e.status = "invalid-answer"
		res.Violate("shape.invalid-json", "the answer has neither an errors array nor a data object", map[string]string{"path": path}, e.witness())
		return e
	}
	for k := range top {
		if k != "data" {
			res.Violate("shape.extra-key", "the answer envelope has an unexpected key "+k, map[string]string{"path": path, "position": "envelope"}, e.witness())
		}
	}
	e.status = "ok"
	if !viaEngine {
		// oracle A (+C): the answer against the client operation (normalisation keeps the response shape)
		e.acc = walkAnswer(r, res, e, op, data, false)
	} else {
		// engine path: the datasource was handed the engine's upstream operation (taken from the
		// request trace); judge the shape against that one, and read the client's field
		// positions out of the same bytes for oracle B
		up, text, uerr := upstreamFromTrace(e.lr.final)
		if uerr != nil {
			res.Count("engine_upstream_operation_unknown", 1)
			res.Observe("engine_upstream_operation_unknown", errClass(uerr.Error()))
			e.acc = newAcc()
		} else {
			e.lr.normalized = text
			res.Count("engine_upstream_operations_judged", 1)
			e.acc = walkAnswer(r, res, e, up, data, false)
			e.acc.pos = nil
		}
		ex := walkAnswer(r, nil, e, op, data, true)
		e.acc.pos = ex.pos
	}
	var conflicts []string
	e.pos, conflicts = positions(e.acc)
	for k, n := range e.acc.counters {
		res.Count(k, n)
	}
	for s, items := range e.acc.sets {
		var l []string
		for it := range items {
			l = append(l, it)
		}
		sort.Strings(l)
		for _, it := range l {
			res.Observe(s, it)
		}
	}
	seen := map[string]bool{}
	for _, sv := range e.acc.viol {
		k := sv.kind + "|" + sv.where
		if seen[k] || len(seen) >= 4 {
			continue
		}
		seen[k] = true
		facts := map[string]string{"path": path}
		for fk, fv := range sv.facts {
			facts[fk] = fv
		}
		for fk, fv := range opFacts(r.model, op) {
			facts[fk] = fv
		}
		w := e.witness()
		w["json_path"] = sv.path
		res.Violate(sv.kind, sv.msg, facts, w)
	}
	if len(conflicts) > 0 {
		w := e.witness()
		w["conflicts"] = conflicts
		res.Violate("metamorphic.duplicate-differs", "the same field selected twice in one operation (second alias) has two values: "+conflicts[0],
			map[string]string{"path": path, "steps": stepsKey(steps)}, w)
	}
	return e
}

// walkAnswer runs the shape oracle of op over the data object and returns what it found
// (violations, field positions, counters). lenient = extraction of the client's positions from an
// answer to a superset operation: nothing found there is judged by the caller.
func walkAnswer(r *rig, res *fw.Result, e *evaluated, op *operation, data map[string]any, lenient bool) *acc {
	a := newAcc()
	o := &oracle{m: r.model, mp: r.mapping, frags: map[string]*fragDef{}, lenient: lenient, calls: e.lr.calls}
	for _, f := range op.frags {
		o.frags[f.name] = f
	}
	if op.entity && op.reps != nil {
		for _, rep := range op.reps.list {
			er := entityRep{}
			for _, f := range rep.fields {
				switch f.k {
				case "__typename":
					er.typ = f.v.s
				case "id":
					er.id = f.v.s
				}
			}
			o.reps = append(o.reps, er)
		}
	}
	rootType := "Query"
	rpcs := r.mapping.QueryRPCs
	if op.opType == "mutation" {
		rootType = "Mutation"
		rpcs = r.mapping.MutationRPCs
	}
	groups := collect(r.model, o.frags, op.sels, rootType)
	expected := map[string]bool{}
	for _, g := range groups {
		expected[g.key] = true
	}
	rootPC := pctx{parentKind: "root"}
	for _, k := range keysOf(data) {
		if !expected[k] {
			a.viol = append(a.viol, shapeViolation{kind: "shape.extra-key", path: "data", where: rootType,
				msg: fmt.Sprintf("data has key %q which the operation does not select", k), facts: rootPC.facts(map[string]string{"position": rootType, "key_is_typename": fmt.Sprint(k == "__typename"), "stray_key_is": "false"})})
		}
	}
	for _, g := range groups {
		val, present := data[g.key]
		where := rootType + "." + g.name
		if res != nil {
			res.Observe("root_fields_"+strings.ToLower(rootType), g.name)
		}
		if !present {
			a.viol = append(a.viol, shapeViolation{kind: "shape.missing-key", path: "data", where: where,
				msg:   fmt.Sprintf("data lacks response key %q (root field %s); keys present: %v", g.key, g.name, keysOf(data)),
				facts: rootPC.facts(map[string]string{"position": where, "aliased": fmt.Sprint(g.key != g.name), "in_abstract": "false", "field_kind": "root", "same_field_under_other_key": "false"})})
			continue
		}
		sub := "/" + fmt.Sprint(g.nodes[0].origin)
		if g.name == "__typename" {
			a.pos = append(a.pos, posRec{sub, rawJSON(val), "data." + g.key, where, "plain"})
			if s, _ := val.(string); s != rootType {
				a.viol = append(a.viol, shapeViolation{kind: "shape.typename", path: "data." + g.key, where: where, msg: "root __typename is " + rawJSON(val), facts: rootPC.facts(map[string]string{"position": where})})
			}
			continue
		}
		fd := r.model.field(rootType, g.name)
		if fd == nil {
			continue
		}
		// service data cursor: the single recorded answer of this root field's RPC
		cur := unknownCursor
		if cfg, ok := rpcs[g.name]; ok && g.name != "_entities" && !lenient {
			method := "/productv1.ProductService/" + cfg.RPC
			var reply *rpcCall
			keys := map[string]bool{}
			for i := range e.lr.calls {
				c := &e.lr.calls[i]
				if c.method == method && c.err == nil {
					keys[c.key] = true
					reply = c
				}
			}
			if len(keys) == 1 && reply != nil {
				cur = cursor{known: true, present: true, kind: cMessage, msg: reply.reply}.field(r.mapping, rootType, g.name)
				if cur.known {
					a.count("root_fields_followed_in_service_data", 1)
				}
			}
		}
		pc := pctx{listDepth: listDepthOf(fd.Type), inEntity: g.name == "_entities", parentKind: "root"}
		o.value(a, pc, fd.Type, g, where, val, "data."+g.key, sub, cur)
	}
	return a
}

// upstreamFromTrace takes the operation the engine handed to the datasource out of the request
// trace in the response extensions (fetch input body.query) and parses it with gqlparser.
func upstreamFromTrace(final string) (*operation, string, error) {
	v, err := decodeJSON([]byte(final))
	if err != nil {
		return nil, "", err
	}
	var queries []string
	var rec func(x any)
	rec = func(x any) {
		switch t := x.(type) {
		case map[string]any:
			if in, ok := t["input"].(map[string]any); ok {
				if body, ok := in["body"].(map[string]any); ok {
					if q, ok := body["query"].(string); ok {
						queries = append(queries, q)
					}
				}
			}
			for _, k := range keysOf(t) {
				rec(t[k])
			}
		case []any:
			for _, y := range t {
				rec(y)
			}
		}
	}
	if top, ok := v.(map[string]any); ok {
		if ext, ok := top["extensions"].(map[string]any); ok {
			rec(ext["trace"])
		}
	}
	if len(queries) != 1 {
		return nil, "", fmt.Errorf("trace holds %d fetch inputs", len(queries))
	}
	doc, perr := parser.ParseQuery(&gast.Source{Input: queries[0]})
	if perr != nil {
		return nil, queries[0], fmt.Errorf("upstream operation does not parse: %v", perr)
	}
	if len(doc.Operations) != 1 {
		return nil, queries[0], fmt.Errorf("upstream document has %d operations", len(doc.Operations))
	}
	op := &operation{opType: string(doc.Operations[0].Operation)}
	op.sels = fromGQL(doc.Operations[0].SelectionSet)
	for _, f := range doc.Fragments {
		op.frags = append(op.frags, &fragDef{name: f.Name, cond: f.TypeCondition, sels: fromGQL(f.SelectionSet)})
	}
	return op, queries[0], nil
}

func fromGQL(set gast.SelectionSet) []*node {
	var out []*node
	for _, s := range set {
		switch x := s.(type) {
		case *gast.Field:
			n := &node{kind: nField, name: x.Name, sels: fromGQL(x.SelectionSet)}
			if x.Alias != "" && x.Alias != x.Name {
				n.alias = x.Alias
			}
			out = append(out, n)
		case *gast.InlineFragment:
			out = append(out, &node{kind: nInline, cond: x.TypeCondition, sels: fromGQL(x.SelectionSet)})
		case *gast.FragmentSpread:
			out = append(out, &node{kind: nSpread, cond: x.Name})
		}
	}
	return out
}

// compare: oracle B between the base operation and one reformulation (same path).
func compare(res *fw.Result, base, ref *evaluated, path string, prefix string) (compared bool) {
	equiv := !isSubset(ref.steps)
	facts := func(extra map[string]string) map[string]string {
		m := map[string]string{"path": path, "steps": stepsKey(ref.steps)}
		for k, v := range extra {
			m[k] = v
		}
		for k, v := range base.opf {
			m[k] = v
		}
		return m
	}
	w := func() map[string]any {
		return map[string]any{"base": base.witness(), "reformulation": ref.witness()}
	}
	switch {
	case base.status == "ok" && ref.status == "failed":
		res.Violate("metamorphic.success-differs", "q succeeds, the reformulation q' ("+stepsKey(ref.steps)+") fails: "+trunc(ref.errMsg, 200),
			facts(map[string]string{"direction": "reformulation-fails", "error": errClass(ref.errMsg)}), w())
		return false
	case base.status == "failed" && ref.status == "ok" && equiv:
		res.Violate("metamorphic.success-differs", "q fails ("+trunc(base.errMsg, 200)+"), the equivalent reformulation q' ("+stepsKey(ref.steps)+") succeeds",
			facts(map[string]string{"direction": "base-fails", "error": errClass(base.errMsg)}), w())
		return false
	case base.status == "failed" && ref.status == "failed":
		res.Count(prefix+"reformulations_both_fail", 1)
		return false
	case base.status != "ok" || ref.status != "ok":
		return false
	}
	common, diff := 0, 0
	var first string
	var firstWhere posRec
	var keys []string
	for k := range base.pos {
		keys = append(keys, k)
	}
	sort.Strings(keys)
	for _, k := range keys {
		b := base.pos[k]
		r, ok := ref.pos[k]
		if !ok {
			continue
		}
		common++
		if b.value != r.value {
			diff++
			if first == "" {
				first = fmt.Sprintf("q: %s = %s; q': %s = %s", b.jpath, trunc(b.value, 200), r.jpath, trunc(r.value, 200))
				firstWhere = b
			}
		}
	}
	res.Count(prefix+"field_positions_compared", int64(common))
	if common > 0 {
		res.Count(prefix+"reformulations_compared", 1)
		for _, s := range ref.steps {
			res.Count(prefix+"compared_with_step_"+s, 1)
		}
		res.Observe("step_combinations", stepsKey(ref.steps))
	}
	if diff > 0 {
		wd := w()
		wd["first_difference"] = first
		wd["differing_positions"] = diff
		res.Violate("metamorphic.value-differs", fmt.Sprintf("%d of %d common field positions differ between q and q' (%s): %s", diff, common, stepsKey(ref.steps), first),
			facts(map[string]string{"base_value_kind": valueKind(firstWhere.value), "first_difference_at": firstWhere.where, "first_difference_below": firstWhere.below}), wd)
	}
	return common > 0
}

func valueKind(v string) string {
	switch {
	case v == "null":
		return "null"
	case v == "object", strings.HasPrefix(v, "list("):
		return "composite"
	}
	return "leaf"
}

// opFacts: facts about the whole operation that known-finding matchers may test.
func opFacts(m *schemaModel, op *operation) map[string]string {
	out := map[string]string{}
	if !op.entity {
		return out
	}
	frags := map[string]*fragDef{}
	for _, f := range op.frags {
		frags[f.name] = f
	}
	types, withRequires := 0, 0
	for _, root := range op.sels {
		if !isEntityRoot(root) {
			continue
		}
		for _, t := range m.possible("_Entity") {
			gs := collect(m, frags, root.sels, t)
			if len(gs) == 0 {
				continue
			}
			types++
			for _, g := range gs {
				if m.requires[t+"."+g.name] != "" {
					withRequires++
					break
				}
			}
		}
	}
	out["entity_types_selected"] = fmt.Sprint(types)
	out["mixed_entity_types_with_requires"] = fmt.Sprint(types > 1 && withRequires > 0)
	return out
}

func subsetOf(a, b map[string]bool) bool {
	for k := range a {
		if !b[k] {
			return false
		}
	}
	return true
}

var masks = [reformsPerOp]int{1 | 8, 4 | 16, 2, 0}

func (p c20) Run(c *fw.Ctx, idx int) fw.Result {
	if b := baseCases(c.Tier); idx >= b {
		if hc := historyCases(c.Tier); idx >= b+hc {
			if ic := idEncCases(c.Tier); idx >= b+hc+ic {
				return p.runSelfFragment(c, idx, idx-b-hc-ic)
			}
			return p.runIDEncoding(c, idx, idx-b-hc)
		}
		return p.runHistory(c, idx, idx-b)
	}
	res := fw.Result{Key: fw.HashKey("C20", c.Seed, idx)}
	r, err := getRig()
	if err != nil {
		res.Inconclusive = "rig: " + err.Error()
		return res
	}
	r.conn.resetCase()
	rng := c.Rng(idx, "gen")
	g := &gen{m: r.model, r: rng, budget: 28, feat: map[string]bool{}}
	var base *operation
	var fed []fedConfig
	entity := idx%5 == 4
	if entity {
		base, fed = g.entityOperation()
		res.Count("cases_entity", 1)
	} else {
		base = g.rootOperation(idx)
		res.Count("cases_root", 1)
	}
	for f := range g.feat {
		res.Observe("features", f)
	}
	q, vars := base.print()
	res.Key = fw.HashKey("C20", q, vars)
	res.Sample = map[string]any{"query": trunc(q, 500), "variables": trunc(vars, 300)}

	guard := func(query string) string {
		if _, errs := gqlparser.LoadQuery(r.model.s, query); len(errs) > 0 {
			return errs[0].Message
		}
		return ""
	}
	if msg := guard(q); msg != "" {
		res.Count("generator_rejected_by_gqlparser", 1)
		res.Observe("generator_rejections", errClass(msg))
		res.Inconclusive = "generator: gqlparser rejects the base operation: " + msg + " :: " + trunc(q, 300)
		return res
	}
	var trace []string
	note := func(e *evaluated, path string) {
		trace = append(trace, fmt.Sprintf("[%s %s] %s %s :: %s", path, stepsKey(e.steps), e.status, trunc(e.errMsg, 120), trunc(e.query, 400)))
	}
	defer func() {
		// debugging aid: C20_TRACE=<file> appends what each operation of the case did
		if path := os.Getenv("C20_TRACE"); path != "" && c.Replay {
			if f, err := os.OpenFile(path, os.O_CREATE|os.O_WRONLY|os.O_APPEND, 0o644); err == nil {
				fmt.Fprintf(f, "case %d variables=%s\n", idx, vars)
				for _, l := range trace {
					fmt.Fprintln(f, "  "+l)
				}
				f.Close()
			}
		}
	}()
	b := evaluate(r, &res, base, fed, nil, false)
	note(b, "direct")
	switch b.status {
	case "generator":
		res.Count("generator_rejected_by_repository", 1)
		res.Observe("generator_rejections", errClass(b.errMsg))
		res.Inconclusive = "generator: the repository's normaliser/validator rejects the base operation: " + trunc(b.errMsg, 300) + " :: " + trunc(q, 300)
		return res
	case "plan":
		res.Count("planner_errors", 1)
		res.Observe("planner_error_classes", errClass(b.errMsg))
		res.Inconclusive = "planner: " + errClass(b.errMsg)
		return res
	case "panic", "invalid-answer":
		return res
	case "ok":
		res.Count("operations_succeeded", 1)
		if entity {
			res.Count("entity_operations_succeeded", 1)
		}
	case "failed":
		res.Count("operations_failed", 1)
		res.Observe("error_answer_classes", errClass(b.errMsg))
	}

	viaEngine := !entity && idx%3 == 0
	var eb *evaluated
	if viaEngine {
		eb = evaluate(r, &res, base, nil, nil, true)
		switch eb.status {
		case "engine":
			res.Count("engine_inconclusive", 1)
			res.Observe("engine_inconclusive_classes", errClass(eb.errMsg))
		case "ok":
			res.Count("engine_operations_succeeded", 1)
			// cross-path: the engine's upstream operation is itself a reformulation (superset) of q
			if b.status == "ok" {
				if subsetOf(b.rpcKeys, eb.rpcKeys) && subsetOf(eb.rpcKeys, b.rpcKeys) {
					xb := *eb
					xb.steps = []string{"engine-upstream-operation"}
					compare(&res, b, &xb, "direct-vs-engine", "cross_path_")
				} else {
					res.Count("cross_path_rpc_requests_differ", 1)
				}
			}
		}
		if (b.status == "ok") != (eb.status == "ok") && (eb.status == "ok" || eb.status == "failed") && (b.status == "ok" || b.status == "failed") {
			res.Count("cross_path_success_differs", 1)
			res.Observe("cross_path_success_differs_errors", errClass(b.errMsg+eb.errMsg))
		}
	}

	nontrivial := false
	for i := 0; i < reformsPerOp; i++ {
		rr := c.Rng(idx, fmt.Sprintf("reform%d", i))
		mask := masks[i]
		if i == 2 {
			mask = 2 | rr.IntN(32)
		}
		if i == 3 {
			mask = 1 + rr.IntN(31)
		}
		op2, steps := reformulate(r.model, rr, base, mask)
		if len(steps) == 0 {
			res.Count("reformulations_identity", 1)
			continue
		}
		q2, _ := op2.print()
		if msg := guard(q2); msg != "" {
			res.Count("generator_rejected_by_gqlparser", 1)
			res.Observe("generator_rejections", stepsKey(steps)+": "+errClass(msg))
			if res.Inconclusive == "" {
				res.Inconclusive = "generator: gqlparser rejects a reformulation (" + stepsKey(steps) + "): " + msg + " :: " + trunc(q2, 300)
			}
			continue
		}
		e := evaluate(r, &res, op2, fed, steps, false)
		note(e, "direct")
		switch e.status {
		case "generator":
			res.Count("generator_rejected_by_repository", 1)
			res.Observe("generator_rejections", stepsKey(steps)+": "+errClass(e.errMsg))
			if res.Inconclusive == "" {
				res.Inconclusive = "generator: the repository rejects a reformulation (" + stepsKey(steps) + "): " + trunc(e.errMsg, 300) + " :: " + trunc(q2, 300)
			}
			continue
		case "plan":
			res.Count("planner_errors_on_reformulation", 1)
			res.Observe("planner_error_classes", errClass(e.errMsg))
			if b.status == "ok" {
				res.Count("planner_error_only_on_reformulation", 1)
				res.Observe("planner_error_only_on_reformulation", stepsKey(steps)+": "+errClass(e.errMsg))
			}
			continue
		case "ok":
			res.Count("operations_succeeded", 1)
		case "failed":
			res.Count("operations_failed", 1)
			res.Observe("error_answer_classes", errClass(e.errMsg))
		}
		if compare(&res, b, e, "direct", "") {
			nontrivial = true
		}
		if viaEngine && eb != nil && i < 2 {
			ee := evaluate(r, &res, op2, nil, steps, true)
			if ee.status == "engine" {
				res.Count("engine_inconclusive", 1)
				res.Observe("engine_inconclusive_classes", errClass(ee.errMsg))
			} else if eb.status == "ok" || eb.status == "failed" {
				compare(&res, eb, ee, "engine", "engine_")
			}
		}
	}
	res.Nontrivial = nontrivial
	if len(res.Violations) > 6 {
		res.Violations = res.Violations[:6]
	}
	// keep the sample small but telling
	if b.status == "ok" {
		res.Sample = map[string]any{"query": trunc(q, 500), "variables": trunc(vars, 300), "load_output": trunc(string(b.lr.out), 300), "positions": len(b.pos)}
	}
	return res
}
