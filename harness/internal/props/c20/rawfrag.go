package c20

import (
	"context"
	"fmt"
	"math/rand/v2"
	"runtime/debug"

	gast "github.com/vektah/gqlparser/v2/ast"

	"verifharness/internal/fw"
)

// Self-fragment cases. `... on Animal { name }` inside a field of type Animal is a reformulation
// the planner's normalisation always flattens before the datasource sees it (and this schema has
// no union whose members implement an interface, nor an interface implementing another), so it
// can only be handed to the datasource the way the package's own tests do: as the parsed operation
// itself. These cases therefore use operations that are already in the datasource's input form
// without normalisation (every argument a variable, no named fragments, no duplicate fields):
// q = such an operation, q' = q with the direct fields of selection sets on an interface moved into
// an inline fragment on that interface. Both go parse -> NewDataSource -> Load; oracles A, C on
// both, B between them.

const (
	quickSelfFragCases    = 300
	thoroughSelfFragCases = 4500
)

func selfFragCases(tier string) int {
	if tier == fw.Thorough {
		return thoroughSelfFragCases
	}
	return quickSelfFragCases
}

// loadRaw: operation text -> parse -> NewDataSource -> Load, no normalisation.
func (r *rig) loadRaw(query, variables string, fed []fedConfig) (res loadResult) {
	defer func() {
		if p := recover(); p != nil {
			res = loadResult{stage: "panic", detail: fmt.Sprint(p), panicStack: string(debug.Stack()), normalized: query, calls: r.conn.takeLog()}
		}
	}()
	p := &prepared{printed: query, vars: variables, fed: fed}
	r.conn.takeLog()
	ds, fail := r.newDataSource(p)
	if fail != nil {
		return *fail
	}
	out, err := ds.Load(context.Background(), nil, loadInput(query, variables))
	calls := r.conn.takeLog()
	if err != nil {
		return loadResult{stage: "load-error", detail: err.Error(), normalized: query, calls: calls}
	}
	return loadResult{stage: "ok", out: out, normalized: query, calls: calls}
}

// allVariables: every argument becomes a variable (what the normalisation's extraction yields).
func allVariables(op *operation) {
	i := 0
	op.visit(func(n *node) {
		for k := range n.args {
			if n.args[k].varName == "" {
				i++
				n.args[k].varName = fmt.Sprintf("r%d", i)
			}
		}
	})
}

// selfFragments moves direct fields of selection sets made on an interface into `... on <that interface>`.
func selfFragments(m *schemaModel, r *rand.Rand, op *operation) (moved int, below map[string]bool) {
	rf := &reformer{m: m, r: r}
	below = map[string]bool{}
	rf.walkSets(op, func(owner *node, sels *[]*node) {
		if owner == nil || owner.kind != nField || isEntityRoot(owner) {
			return
		}
		t := typeOfSet(op, owner, *sels)
		def := m.typ(t)
		if def == nil || def.Kind != gast.Interface {
			return
		}
		var in, out []*node
		for _, s := range *sels {
			if s.kind == nField && s.name != "__typename" && rf.chance(0.7) {
				in = append(in, s)
			} else {
				out = append(out, s)
			}
		}
		if len(in) == 0 {
			return
		}
		fr := &node{kind: nInline, cond: t, parent: t, sels: in}
		i := rf.r.IntN(len(out) + 1)
		ns := append([]*node(nil), out[:i]...)
		ns = append(ns, fr)
		ns = append(ns, out[i:]...)
		*sels = ns
		moved += len(in)
		switch {
		case m.resolver[owner.parent+"."+owner.name]:
			below["resolver"] = true
		case m.requires[owner.parent+"."+owner.name] != "":
			below["requires"] = true
		case owner.parent == "Query" || owner.parent == "Mutation":
			below["root"] = true
		default:
			below["plain"] = true
		}
	})
	return moved, below
}

func (p c20) runSelfFragment(c *fw.Ctx, idx, h int) fw.Result {
	res := fw.Result{Key: fw.HashKey("C20", "selffrag", c.Seed, h)}
	r, err := getRig()
	if err != nil {
		res.Inconclusive = "rig: " + err.Error()
		return res
	}
	r.conn.resetCase()
	res.Count("selffrag_cases", 1)
	rng := c.Rng(idx, "selffrag-gen")
	g := &gen{m: r.model, r: rng, budget: 22, feat: map[string]bool{}, boost: true}
	var base *operation
	var fed []fedConfig
	if h%3 == 2 {
		base, fed = g.entityOperation()
	} else {
		base = &operation{opType: "query"}
		roots := append(r.model.resolverRoots(), "randomPet", "allPets")
		used := map[string]bool{}
		for i, n := 0, 1+rng.IntN(2); i < n; i++ {
			fd := r.model.s.Query.Fields.ForName(roots[rng.IntN(len(roots))])
			if fd == nil {
				continue
			}
			nd := g.fieldNode("Query", fd, 1)
			g.uniqueRootAlias(used, nd)
			base.sels = append(base.sels, nd)
		}
	}
	if len(base.sels) == 0 {
		return res
	}
	allVariables(base)
	ref := base.clone()
	moved, below := selfFragments(r.model, c.Rng(idx, "selffrag-reform"), ref)
	q, vars := base.print()
	res.Key = fw.HashKey("C20", "selffrag", q, vars)
	res.Sample = map[string]any{"kind": "self-fragment", "query": trunc(q, 500), "variables": trunc(vars, 300), "fields_moved": moved}
	if moved == 0 {
		res.Count("selffrag_cases_without_interface_selection", 1)
		return res
	}
	for k := range below {
		res.Count("selffrag_fragments_below_"+k, 1)
	}
	run := func(op *operation, steps []string) *evaluated {
		e := &evaluated{op: op, steps: steps, acc: newAcc(), rpcKeys: map[string]bool{}, opf: opFacts(r.model, op)}
		e.query, e.vars = op.print()
		if msg := guardQuery(r, e.query); msg != "" {
			e.status, e.errMsg = "generator", msg
			return e
		}
		e.lr = r.loadRaw(e.query, e.vars, fed)
		res.Count("operations", 1)
		return judge(r, &res, e, false, "raw")
	}
	b := run(base, nil)
	switch b.status {
	case "generator":
		res.Count("generator_rejected_by_gqlparser", 1)
		res.Inconclusive = "generator: the operation is rejected: " + trunc(b.errMsg, 300) + " :: " + trunc(b.query, 300)
		return res
	case "plan":
		res.Count("planner_errors", 1)
		res.Observe("planner_error_classes", errClass(b.errMsg))
		res.Inconclusive = "planner: " + errClass(b.errMsg)
		return res
	case "panic", "invalid-answer":
		return res
	case "ok":
		res.Count("operations_succeeded", 1)
	case "failed":
		res.Count("operations_failed", 1)
	}
	e := run(ref, []string{"self-fragment"})
	switch e.status {
	case "generator":
		res.Count("generator_rejected_by_gqlparser", 1)
		res.Inconclusive = "generator: the reformulation is rejected: " + trunc(e.errMsg, 300) + " :: " + trunc(e.query, 300)
		return res
	case "plan":
		res.Count("planner_errors_on_reformulation", 1)
		res.Observe("planner_error_only_on_reformulation", "self-fragment: "+errClass(e.errMsg))
		return res
	case "ok":
		res.Count("operations_succeeded", 1)
	case "failed":
		res.Count("operations_failed", 1)
	}
	res.Nontrivial = compare(&res, b, e, "raw", "selffrag_")
	if len(res.Violations) > 6 {
		res.Violations = res.Violations[:6]
	}
	return res
}
