package c20

import (
	"context"
	"encoding/json"
	"errors"
	"fmt"
	"net"
	"regexp"
	"runtime/debug"
	"strings"
	"sync"

	"github.com/jensneuse/abstractlogger"
	"google.golang.org/grpc"
	"google.golang.org/grpc/codes"
	"google.golang.org/grpc/credentials/insecure"
	"google.golang.org/grpc/status"
	"google.golang.org/grpc/test/bufconn"
	"google.golang.org/protobuf/proto"
	"google.golang.org/protobuf/reflect/protoreflect"

	"github.com/wundergraph/graphql-go-tools/execution/engine"
	"github.com/wundergraph/graphql-go-tools/execution/graphql"
	"github.com/wundergraph/graphql-go-tools/v2/pkg/ast"
	"github.com/wundergraph/graphql-go-tools/v2/pkg/astnormalization"
	"github.com/wundergraph/graphql-go-tools/v2/pkg/astparser"
	"github.com/wundergraph/graphql-go-tools/v2/pkg/astprinter"
	"github.com/wundergraph/graphql-go-tools/v2/pkg/astvalidation"
	"github.com/wundergraph/graphql-go-tools/v2/pkg/engine/datasource/graphql_datasource"
	grpcdatasource "github.com/wundergraph/graphql-go-tools/v2/pkg/engine/datasource/grpc_datasource"
	"github.com/wundergraph/graphql-go-tools/v2/pkg/engine/plan"
	"github.com/wundergraph/graphql-go-tools/v2/pkg/engine/resolve"
	"github.com/wundergraph/graphql-go-tools/v2/pkg/grpctest"
	"github.com/wundergraph/graphql-go-tools/v2/pkg/grpctest/mapping"
	"github.com/wundergraph/graphql-go-tools/v2/pkg/grpctest/productv1"
	"github.com/wundergraph/graphql-go-tools/v2/pkg/operationreport"
)

// ---- memoising transport ----------------------------------------------------------------------

type rpcCall struct {
	method string
	key    string
	reply  protoreflect.Message
	err    error
	hit    bool
}

type memoEntry struct {
	once sync.Once
	resp []byte
	err  error
}

// memoConn wraps the client connection the datasource's RPCTransport is built on. Within one case
// equal RPCs (method, deterministic marshal of the request) get the answer of the first one, which
// turns the mock service (it uses math/rand) into a function of the request.
type memoConn struct {
	cc      grpc.ClientConnInterface
	mu      sync.Mutex
	entries map[string]*memoEntry
	log     []rpcCall
}

func (m *memoConn) resetCase() {
	m.mu.Lock()
	m.entries = map[string]*memoEntry{}
	m.log = nil
	m.mu.Unlock()
}

func (m *memoConn) takeLog() []rpcCall {
	m.mu.Lock()
	l := m.log
	m.log = nil
	m.mu.Unlock()
	return l
}

func (m *memoConn) Invoke(ctx context.Context, method string, args any, reply any, opts ...grpc.CallOption) error {
	in, ok1 := args.(protoreflect.Message)
	out, ok2 := reply.(protoreflect.Message)
	if !ok1 || !ok2 {
		// not the dynamic messages of the datasource: pass through, unmemoised
		return m.cc.Invoke(ctx, method, args, reply, opts...)
	}
	reqBytes, err := proto.MarshalOptions{Deterministic: true}.Marshal(in.Interface())
	if err != nil {
		return m.cc.Invoke(ctx, method, args, reply, opts...)
	}
	key := method + "\x00" + string(reqBytes)
	sc := scopeOf(ctx)
	memoKey := key
	if sc != nil && sc.w != nil && sc.w.id != 0 {
		// another world = another service: its answers are memoised separately
		memoKey = fmt.Sprintf("w%d\x00%s", sc.w.id, key)
	}
	m.mu.Lock()
	if m.entries == nil {
		m.entries = map[string]*memoEntry{}
	}
	e := m.entries[memoKey]
	if e == nil {
		e = &memoEntry{}
		m.entries[memoKey] = e
	}
	m.mu.Unlock()
	first := false
	e.once.Do(func() {
		first = true
		if sc != nil && sc.w.fails(method) {
			e.err = status.Error(codes.Unavailable, "c20: injected failure of "+method)
			return
		}
		e.err = m.cc.Invoke(ctx, method, args, reply, opts...)
		if e.err == nil && sc != nil {
			// the world's service data: a deterministic function of (world, method, request)
			sc.w.mutate(method, key, out)
		}
		if e.err == nil {
			e.resp, e.err = proto.MarshalOptions{Deterministic: true}.Marshal(out.Interface())
		}
	})
	if e.err != nil && status.Code(e.err) == codes.Canceled {
		// a call cancelled because a sibling RPC of the same Load failed says nothing about the
		// service: do not memoise it
		m.mu.Lock()
		if m.entries[memoKey] == e {
			delete(m.entries, memoKey)
		}
		m.mu.Unlock()
		if !first && ctx.Err() == nil && retriesOf(ctx) < 3 {
			// concurrent Loads: the cancellation belongs to the Load that made the call first, not to this one
			return m.Invoke(withRetry(ctx), method, args, reply, opts...)
		}
	}
	if e.err == nil && !first {
		proto.Reset(out.Interface())
		if uerr := proto.Unmarshal(e.resp, out.Interface()); uerr != nil {
			return uerr
		}
	}
	call := rpcCall{method: method, key: key, reply: out, err: e.err, hit: !first}
	if sc != nil {
		// a Load that carries its own scope (history / concurrent cases) records into it
		sc.mu.Lock()
		sc.log = append(sc.log, call)
		sc.mu.Unlock()
		return e.err
	}
	m.mu.Lock()
	m.log = append(m.log, call)
	m.mu.Unlock()
	return e.err
}

type retryKey struct{}

func retriesOf(ctx context.Context) int {
	n, _ := ctx.Value(retryKey{}).(int)
	return n
}

func withRetry(ctx context.Context) context.Context {
	return context.WithValue(ctx, retryKey{}, retriesOf(ctx)+1)
}

func (m *memoConn) NewStream(ctx context.Context, desc *grpc.StreamDesc, method string, opts ...grpc.CallOption) (grpc.ClientStream, error) {
	return nil, errors.New("c20: streams are not used")
}

// ---- rig ------------------------------------------------------------------------------------------

type rig struct {
	model    *schemaModel
	conn     *memoConn
	schema   ast.Document // with base schema merged (what the planner hands the datasource)
	compiler *grpcdatasource.RPCCompiler
	mapping  *grpcdatasource.GRPCMapping
	engine   *engine.ExecutionEngine
}

var (
	rigOnce sync.Once
	theRig  *rig
	rigErr  error
)

func getRig() (*rig, error) {
	rigOnce.Do(func() { theRig, rigErr = newRig() })
	return theRig, rigErr
}

func newRig() (*rig, error) {
	model, err := loadSchemaModel()
	if err != nil {
		return nil, err
	}
	lis := bufconn.Listen(1 << 20)
	server := grpc.NewServer()
	productv1.RegisterProductServiceServer(server, &grpctest.MockService{})
	go func() { _ = server.Serve(lis) }()
	cc, err := grpc.NewClient("passthrough:///bufnet", grpc.WithTransportCredentials(insecure.NewCredentials()),
		grpc.WithContextDialer(func(context.Context, string) (net.Conn, error) { return lis.Dial() }), grpc.WithLocalDNSResolution())
	if err != nil {
		return nil, err
	}
	r := &rig{model: model, conn: &memoConn{cc: cc}}
	if r.schema, err = grpctest.GraphQLSchema(); err != nil {
		return nil, err
	}
	protoSchema, err := grpctest.ProtoSchema()
	if err != nil {
		return nil, err
	}
	r.mapping = mapping.DefaultGRPCMapping()
	if r.compiler, err = grpcdatasource.NewProtoCompiler(protoSchema, r.mapping); err != nil {
		return nil, err
	}
	// engine with the gRPC datasource, wired as execution_engine_grpc_test.go does
	factory, err := graphql_datasource.NewFactoryGRPC(context.Background(), r.conn)
	if err != nil {
		return nil, err
	}
	raw, err := grpctest.GraphQLSchemaWithoutBaseDefinitions()
	if err != nil {
		return nil, err
	}
	sc, err := graphql_datasource.NewSchemaConfiguration(string(raw.Input.RawBytes), nil)
	if err != nil {
		return nil, err
	}
	cfg, err := graphql_datasource.NewConfiguration(graphql_datasource.ConfigurationInput{
		GRPC:                &grpcdatasource.GRPCConfiguration{Mapping: r.mapping, Compiler: r.compiler},
		SchemaConfiguration: sc,
	})
	if err != nil {
		return nil, err
	}
	dsCfg, err := plan.NewDataSourceConfiguration("id", factory, grpctest.GetDataSourceMetadata(), cfg)
	if err != nil {
		return nil, err
	}
	inputSchema, err := graphql.NewSchemaFromBytes(raw.Input.RawBytes)
	if err != nil {
		return nil, err
	}
	engineConf := engine.NewConfiguration(inputSchema)
	engineConf.SetDataSources([]plan.DataSource{dsCfg})
	engineConf.SetFieldConfigurations(grpctest.GetFieldConfigurations())
	r.engine, err = engine.NewExecutionEngine(context.Background(), abstractlogger.Noop{}, engineConf, resolve.ResolverOptions{
		MaxConcurrency: 1024, PropagateSubgraphErrors: true, SubgraphErrorPropagationMode: resolve.SubgraphErrorPropagationModeWrapped,
	})
	if err != nil {
		return nil, err
	}
	return r, nil
}

// loadResult of one execution of a client operation.
type loadResult struct {
	stage      string // ok | generator | plan | load-error | panic | engine
	detail     string
	out        []byte // bytes returned by DataSource.Load
	normalized string
	final      string // engine path: the engine's response
	calls      []rpcCall
	panicStack string
}

var (
	reDigits = regexp.MustCompile(`\d+`)
	reQuoted = regexp.MustCompile(`"[^"]*"|'[^']*'`)
)

func errClass(s string) string {
	s = reQuoted.ReplaceAllString(s, `"…"`)
	s = reDigits.ReplaceAllString(s, "N")
	if len(s) > 140 {
		s = s[:140]
	}
	return s
}

func panicFrame(stack string) string {
	for _, l := range strings.Split(stack, "\n") {
		t := strings.TrimSpace(l)
		if strings.Contains(t, "graphql-go-tools/") && !strings.HasPrefix(t, "/") && !strings.Contains(t, "verifharness") {
			if i := strings.LastIndex(t, "("); i > 0 {
				t = t[:i]
			}
			if i := strings.LastIndex(t, "/"); i >= 0 {
				t = t[i+1:]
			}
			return t
		}
	}
	return ""
}

// prepared is a client operation after the planner's print-kit normalisation: the upstream
// operation text the datasource is planned for and the variables it is loaded with.
type prepared struct {
	printed string
	vars    string
	fed     []fedConfig
}

// prepare: client operation -> the planner's print-kit normalisation (extract variables, inline
// fragment spreads, remove fragment definitions / unused variables) + validation -> print.
func (r *rig) prepare(query, variables string, fed []fedConfig) (*prepared, *loadResult) {
	doc, rep := astparser.ParseGraphqlDocumentString(query)
	if rep.HasErrors() {
		return nil, &loadResult{stage: "generator", detail: "parse: " + rep.Error()}
	}
	doc.Input.Variables = []byte(variables)
	var report operationreport.Report
	norm := astnormalization.NewWithOpts(
		astnormalization.WithExtractVariables(),
		astnormalization.WithRemoveFragmentDefinitions(),
		astnormalization.WithRemoveUnusedVariables(),
		astnormalization.WithInlineFragmentSpreads(),
	)
	norm.NormalizeOperation(&doc, &r.schema, &report)
	if report.HasErrors() {
		return nil, &loadResult{stage: "generator", detail: "normalize: " + report.Error()}
	}
	validator := astvalidation.DefaultOperationValidator()
	validator.RegisterRule(astvalidation.ValidateEmptySelectionSets())
	validator.Validate(&doc, &r.schema, &report)
	if report.HasErrors() {
		return nil, &loadResult{stage: "generator", detail: "validate: " + report.Error()}
	}
	printed, err := astprinter.PrintString(&doc)
	if err != nil {
		return nil, &loadResult{stage: "generator", detail: "print: " + err.Error()}
	}
	vars := string(doc.Input.Variables)
	if vars == "" {
		vars = "{}"
	}
	return &prepared{printed: printed, vars: vars, fed: fed}, nil
}

// newDataSource: print -> parse -> NewDataSource, as graphql_datasource.Planner.ConfigureFetch does.
func (r *rig) newDataSource(p *prepared) (*grpcdatasource.DataSource, *loadResult) {
	opDoc, rep2 := astparser.ParseGraphqlDocumentString(p.printed)
	if rep2.HasErrors() {
		return nil, &loadResult{stage: "generator", detail: "reparse: " + rep2.Error(), normalized: p.printed}
	}
	var fc plan.FederationFieldConfigurations
	for _, f := range p.fed {
		fc = append(fc, plan.FederationFieldConfiguration{TypeName: f.typeName, FieldName: f.fieldName, SelectionSet: f.selectionSet})
	}
	ds, err := grpcdatasource.NewDataSource(grpcdatasource.NewGRPCTransport(r.conn), grpcdatasource.DataSourceConfig{
		Operation: &opDoc, Definition: &r.schema, SubgraphName: "Products", Compiler: r.compiler, Mapping: r.mapping, FederationConfigs: fc,
	})
	if err != nil {
		return nil, &loadResult{stage: "plan", detail: err.Error(), normalized: p.printed}
	}
	return ds, nil
}

func loadInput(printed, vars string) []byte {
	qb, _ := jsonMarshalString(printed)
	return []byte(`{"method":"POST","url":"","body":{"query":` + qb + `,"variables":` + vars + `}}`)
}

// loadDirect: client operation -> prepare -> NewDataSource -> Load. This is exactly what
// graphql_datasource.Planner.ConfigureFetch does with an upstream operation.
func (r *rig) loadDirect(query, variables string, fed []fedConfig) (res loadResult) {
	defer func() {
		if p := recover(); p != nil {
			st := string(debug.Stack())
			res.stage = "panic"
			res.detail = fmt.Sprint(p)
			res.panicStack = st
			res.calls = r.conn.takeLog()
		}
	}()
	p, fail := r.prepare(query, variables, fed)
	if fail != nil {
		return *fail
	}
	r.conn.takeLog()
	ds, fail := r.newDataSource(p)
	if fail != nil {
		return *fail
	}
	out, err := ds.Load(context.Background(), nil, loadInput(p.printed, p.vars))
	calls := r.conn.takeLog()
	if err != nil {
		return loadResult{stage: "load-error", detail: err.Error(), normalized: p.printed, calls: calls}
	}
	return loadResult{stage: "ok", out: out, normalized: p.printed, calls: calls}
}

// loadScoped: one Load of ds in the given world; the RPCs of this Load are recorded in its own
// scope (carried by the context), so concurrent Loads do not mix their records.
func (r *rig) loadScoped(ds *grpcdatasource.DataSource, p *prepared, vars string, w *world) (res loadResult) {
	sc := &loadScope{w: w}
	defer func() {
		if pv := recover(); pv != nil {
			st := string(debug.Stack())
			res = loadResult{stage: "panic", detail: fmt.Sprint(pv), panicStack: st, normalized: p.printed, calls: sc.take()}
		}
	}()
	out, err := ds.Load(withScope(context.Background(), sc), nil, loadInput(p.printed, vars))
	calls := sc.take()
	if err != nil {
		return loadResult{stage: "load-error", detail: err.Error(), normalized: p.printed, calls: calls}
	}
	return loadResult{stage: "ok", out: out, normalized: p.printed, calls: calls}
}

func jsonMarshalString(s string) (string, error) {
	b, err := json.Marshal(s)
	return string(b), err
}

type loadHooks struct {
	mu   sync.Mutex
	outs []string
}

func (h *loadHooks) OnLoad(ctx context.Context, ds resolve.DataSourceInfo) context.Context {
	return ctx
}
func (h *loadHooks) OnFinished(ctx context.Context, ds resolve.DataSourceInfo, info *resolve.ResponseInfo) {
	h.mu.Lock()
	h.outs = append(h.outs, info.GetResponseBody())
	h.mu.Unlock()
}

// loadEngine: the client operation goes through ExecutionEngine (normalisation, validation,
// planning with graphql_datasource over the gRPC factory, resolving); the bytes returned by the
// datasource's Load are captured with the loader hooks.
func (r *rig) loadEngine(query, variables string) (res loadResult) {
	defer func() {
		if p := recover(); p != nil {
			st := string(debug.Stack())
			res.stage = "panic"
			res.detail = fmt.Sprint(p)
			res.panicStack = st
			res.calls = r.conn.takeLog()
		}
	}()
	req := graphql.Request{Query: query}
	if variables != "" && variables != "{}" {
		req.Variables = []byte(variables)
	}
	h := &loadHooks{}
	w := graphql.NewEngineResultWriter()
	r.conn.takeLog()
	err := r.engine.Execute(context.Background(), &req, &w, engine.VerifWithResolveContext(func(c *resolve.Context) { c.LoaderHooks = h }),
		// the request trace exposes the rendered fetch input, i.e. the upstream operation the datasource was planned for
		engine.WithRequestTraceOptions(resolve.TraceOptions{Enable: true, IncludeTraceOutputInResponseExtensions: true, ExcludeParseStats: true, ExcludeNormalizeStats: true,
			ExcludeValidateStats: true, ExcludePlannerStats: true, ExcludeRawInputData: true, ExcludeOutput: true, ExcludeLoadStats: true}))
	calls := r.conn.takeLog()
	if err != nil {
		return loadResult{stage: "engine", detail: err.Error(), calls: calls}
	}
	h.mu.Lock()
	outs := h.outs
	h.mu.Unlock()
	if len(outs) != 1 {
		return loadResult{stage: "engine", detail: fmt.Sprintf("expected exactly one fetch, saw %d", len(outs)), final: w.String(), calls: calls}
	}
	return loadResult{stage: "ok", out: []byte(outs[0]), final: w.String(), calls: calls}
}
