package c20

import (
	"fmt"
	"math/rand/v2"
	"sort"
	"strings"

	gast "github.com/vektah/gqlparser/v2/ast"
)

// A reformulation q' of q is built from a clone of q by a fixed pipeline of steps, each applied
// or not: alias -> subset -> duplicate -> reorder -> fragments (inline wrap / named fragment /
// distribute over the concrete types). Field nodes keep their origin ids, so a field position is
// the path of origin ids (+ list indices), whatever the response keys are.

type reformer struct {
	m     *schemaModel
	r     *rand.Rand
	steps []string
	nfrag int
	ndup  int
}

func (rf *reformer) chance(p float64) bool { return rf.r.Float64() < p }

func isEntityRoot(n *node) bool { return n.kind == nField && n.name == "_entities" }

// pinned: nodes that must stay as the planner would emit them (contract of the datasource):
// the un-aliased __typename directly inside an entity fragment.
func pinnedTypename(n *node, parent *node) bool {
	return parent != nil && parent.kind == nInline && parent.parent == "_Entity" && n.kind == nField && n.name == "__typename" && n.alias == ""
}

func (rf *reformer) walkSets(op *operation, fn func(owner *node, sels *[]*node)) {
	var rec func(owner *node, sels *[]*node)
	rec = func(owner *node, sels *[]*node) {
		fn(owner, sels)
		for _, n := range *sels {
			if len(n.sels) > 0 {
				rec(n, &n.sels)
			}
		}
	}
	rec(nil, &op.sels)
}

func (rf *reformer) alias(op *operation) {
	n := 0
	rf.walkSets(op, func(owner *node, sels *[]*node) {
		for _, s := range *sels {
			if s.kind != nField || isEntityRoot(s) || pinnedTypename(s, owner) {
				continue
			}
			if rf.chance(0.4) {
				s.alias = fmt.Sprintf("a%d", s.origin)
				n++
			}
		}
	})
	if n > 0 {
		rf.steps = append(rf.steps, "alias")
	}
}

func hasField(sels []*node) bool {
	for _, s := range sels {
		if s.kind == nField {
			return true
		}
		if s.kind == nInline && hasField(s.sels) {
			return true
		}
	}
	return false
}

func (rf *reformer) subsetList(owner *node, sels []*node, p float64) []*node {
	var out []*node
	for _, s := range sels {
		keep := !rf.chance(p)
		if isEntityRoot(s) || pinnedTypename(s, owner) || (s.kind == nInline && s.parent == "_Entity") {
			keep = true
		}
		if keep {
			out = append(out, s)
		}
	}
	if len(out) == 0 {
		out = append(out, sels[rf.r.IntN(len(sels))])
	}
	return out
}

func (rf *reformer) subset(op *operation) {
	removed := 0
	rf.walkSets(op, func(owner *node, sels *[]*node) {
		before := len(*sels)
		*sels = rf.subsetList(owner, *sels, 0.3)
		removed += before - len(*sels)
	})
	if removed > 0 {
		rf.steps = append(rf.steps, "subset")
	}
}

func (rf *reformer) subsetClone(n *node) *node {
	c := n.clone()
	var rec func(x *node)
	rec = func(x *node) {
		if len(x.sels) == 0 {
			return
		}
		x.sels = rf.subsetList(x, x.sels, 0.4)
		for _, s := range x.sels {
			rec(s)
		}
	}
	rec(c)
	return c
}

func (rf *reformer) duplicate(op *operation) {
	n := 0
	rf.walkSets(op, func(owner *node, sels *[]*node) {
		var add []*node
		for _, s := range *sels {
			if s.kind != nField || isEntityRoot(s) {
				continue
			}
			if !rf.chance(0.2) {
				continue
			}
			c := rf.subsetClone(s)
			if rf.chance(0.5) && !(owner == nil && op.opType == "mutation") {
				// a second response position for the same field (root mutation fields are not
				// executed twice: that would be a different request, not a reformulation)
				rf.ndup++
				c.alias = fmt.Sprintf("d%d_%d", s.origin, rf.ndup)
			}
			add = append(add, c)
			n++
		}
		for _, c := range add {
			i := rf.r.IntN(len(*sels) + 1)
			ns := append([]*node(nil), (*sels)[:i]...)
			ns = append(ns, c)
			ns = append(ns, (*sels)[i:]...)
			*sels = ns
		}
	})
	if n > 0 {
		rf.steps = append(rf.steps, "duplicate")
	}
}

func (rf *reformer) reorder(op *operation) {
	n := 0
	rf.walkSets(op, func(owner *node, sels *[]*node) {
		if len(*sels) > 1 && rf.chance(0.7) {
			if owner == nil && op.opType == "mutation" {
				return // root mutation fields execute serially: order is part of the request
			}
			s := *sels
			rf.r.Shuffle(len(s), func(i, j int) { s[i], s[j] = s[j], s[i] })
			n++
		}
	})
	if n > 0 {
		rf.steps = append(rf.steps, "reorder")
	}
}

// typeOfSet: the type a selection list is made on.
func typeOfSet(op *operation, owner *node, sels []*node) string {
	if owner == nil {
		if op.opType == "mutation" {
			return "Mutation"
		}
		return "Query"
	}
	if owner.kind == nInline && owner.cond != "" {
		return owner.cond
	}
	if len(sels) > 0 {
		return sels[0].parent
	}
	return ""
}

func (rf *reformer) fragments(op *operation) {
	wrapped, named, distributed := 0, 0, 0
	rf.walkSets(op, func(owner *node, sels *[]*node) {
		if owner != nil && isEntityRoot(owner) {
			// the children of _entities stay `... on EntityType { }`; one may become a named fragment
			for i, s := range *sels {
				if s.kind == nInline && rf.chance(0.25) {
					rf.nfrag++
					fd := &fragDef{name: fmt.Sprintf("F%d", rf.nfrag), cond: s.cond, sels: s.sels}
					op.frags = append(op.frags, fd)
					(*sels)[i] = &node{kind: nSpread, cond: fd.name, parent: s.parent}
					named++
				}
			}
			return
		}
		t := typeOfSet(op, owner, *sels)
		if t == "" {
			return
		}
		// distribute: a plain field selected on an abstract type moves into a fragment per concrete type
		if rf.m.isAbstract(t) && rf.m.typ(t).Kind == gast.Interface && rf.chance(0.35) {
			var keep []*node
			var moved []*node
			for _, s := range *sels {
				if s.kind == nField && s.name != "__typename" && rf.chance(0.5) {
					moved = append(moved, s)
				} else {
					keep = append(keep, s)
				}
			}
			if len(moved) > 0 {
				for _, p := range rf.m.possible(t) {
					fr := &node{kind: nInline, cond: p, parent: t}
					for _, s := range moved {
						c := s.clone()
						reparent(c, p)
						fr.sels = append(fr.sels, c)
					}
					keep = append(keep, fr)
				}
				*sels = keep
				distributed++
			}
		}
		if len(*sels) == 0 || !rf.chance(0.35) {
			return
		}
		// pick the selections to move
		var in, out []*node
		for _, s := range *sels {
			if pinnedTypename(s, owner) || isEntityRoot(s) {
				out = append(out, s)
				continue
			}
			if rf.chance(0.6) {
				in = append(in, s)
			} else {
				out = append(out, s)
			}
		}
		if len(in) == 0 {
			return
		}
		var repl *node
		switch rf.r.IntN(3) {
		case 0:
			repl = &node{kind: nInline, cond: t, parent: t, sels: in}
			wrapped++
		case 1:
			repl = &node{kind: nInline, cond: "", parent: t, sels: in}
			wrapped++
		default:
			rf.nfrag++
			fd := &fragDef{name: fmt.Sprintf("F%d", rf.nfrag), cond: t, sels: in}
			op.frags = append(op.frags, fd)
			repl = &node{kind: nSpread, cond: fd.name, parent: t}
			named++
		}
		i := rf.r.IntN(len(out) + 1)
		ns := append([]*node(nil), out[:i]...)
		ns = append(ns, repl)
		ns = append(ns, out[i:]...)
		*sels = ns
	})
	if wrapped > 0 {
		rf.steps = append(rf.steps, "inline-fragment")
	}
	if named > 0 {
		rf.steps = append(rf.steps, "named-fragment")
	}
	if distributed > 0 {
		rf.steps = append(rf.steps, "distribute")
	}
}

func reparent(n *node, t string) { n.parent = t }

// reformulate builds q' from q. mask selects the steps (bit 0 alias, 1 subset, 2 duplicate,
// 3 reorder, 4 fragments); at least one step is always attempted.
func reformulate(m *schemaModel, r *rand.Rand, base *operation, mask int) (*operation, []string) {
	rf := &reformer{m: m, r: r}
	op := base.clone()
	if mask&1 != 0 {
		rf.alias(op)
	}
	if mask&2 != 0 {
		rf.subset(op)
	}
	if mask&4 != 0 {
		rf.duplicate(op)
	}
	if mask&8 != 0 {
		rf.reorder(op)
	}
	if mask&16 != 0 {
		rf.fragments(op)
	}
	sort.Strings(rf.steps)
	return op, rf.steps
}

func stepsKey(steps []string) string {
	if len(steps) == 0 {
		return "identity"
	}
	return strings.Join(steps, "+")
}

func isSubset(steps []string) bool {
	for _, s := range steps {
		if s == "subset" {
			return true
		}
	}
	return false
}
