package c20

import (
	"fmt"
	"sort"
	"strings"

	"github.com/vektah/gqlparser/v2"
	gast "github.com/vektah/gqlparser/v2/ast"
	"github.com/vektah/gqlparser/v2/parser"

	"github.com/wundergraph/graphql-go-tools/v2/pkg/grpctest"
)

// The schema model is built with an independent parser (gqlparser) from the same SDL bytes the
// repository embeds. The federation directives used by the SDL are not declared in it.
const sdlPrelude = `
directive @key(fields: String!, resolvable: Boolean = true) repeatable on OBJECT | INTERFACE
directive @external on FIELD_DEFINITION | OBJECT
directive @requires(fields: String!) on FIELD_DEFINITION
`

// reqSel is a parsed @requires selection (fields merged by name).
type reqSel struct {
	fields map[string]*reqSel // plain fields
	order  []string
	frags  map[string]*reqSel // inline fragments by type condition
	forder []string
}

func newReqSel() *reqSel {
	return &reqSel{fields: map[string]*reqSel{}, frags: map[string]*reqSel{}}
}

func (r *reqSel) merge(o *reqSel) {
	for _, k := range o.order {
		c, ok := r.fields[k]
		if !ok {
			c = newReqSel()
			r.fields[k] = c
			r.order = append(r.order, k)
		}
		c.merge(o.fields[k])
	}
	for _, k := range o.forder {
		c, ok := r.frags[k]
		if !ok {
			c = newReqSel()
			r.frags[k] = c
			r.forder = append(r.forder, k)
		}
		c.merge(o.frags[k])
	}
}

func reqSelFrom(set gast.SelectionSet) *reqSel {
	r := newReqSel()
	for _, s := range set {
		switch x := s.(type) {
		case *gast.Field:
			c, ok := r.fields[x.Name]
			if !ok {
				c = newReqSel()
				r.fields[x.Name] = c
				r.order = append(r.order, x.Name)
			}
			c.merge(reqSelFrom(x.SelectionSet))
		case *gast.InlineFragment:
			c, ok := r.frags[x.TypeCondition]
			if !ok {
				c = newReqSel()
				r.frags[x.TypeCondition] = c
				r.forder = append(r.forder, x.TypeCondition)
			}
			c.merge(reqSelFrom(x.SelectionSet))
		}
	}
	return r
}

type schemaModel struct {
	s                           *gast.Schema
	resolver                    map[string]bool    // "Type.field" has @connect__fieldResolver
	requires                    map[string]string  // "Type.field" -> @requires fields text
	reqSels                     map[string]*reqSel // "Type.field" -> parsed
	external                    map[string]bool    // "Type.field" is @external
	entities                    []string           // types with @key
	queryFields, mutationFields []string
}

func loadSchemaModel() (*schemaModel, error) {
	doc, err := grpctest.GraphQLSchemaWithoutBaseDefinitions()
	if err != nil {
		return nil, err
	}
	sdl := string(doc.Input.RawBytes)
	s, gerr := gqlparser.LoadSchema(&gast.Source{Name: "products.graphqls", Input: sdlPrelude + sdl})
	if gerr != nil {
		return nil, fmt.Errorf("gqlparser: %v", gerr)
	}
	m := &schemaModel{s: s, resolver: map[string]bool{}, requires: map[string]string{}, reqSels: map[string]*reqSel{}, external: map[string]bool{}}
	var names []string
	for n := range s.Types {
		names = append(names, n)
	}
	sort.Strings(names)
	for _, tn := range names {
		def := s.Types[tn]
		if def.Kind != gast.Object && def.Kind != gast.Interface {
			continue
		}
		if strings.HasPrefix(tn, "__") {
			continue
		}
		if def.Directives.ForName("key") != nil {
			m.entities = append(m.entities, tn)
		}
		for _, f := range def.Fields {
			k := tn + "." + f.Name
			if f.Directives.ForName("connect__fieldResolver") != nil {
				m.resolver[k] = true
			}
			if f.Directives.ForName("external") != nil {
				m.external[k] = true
			}
			if d := f.Directives.ForName("requires"); d != nil {
				if a := d.Arguments.ForName("fields"); a != nil {
					m.requires[k] = a.Value.Raw
					q, perr := parser.ParseQuery(&gast.Source{Input: "{" + a.Value.Raw + "}"})
					if perr != nil || len(q.Operations) != 1 {
						return nil, fmt.Errorf("cannot parse @requires of %s: %v", k, perr)
					}
					m.reqSels[k] = reqSelFrom(q.Operations[0].SelectionSet)
				}
			}
		}
	}
	for _, f := range s.Query.Fields {
		if strings.HasPrefix(f.Name, "_") {
			continue
		}
		m.queryFields = append(m.queryFields, f.Name)
	}
	if s.Mutation != nil {
		for _, f := range s.Mutation.Fields {
			if strings.HasPrefix(f.Name, "_") {
				continue
			}
			m.mutationFields = append(m.mutationFields, f.Name)
		}
	}
	return m, nil
}

func (m *schemaModel) typ(name string) *gast.Definition { return m.s.Types[name] }

func (m *schemaModel) isComposite(name string) bool {
	d := m.s.Types[name]
	return d != nil && (d.Kind == gast.Object || d.Kind == gast.Interface || d.Kind == gast.Union)
}

func (m *schemaModel) isAbstract(name string) bool {
	d := m.s.Types[name]
	return d != nil && (d.Kind == gast.Interface || d.Kind == gast.Union)
}

// possible returns the object types a value of the named type can have at run time.
func (m *schemaModel) possible(name string) []string {
	d := m.s.Types[name]
	if d == nil {
		return nil
	}
	if d.Kind == gast.Object {
		return []string{name}
	}
	var out []string
	for _, p := range m.s.GetPossibleTypes(d) {
		out = append(out, p.Name)
	}
	sort.Strings(out)
	return out
}

// applies: does a fragment with type condition cond apply to an object of run-time type obj?
func (m *schemaModel) applies(cond, obj string) bool {
	if cond == "" || cond == obj {
		return true
	}
	for _, p := range m.possible(cond) {
		if p == obj {
			return true
		}
	}
	return false
}

func (m *schemaModel) field(typeName, fieldName string) *gast.FieldDefinition {
	d := m.s.Types[typeName]
	if d == nil {
		return nil
	}
	return d.Fields.ForName(fieldName)
}

func baseName(t *gast.Type) string {
	for t.Elem != nil {
		t = t.Elem
	}
	return t.NamedType
}
