package c20

import (
	"context"
	"fmt"
	"hash/fnv"
	"math/rand/v2"
	"sort"
	"strings"
	"sync"

	"google.golang.org/protobuf/reflect/protoreflect"

	grpcdatasource "github.com/wundergraph/graphql-go-tools/v2/pkg/engine/datasource/grpc_datasource"

	"verifharness/internal/fw"
)

// History dimension. The engine plans one DataSource per fetch of a cached plan and calls Load on
// it for every request, concurrently. The answer to (operation, variables, service data) is a
// projection of the service data, so it must not depend on what the same DataSource instance
// answered before (or answers at the same time): every answer of a re-used instance is compared
// with the answer of a never-used instance to the same single request.

// ---- worlds: variations of the fake service ----------------------------------------------------

// world is a deterministic variation of the mock service: its answer to (method, request) is the
// mock's (memoised) answer with lists emptied / message fields unset / the call failing, decided by
// hashes of (world id, method[, request, element]). World id 0 (or nil) is the mock as it is.
type world struct {
	id   uint64
	name string
	// per (world, method) decisions
	rootEmpty      float64 // root RPC: the answer's list / message fields are empty / unset
	resolveAll     float64 // resolve RPC: every result has no value (null object / empty list)
	resolvePartial float64 // resolve RPC: about half of the results (by request and index) have no value
	fail           float64 // the RPC fails with codes.Unavailable
}

func (w *world) u(parts ...string) float64 {
	h := fnv.New64a()
	fmt.Fprintf(h, "%d", w.id)
	for _, p := range parts {
		h.Write([]byte{0})
		h.Write([]byte(p))
	}
	// PCG seeded by the hash: one uniform draw
	return rand.New(rand.NewPCG(h.Sum64(), w.id^0x9E3779B97F4A7C15)).Float64()
}

func shortMethod(method string) string {
	if i := strings.LastIndex(method, "/"); i >= 0 {
		return method[i+1:]
	}
	return method
}

func (w *world) fails(method string) bool {
	if w == nil || w.id == 0 || w.fail == 0 {
		return false
	}
	return w.u("fail", method) < w.fail
}

func clearable(fd protoreflect.FieldDescriptor) bool {
	return fd.IsList() || fd.IsMap() || fd.Kind() == protoreflect.MessageKind || fd.Kind() == protoreflect.GroupKind
}

// mutate turns the mock's answer into this world's answer (in place).
func (w *world) mutate(method, key string, out protoreflect.Message) {
	if w == nil || w.id == 0 || out == nil {
		return
	}
	mn := shortMethod(method)
	switch {
	case strings.HasPrefix(mn, "Resolve"):
		rfd := out.Descriptor().Fields().ByName("result")
		if rfd == nil || !rfd.IsList() || rfd.Kind() != protoreflect.MessageKind || !out.Has(rfd) {
			return
		}
		u := w.u("resolve", method)
		all := u < w.resolveAll
		partial := !all && u < w.resolveAll+w.resolvePartial
		if !all && !partial {
			return
		}
		list := out.Mutable(rfd).List()
		for i := 0; i < list.Len(); i++ {
			if partial && w.u("element", key, fmt.Sprint(i)) < 0.5 {
				continue
			}
			item := list.Get(i).Message()
			fds := item.Descriptor().Fields()
			for j := 0; j < fds.Len(); j++ {
				if clearable(fds.Get(j)) {
					item.Clear(fds.Get(j))
				}
			}
		}
	case strings.HasPrefix(mn, "Query"), strings.HasPrefix(mn, "Mutation"):
		if w.u("root", method) >= w.rootEmpty {
			return
		}
		fds := out.Descriptor().Fields()
		for j := 0; j < fds.Len(); j++ {
			if clearable(fds.Get(j)) {
				out.Clear(fds.Get(j))
			}
		}
	}
}

// loadScope travels in the context of one Load: the world it is served by and its own RPC record.
type loadScope struct {
	w   *world
	mu  sync.Mutex
	log []rpcCall
}

func (s *loadScope) take() []rpcCall {
	s.mu.Lock()
	l := s.log
	s.log = nil
	s.mu.Unlock()
	return l
}

type scopeKey struct{}

func withScope(ctx context.Context, s *loadScope) context.Context {
	return context.WithValue(ctx, scopeKey{}, s)
}

func scopeOf(ctx context.Context) *loadScope {
	s, _ := ctx.Value(scopeKey{}).(*loadScope)
	return s
}

func newWorld(r *rand.Rand) *world {
	id := r.Uint64() | 1
	switch r.IntN(7) {
	case 0, 1:
		return &world{id: id, name: "empty-roots", rootEmpty: 0.9}
	case 2, 3:
		return &world{id: id, name: "null-resolvers", resolveAll: 0.6, resolvePartial: 0.15}
	case 4:
		return &world{id: id, name: "partly-null-resolvers", resolvePartial: 0.7}
	case 5:
		return &world{id: id, name: "failing", fail: 0.25}
	}
	return &world{id: id, name: "mixed", rootEmpty: 0.2, resolveAll: 0.25, resolvePartial: 0.25, fail: 0.08}
}

// ---- history cases ---------------------------------------------------------------------------------

const (
	quickHistoryCases    = 900
	thoroughHistoryCases = 13500
)

func baseCases(tier string) int {
	if tier == fw.Thorough {
		return thoroughCases
	}
	return quickCases
}

func historyCases(tier string) int {
	if tier == fw.Thorough {
		return thoroughHistoryCases
	}
	return quickHistoryCases
}

// resolverRoots: Query fields whose result type has field resolvers of its own.
func (m *schemaModel) resolverRoots() []string {
	var out []string
	for _, name := range m.queryFields {
		fd := m.s.Query.Fields.ForName(name)
		if fd == nil {
			continue
		}
		def := m.typ(baseName(fd.Type))
		if def == nil {
			continue
		}
		for _, f := range def.Fields {
			if m.resolver[def.Name+"."+f.Name] {
				out = append(out, name)
				break
			}
		}
	}
	return out
}

// resolverLevels: the longest chain of field resolvers nested in each other's results.
func resolverLevels(m *schemaModel, op *operation) int {
	var rec func(sels []*node) int
	rec = func(sels []*node) int {
		best := 0
		for _, n := range sels {
			d := rec(n.sels)
			if n.kind == nField && m.resolver[n.parent+"."+n.name] {
				d++
			}
			if d > best {
				best = d
			}
		}
		return best
	}
	return rec(op.sels)
}

type request struct {
	variant int // index into the variants (0 = the generated values)
	world   int // index into the worlds (0 = the mock as it is)
}

func (q request) String() string { return fmt.Sprintf("v%d/w%d", q.variant, q.world) }

type answer struct {
	lr     loadResult
	status string // data | errors | load-error | panic | invalid
	canon  string // canonical JSON of a data answer
	val    any    // decoded answer (data / errors)
}

func classify(lr loadResult) answer {
	a := answer{lr: lr}
	switch lr.stage {
	case "panic":
		a.status = "panic"
		return a
	case "load-error":
		a.status = "load-error"
		return a
	}
	v, err := decodeJSON(lr.out)
	top, ok := v.(map[string]any)
	if err != nil || !ok {
		a.status = "invalid"
		return a
	}
	if _, has := top["errors"]; has {
		a.status = "errors"
		return a
	}
	a.status = "data"
	a.val = v
	a.canon = rawJSON(v) // encoding/json sorts object keys: key order is not judged
	return a
}

func (a answer) text() string {
	switch a.status {
	case "panic", "load-error":
		return a.status + ": " + trunc(a.lr.detail, 300)
	}
	return trunc(string(a.lr.out), 1500)
}

func rpcSet(calls []rpcCall) string {
	var ks []string
	for _, c := range calls {
		ks = append(ks, c.key)
	}
	sort.Strings(ks)
	return strings.Join(ks, "\x01")
}

func methodsOf(calls []rpcCall) string {
	var ms []string
	for _, c := range calls {
		ms = append(ms, shortMethod(c.method))
	}
	sort.Strings(ms)
	return strings.Join(ms, ",")
}

func (p c20) runHistory(c *fw.Ctx, idx, h int) fw.Result {
	res := fw.Result{Key: fw.HashKey("C20", "history", c.Seed, h)}
	r, err := getRig()
	if err != nil {
		res.Inconclusive = "rig: " + err.Error()
		return res
	}
	r.conn.resetCase()
	res.Count("history_cases", 1)
	rng := c.Rng(idx, "history-gen")
	g := &gen{m: r.model, r: rng, budget: 22, feat: map[string]bool{}, boost: true}

	// ---- the operation
	var base *operation
	var fed []fedConfig
	kind := "root"
	switch h % 4 {
	case 3:
		kind = "entity"
		base, fed = g.entityOperation()
	case 2:
		base = g.rootOperation(int(rng.Uint32() >> 1))
	default:
		kind = "resolver-root"
		roots := r.model.resolverRoots()
		base = &operation{opType: "query"}
		used := map[string]bool{}
		n := 1
		if g.chance(0.25) {
			n = 2
		}
		for i := 0; i < n && len(roots) > 0; i++ {
			fd := r.model.s.Query.Fields.ForName(roots[rng.IntN(len(roots))])
			nd := g.fieldNode("Query", fd, 1)
			g.uniqueRootAlias(used, nd)
			base.sels = append(base.sels, nd)
		}
	}
	res.Count("history_cases_"+kind, 1)
	q0, v0 := base.print()
	res.Key = fw.HashKey("C20", "history", q0, v0)
	res.Sample = map[string]any{"kind": "history/" + kind, "query": trunc(q0, 500), "variables": trunc(v0, 300)}
	if msg := guardQuery(r, q0); msg != "" {
		res.Count("generator_rejected_by_gqlparser", 1)
		res.Observe("generator_rejections", errClass(msg))
		res.Inconclusive = "generator: gqlparser rejects the base operation: " + msg + " :: " + trunc(q0, 300)
		return res
	}
	levels := resolverLevels(r.model, base)
	res.Count(fmt.Sprintf("history_operations_with_%d_resolver_levels", min(levels, 3)), 1)

	p0, fail := r.prepare(q0, v0, fed)
	if fail != nil {
		res.Count("generator_rejected_by_repository", 1)
		res.Inconclusive = "generator: the repository's normaliser/validator rejects the base operation: " + trunc(fail.detail, 300) + " :: " + trunc(q0, 300)
		return res
	}
	var shared *grpcdatasource.DataSource
	func() {
		defer func() {
			if pv := recover(); pv != nil {
				fail = &loadResult{stage: "plan", detail: "panic in NewDataSource: " + fmt.Sprint(pv)}
			}
		}()
		shared, fail = r.newDataSource(p0)
	}()
	if fail != nil {
		res.Count("planner_errors", 1)
		res.Observe("planner_error_classes", errClass(fail.detail))
		res.Inconclusive = "planner: " + errClass(fail.detail)
		return res
	}

	// ---- variants of the variables (same normalised operation), worlds, the sequence of requests
	type variant struct {
		op   *operation
		vars string // after normalisation
	}
	variants := []variant{{base, p0.vars}}
	for try := 0; try < 5 && len(variants) < 4; try++ {
		op2 := g.revalue(base)
		q2, v2 := op2.print()
		p2, f2 := r.prepare(q2, v2, fed)
		if f2 != nil {
			res.Count("history_variants_rejected", 1)
			continue
		}
		if p2.printed != p0.printed {
			// other values, another normalised operation (e.g. a null literal is not extracted):
			// the engine would plan another DataSource for it
			res.Count("history_variants_other_operation", 1)
			continue
		}
		res.Count("history_variants", 1)
		variants = append(variants, variant{op2, p2.vars})
	}
	worlds := []*world{nil}
	for i, n := 0, 1+rng.IntN(3); i < n; i++ {
		worlds = append(worlds, newWorld(rng))
	}
	nreq := 2 + rng.IntN(4)
	var seq []request
	for i := 0; i < nreq; i++ {
		q := request{variant: rng.IntN(len(variants)), world: 0}
		if rng.IntN(5) >= 2 {
			q.world = 1 + rng.IntN(len(worlds)-1)
		}
		if i == 0 && rng.IntN(4) > 0 {
			q.world = 0 // mostly: the first request fills every call of the plan
		}
		if i > 0 && rng.IntN(6) == 0 {
			q = seq[rng.IntN(len(seq))] // the very same request again (same input bytes: same arena key)
		}
		seq = append(seq, q)
	}

	load := func(ds *grpcdatasource.DataSource, q request) answer {
		return classify(r.loadScoped(ds, p0, variants[q.variant].vars, worlds[q.world]))
	}
	fresh := func(q request) (answer, bool) {
		ds, f := r.newDataSource(p0)
		if f != nil {
			return answer{}, false
		}
		return load(ds, q), true
	}
	describe := func(q request) map[string]any {
		m := map[string]any{"variables": trunc(variants[q.variant].vars, 1200), "world": "the mock as it is"}
		if w := worlds[q.world]; w != nil {
			m["world"] = fmt.Sprintf("%s (id %d: rootEmpty=%.2f resolveAll=%.2f resolvePartial=%.2f fail=%.2f)", w.name, w.id, w.rootEmpty, w.resolveAll, w.resolvePartial, w.fail)
		}
		return m
	}
	historyOf := func(upto int) []any {
		var out []any
		for i := 0; i <= upto && i < len(seq); i++ {
			m := describe(seq[i])
			m["request"] = seq[i].String()
			out = append(out, m)
		}
		return out
	}
	worldName := func(q request) string {
		if w := worlds[q.world]; w != nil {
			return w.name
		}
		return "mock"
	}

	// same verdict for the sequential and the concurrent phase
	reference := map[request]answer{}
	unstable := map[request]bool{}
	violations := 0
	fragKeys := fragmentKeysOfAbstractPositions(r.model, base)
	differs := func(mode string, i int, q request, got, want answer, prev *answer) {
		if violations >= 2 {
			return
		}
		violations++
		facts := map[string]string{
			"mode":            mode,
			"fresh_answer":    want.status,
			"reused_answer":   got.status,
			"resolver_levels": fmt.Sprint(min(levels, 3)),
			// input fact: the operation selects fields in fragments on members of an interface / union position
			"selects_fragment_fields_on_abstract_type": fmt.Sprint(len(fragKeys) > 0),
			// where the two answers differ (both data): only at response keys of such fragment fields?
			"difference_only_at_fragment_fields_of_abstract_positions": "false",
		}
		w := map[string]any{
			"kind_of_case":         "history/" + kind,
			"operation":            trunc(q0, 3000),
			"normalized":           trunc(p0.printed, 3000),
			"request":              describe(q),
			"answer_of_reused":     got.text(),
			"answer_of_fresh":      want.text(),
			"rpcs_of_reused":       methodsOf(got.lr.calls),
			"rpcs_of_fresh":        methodsOf(want.lr.calls),
			"requests_served_here": historyOf(i),
		}
		where := ""
		if got.status == "data" && want.status == "data" {
			diffs := diffJSON(got.val, want.val)
			only := len(diffs) > 0
			for _, d := range diffs {
				if !fragKeys[d.key] {
					only = false
				}
			}
			facts["difference_only_at_fragment_fields_of_abstract_positions"] = fmt.Sprint(only)
			var ds []string
			for k, d := range diffs {
				if k < 8 {
					ds = append(ds, d.path+": "+d.what)
				}
			}
			w["differences"] = ds
			w["differences_total"] = len(diffs)
			if len(ds) > 0 {
				where = " at " + ds[0]
			}
		}
		if got.status == "panic" {
			w["stack"] = trunc(got.lr.panicStack, 3000)
			facts["frame"] = panicFrame(got.lr.panicStack)
		}
		if prev != nil {
			w["previous_answer_of_reused"] = prev.text()
		}
		situation := fmt.Sprintf("request %d (%s) on a DataSource that served %d request(s) before", i+1, q, i)
		if mode == "concurrent" {
			situation = fmt.Sprintf("request %s on a DataSource that serves other requests at the same time", q)
		}
		res.Violate("history.answer-differs", fmt.Sprintf("%s: %s is answered differently from a never-used DataSource of the same operation%s: %s vs %s",
			mode, situation, where, trunc(got.text(), 160), trunc(want.text(), 160)), facts, w)
	}
	same := func(got, want answer) bool {
		if got.status != want.status {
			return false
		}
		switch got.status {
		case "data":
			return got.canon == want.canon
		case "errors", "load-error":
			// a failed operation: which of several failing RPCs is reported is not judged
			if string(got.lr.out) != string(want.lr.out) || got.lr.detail != want.lr.detail {
				res.Count("history_error_texts_differ", 1)
			}
			return true
		}
		return false // panic / invalid answers are never "the same"
	}

	// ---- sequential phase: one instance serves the whole sequence
	var prev *answer
	comparedAfter := 0
	madeEarlier := map[string]bool{} // RPC methods some earlier request of the sequence called
	for i, q := range seq {
		want, ok := fresh(q)
		if !ok {
			res.Inconclusive = "planner: a second NewDataSource of the same operation failed"
			return res
		}
		if ref, seen := reference[q]; seen {
			if !same(ref, want) && !(ref.status == "panic" || want.status == "panic") {
				unstable[q] = true
			}
		} else {
			reference[q] = want
		}
		now := map[string]bool{}
		for _, cl := range want.lr.calls {
			now[cl.method] = true
		}
		for mth := range madeEarlier {
			if !now[mth] {
				// this request leaves out (skips, or fails before) a call an earlier request made: its slot in
				// anything kept across Loads is stale
				res.Count("history_requests_skipping_calls_made_earlier", 1)
				break
			}
		}
		for mth := range now {
			madeEarlier[mth] = true
		}
		got := load(shared, q)
		res.Count("history_loads_on_reused_instance", 1)
		if i > 0 {
			res.Count("history_loads_after_other_requests", 1)
		}
		res.Observe("history_worlds", worldName(q))
		res.Observe("history_answer_kinds", fmt.Sprintf("%s after %d", want.status, min(i, 2)))
		switch want.status {
		case "data":
			res.Count("history_fresh_answers_data", 1)
		case "errors", "load-error":
			res.Count("history_fresh_answers_failed", 1)
		}
		if want.status == "panic" && got.status == "panic" {
			// the operation panics on its own (judged below, once): nothing about history
			res.Count("history_requests_panicking_also_fresh", 1)
		} else if unstable[q] {
			res.Count("history_fresh_answers_unstable", 1)
		} else {
			res.Count("history_answers_compared", 1)
			if i > 0 {
				comparedAfter++
				res.Count("history_answers_compared_after_other_requests", 1)
				if seq[i-1] != q {
					res.Count("history_answers_compared_after_a_different_request", 1)
				}
			}
			if same(got, want) {
				res.Count("history_answers_equal", 1)
				if got.status == "data" && string(got.lr.out) != string(want.lr.out) {
					res.Count("history_bytes_differ_canonical_equal", 1)
				}
				if rpcSet(got.lr.calls) != rpcSet(want.lr.calls) {
					// not demanded by the statement (it speaks about the returned JSON): counted
					res.Count("history_rpc_requests_differ_answer_equal", 1)
				}
			} else {
				differs("sequential", i, q, got, want, prev)
			}
		}
		// the projection oracles (A shape, C service data) on the answer of the re-used instance
		vq, vv := variants[q.variant].op.print()
		e := &evaluated{op: variants[q.variant].op, query: vq, vars: vv, lr: got.lr, acc: newAcc(), rpcKeys: map[string]bool{}, opf: opFacts(r.model, base)}
		res.Count("operations", 1)
		judge(r, &res, e, false, "direct")
		switch e.status {
		case "ok":
			res.Count("operations_succeeded", 1)
			res.Count("history_answers_judged_by_projection_oracles", 1)
		case "failed":
			res.Count("operations_failed", 1)
			res.Observe("error_answer_classes", errClass(e.errMsg))
		}
		g2 := got
		prev = &g2
	}

	// ---- concurrent phase (every second case): the instance serves the same requests from several goroutines
	if h%2 == 0 && violations == 0 {
		workers := 3 + rng.IntN(4)
		rounds := 2
		type obs struct {
			q   request
			got answer
			n   int
		}
		var mu sync.Mutex
		var all []obs
		var wg sync.WaitGroup
		start := make(chan struct{})
		for wkr := 0; wkr < workers; wkr++ {
			wg.Add(1)
			off := rng.IntN(len(seq))
			go func(wkr, off int) {
				defer wg.Done()
				<-start
				for k := 0; k < rounds*len(seq); k++ {
					q := seq[(off+k)%len(seq)]
					got := load(shared, q)
					mu.Lock()
					all = append(all, obs{q, got, k})
					mu.Unlock()
				}
			}(wkr, off)
		}
		close(start)
		wg.Wait()
		res.Count("history_concurrent_cases", 1)
		for _, o := range all {
			res.Count("history_concurrent_loads", 1)
			want := reference[o.q]
			if unstable[o.q] || want.status == "panic" {
				continue
			}
			res.Count("history_concurrent_answers_compared", 1)
			if !same(o.got, want) {
				differs("concurrent", len(seq)-1, o.q, o.got, want, nil)
			}
		}
	}

	res.Nontrivial = comparedAfter > 0
	if len(res.Violations) > 6 {
		res.Violations = res.Violations[:6]
	}
	var ss []string
	for _, q := range seq {
		ss = append(ss, q.String()+"="+worldName(q))
	}
	res.Sample = map[string]any{"kind": "history/" + kind, "query": trunc(q0, 400), "sequence": strings.Join(ss, " "), "resolver_levels": levels, "variants": len(variants)}
	return res
}

// fragmentKeysOfAbstractPositions: response keys of the fields the operation selects inside inline
// fragments with a type condition spread in an interface / union position (entity fragments on
// _Entity are not such positions: each entity type has its own lookup RPC).
func fragmentKeysOfAbstractPositions(m *schemaModel, op *operation) map[string]bool {
	out := map[string]bool{}
	var rec func(sels []*node, inFrag bool)
	rec = func(sels []*node, inFrag bool) {
		for _, n := range sels {
			switch n.kind {
			case nField:
				if inFrag {
					out[n.key()] = true
				}
				rec(n.sels, false)
			case nInline:
				rec(n.sels, inFrag || (n.cond != "" && n.parent != "_Entity" && m.isAbstract(n.parent)))
			}
		}
	}
	rec(op.sels, false)
	return out
}

type jsonDiff struct {
	path string // JSON path of the difference
	key  string // the object key it is at (last key of the path)
	what string
}

// diffJSON lists where two decoded JSON values differ: a key present on one side only, a value of
// another kind, another scalar, another list length.
func diffJSON(got, want any) []jsonDiff {
	var out []jsonDiff
	var rec func(g, w any, path, key string)
	rec = func(g, w any, path, key string) {
		if len(out) >= 64 {
			return
		}
		switch gv := g.(type) {
		case map[string]any:
			wv, ok := w.(map[string]any)
			if !ok {
				out = append(out, jsonDiff{path, key, "object vs " + trunc(rawJSON(w), 60)})
				return
			}
			keys := map[string]bool{}
			for k := range gv {
				keys[k] = true
			}
			for k := range wv {
				keys[k] = true
			}
			var ks []string
			for k := range keys {
				ks = append(ks, k)
			}
			sort.Strings(ks)
			for _, k := range ks {
				a, ina := gv[k]
				b, inb := wv[k]
				switch {
				case !ina:
					out = append(out, jsonDiff{path + "." + k, k, "key missing in the answer of the re-used instance (fresh: " + trunc(rawJSON(b), 60) + ")"})
				case !inb:
					out = append(out, jsonDiff{path + "." + k, k, "key only in the answer of the re-used instance (" + trunc(rawJSON(a), 60) + ")"})
				default:
					rec(a, b, path+"."+k, k)
				}
			}
		case []any:
			wv, ok := w.([]any)
			if !ok || len(wv) != len(gv) {
				out = append(out, jsonDiff{path, key, trunc(rawJSON(g), 60) + " vs " + trunc(rawJSON(w), 60)})
				return
			}
			for i := range gv {
				rec(gv[i], wv[i], fmt.Sprintf("%s[%d]", path, i), key)
			}
		default:
			if rawJSON(g) != rawJSON(w) {
				out = append(out, jsonDiff{path, key, trunc(rawJSON(g), 60) + " vs " + trunc(rawJSON(w), 60)})
			}
		}
	}
	rec(got, want, "$", "")
	return out
}
