package c11

import (
	"bytes"
	"runtime"
	"strings"
	"sync"
	"sync/atomic"
	"time"

	"github.com/wundergraph/graphql-go-tools/v2/pkg/engine/resolve"
)

// Yield points of the single-flight code (DESIGN.md Appendix E).
const (
	ptInFollowerBeforeRegister = "inbound.follower.beforeRegister"
	ptInLeaderAfterDelete      = "inbound.leader.afterDelete"
	ptInLeaderBeforeClose      = "inbound.leader.beforeClose"
	ptInLeaderErrBeforeClose   = "inbound.leaderErr.beforeClose"
	ptSubLeaderBeforeClose     = "subgraph.leader.beforeClose"
	ptSubFollowerBeforeWait    = "subgraph.follower.beforeWait"
)

var c11Points = []string{ptInFollowerBeforeRegister, ptInLeaderAfterDelete, ptInLeaderBeforeClose, ptInLeaderErrBeforeClose, ptSubLeaderBeforeClose, ptSubFollowerBeforeWait}

var shortPoint = map[string]string{
	ptInFollowerBeforeRegister: "in.F.reg",
	ptInLeaderAfterDelete:      "in.L.del",
	ptInLeaderBeforeClose:      "in.L.close",
	ptInLeaderErrBeforeClose:   "in.L.errclose",
	ptSubLeaderBeforeClose:     "sub.L.close",
	ptSubFollowerBeforeWait:    "sub.F.wait",
}

// controller is the yield controller of DESIGN.md §5.6. Scripted mode: arm(point,n) parks the
// first n goroutines reaching the point until release(point,…). Perturb mode: a seeded micro delay
// at every C11 point. It never calls into the system under test and holds its lock only for
// bookkeeping.
type armSpec struct {
	key int64 // 0 = any
	n   int
}

type controller struct {
	mu      sync.Mutex
	armed   map[string]*armSpec
	parked  []*parkedG
	hits    map[string]int64
	keyHits map[string]map[int64]int64
	// triggers: run f (outside the lock) at the n-th hit of a point (stress: cancel a participant there)
	triggers map[string]map[int64]func()
	// events: every hit with the participant it happened on (the hooks run on the participant's
	// goroutine or on a fetch goroutine it created); used to say who was whose leader
	events  []hookEvent
	gmap    map[int64]int
	trace   []string
	closed  bool
	perturb bool
	seed    uint64
	pseq    atomic.Uint64
}

type hookEvent struct {
	seq   int
	point string
	key   int64
	pid   int // -1: not on a participant's goroutine (or not attributable)
}

// goids: id of the calling goroutine and of the goroutine that created it (0 if unknown), read
// from the goroutine's own stack header / trailer.
func goids() (self, parent int64) {
	var buf [16384]byte
	n := runtime.Stack(buf[:], false)
	s := buf[:n]
	num := func(b []byte) int64 {
		var v int64
		for _, c := range b {
			if c < '0' || c > '9' {
				break
			}
			v = v*10 + int64(c-'0')
		}
		return v
	}
	if bytes.HasPrefix(s, []byte("goroutine ")) {
		self = num(s[len("goroutine "):])
	}
	if i := bytes.LastIndex(s, []byte(" in goroutine ")); i >= 0 {
		parent = num(s[i+len(" in goroutine "):])
	}
	return
}

// registerG: the calling goroutine is participant pid.
func (c *controller) registerG(pid int) {
	g, _ := goids()
	c.mu.Lock()
	c.gmap[g] = pid
	c.mu.Unlock()
}

type parkedG struct {
	point    string
	rel      chan struct{}
	released bool
}

func newController() *controller {
	return &controller{armed: map[string]*armSpec{}, hits: map[string]int64{}, keyHits: map[string]map[int64]int64{}, triggers: map[string]map[int64]func(){}, gmap: map[int64]int{}}
}

var (
	hookOnce    sync.Once
	currentCtrl atomic.Pointer[controller]
)

// installHooks installs the process-global hook set once; it routes to the controller of the
// scenario that is currently running (a worker process runs one case at a time).
func installHooks() {
	hookOnce.Do(func() {
		resolve.SetVerifHooks(&resolve.VerifHookSet{Yield: func(point string, a, b int64) {
			if c := currentCtrl.Load(); c != nil {
				c.yield(point, a)
			}
		}})
	})
}

func (c *controller) yield(point string, key int64) {
	if !strings.HasPrefix(point, "inbound.") && !strings.HasPrefix(point, "subgraph.") {
		return
	}
	self, parent := goids()
	c.mu.Lock()
	c.hits[point]++
	pid, ok := c.gmap[self]
	if !ok {
		if pid, ok = c.gmap[parent]; !ok {
			pid = -1
		}
	}
	c.events = append(c.events, hookEvent{seq: len(c.events), point: point, key: key, pid: pid})
	if c.keyHits[point] == nil {
		c.keyHits[point] = map[int64]int64{}
	}
	c.keyHits[point][key]++
	if c.closed {
		c.mu.Unlock()
		return
	}
	if f := c.triggers[point][c.hits[point]]; f != nil {
		delete(c.triggers[point], c.hits[point])
		c.mu.Unlock()
		f()
		c.mu.Lock()
		if c.closed {
			c.mu.Unlock()
			return
		}
	}
	if as := c.armed[point]; as != nil && as.n > 0 && (as.key == 0 || as.key == key) {
		as.n--
		pg := &parkedG{point: point, rel: make(chan struct{})}
		c.parked = append(c.parked, pg)
		c.trace = append(c.trace, "park:"+shortPoint[point])
		c.mu.Unlock()
		<-pg.rel
		return
	}
	perturb := c.perturb
	c.mu.Unlock()
	if perturb {
		// seeded choice per (seed, arrival number): deterministic up to scheduling
		x := splitmix(c.seed + c.pseq.Add(1)*0x9E3779B97F4A7C15)
		switch x % 8 {
		case 0, 1, 2:
		case 3, 4:
			runtime.Gosched()
		default:
			time.Sleep(time.Duration(1+(x>>8)%200) * time.Microsecond)
		}
	}
}

func splitmix(x uint64) uint64 {
	x += 0x9E3779B97F4A7C15
	x = (x ^ (x >> 30)) * 0xBF58476D1CE4E5B9
	x = (x ^ (x >> 27)) * 0x94D049BB133111EB
	return x ^ (x >> 31)
}

// arm: park the next n goroutines reaching point (with this key; 0 = any key).
func (c *controller) arm(point string, key int64, n int) {
	c.mu.Lock()
	c.armed[point] = &armSpec{key: key, n: n}
	c.mu.Unlock()
}

func (c *controller) at(point string, nth int64, f func()) {
	c.mu.Lock()
	if c.triggers[point] == nil {
		c.triggers[point] = map[int64]func(){}
	}
	c.triggers[point][nth] = f
	c.mu.Unlock()
}

func (c *controller) note(ev string) {
	c.mu.Lock()
	c.trace = append(c.trace, ev)
	c.mu.Unlock()
}

func (c *controller) parkedAt(point string) int {
	c.mu.Lock()
	defer c.mu.Unlock()
	n := 0
	for _, p := range c.parked {
		if p.point == point && !p.released {
			n++
		}
	}
	return n
}

func (c *controller) everParked() int {
	c.mu.Lock()
	defer c.mu.Unlock()
	return len(c.parked)
}

// hitCount: arrivals at point with this key (0 = any key).
func (c *controller) hitCount(point string, key int64) int64 {
	c.mu.Lock()
	defer c.mu.Unlock()
	if key == 0 {
		return c.hits[point]
	}
	return c.keyHits[point][key]
}

// release lets up to n goroutines parked at point continue (park order). Returns how many.
func (c *controller) release(point string, n int) int {
	c.mu.Lock()
	defer c.mu.Unlock()
	k := 0
	for _, p := range c.parked {
		if k >= n {
			break
		}
		if p.point == point && !p.released {
			p.released = true
			close(p.rel)
			k++
		}
	}
	if k > 0 {
		c.trace = append(c.trace, "release:"+shortPoint[point])
	}
	return k
}

// shutdown disarms everything and releases every parked goroutine.
func (c *controller) shutdown() {
	c.mu.Lock()
	defer c.mu.Unlock()
	c.closed = true
	for _, p := range c.parked {
		if !p.released {
			p.released = true
			close(p.rel)
			c.trace = append(c.trace, "release-at-end:"+shortPoint[p.point])
		}
	}
}

func (c *controller) signature() string {
	c.mu.Lock()
	defer c.mu.Unlock()
	return strings.Join(c.trace, " ")
}

func (c *controller) snapshotHits() map[string]int64 {
	c.mu.Lock()
	defer c.mu.Unlock()
	out := make(map[string]int64, len(c.hits))
	for k, v := range c.hits {
		out[k] = v
	}
	return out
}

func (c *controller) snapshotEvents() []hookEvent {
	c.mu.Lock()
	defer c.mu.Unlock()
	return append([]hookEvent(nil), c.events...)
}
