// Package c11 checks property C11: request de-duplication (inbound single flight of whole
// operations, single flight of subgraph requests) is transparent and never wedges or crashes.
package c11

import (
	"fmt"
	"math/rand/v2"

	"verifharness/internal/fw"
)

type c11 struct{ fw.Base }

func init() { fw.Register(c11{}) }

func (c11) ID() string             { return "C11" }
func (c11) Race() bool             { return true }
func (c11) CrashIsViolation() bool { return true }
func (c11) CaseTimeout(string) int { return 40 }
func (c11) Rule() string {
	return "hand-built plans (SingleFetch trees over gated fake datasources whose answer is a pure function of datasource id, rendered input and forwarded header) driven through Resolver.ArenaResolveGraphQLResponse. " +
		"Scripted cases: the 14 scenarios of notes/scenarios.md (1-6 inbound layer, 7-12 the same at the subgraph layer between different client operations containing an identical fetch, 13 keys differing only in variables / headers / datasource id, 14 identical mutations, 15 a participant's own client writer failing - leader's or one follower's, first Write failing or short write, writers failing only on later Writes / Flush - with followers joined before or parked across the leader's finish, 16 saturated resolver (MaxConcurrency 1-2, slots held by unrelated parked operations): leader queued for a slot, followers joined, leader or a follower cancelled while queued, slots released; appended after the stress cases: 17 identical concurrent operations of type subscription / unknown, which must never be shared), " +
		"each in its variants (upstream ok / upstream failure rendered / failure as Go error through the rate limiter / leader cancelled) and both release orders, with 2-4 participants from the seed; a yield controller parks the first goroutine(s) reaching the named verif yield point, runs the competing action, releases. " +
		"Stress cases: rounds of 8-64 goroutines on 1-3 hot keys mixing equal and different variables, headers, operations, mutations, upstream failures client writer failures (8% of the participants) and cancellations (before start, at the participant's own upstream call, timed, at the n-th hit of a yield point) with seeded micro delays at all six C11 yield points and in the upstream. " +
		"Oracle on every participant of every scenario: outcome is its solo bytes (reference run alone with both de-duplication layers off, cross-checked against the by-construction bytes), or the upstream failure every request with that key hits, or its own context error / the rendering of its own cancellation, or the error of its OWN client writer (each participant's writer error is a distinct value; seeing another participant's is a violation); upstream call accounting per participant (mutations: exactly one own call; a participant answered without an own call needs a call for exactly its key); follower buffers re-hashed after the resolver's arenas were reused; all participants return once gates are open. " +
		"Non-trivial: at least one flight actually shared or at least one goroutine parked at a yield point; distinct by scenario, variant, order, participant count and park/release signature."
}
func (c11) Assumptions() []string {
	return []string{
		"upstream data is static per key; freshness relative to a changing upstream is not demanded",
		"a cancelled participant may return its context error, a response rendering its cancelled fetches, or its complete solo bytes",
		"the fake datasource and the fake rate limiter behave like context-aware transports: when the caller's context ends they fail with that context's error",
		"Request.ID, VariablesHash and the header hashes are set by the caller as a router does (functions of operation, variables, forwarded header value)",
	}
}
func (c11) RequiredCounters(string) []string {
	req := []string{"scenarios", "participants", "parks", "flights_shared_inbound", "flights_shared_subgraph", "upstream_calls", "limiter_calls",
		"follower_buffers_rehashed", "mutation_fetches_checked", "non_query_fetches_checked", "dedup_data_deliveries", "outcome.solo_bytes", "outcome.own_cancel_error", "outcome.own_cancel_rendered",
		"outcome.shared_upstream_failure_rendered", "outcome.shared_upstream_failure_error", "stress_rounds",
		"outcome.own_writer_error", "writer_faults_injected", "writer_writes", "participants_with_writer_fault.first-write", "participants_with_writer_fault.short-write", "participants_with_writer_fault.later-write-or-flush"}
	for _, p := range c11Points {
		req = append(req, "hook_hits."+p)
	}
	return req
}

// scripted case table: scenario number, variant, release order
type scriptCase struct{ num, variant, order int }

var scriptTable = func() []scriptCase {
	variants := map[int]int{1: 2, 2: 2, 3: 2, 4: 1, 5: 3, 6: 1, 7: 2, 8: 1, 9: 1, 10: 1, 11: 1, 12: 1, 13: 4, 14: 2, 15: 6, 16: 4}
	orders := map[int]int{1: 2, 2: 2, 3: 2, 4: 2, 5: 2, 6: 2, 7: 2, 8: 2, 9: 2, 10: 2, 11: 2, 12: 2, 13: 1, 14: 1, 15: 2, 16: 2}
	var t []scriptCase
	for n := 1; n <= 16; n++ {
		for v := 0; v < variants[n]; v++ {
			for o := 0; o < orders[n]; o++ {
				t = append(t, scriptCase{n, v, o})
			}
		}
	}
	return t
}()

func scriptedCases(tier string) int {
	if tier == fw.Thorough {
		return len(scriptTable) * 135
	}
	return len(scriptTable) * 9
}

func stressCases(tier string) (cases, rounds int) {
	if tier == fw.Thorough {
		return 1500, 20
	}
	return 200, 10
}

// appended cases (after the stress cases, so that every earlier index keeps its case): scenario 17,
// identical concurrent operations whose type is subscription / unknown.
func appendedCases(tier string) int {
	if tier == fw.Thorough {
		return 2 * 2 * 30
	}
	return 2 * 2 * 6
}

func (c11) NumCases(tier string) int {
	n, _ := stressCases(tier)
	return scriptedCases(tier) + n + appendedCases(tier)
}

func (p c11) Run(c *fw.Ctx, idx int) fw.Result {
	res := fw.Result{}
	rng := c.Rng(idx, "c11")
	nStress, _ := stressCases(c.Tier)
	if app := idx - scriptedCases(c.Tier) - nStress; idx < scriptedCases(c.Tier) || app >= 0 {
		sc := scriptTable[idx%len(scriptTable)]
		rep := idx / len(scriptTable)
		if app >= 0 {
			sc = scriptCase{num: 17, variant: app % 2, order: app / 2 % 2}
			rep = app / 4
		}
		k := rep%3 + 1 // followers: 1..3, i.e. 2..4 participants
		label := fmt.Sprintf("S%d/v%d/o%d/k%d", sc.num, sc.variant, sc.order, k)
		s := runScripted(&res, rng, sc, k, label)
		var specs []string
		for _, q := range s.parts {
			specs = append(specs, q.name+"="+q.spec.Plan+"/"+fmt.Sprint(q.spec.Hdr != ""))
		}
		res.Key = fw.HashKey("C11", label, s.ctl.signature(), specs)
		res.Sample = map[string]any{"kind": "scripted", "scenario": label, "trace": s.ctl.signature(), "participants": specs}
		if s.inconclusive != "" {
			res.Inconclusive = s.inconclusive
			res.Observe("inconclusive_scenarios", label+": "+s.inconclusive)
		}
		res.Count("scripted_cases", 1)
	} else {
		_, rounds := stressCases(c.Tier)
		for r := 0; r < rounds; r++ {
			s := runStressRound(&res, rng, fmt.Sprintf("stress/%d/%d", idx, r))
			res.Count("stress_rounds", 1)
			if s.inconclusive != "" && res.Inconclusive == "" {
				res.Inconclusive = s.inconclusive
			}
		}
		res.Key = fw.HashKey("C11", "stress", c.Seed, idx)
		res.Sample = map[string]any{"kind": "stress", "rounds": rounds, "participants": res.Counters["participants"], "upstream_calls": res.Counters["upstream_calls"],
			"shared_inbound": res.Counters["flights_shared_inbound"], "shared_subgraph": res.Counters["flights_shared_subgraph"]}
	}
	res.Nontrivial = res.Counters["flights_shared_inbound"]+res.Counters["flights_shared_subgraph"] > 0 || res.Counters["parks"] > 0
	return res
}

func pickV(rng *rand.Rand) string { return fmt.Sprintf("v%d", rng.IntN(1000)) }
func pickHdr(rng *rand.Rand) string {
	return []string{"", "", "t1", "t2"}[rng.IntN(4)]
}

var sPlans = []string{"A", "B", "D", "E"} // client operations containing the identical fetch S

func names(prefix string, n int) []string {
	out := make([]string, n)
	for i := range out {
		out[i] = fmt.Sprintf("%s%d", prefix, i+1)
	}
	return out
}

// runScripted executes one scripted scenario.
func runScripted(res *fw.Result, rng *rand.Rand, c scriptCase, k int, label string) *scenario {
	v, hdr := pickV(rng), pickHdr(rng)
	limiter := false
	sub := (c.num >= 7 && c.num <= 12) || (c.num == 15 && c.variant == 5)
	switch {
	case c.num == 2 && c.variant == 0, c.num == 8:
		v = "boom" + v
	case c.num == 2 && c.variant == 1, c.num == 5 && c.variant == 2:
		v, limiter = "lim"+v, true
	case c.num == 3 && c.variant == 1, c.num == 16 && c.variant == 1:
		limiter = true
	}
	maxConc := 256
	if c.num == 16 {
		maxConc = 1
		if c.variant == 2 {
			maxConc = 2
		}
	}
	sc := newScenario(res, label, limiter, maxConc)
	w, ctl := sc.w, sc.ctl
	g := w.dsGate
	if limiter && c.num != 16 {
		g = w.limGate
	}
	// participants with one key (inbound layer), or one fetch in different operations (subgraph layer)
	perm := rng.Perm(len(sPlans))
	inPlan := []string{"A", "A", "B", "E"}[rng.IntN(4)]
	specFor := func(i int) reqSpec {
		if sub {
			return reqSpec{Plan: sPlans[perm[i%len(perm)]], V: v, Hdr: hdr}
		}
		return reqSpec{Plan: inPlan, V: v, Hdr: hdr}
	}
	ptFollower, ptAfterDelete, ptBeforeClose := ptInFollowerBeforeRegister, ptInLeaderAfterDelete, ptInLeaderBeforeClose
	if sub {
		ptFollower, ptAfterDelete, ptBeforeClose = ptSubFollowerBeforeWait, ptSubLeaderBeforeClose, ptSubLeaderBeforeClose
	}
	if c.num == 5 && c.variant == 2 {
		ptBeforeClose = ptInLeaderErrBeforeClose
	}
	// the subgraph-layer points are hit by every fetch; the scripts mean the shared fetch S
	var fkey int64
	if sub {
		fkey = sfKeyFor("S", fetchInputBytes("s", v), hdr)
	}
	mk := func(n int) (L *participant, F []*participant) {
		L = sc.add("L", specFor(0))
		for i, nm := range names("F", n) {
			F = append(F, sc.add(nm, specFor(i+1)))
		}
		return
	}

	switch c.num {
	case 1, 2, 3, 7, 8, 9:
		// follower(s) parked between lookup and registration / before waiting, while the leader
		// finishes ok (1,7), with an upstream failure (2,8), or is cancelled (3,9)
		sc.run(func() {
			L, F := mk(k)
			park := k
			if (c.num == 1 || c.num == 7) && c.variant == 1 && k > 1 {
				park = 1 + rng.IntN(k-1) // some followers register normally
			}
			g.setOpen(false)
			sc.start(L)
			sc.waitBlocked(g, 1)
			ctl.arm(ptFollower, fkey, park)
			sc.start(F...)
			sc.waitParked(ptFollower, park)
			sc.waitHits(ptFollower, fkey, int64(k))
			sc.settle()
			finishLeader := func() {
				if c.num == 3 || c.num == 9 {
					sc.cancel(L)
				} else {
					sc.openGate(g)
				}
				sc.waitDone(L)
			}
			if c.order == 0 {
				finishLeader()
				sc.release(ptFollower, park)
			} else {
				sc.release(ptFollower, park)
				sc.settle()
				finishLeader()
			}
		})
	case 4, 10:
		// leader parked right after deleting the entry; followers arrive now
		sc.run(func() {
			L, F := mk(k)
			ctl.arm(ptAfterDelete, fkey, 1)
			sc.start(L)
			sc.waitParked(ptAfterDelete, 1)
			if c.order == 0 {
				sc.start(F...)
				sc.waitDone(F...)
				sc.release(ptAfterDelete, 1)
			} else {
				sc.closeGate(g)
				sc.start(F...)
				sc.waitBlocked(g, 1)
				sc.release(ptAfterDelete, 1)
				sc.waitDone(L)
				sc.openGate(g)
			}
		})
	case 5, 11:
		nf := k
		if nf < 2 {
			nf = 2
		}
		if c.num == 5 && c.variant == 1 {
			// two points: follower parked before registering, leader parked between its follower
			// check and the close; both release orders
			sc.run(func() {
				L, F := mk(k)
				g.setOpen(false)
				sc.start(L)
				sc.waitBlocked(g, 1)
				ctl.arm(ptFollower, fkey, k)
				sc.start(F...)
				sc.waitParked(ptFollower, k)
				ctl.arm(ptBeforeClose, fkey, 1)
				sc.openGate(g)
				sc.waitParked(ptBeforeClose, 1)
				if c.order == 0 {
					sc.release(ptFollower, k)
					sc.settle()
					sc.release(ptBeforeClose, 1)
				} else {
					sc.release(ptBeforeClose, 1)
					sc.waitDone(L)
					sc.release(ptFollower, k)
				}
			})
			break
		}
		// leader parked before the close; an earlier follower cancels; a late one arrives
		sc.run(func() {
			L, F := mk(nf)
			early, late := F[:nf-1], F[nf-1]
			g.setOpen(false)
			sc.start(L)
			sc.waitBlocked(g, 1)
			sc.start(early...)
			sc.waitHits(ptFollower, fkey, int64(len(early)))
			sc.settle()
			ctl.arm(ptBeforeClose, fkey, 1)
			sc.openGate(g)
			sc.waitParked(ptBeforeClose, 1)
			sc.cancel(early[0])
			sc.waitDone(early[0])
			if c.order == 0 {
				sc.start(late)
				sc.waitDone(late)
				sc.release(ptBeforeClose, 1)
			} else {
				sc.closeGate(g)
				sc.start(late)
				sc.waitBlocked(g, 1)
				sc.release(ptBeforeClose, 1)
				sc.waitDone(L)
				sc.openGate(g)
			}
		})
	case 6, 12:
		// registered followers cancel their own context while the leader is still upstream
		sc.run(func() {
			L, F := mk(k)
			g.setOpen(false)
			sc.start(L)
			sc.waitBlocked(g, 1)
			sc.start(F...)
			sc.waitHits(ptFollower, fkey, int64(k))
			sc.settle()
			n := 1
			if c.order == 1 {
				n = k
			}
			sc.cancel(F[:n]...)
			sc.waitDone(F[:n]...)
			sc.openGate(g)
		})
	case 13:
		// keys differing in exactly one component, concurrently; plus one exact duplicate as a
		// positive control that sharing does happen in the same run
		sc.run(func() {
			var specs []reqSpec
			n := k + 1
			switch c.variant {
			case 0: // variables
				for i := 0; i < n; i++ {
					specs = append(specs, reqSpec{Plan: inPlan, V: fmt.Sprintf("%sn%d", v, i), Hdr: hdr})
				}
			case 1: // forwarded headers
				for i := 0; i < n; i++ {
					specs = append(specs, reqSpec{Plan: inPlan, V: v, Hdr: []string{"", "t1", "t2", "t3"}[i]})
				}
			case 2: // datasource id (same rendered input)
				specs = append(specs, reqSpec{Plan: "A", V: v, Hdr: hdr}, reqSpec{Plan: "C", V: v, Hdr: hdr})
				if k > 1 {
					specs = append(specs, reqSpec{Plan: "D", V: v + "n", Hdr: hdr})
				}
			case 3: // identical fetch in different operations, different forwarded headers
				for i := 0; i < n; i++ {
					specs = append(specs, reqSpec{Plan: sPlans[perm[i]], V: v, Hdr: []string{"", "t1", "t2", "t3"}[i]})
				}
			}
			specs = append(specs, specs[0])
			distinct := map[string]bool{}
			var ps []*participant
			for i, s := range specs {
				ps = append(ps, sc.add(fmt.Sprintf("X%d", i+1), s))
				for j, f := range planDefs[s.Plan].fetches {
					if w.gatedDS[f.ds] {
						distinct[s.ukeys()[j]] = true
					}
				}
			}
			g.setOpen(false)
			sc.start(ps...)
			sc.waitBlocked(g, len(distinct))
			sc.settle()
			sc.openGate(g)
		})
	case 15:
		// A participant's own client connection fails when the response is written to it (the
		// resolver writes once: first Write failing outright / short write; a writer that fails only
		// on later Writes or on Flush is run too and must behave like a healthy one). Variants: the
		// leader's writer (0 first-write, 1 short-write, 2 leader and one follower), one follower's
		// writer (3 first-write, 4 short-write), 5 the leader's writer at the subgraph layer (other
		// client operations waiting on its fetch). Order 0: followers joined before the leader finishes;
		// order 1: followers parked before registering / waiting, one released before the leader
		// finishes, the rest after it returned.
		sc.run(func() {
			nf := k
			if nf < 2 {
				nf = 2
			}
			L, F := mk(nf)
			switch c.variant {
			case 0, 5:
				L.wfault = wfFirstWrite
			case 1:
				L.wfault = wfShortWrite
			case 2:
				L.wfault, F[0].wfault = wfFirstWrite, wfFirstWrite
			case 3:
				F[0].wfault = wfFirstWrite
			case 4:
				F[0].wfault = wfShortWrite
			}
			F[nf-1].wfault = []int{wfNone, wfLater}[rng.IntN(2)] // later-Write/Flush faults never trigger on this path
			g.setOpen(false)
			sc.start(L)
			sc.waitBlocked(g, 1)
			if c.order == 0 {
				sc.start(F...)
				sc.waitHits(ptFollower, fkey, int64(nf))
				sc.settle()
				sc.openGate(g)
			} else {
				ctl.arm(ptFollower, fkey, nf)
				sc.start(F...)
				sc.waitParked(ptFollower, nf)
				sc.release(ptFollower, 1)
				sc.settle()
				sc.openGate(g)
				sc.waitDone(L)
				sc.release(ptFollower, nf)
			}
		})
	case 16:
		// Saturated resolver: every MaxConcurrency slot (1; variant 2: 2) is held by an unrelated
		// operation parked in its upstream call. The leader L is queued for a slot, followers join it,
		// then L (variants 0-2; 1 with the rate limiter on) or one follower (variant 3) is cancelled
		// while L is still queued; then the slots are released. Order 0: followers registered before
		// the cancel; order 1: followers parked before registering, released after the cancel.
		sc.run(func() {
			var X []*participant
			for i := 0; i < maxConc; i++ {
				X = append(X, sc.add(fmt.Sprintf("X%d", i+1), reqSpec{Plan: "C", V: fmt.Sprintf("%sblock%d", v, i), Hdr: hdr}))
			}
			nf := k
			if nf < 2 {
				nf = 2
			}
			L, F := mk(nf)
			g.setOpen(false)
			sc.start(X...)
			sc.waitBlocked(g, maxConc) // all slots taken
			// all requests of the key start together: one becomes the leader and queues for a slot,
			// the others arrive at the follower point; the hook events say who is who
			group := append([]*participant{L}, F...)
			if c.order == 1 {
				ctl.arm(ptFollower, fkey, nf)
			}
			sc.start(group...)
			if c.order == 0 {
				sc.waitHits(ptFollower, fkey, int64(nf))
				sc.settle()
			} else {
				sc.waitParked(ptFollower, nf)
			}
			isFollower := map[int]bool{}
			for _, e := range ctl.snapshotEvents() {
				if e.point == ptFollower {
					isFollower[e.pid] = true
				}
			}
			var leader, follower *participant
			for _, q := range group {
				if !isFollower[q.id] {
					if leader != nil {
						sc.abort("script-precondition: the leader of the group could not be told from the hook events")
					}
					leader = q
				} else if follower == nil {
					follower = q
				}
			}
			if leader == nil || follower == nil {
				sc.abort("script-precondition: the leader of the group could not be told from the hook events")
			}
			if c.variant == 3 {
				sc.cancel(follower)
			} else {
				sc.doCancel(leader, siteQueue)
				ctl.note("cancel:leader=" + leader.name)
			}
			sc.settle()
			if c.order == 1 {
				sc.release(ptFollower, nf)
				sc.settle()
			}
			sc.openGate(g)
		})
	case 17:
		// identical concurrent operations that are neither query nor mutation (variant 0:
		// Info.OperationType subscription, 1: unknown, the zero value): same Request.ID, variables and
		// headers, yet each must load on its own. Order 0: all start together behind the closed gate;
		// order 1: one starts first and is in its upstream call when the others arrive.
		sc.run(func() {
			plan := []string{"SUB", "UNK"}[c.variant]
			var ps []*participant
			for i := 0; i < k+1; i++ {
				ps = append(ps, sc.add(fmt.Sprintf("N%d", i+1), reqSpec{Plan: plan, V: v, Hdr: hdr}))
			}
			g.setOpen(false)
			if c.order == 1 {
				sc.start(ps[0])
				sc.waitBlocked(g, 1)
			}
			sc.start(ps...)
			// every request reaches the upstream; one that arrives at the follower point instead is
			// (wrongly) being de-duplicated and will never get there
			n := len(ps)
			sc.waitFor(fmt.Sprintf("step-timeout: %d upstream calls expected at the gate", n), func() bool {
				return g.blocked()+int(ctl.hitCount(ptInFollowerBeforeRegister, 0)+ctl.hitCount(ptSubFollowerBeforeWait, 0)) >= n
			})
			sc.settle()
			sc.openGate(g)
		})
	case 14:
		// identical mutations, concurrently: every one of them reaches the upstream
		sc.run(func() {
			plan := "M"
			if c.variant == 1 {
				plan = "MQ"
			}
			var ps []*participant
			for i := 0; i < k+1; i++ {
				ps = append(ps, sc.add(fmt.Sprintf("M%d", i+1), reqSpec{Plan: plan, V: v, Hdr: hdr}))
			}
			g.setOpen(false)
			sc.start(ps...)
			sc.waitBlocked(g, len(ps))
			sc.openGate(g)
		})
	}
	return sc
}
