package c11

import (
	"bytes"
	"context"
	"encoding/json"
	"errors"
	"fmt"
	"os"
	"runtime/debug"
	"sort"
	"strings"
	"sync/atomic"
	"time"

	"github.com/cespare/xxhash/v2"

	"verifharness/internal/fw"

	"github.com/wundergraph/graphql-go-tools/v2/pkg/engine/resolve"
)

// delivery is one Write call seen by a participant's client writer. ref is the very slice the
// resolver handed over (kept ONLY to re-hash it at the end of the scenario: for a de-duplicated
// response it is the buffer shared by all followers); sum is its hash at delivery time.
type delivery struct {
	ref []byte
	sum uint64
}

// writerError is the failure of one participant's own client connection (broken pipe). Every
// participant has its own value, so the oracle can tell whose disconnect an error is.
type writerError struct{ pid int }

func (e *writerError) Error() string {
	return fmt.Sprintf("write tcp 10.0.0.%d:443: write: broken pipe", e.pid)
}

func writerErrOf(err error) *writerError {
	var we *writerError
	if errors.As(err, &we) {
		return we
	}
	return nil
}

// writer fault modes of a participant's client writer
const (
	wfNone       = 0
	wfFirstWrite = 1 // the first Write fails, nothing is written
	wfShortWrite = 2 // the first Write writes half of the bytes and fails
	wfLater      = 3 // the second and later Writes and Flush fail (the first Write is healthy)
)

var wfNames = map[int]string{wfNone: "", wfFirstWrite: "first-write", wfShortWrite: "short-write", wfLater: "later-write-or-flush"}

type recWriter struct {
	buf        bytes.Buffer
	deliveries []delivery
	fault      int
	err        error
	writes     int
	flushes    int
	faults     int
}

func (w *recWriter) Write(p []byte) (int, error) {
	w.writes++
	w.deliveries = append(w.deliveries, delivery{ref: p, sum: xxhash.Sum64(p)})
	switch {
	case w.fault == wfFirstWrite && w.writes == 1:
		w.faults++
		return 0, w.err
	case w.fault == wfShortWrite && w.writes == 1:
		w.faults++
		n, _ := w.buf.Write(p[:len(p)/2])
		return n, w.err
	case w.fault == wfLater && w.writes > 1:
		w.faults++
		return 0, w.err
	}
	return w.buf.Write(p)
}

// Flush exists for writers that are flushed by their caller; ArenaResolveGraphQLResponse takes a
// plain io.Writer, the call count is evidence of whether this point exists on that path at all.
func (w *recWriter) Flush() error {
	w.flushes++
	if w.fault == wfLater {
		w.faults++
		return w.err
	}
	return nil
}

type participant struct {
	id     int
	name   string
	spec   reqSpec
	ctx    context.Context
	cancel context.CancelFunc
	// cancelIssued: the script / stress driver cancelled this participant's context (at any time)
	cancelIssued atomic.Bool
	// cancelSite: where the participant was at that moment, from the script (which established it)
	// or from the upstream instruments; never from anybody's outcome
	cancelSite atomic.Value
	started    bool
	done       chan struct{}
	// wfault: how this participant's own client writer fails (wfNone: healthy); werr: its error
	wfault int
	werr   *writerError

	// written by the participant's goroutine before done is closed
	out            []byte
	deliveries     []delivery
	err            error
	dedup          bool
	ctxErrAtReturn error
	subErr         error
	panicMsg       string
	panicStack     string
	gotShared      []string
	wWrites        int
	wFlushes       int
	wFaults        int
}

type soloOutcome struct {
	bytes []byte
	err   error
}

type scriptAbort struct{ reason string }

type scenario struct {
	label   string
	res     *fw.Result
	w       *world
	ctl     *controller
	r       *resolve.Resolver
	soloR   *resolve.Resolver
	stop    context.CancelFunc
	plans   map[string]*plan
	limiter bool
	// noInbound: participants switch the inbound layer off (ExecutionOptions), so that all sharing
	// happens between subgraph requests
	noInbound bool
	parts     []*participant
	solo      map[string]soloOutcome

	stepTimeout  time.Duration
	inconclusive string
}

func newScenario(res *fw.Result, label string, limiter bool, maxConc int) *scenario {
	installHooks()
	ctx, stop := context.WithCancel(context.Background())
	sc := &scenario{label: label, res: res, w: newWorld(), ctl: newController(), stop: stop, plans: map[string]*plan{}, limiter: limiter,
		solo: map[string]soloOutcome{}, stepTimeout: 10 * time.Second}
	sc.r = resolve.New(ctx, resolve.ResolverOptions{MaxConcurrency: maxConc})
	sc.soloR = resolve.New(ctx, resolve.ResolverOptions{MaxConcurrency: 8})
	for name, def := range planDefs {
		sc.plans[name] = sc.w.buildPlan(def)
	}
	currentCtrl.Store(sc.ctl)
	return sc
}

func (sc *scenario) close() {
	currentCtrl.Store(nil)
	sc.stop()
}

// soloRun executes the request alone, with both de-duplication layers switched off, on a separate
// resolver; failCancelled lists datasources that answer like a cancelled transport.
func (sc *scenario) soloRun(spec reqSpec, failCancelled map[string]bool) (out soloOutcome) {
	keys := make([]string, 0, len(failCancelled))
	for k := range failCancelled {
		keys = append(keys, k)
	}
	sort.Strings(keys)
	ck := spec.String() + "!" + strings.Join(keys, ",")
	if o, ok := sc.solo[ck]; ok {
		return o
	}
	defer func() {
		if r := recover(); r != nil {
			out = soloOutcome{err: fmt.Errorf("c11: solo run panicked: %v", r)}
		}
		sc.solo[ck] = out
	}()
	ctx := context.WithValue(context.Background(), soloKey{}, &soloMode{failCancelled: failCancelled})
	rc := newResolveContext(ctx, spec, sc.w, sc.limiter)
	rc.ExecutionOptions.DisableInboundRequestDeduplication = true
	rc.ExecutionOptions.DisableSubgraphRequestDeduplication = true
	var buf bytes.Buffer
	_, err := sc.soloR.ArenaResolveGraphQLResponse(rc, sc.plans[spec.Plan].resp, &buf)
	if err != nil {
		return soloOutcome{err: err}
	}
	return soloOutcome{bytes: append([]byte(nil), buf.Bytes()...)}
}

// cancelVariants: what this request renders when some non-empty subset of its fetches failed
// with a context error (the ways its own cancellation can show up in its own response).
func (sc *scenario) cancelVariants(spec reqSpec) [][]byte {
	def := planDefs[spec.Plan]
	ids := map[string]bool{}
	for _, f := range def.fetches {
		ids[f.ds] = true
	}
	var list []string
	for id := range ids {
		list = append(list, id)
	}
	sort.Strings(list)
	var out [][]byte
	for mask := 1; mask < 1<<len(list); mask++ {
		fail := map[string]bool{}
		for i, id := range list {
			if mask&(1<<i) != 0 {
				fail[id] = true
			}
		}
		if o := sc.soloRun(spec, fail); o.err == nil {
			out = append(out, o.bytes)
		}
	}
	return out
}

func (sc *scenario) add(name string, spec reqSpec) *participant {
	base := context.WithValue(context.Background(), pidKey{}, len(sc.parts))
	ctx, cancel := context.WithCancel(base)
	p := &participant{id: len(sc.parts), name: name, spec: spec, ctx: ctx, cancel: cancel, done: make(chan struct{}), werr: &writerError{pid: len(sc.parts)}}
	sc.parts = append(sc.parts, p)
	// the reference outcome, computed before the participant exists for the system under test
	o := sc.soloRun(spec, nil)
	if spec.healthy() && (o.err != nil || !bytes.Equal(o.bytes, spec.expectedBytes())) && sc.inconclusive == "" {
		sc.inconclusive = fmt.Sprintf("harness-solo-mismatch: solo run of %s gave %q / %v, by construction %q", spec, o.bytes, o.err, spec.expectedBytes())
	}
	return p
}

func (sc *scenario) start(ps ...*participant) {
	for _, p := range ps {
		if p.started {
			continue
		}
		p.started = true
		sc.ctl.note("start:" + p.name)
		go sc.runParticipant(p, nil)
	}
}

func (sc *scenario) runParticipant(p *participant, barrier <-chan struct{}) {
	defer close(p.done)
	sc.ctl.registerG(p.id)
	w := &recWriter{fault: p.wfault, err: p.werr}
	defer func() {
		p.wWrites, p.wFlushes, p.wFaults = w.writes, w.flushes, w.faults
		if r := recover(); r != nil {
			// a panic on a goroutine the harness owns: keep it (with the scenario) instead of
			// losing the process
			p.panicMsg = fmt.Sprint(r)
			p.panicStack = string(debug.Stack())
			p.out = append([]byte(nil), w.buf.Bytes()...)
			p.deliveries = w.deliveries
			p.ctxErrAtReturn = p.ctx.Err()
		}
	}()
	rc := newResolveContext(p.ctx, p.spec, sc.w, sc.limiter)
	rc.ExecutionOptions.DisableInboundRequestDeduplication = sc.noInbound
	token := "dd:" + p.spec.String()
	resolve.SetDeduplicationCallbacks(rc,
		func(ctx context.Context) string { return token },
		func(ctx context.Context, s string) { p.gotShared = append(p.gotShared, s) })
	if barrier != nil {
		<-barrier
	}
	info, err := sc.r.ArenaResolveGraphQLResponse(rc, sc.plans[p.spec.Plan].resp, w)
	p.ctxErrAtReturn = p.ctx.Err()
	p.err = err
	if info != nil {
		p.dedup = info.ResolveDeduplicated
	}
	p.subErr = rc.SubgraphErrors()
	p.out = append([]byte(nil), w.buf.Bytes()...)
	p.deliveries = w.deliveries
}

// ---- script primitives. Waiting is polling with a generous bound; a bound that fires aborts the
// script (the scenario is then inconclusive), it never decides a verdict.

func (sc *scenario) abort(format string, a ...any) {
	panic(scriptAbort{reason: fmt.Sprintf(format, a...)})
}

func (sc *scenario) waitFor(what string, cond func() bool) {
	deadline := time.Now().Add(sc.stepTimeout)
	for i := 0; ; i++ {
		if cond() {
			return
		}
		if time.Now().After(deadline) {
			sc.abort("%s", what)
		}
		if i < 50 {
			time.Sleep(50 * time.Microsecond)
		} else {
			time.Sleep(500 * time.Microsecond)
		}
	}
}

func (sc *scenario) waitBlocked(g *gate, n int) {
	sc.waitFor(fmt.Sprintf("step-timeout: %d upstream call(s) never reached the gate (have %d)", n, g.blocked()), func() bool { return g.blocked() >= n })
	sc.ctl.note(fmt.Sprintf("gated(%d)", n))
}

func (sc *scenario) waitParked(point string, n int) {
	sc.waitFor(fmt.Sprintf("hook-not-reached: %s (wanted %d parked)", point, n), func() bool { return sc.ctl.parkedAt(point) >= n })
}

func (sc *scenario) waitHits(point string, key int64, n int64) {
	sc.waitFor(fmt.Sprintf("hook-not-reached: %s (wanted %d hits)", point, n), func() bool { return sc.ctl.hitCount(point, key) >= n })
}

func (sc *scenario) waitDone(ps ...*participant) {
	for _, p := range ps {
		p := p
		sc.waitFor("step-timeout: participant "+p.name+" did not return at a point of the script where it must", func() bool {
			select {
			case <-p.done:
				return true
			default:
				return false
			}
		})
		sc.ctl.note("done:" + p.name)
	}
}

// settle gives goroutines that passed a hook a moment to reach their next blocking point. It only
// shapes the interleaving; no verdict depends on it.
func (sc *scenario) settle() { time.Sleep(3 * time.Millisecond) }

func (sc *scenario) cancel(ps ...*participant) {
	for _, p := range ps {
		sc.doCancel(p, "")
		sc.ctl.note("cancel:" + p.name)
	}
}

// cancel sites that no instrument can see
const (
	siteQueue       = "concurrency-queue" // queued for a MaxConcurrency slot (established by the script)
	siteBeforeStart = "before-start"
	siteNoFetch     = "no-fetch-in-progress"
)

// doCancel cancels p's context and records where p was: site if the script knows it, else the
// instrument one of p's calls is inside right now.
func (sc *scenario) doCancel(p *participant, site string) {
	if site == "" {
		site = sc.w.whereIs(p.id)
	}
	if site == "" {
		site = siteNoFetch
		if !p.started {
			site = siteBeforeStart
		}
	}
	if p.cancelSite.Load() == nil {
		p.cancelSite.Store(site)
	}
	p.cancelIssued.Store(true)
	p.cancel()
}

func (p *participant) cancelledAt() string {
	if v, ok := p.cancelSite.Load().(string); ok {
		return v
	}
	return "not-cancelled"
}

// leaders says, from the hook events, whose flight each participant joined: inbound layer (the
// first close of the same inbound key after the participant's last arrival at the follower
// point; the close hooks come after the leader closed the registration) and subgraph layer (the first finish of the same single-flight key after each of its
// arrivals at the subgraph follower point).
type leaders struct {
	inbound  map[int]int
	subgraph map[int][]int
}

func computeLeaders(ev []hookEvent) leaders {
	l := leaders{inbound: map[int]int{}, subgraph: map[int][]int{}}
	lastIn := map[int]hookEvent{}
	for _, e := range ev {
		if e.pid >= 0 && e.point == ptInFollowerBeforeRegister {
			lastIn[e.pid] = e
		}
	}
	firstAfter := func(from hookEvent, points ...string) int {
		for _, e := range ev[from.seq+1:] {
			if e.key != from.key {
				continue
			}
			for _, pt := range points {
				if e.point == pt {
					return e.pid
				}
			}
		}
		return -1
	}
	for pid, e := range lastIn {
		if q := firstAfter(e, ptInLeaderBeforeClose, ptInLeaderErrBeforeClose); q >= 0 && q != pid {
			l.inbound[pid] = q
		}
	}
	for _, e := range ev {
		if e.pid >= 0 && e.point == ptSubFollowerBeforeWait {
			if q := firstAfter(e, ptSubLeaderBeforeClose); q >= 0 && q != e.pid {
				l.subgraph[e.pid] = append(l.subgraph[e.pid], q)
			}
		}
	}
	return l
}

// culprit: the cancelled participant whose flight p (transitively) joined. layer says where p's
// own sharing happened; a live leader that is itself a victim is followed further.
func (sc *scenario) culprit(l leaders, p *participant, layer string) *participant {
	seen := map[int]bool{}
	var walk func(pid int, layer string, depth int) *participant
	walk = func(pid int, layer string, depth int) *participant {
		if depth > 6 || seen[pid] {
			return nil
		}
		seen[pid] = true
		var next []int
		if layer != "subgraph" {
			if q, ok := l.inbound[pid]; ok {
				next = append(next, q)
			}
		}
		if layer != "inbound" || len(next) == 0 {
			next = append(next, l.subgraph[pid]...)
		}
		for _, q := range next {
			if q >= 0 && q < len(sc.parts) && sc.parts[q].cancelIssued.Load() {
				return sc.parts[q]
			}
		}
		for _, q := range next {
			if q >= 0 && q < len(sc.parts) {
				if c := walk(q, "", depth+1); c != nil {
					return c
				}
			}
		}
		return nil
	}
	return walk(p.id, layer, 0)
}

// cancelFacts adds the match facts that say which cancellation reached p. None of them is
// derived from p's outcome.
//
//   - leader_cancelled_at: where the cancelled request whose flight p (transitively) joined was when
//     it was cancelled: declared by the script when only the script can know it (concurrency-queue),
//     else the upstream instrument one of its calls was inside (rate-limit-prefetch, subgraph-fetch),
//     else before-start / no-fetch-in-progress. The leader is told from the hook events; under stress
//     this can fail ("leader-not-identified"), and the cancel site does not determine how the
//     cancellation propagates (a leader cancelled while queued later runs its fetches with the dead
//     context), so known-finding matchers should use the next facts.
//   - ctx_error_from_rate_limit / ctx_error_from_fetch: whether the rate limiter / a datasource
//     answered ANY cancelled request that shares work with p (same inbound key or an identical
//     fetch) with that request's own context error, i.e. whether the shared work got as far as
//     failing there. Set-based over the participants, exact attribution through the context value.
//   - ctx_error_from_follower_wait: a cancelled request sharing work with p was waiting as a
//     subgraph follower (hook events, best effort).
func (sc *scenario) cancelFacts(l leaders, ev []hookEvent, p *participant, m map[string]string) (map[string]string, map[string]any) {
	mine := map[string]bool{}
	for _, uk := range p.spec.ukeys() {
		mine[uk] = true
	}
	waited := map[int]bool{}
	for _, e := range ev {
		if e.point == ptSubFollowerBeforeWait && e.pid >= 0 {
			waited[e.pid] = true
		}
	}
	var lim, fetch, wait bool
	var peers []string
	sc.w.mu.Lock()
	for _, q := range sc.parts {
		if q == p || !q.started || !q.cancelIssued.Load() {
			continue
		}
		shares := false
		for _, uk := range q.spec.ukeys() {
			if mine[uk] {
				shares = true
			}
		}
		if !shares {
			continue
		}
		peers = append(peers, q.name+"@"+q.cancelledAt())
		lim = lim || sc.w.ctxErrAt[q.id][stageLimiter]
		fetch = fetch || sc.w.ctxErrAt[q.id][stageFetch]
		wait = wait || waited[q.id]
	}
	sc.w.mu.Unlock()
	m["ctx_error_from_rate_limit"] = fmt.Sprint(lim)
	m["ctx_error_from_fetch"] = fmt.Sprint(fetch)
	m["ctx_error_from_follower_wait"] = fmt.Sprint(wait)
	extra := map[string]any{"cancelled_requests_sharing_work": peers}
	if c := sc.culprit(l, p, m["layer"]); c != nil {
		m["leader_cancelled_at"] = c.cancelledAt()
		extra["cancelled_leader"] = c.name
	} else {
		m["leader_cancelled_at"] = "leader-not-identified"
	}
	return m, extra
}

func (sc *scenario) openGate(g *gate) {
	g.setOpen(true)
	sc.ctl.note("open")
}

func (sc *scenario) closeGate(g *gate) {
	g.setOpen(false)
	sc.ctl.note("close")
}

func (sc *scenario) release(point string, n int) {
	if sc.ctl.release(point, n) == 0 {
		sc.abort("hook-not-reached: nothing parked at %s when the script releases it", point)
	}
}

// run executes the script, then always: open every gate, release every park, wait for every
// participant under the watchdog, run the monitors.
func (sc *scenario) run(script func()) {
	func() {
		defer func() {
			if r := recover(); r != nil {
				if a, ok := r.(scriptAbort); ok {
					if sc.inconclusive == "" {
						sc.inconclusive = a.reason
					}
					return
				}
				panic(r)
			}
		}()
		script()
	}()
	sc.finish()
}

func (sc *scenario) finish() {
	sc.ctl.shutdown()
	sc.w.dsGate.setOpen(true)
	sc.w.limGate.setOpen(true)
	// bounded progress: everything that could block a participant is open now
	deadline := time.After(15 * time.Second)
	for _, p := range sc.parts {
		if !p.started {
			continue
		}
		select {
		case <-p.done:
		case <-deadline:
			// The statement promises that every participant returns. Leave the verdict to the
			// framework's hang protocol (case watchdog, isolated re-run): say what is stuck, then wait.
			var stuck []string
			for _, q := range sc.parts {
				if !q.started {
					continue
				}
				select {
				case <-q.done:
				default:
					stuck = append(stuck, q.name+"="+q.spec.String())
				}
			}
			fmt.Fprintf(os.Stderr, "WATCHDOG C11 wedge: scenario %q: all gates open and all parks released, but these participants did not return: %v; trace: %s\n", sc.label, stuck, sc.ctl.signature())
			select {}
		}
	}
	sc.scrub()
	sc.judge()
	sc.close()
}

// scrub pushes a few unrelated requests through the same resolver so that its pooled arenas are
// reused and overwritten before the follower buffers are re-hashed.
func (sc *scenario) scrub() {
	used := map[string]bool{}
	for _, p := range sc.parts {
		used[p.spec.Plan] = true
	}
	for plan := range used {
		for i := 0; i < 2; i++ {
			func() {
				defer func() { _ = recover() }()
				spec := reqSpec{Plan: plan, V: "scrub" + strings.Repeat("Q", 40+i)}
				ctx := context.WithValue(context.Background(), soloKey{}, &soloMode{})
				rc := newResolveContext(ctx, spec, sc.w, false)
				rc.ExecutionOptions.DisableInboundRequestDeduplication = true
				rc.ExecutionOptions.DisableSubgraphRequestDeduplication = true
				var buf bytes.Buffer
				_, _ = sc.r.ArenaResolveGraphQLResponse(rc, sc.plans[plan].resp, &buf)
			}()
		}
	}
}

// sameResponse: byte equality; for a plan with parallel fetches the order of the entries of the
// top-level "errors" array depends on which fetch merges first even when the request runs alone,
// so there (and only there) responses are compared with that array sorted.
func sameResponse(spec reqSpec, a, b []byte) bool {
	if bytes.Equal(a, b) {
		return true
	}
	if !planDefs[spec.Plan].parallel {
		return false
	}
	ca, ok1 := canonErrors(a)
	cb, ok2 := canonErrors(b)
	return ok1 && ok2 && bytes.Equal(ca, cb)
}

func canonErrors(b []byte) ([]byte, bool) {
	var m map[string]json.RawMessage
	if err := json.Unmarshal(b, &m); err != nil {
		return nil, false
	}
	var errs []json.RawMessage
	if raw, ok := m["errors"]; ok {
		if err := json.Unmarshal(raw, &errs); err != nil {
			return nil, false
		}
		sort.Slice(errs, func(i, j int) bool { return bytes.Compare(errs[i], errs[j]) < 0 })
	}
	var sb bytes.Buffer
	sb.WriteString(`{"errors":[`)
	for i, e := range errs {
		if i > 0 {
			sb.WriteByte(',')
		}
		sb.Write(e)
	}
	sb.WriteString(`]`)
	keys := make([]string, 0, len(m))
	for k := range m {
		if k != "errors" {
			keys = append(keys, k)
		}
	}
	sort.Strings(keys)
	for _, k := range keys {
		sb.WriteString(`,"` + k + `":`)
		sb.Write(m[k])
	}
	sb.WriteString(`}`)
	return sb.Bytes(), true
}

// specDiff names the key components in which two requests differ.
func specDiff(a, b reqSpec) string {
	var d []string
	if a.Plan != b.Plan {
		d = append(d, "operation")
	}
	if a.V != b.V {
		d = append(d, "variables")
	}
	if a.Hdr != b.Hdr {
		d = append(d, "headers")
	}
	return strings.Join(d, "+")
}

func isCtxErr(err error) bool {
	return errors.Is(err, context.Canceled) || errors.Is(err, context.DeadlineExceeded)
}

func clip(b []byte) string {
	if len(b) > 300 {
		return string(b[:300]) + "…"
	}
	return string(b)
}

// judge is the oracle. It runs on every scenario, scripted or stress.
// violate records a violation once per (kind, match) class and case; further ones of the same
// class in the same case (a stress case has several rounds with dozens of participants) are counted.
func (sc *scenario) violate(kind, msg string, match map[string]string, detail any) {
	for _, v := range sc.res.Violations {
		if v.Kind == kind && fmt.Sprint(v.Match) == fmt.Sprint(match) {
			sc.res.Count("violations_same_class_in_case_not_repeated", 1)
			return
		}
	}
	sc.res.Violate(kind, msg, match, detail)
}

func (sc *scenario) judge() {
	res := sc.res
	res.Count("scenarios", 1)
	sig := sc.ctl.signature()
	hits := sc.ctl.snapshotHits()
	for pt, n := range hits {
		res.Count("hook_hits."+pt, n)
	}
	res.Count("parks", int64(sc.ctl.everParked()))

	sc.w.mu.Lock()
	calls := append([]callRec(nil), sc.w.calls...)
	limCalls := sc.w.limCalls
	sc.w.mu.Unlock()
	res.Count("upstream_calls", int64(len(calls)))
	res.Count("limiter_calls", int64(limCalls))
	own := map[int]map[string]int{}
	byKey := map[string]int{}
	for _, c := range calls {
		if own[c.pid] == nil {
			own[c.pid] = map[string]int{}
		}
		own[c.pid][c.ukey]++
		byKey[c.ukey]++
	}

	describe := func(p *participant) map[string]any {
		d := map[string]any{"name": p.name, "spec": p.spec, "cancel_issued": p.cancelIssued.Load(), "deduplicated": p.dedup, "bytes": clip(p.out)}
		if p.err != nil {
			d["err"] = p.err.Error()
		}
		if p.ctxErrAtReturn != nil {
			d["own_ctx_err_at_return"] = p.ctxErrAtReturn.Error()
		}
		if p.subErr != nil {
			d["subgraph_errors"] = clip([]byte(p.subErr.Error()))
		}
		if p.panicMsg != "" {
			d["panic"] = p.panicMsg
		}
		if p.cancelIssued.Load() {
			d["cancelled_at"] = p.cancelledAt()
			d["own_ctx_error_answered_in"] = sc.w.ctxErrorAt(p.id)
		}
		if p.wfault != wfNone {
			d["own_writer_fault"] = wfNames[p.wfault]
			d["own_writer_faults_injected"] = p.wFaults
		}
		return d
	}
	all := func() []map[string]any {
		var l []map[string]any
		for _, p := range sc.parts {
			if p.started {
				l = append(l, describe(p))
			}
		}
		return l
	}
	witness := func(p *participant, extra map[string]any) map[string]any {
		d := map[string]any{"scenario": sc.label, "participant": describe(p), "participants": all(), "trace": sig, "rate_limiter": sc.limiter}
		if o := sc.soloRun(p.spec, nil); o.err != nil {
			d["solo_err"] = o.err.Error()
		} else {
			d["solo_bytes"] = clip(o.bytes)
		}
		for k, v := range extra {
			d[k] = v
		}
		return d
	}

	events := sc.ctl.snapshotEvents()
	lead := computeLeaders(events)
	requests := map[string]int{}
	otherCancelled := func(p *participant) bool {
		for _, q := range sc.parts {
			if q != p && q.started && q.cancelIssued.Load() {
				return true
			}
		}
		return false
	}

	for _, p := range sc.parts {
		if !p.started {
			continue
		}
		res.Count("participants", 1)
		def := planDefs[p.spec.Plan]
		uks := p.spec.ukeys()
		for _, uk := range uks {
			requests[uk]++
		}
		if p.panicMsg != "" {
			layer := "other"
			switch {
			case strings.Contains(p.panicStack, "InboundRequestSingleFlight"):
				layer = "inbound"
			case strings.Contains(p.panicStack, "SubgraphRequestSingleFlight"):
				layer = "subgraph"
			}
			res.Count("outcome.panic", 1)
			st := p.panicStack
			if len(st) > 5000 {
				st = st[:5000] + "…"
			}
			sc.violate("panic", "a participant's call to ArenaResolveGraphQLResponse panicked: "+p.panicMsg,
				map[string]string{"panic": fw.PanicSignature(p.panicMsg, p.panicStack), "layer": layer},
				witness(p, map[string]any{"stack": st}))
			continue
		}
		solo := sc.soloRun(p.spec, nil)
		ownCancelled := p.ctxErrAtReturn != nil
		ok := false // outcome equals the solo outcome
		res.Count("writer_writes", int64(p.wWrites))
		res.Count("writer_flushes", int64(p.wFlushes))
		res.Count("writer_faults_injected", int64(p.wFaults))
		if p.wfault != wfNone {
			res.Count("participants_with_writer_fault."+wfNames[p.wfault], 1)
		}
		switch {
		case p.err != nil && writerErrOf(p.err) != nil:
			// a client connection failure: only the participant whose connection it is may see it
			if we := writerErrOf(p.err); we == p.werr && p.wFaults > 0 {
				res.Count("outcome.own_writer_error", 1)
			} else {
				role := "follower"
				if !p.dedup && own[p.id] != nil {
					role = "leader"
				}
				res.Count("outcome.foreign_writer_error", 1)
				sc.violate("foreign-writer-error", fmt.Sprintf("participant %s (own writer healthy or not yet used, own context live: %v) returned the write error of participant %d's client connection: %v", p.name, !ownCancelled, we.pid, p.err),
					map[string]string{"layer": "inbound", "role": role}, witness(p, map[string]any{"writer_error_belongs_to": sc.parts[we.pid%len(sc.parts)].name}))
			}
		case p.wFaults > 0 && p.err == nil:
			// its own writer failed and the resolver did not report it: nothing the statement speaks about
			res.Count("outcome.own_writer_fault_not_reported", 1)
		case p.err != nil && errors.Is(p.err, errLimiterDown):
			if solo.err != nil && errors.Is(solo.err, errLimiterDown) {
				ok = true
				res.Count("outcome.shared_upstream_failure_error", 1)
			} else {
				sc.violate("foreign-failure", "a participant got a failure of shared work that it would not have hit on its own", map[string]string{"form": "error"}, witness(p, nil))
			}
		case p.err != nil && isCtxErr(p.err):
			if ownCancelled {
				res.Count("outcome.own_cancel_error", 1)
			} else {
				res.Count("outcome.foreign_cancel", 1)
				m, extra := sc.cancelFacts(lead, events, p, map[string]string{"layer": "inbound", "form": "error"})
				sc.violate("foreign-cancel", fmt.Sprintf("participant %s returned %v although its own context is live (another participant was cancelled: %v)", p.name, p.err, otherCancelled(p)),
					m, witness(p, extra))
			}
		case p.err != nil:
			if ownCancelled {
				res.Count("outcome.own_cancel_other_error", 1)
			} else {
				sc.violate("unexpected-error", "a participant returned an error that is neither the upstream failure of its work nor a context error: "+p.err.Error(), nil, witness(p, nil))
			}
		case solo.err == nil && sameResponse(p.spec, p.out, solo.bytes):
			ok = true
			if p.spec.healthy() {
				res.Count("outcome.solo_bytes", 1)
			} else {
				res.Count("outcome.shared_upstream_failure_rendered", 1)
			}
		default:
			// bytes that differ from the solo bytes
			isCancelRendering := false
			for _, v := range sc.cancelVariants(p.spec) {
				if sameResponse(p.spec, v, p.out) {
					isCancelRendering = true
				}
			}
			switch {
			case isCancelRendering && ownCancelled:
				res.Count("outcome.own_cancel_rendered", 1)
			case isCancelRendering && otherCancelled(p):
				layer := "unknown"
				if p.dedup {
					layer = "inbound"
				} else if p.subErr != nil && isCtxErr(p.subErr) {
					layer = "subgraph"
				}
				res.Count("outcome.foreign_cancel", 1)
				m, extra := sc.cancelFacts(lead, events, p, map[string]string{"layer": layer, "form": "rendered"})
				sc.violate("foreign-cancel", fmt.Sprintf("participant %s (own context live) received the rendering of a fetch that failed with another participant's context error", p.name),
					m, witness(p, extra))
			default:
				kind, m, other := "data-mismatch", map[string]string{"deduplicated": fmt.Sprint(p.dedup)}, ""
				for _, q := range sc.parts {
					if q != p && q.spec != p.spec {
						if o := sc.soloRun(q.spec, nil); o.err == nil && sameResponse(q.spec, o.bytes, p.out) && !sameResponse(p.spec, o.bytes, solo.bytes) {
							kind = "cross-key-share"
							m["differs_in"] = specDiff(p.spec, q.spec)
							other = q.spec.String()
						}
					}
				}
				if ownCancelled {
					m["own_cancelled"] = "true"
				}
				sc.violate(kind, fmt.Sprintf("participant %s received bytes that are not its solo bytes", p.name), m, witness(p, map[string]any{"bytes_are_solo_bytes_of": other}))
			}
		}
		if p.dedup {
			res.Count("flights_shared_inbound", 1)
			if def.mutation {
				sc.violate("mutation-shared", "a mutation operation was answered from another request's result (inbound layer)", map[string]string{"layer": "inbound"}, witness(p, nil))
			}
			if def.kind != "" {
				sc.violate("shared-non-query", "an operation whose type is not query ("+def.kind+") was answered from another request's result (inbound layer)", map[string]string{"layer": "inbound", "operation_type": def.kind}, witness(p, nil))
			}
			// no mutation of the shared buffer after delivery
			for _, d := range p.deliveries {
				res.Count("follower_buffers_rehashed", 1)
				if xxhash.Sum64(d.ref) != d.sum {
					sc.violate("buffer-mutated-after-delivery", "the buffer handed to a follower's writer changed after delivery", map[string]string{"layer": "inbound"},
						witness(p, map[string]any{"now": clip(d.ref)}))
				}
			}
		}
		for _, s := range p.gotShared {
			res.Count("dedup_data_deliveries", 1)
			if s != "dd:"+p.spec.String() {
				sc.violate("cross-key-share", "a follower received the de-duplication data of a request with a different key", map[string]string{"form": "dedup-data"}, witness(p, map[string]any{"got": s}))
			}
		}
		// upstream call accounting per fetch of the participant's plan
		for i, f := range def.fetches {
			n := own[p.id][uks[i]]
			if f.kind != "" {
				// a fetch that is not a query: every live request makes its own upstream call
				if !p.cancelIssued.Load() && p.err == nil {
					res.Count("non_query_fetches_checked", 1)
					if n == 0 {
						sc.violate("shared-non-query", "a "+f.kind+" fetch of a live participant never reached the upstream (answered from another request's call)", map[string]string{"layer": "upstream-call", "operation_type": f.kind}, witness(p, nil))
					}
				}
				continue
			}
			if f.mutation {
				if !p.cancelIssued.Load() && p.err == nil {
					res.Count("mutation_fetches_checked", 1)
					if n == 0 {
						sc.violate("mutation-shared", "a mutation fetch of a live participant never reached the upstream (answered from another request's call)", map[string]string{"layer": "subgraph"}, witness(p, nil))
					} else if n > 1 {
						sc.violate("mutation-duplicated", fmt.Sprintf("the mutation fetch of one request reached the upstream %d times", n), nil, witness(p, nil))
					}
				}
				continue
			}
			if ok && n == 0 && solo.err == nil {
				// answered without an upstream call of its own: a follower on some layer
				if !p.dedup {
					res.Count("flights_shared_subgraph", 1)
				}
				if byKey[uks[i]] == 0 {
					sc.violate("cross-key-share", "a participant was answered without any upstream call for its key", map[string]string{"form": "no-upstream-call"}, witness(p, map[string]any{"ukey": uks[i]}))
				}
			}
		}
	}
	for uk, n := range byKey {
		if uk == "" {
			continue
		}
		if requests[uk] == 0 {
			sc.violate("unexpected-upstream-call", "an upstream call for a key no participant asked for", nil, map[string]any{"scenario": sc.label, "ukey": uk, "trace": sig})
		} else if n > requests[uk] {
			// not forbidden by the statement for queries (mutations are checked per participant above): evidence only
			res.Count("keys_with_more_calls_than_requests", 1)
		}
	}
	res.Count("distinct_upstream_keys", int64(len(byKey)))
	if sig != "" {
		res.Observe("interleavings", sc.label+": "+sig)
	}
}
