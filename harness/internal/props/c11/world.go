package c11

import (
	"context"
	"encoding/binary"
	"encoding/json"
	"errors"
	"fmt"
	"io"
	"net/http"
	"strings"
	"sync"
	"time"

	"github.com/cespare/xxhash/v2"
	"github.com/wundergraph/astjson"

	"github.com/wundergraph/graphql-go-tools/v2/pkg/ast"
	"github.com/wundergraph/graphql-go-tools/v2/pkg/engine/datasource/httpclient"
	"github.com/wundergraph/graphql-go-tools/v2/pkg/engine/resolve"
)

// ---------------------------------------------------------------------------------------------
// The fake upstream. Everything a participant can receive is a pure function of
// (datasource id, rendered fetch input, forwarded header value): the "solo bytes" of a request are
// therefore known by construction and do not depend on who else is in flight.

var (
	errUpstreamDown = errors.New("c11: upstream is down for this key")
	errLimiterDown  = errors.New("c11: rate limit backend is down for this key")
)

const tenantHeader = "X-Tenant"

type pidKey struct{}
type soloKey struct{}

// soloMode marks a reference ("alone") execution: no gate, no perturbation, not counted, and the
// datasources listed in failCancelled answer as a cancelled transport would.
type soloMode struct{ failCancelled map[string]bool }

func pidFrom(ctx context.Context) int {
	if v, ok := ctx.Value(pidKey{}).(int); ok {
		return v
	}
	return -1
}

// gate blocks callers while closed. It can be re-closed; callers already through stay through.
type gate struct {
	mu       sync.Mutex
	open     bool
	ch       chan struct{}
	waiting  int // currently blocked
	arrivals int // total arrivals while closed or open
}

func newGate(open bool) *gate { return &gate{open: open, ch: make(chan struct{})} }

func (g *gate) wait(ctx context.Context) error {
	g.mu.Lock()
	g.arrivals++
	if g.open {
		g.mu.Unlock()
		return nil
	}
	ch := g.ch
	g.waiting++
	g.mu.Unlock()
	var err error
	select {
	case <-ch:
	case <-ctx.Done():
		err = ctx.Err()
	}
	g.mu.Lock()
	g.waiting--
	g.mu.Unlock()
	return err
}

func (g *gate) setOpen(open bool) {
	g.mu.Lock()
	defer g.mu.Unlock()
	if open == g.open {
		return
	}
	g.open = open
	if open {
		close(g.ch)
	} else {
		g.ch = make(chan struct{})
	}
}

func (g *gate) blocked() int {
	g.mu.Lock()
	defer g.mu.Unlock()
	return g.waiting
}

type callRec struct {
	pid  int
	ds   string
	ukey string
}

type world struct {
	mu         sync.Mutex
	calls      []callRec
	callsByKey map[string]int
	limCalls   int
	// per participant: how many of its limiter / upstream calls are in progress right now, and in
	// which of the two instruments one of its calls was answered with ITS context error
	inLim    map[int]int
	inLoad   map[int]int
	ctxErrAt map[int]map[string]bool

	dsGate  *gate           // gates Load of the datasources listed in gatedDS
	limGate *gate           // gates the rate limiter
	gatedDS map[string]bool // datasource ids subject to dsGate

	// stress mode: seeded micro delay inside Load; onLoad lets a participant be cancelled exactly
	// when its own upstream call starts.
	loadDelay func(pid int) time.Duration
	onLoad    func(pid int)

	ds      map[string]*fakeDS
	limiter *fakeLimiter
}

func newWorld() *world {
	w := &world{inLim: map[int]int{}, inLoad: map[int]int{}, ctxErrAt: map[int]map[string]bool{}, callsByKey: map[string]int{}, dsGate: newGate(true), limGate: newGate(true), gatedDS: map[string]bool{"S": true, "S2": true, "M": true}, ds: map[string]*fakeDS{}}
	for _, id := range []string{"S", "S2", "T", "M"} {
		w.ds[id] = &fakeDS{w: w, id: id}
	}
	w.limiter = &fakeLimiter{w: w}
	return w
}

const (
	stageLimiter = "rate-limit-prefetch"
	stageFetch   = "subgraph-fetch"
	stageNone    = "before-any-fetch"
)

func (w *world) enter(m map[int]int, pid int) {
	w.mu.Lock()
	m[pid]++
	w.mu.Unlock()
}

// leave ends one in-progress call of pid; err is what the instrument answers.
func (w *world) leave(m map[int]int, pid int, stage string, err error) {
	w.mu.Lock()
	m[pid]--
	if err != nil && (errors.Is(err, context.Canceled) || errors.Is(err, context.DeadlineExceeded)) {
		if w.ctxErrAt[pid] == nil {
			w.ctxErrAt[pid] = map[string]bool{}
		}
		w.ctxErrAt[pid][stage] = true
	}
	w.mu.Unlock()
}

// whereIs: the instrument one of pid's calls is inside right now ("" if none).
func (w *world) whereIs(pid int) string {
	w.mu.Lock()
	defer w.mu.Unlock()
	switch {
	case w.inLim[pid] > 0:
		return stageLimiter
	case w.inLoad[pid] > 0:
		return stageFetch
	}
	return ""
}

// ctxErrorAt: the instrument that answered pid with pid's own context error. A limiter error
// aborts the whole operation, so it takes precedence; stageNone: no instrument ever did, i.e. the
// participant's work never got as far as failing in a fetch.
func (w *world) ctxErrorAt(pid int) string {
	w.mu.Lock()
	defer w.mu.Unlock()
	switch {
	case w.ctxErrAt[pid][stageLimiter]:
		return stageLimiter
	case w.ctxErrAt[pid][stageFetch]:
		return stageFetch
	}
	return stageNone
}

func upKey(ds string, input []byte, hv string) string {
	return ds + "\x1f" + string(input) + "\x1f" + hv
}

type fetchInput struct {
	Q string `json:"q"`
	V string `json:"v"`
}

// payload is the static upstream datum of one key.
func payload(ds, v, hv string) string {
	pad := int(xxhash.Sum64String(ds+"/"+v+"/"+hv) % 97)
	return ds + "|" + v + "|" + hv + "|" + strings.Repeat("z", pad)
}

type fakeDS struct {
	w  *world
	id string
}

func (d *fakeDS) Load(ctx context.Context, headers http.Header, input []byte) (out []byte, err error) {
	if _, solo := ctx.Value(soloKey{}).(*soloMode); !solo {
		pid := pidFrom(ctx)
		d.w.enter(d.w.inLoad, pid)
		defer func() { d.w.leave(d.w.inLoad, pid, stageFetch, err) }()
	}
	hv := headers.Get(tenantHeader)
	var in fetchInput
	if err := json.Unmarshal(input, &in); err != nil {
		return nil, fmt.Errorf("c11: fake upstream cannot read its input %q: %w", input, err)
	}
	if sm, ok := ctx.Value(soloKey{}).(*soloMode); ok {
		if sm.failCancelled[d.id] {
			return nil, context.Canceled
		}
		return d.respond(in, hv)
	}
	pid := pidFrom(ctx)
	d.w.mu.Lock()
	d.w.calls = append(d.w.calls, callRec{pid: pid, ds: d.id, ukey: upKey(d.id, input, hv)})
	d.w.callsByKey[upKey(d.id, input, hv)]++
	onLoad, loadDelay := d.w.onLoad, d.w.loadDelay
	d.w.mu.Unlock()
	if onLoad != nil {
		onLoad(pid)
	}
	if d.w.gatedDS[d.id] {
		if err := d.w.dsGate.wait(ctx); err != nil {
			return nil, err
		}
	}
	if loadDelay != nil {
		if dl := loadDelay(pid); dl > 0 {
			t := time.NewTimer(dl)
			select {
			case <-t.C:
			case <-ctx.Done():
				t.Stop()
				return nil, ctx.Err()
			}
		}
	}
	// like an HTTP transport: a request whose context ended fails with the context's error
	if err := ctx.Err(); err != nil {
		return nil, err
	}
	return d.respond(in, hv)
}

func (d *fakeDS) respond(in fetchInput, hv string) ([]byte, error) {
	if strings.HasPrefix(in.V, "boom") {
		return nil, errUpstreamDown
	}
	// freshly allocated on every call, never touched again by the upstream
	return []byte(`{"data":{"` + in.Q + `":"` + payload(d.id, in.V, hv) + `"}}`), nil
}

func (d *fakeDS) LoadWithFiles(ctx context.Context, headers http.Header, input []byte, files []*httpclient.FileUpload) ([]byte, error) {
	return d.Load(ctx, headers, input)
}

// fakeLimiter stands for a rate limiter with a remote backend: it blocks on its gate with the
// request's context, fails for keys whose variable starts with "lim" (a failure every request
// with that key hits, alone or not) and fails with the caller's context error when that ends.
type fakeLimiter struct{ w *world }

func (l *fakeLimiter) RateLimitPreFetch(ctx *resolve.Context, info *resolve.FetchInfo, input json.RawMessage) (deny *resolve.RateLimitDeny, err error) {
	var in fetchInput
	_ = json.Unmarshal(input, &in)
	c := ctx.Context()
	if _, ok := c.Value(soloKey{}).(*soloMode); !ok {
		pid := pidFrom(c)
		l.w.enter(l.w.inLim, pid)
		defer func() { l.w.leave(l.w.inLim, pid, stageLimiter, err) }()
		l.w.mu.Lock()
		l.w.limCalls++
		l.w.mu.Unlock()
		if err := l.w.limGate.wait(c); err != nil {
			return nil, err
		}
		if err := c.Err(); err != nil {
			return nil, err
		}
	}
	if strings.HasPrefix(in.V, "lim") {
		return nil, errLimiterDown
	}
	return nil, nil
}

func (l *fakeLimiter) RenderResponseExtension(ctx *resolve.Context, out io.Writer) error { return nil }

// hdrBuilder forwards one header value to every subgraph; the hashes are functions of the value.
type hdrBuilder struct{ val string }

func (h *hdrBuilder) HeadersForSubgraph(name string) (http.Header, uint64) {
	return http.Header{tenantHeader: []string{h.val}}, xxhash.Sum64String("hdr/" + name + "/" + h.val)
}
func (h *hdrBuilder) HashAll() uint64 { return xxhash.Sum64String("all/" + h.val) }

// ---------------------------------------------------------------------------------------------
// Hand-built plans. Every plan is one client operation (its own Request.ID); several of them
// contain the byte-identical fetch "S".

type fetchDef struct {
	ds       string // datasource id == name
	q        string // root field
	mutation bool
	kind     string // "": query (or mutation when mutation is set); "subscription"; "unknown"
}

type planDef struct {
	name     string
	reqID    uint64
	mutation bool
	kind     string // "": query (or mutation when mutation is set); "subscription"; "unknown"
	parallel bool
	fetches  []fetchDef
	fields   [][2]string // response name, upstream field
}

var planDefs = map[string]planDef{
	"A": {name: "A", reqID: 1001, fetches: []fetchDef{{ds: "S", q: "s"}}, fields: [][2]string{{"s", "s"}}},
	"B": {name: "B", reqID: 1002, parallel: true, fetches: []fetchDef{{ds: "S", q: "s"}, {ds: "T", q: "t"}}, fields: [][2]string{{"s", "s"}, {"t", "t"}}},
	"C": {name: "C", reqID: 1003, fetches: []fetchDef{{ds: "S2", q: "s"}}, fields: [][2]string{{"s", "s"}}},
	"D": {name: "D", reqID: 1004, fetches: []fetchDef{{ds: "S", q: "s"}}, fields: [][2]string{{"renamed", "s"}}},
	"E": {name: "E", reqID: 1005, fetches: []fetchDef{{ds: "T", q: "t"}, {ds: "S", q: "s"}}, fields: [][2]string{{"t", "t"}, {"s", "s"}}},
	"M": {name: "M", reqID: 1006, mutation: true, fetches: []fetchDef{{ds: "M", q: "m", mutation: true}}, fields: [][2]string{{"m", "m"}}},
	// operations that are neither query nor mutation (Info.OperationType subscription / unknown, the
	// zero value); their fetch carries the same type. Never eligible for any sharing.
	"SUB": {name: "SUB", reqID: 1008, kind: "subscription", fetches: []fetchDef{{ds: "S", q: "s", kind: "subscription"}}, fields: [][2]string{{"s", "s"}}},
	"UNK": {name: "UNK", reqID: 1009, kind: "unknown", fetches: []fetchDef{{ds: "S", q: "s", kind: "unknown"}}, fields: [][2]string{{"s", "s"}}},
	"MQ":  {name: "MQ", reqID: 1007, mutation: true, fetches: []fetchDef{{ds: "M", q: "m", mutation: true}, {ds: "S", q: "s"}}, fields: [][2]string{{"m", "m"}, {"s", "s"}}},
}

type plan struct {
	def  planDef
	resp *resolve.GraphQLResponse
}

func fetchInputBytes(q, v string) []byte { return []byte(`{"q":"` + q + `","v":"` + v + `"}`) }

func (w *world) buildPlan(def planDef) *plan {
	var nodes []*resolve.FetchTreeNode
	for i, f := range def.fetches {
		ot := ast.OperationTypeQuery
		if f.mutation {
			ot = ast.OperationTypeMutation
		}
		switch f.kind {
		case "subscription":
			ot = ast.OperationTypeSubscription
		case "unknown":
			ot = ast.OperationTypeUnknown
		}
		sf := &resolve.SingleFetch{
			FetchConfiguration: resolve.FetchConfiguration{
				DataSource:     w.ds[f.ds],
				PostProcessing: resolve.PostProcessingConfiguration{SelectResponseDataPath: []string{"data"}},
			},
			FetchDependencies: resolve.FetchDependencies{FetchID: i},
			InputTemplate: resolve.InputTemplate{Segments: []resolve.TemplateSegment{
				{SegmentType: resolve.StaticSegmentType, Data: []byte(`{"q":"` + f.q + `","v":"`)},
				{SegmentType: resolve.VariableSegmentType, VariableKind: resolve.ContextVariableKind, VariableSourcePath: []string{"v"}, Renderer: resolve.NewPlainVariableRenderer()},
				{SegmentType: resolve.StaticSegmentType, Data: []byte(`"}`)},
			}},
			Info: &resolve.FetchInfo{DataSourceID: f.ds, DataSourceName: f.ds, OperationType: ot, RootFields: []resolve.GraphCoordinate{{TypeName: "Query", FieldName: f.q}}},
		}
		nodes = append(nodes, resolve.Single(sf))
	}
	var tree *resolve.FetchTreeNode
	switch {
	case len(nodes) == 1:
		tree = nodes[0]
	case def.parallel:
		tree = resolve.Parallel(nodes...)
	default:
		tree = resolve.Sequence(nodes...)
	}
	obj := &resolve.Object{}
	for _, f := range def.fields {
		obj.Fields = append(obj.Fields, &resolve.Field{Name: []byte(f[0]), Value: &resolve.String{Path: []string{f[1]}, Nullable: true}})
	}
	ot := ast.OperationTypeQuery
	if def.mutation {
		ot = ast.OperationTypeMutation
	}
	switch def.kind {
	case "subscription":
		ot = ast.OperationTypeSubscription
	case "unknown":
		ot = ast.OperationTypeUnknown
	}
	return &plan{def: def, resp: &resolve.GraphQLResponse{Info: &resolve.GraphQLResponseInfo{OperationType: ot}, Fetches: tree, Data: obj}}
}

// reqSpec identifies one client request; two requests are "the same work" iff their specs are equal.
type reqSpec struct {
	Plan string `json:"plan"`
	V    string `json:"v"`
	Hdr  string `json:"hdr,omitempty"`
}

func (s reqSpec) String() string { return s.Plan + "(v=" + s.V + ",hdr=" + s.Hdr + ")" }

func (s reqSpec) variablesJSON() []byte { return []byte(`{"v":"` + s.V + `"}`) }

// ukeys: the upstream keys this request needs, per fetch of its plan.
func (s reqSpec) ukeys() []string {
	def := planDefs[s.Plan]
	out := make([]string, len(def.fetches))
	for i, f := range def.fetches {
		out[i] = upKey(f.ds, fetchInputBytes(f.q, s.V), s.Hdr)
	}
	return out
}

// expectedBytes: the response of a healthy upstream, by construction (no engine involved).
func (s reqSpec) expectedBytes() []byte {
	def := planDefs[s.Plan]
	var sb strings.Builder
	sb.WriteString(`{"data":{`)
	for i, f := range def.fields {
		if i > 0 {
			sb.WriteByte(',')
		}
		ds := ""
		for _, fd := range def.fetches {
			if fd.q == f[1] {
				ds = fd.ds
			}
		}
		sb.WriteString(`"` + f[0] + `":"` + payload(ds, s.V, s.Hdr) + `"`)
	}
	sb.WriteString(`}}`)
	return []byte(sb.String())
}

func (s reqSpec) healthy() bool {
	return !strings.HasPrefix(s.V, "boom") && !strings.HasPrefix(s.V, "lim")
}

// newResolveContext builds the per-request context the way a router would: the operation id, the
// variables with their hash, the forwarded headers with their hashes.
func newResolveContext(ctx context.Context, s reqSpec, w *world, limiter bool) *resolve.Context {
	rc := resolve.NewContext(ctx)
	rc.Request.ID = planDefs[s.Plan].reqID
	vj := s.variablesJSON()
	rc.Variables = astjson.MustParseBytes(vj)
	rc.VariablesHash = xxhash.Sum64(vj)
	if s.Hdr != "" {
		rc.SubgraphHeadersBuilder = &hdrBuilder{val: s.Hdr}
	}
	if limiter {
		rc.RateLimitOptions.Enable = true
		rc.SetRateLimiter(w.limiter)
	}
	return rc
}

// sfKeyFor recomputes the subgraph single-flight key of a fetch (datasource id ":" input, plus the
// header hash when present). It is used only to aim the yield controller at the shared fetch; if
// it were wrong the point would never be reached and the scenario would be inconclusive.
func sfKeyFor(ds string, input []byte, hdr string) int64 {
	h := xxhash.New()
	_, _ = h.WriteString(ds)
	_, _ = h.WriteString(":")
	_, _ = h.Write(input)
	if hdr != "" {
		_, extra := (&hdrBuilder{val: hdr}).HeadersForSubgraph(ds)
		if extra != 0 {
			var b [8]byte
			binary.LittleEndian.PutUint64(b[:], extra)
			_, _ = h.Write(b[:])
		}
	}
	return int64(h.Sum64())
}
