package c11

import (
	"fmt"
	"math/rand/v2"
	"strings"
	"time"

	"verifharness/internal/fw"
)

// runStressRound: 8–64 goroutines on 1–3 hot keys, mixing equal and different variables, headers,
// operations (same fetch in another operation, other datasource), mutations, deterministic
// upstream failures and cancellations; seeded micro delays at every C11 yield point and in the
// upstream. All gates are open; the same oracle as for the scripted scenarios judges the round.
func runStressRound(res *fw.Result, rng *rand.Rand, label string) *scenario {
	limiter := rng.IntN(4) == 0
	maxConc := []int{1, 2, 4, 64, 1024}[rng.IntN(5)]
	sc := newScenario(res, label, limiter, maxConc)
	sc.ctl.perturb = true
	sc.noInbound = rng.IntN(3) == 0
	if sc.noInbound {
		res.Count("stress_rounds_subgraph_only", 1)
	}
	sc.ctl.seed = rng.Uint64()
	delaySeed := rng.Uint64()
	maxDelay := []uint64{1, 50, 300}[rng.IntN(3)]
	sc.w.loadDelay = func(pid int) time.Duration {
		return time.Duration(splitmix(delaySeed^uint64(pid+7))%maxDelay) * time.Microsecond
	}

	n := 8 + rng.IntN(57)
	K := 1 + rng.IntN(3)
	hot := make([]reqSpec, K)
	for i := range hot {
		v := pickV(rng)
		switch r := rng.IntN(100); {
		case r < 12:
			v = "boom" + v
		case r < 30 && limiter:
			v = "lim" + v
		}
		hot[i] = reqSpec{Plan: []string{"A", "A", "A", "B", "D", "E"}[rng.IntN(6)], V: v, Hdr: pickHdr(rng)}
	}
	cancelAtLoad := map[int]bool{}
	type timed struct {
		p *participant
		d time.Duration
	}
	var timers []timed
	barrier := make(chan struct{})
	for i := 0; i < n; i++ {
		spec := hot[rng.IntN(K)]
		switch r := rng.IntN(100); {
		case r < 60:
		case r < 70: // different variables
			spec.V += "x"
		case r < 78: // different forwarded header
			spec.Hdr = map[string]string{"": "t1", "t1": "t2", "t2": ""}[spec.Hdr]
		case r < 86: // another operation with the identical fetch
			spec.Plan = sPlans[rng.IntN(len(sPlans))]
		case r < 90: // same rendered input, other datasource
			spec.Plan = "C"
		case r < 96:
			spec.Plan = "M"
			spec.V = strings.TrimPrefix(spec.V, "lim")
		default:
			spec.Plan = "MQ"
			spec.V = strings.TrimPrefix(spec.V, "lim")
		}
		p := sc.add(fmt.Sprintf("P%d", i), spec)
		if rng.IntN(100) < 8 { // its own client connection fails when written to
			p.wfault = 1 + rng.IntN(3)
		}
		switch r := rng.IntN(100); {
		case r < 68:
		case r < 74: // before it starts
			sc.doCancel(p, "")
		case r < 84: // exactly when its own upstream call begins
			cancelAtLoad[p.id] = true
		case r < 93: // timed
			timers = append(timers, timed{p, time.Duration(rng.IntN(400)) * time.Microsecond})
		default: // at the n-th arrival at one of the yield points, whoever arrives
			pt := c11Points[rng.IntN(len(c11Points))]
			sc.ctl.at(pt, int64(1+rng.IntN(6)), func() {
				sc.doCancel(p, "")
			})
		}
	}
	parts := sc.parts
	sc.w.onLoad = func(pid int) {
		if pid >= 0 && pid < len(parts) && cancelAtLoad[pid] {
			sc.doCancel(parts[pid], "")
		}
	}
	sc.run(func() {
		for _, p := range parts {
			p.started = true
			go sc.runParticipant(p, barrier)
		}
		for _, t := range timers {
			t := t
			go func() {
				<-barrier
				time.Sleep(t.d)
				sc.doCancel(t.p, "")
			}()
		}
		close(barrier)
	})
	return sc
}
