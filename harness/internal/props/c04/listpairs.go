package c04

import (
	"fmt"
	"strings"

	"github.com/wundergraph/graphql-go-tools/execution/graphql"

	"verifharness/internal/fw"
	"verifharness/internal/rig"
)

// requestAdmit: the admission sequence of package execution/graphql driven by hand with its
// default options — Request.Normalize (extracts variables, inlines spreads, removes fragment
// definitions and unused variables), then Request.ValidateForSchema.
func requestAdmit(schema *graphql.Schema, query, opName string, vars []byte) (bool, string) {
	req := &graphql.Request{Query: query, OperationName: opName, Variables: vars}
	nres, err := req.Normalize(schema)
	if err != nil {
		return false, "normalize: " + err.Error()
	}
	if !nres.Successful {
		return false, "normalize: " + nres.Errors.Error()
	}
	vres, err := req.ValidateForSchema(schema)
	if err != nil {
		return false, "validate: " + err.Error()
	}
	if !vres.Valid {
		return false, "validate: " + vres.Errors.Error()
	}
	return true, ""
}

// Directed family "listpair" (same space as C03's family of that name, judged here for ADMISSION):
// the same literal at two / three argument positions whose types share the named type but differ
// in list depth and in the nullability of the list and of its items (T, T!, [T], [T]!, [T!], [T!]!,
// [[T]] … [[T!]!]!), every ordered pair of shapes. Each operation is valid by construction (the
// literal is legal at every position it is written at, checked by a small coercibility predicate
// and cross-checked with gqlparser); the engine has to admit it. Variable extraction re-uses one
// extracted variable for identical literals — legal only where the variable's type is allowed at
// both positions — so a too liberal re-use makes the (correct) validator refuse a valid operation.
// Enumerated exhaustively in both tiers at indexes appended after the generated cases.

type lpShape struct {
	depth int
	nn    [3]bool // nn[0] = outermost wrapper … nn[depth] = named type
}

func (s lpShape) String(named string) string {
	out := named
	if s.nn[s.depth] {
		out += "!"
	}
	for d := s.depth - 1; d >= 0; d-- {
		out = "[" + out + "]"
		if s.nn[d] {
			out += "!"
		}
	}
	return out
}

func lpAllShapes() []lpShape {
	var out []lpShape
	for depth := 0; depth <= 2; depth++ {
		for bits := 0; bits < 1<<(depth+1); bits++ {
			s := lpShape{depth: depth}
			for i := 0; i <= depth; i++ {
				s.nn[i] = bits&(1<<i) != 0
			}
			out = append(out, s)
		}
	}
	return out
}

var lpShapes = lpAllShapes() // 2 + 4 + 8 = 14

type lpNamed struct {
	name string
	leaf string // a literal of the named type
}

var lpNameds = []lpNamed{
	{"String", `"x"`},
	{"Int", `1`},
	{"ID", `"id1"`},
	{"Color", `RED`},
	{"Inp", `{a: 1}`},
	{"Any", `"x"`},
}

const lpTypesSDL = `
enum Color { RED GREEN }
scalar Any
input Inp { a: Int, b: [String!], c: Int = 5 }
`

// lpLit is a literal: null, the leaf, or a list of literals.
type lpLit struct {
	null  bool
	leaf  bool
	items []*lpLit
}

func (l *lpLit) render(leaf string) string {
	switch {
	case l.null:
		return "null"
	case l.leaf:
		return leaf
	}
	parts := make([]string, len(l.items))
	for i, it := range l.items {
		parts[i] = it.render(leaf)
	}
	return "[" + strings.Join(parts, ", ") + "]"
}

// lpLegal: the literal is coercible to the shape from wrapper level lvl on (spec: null only where
// nullable; a non-list value at a list type is coerced as the single item).
func lpLegal(l *lpLit, s lpShape, lvl int) bool {
	if l.null {
		return !s.nn[lvl]
	}
	if lvl == s.depth {
		return l.leaf
	}
	if l.leaf {
		return lpLegal(l, s, lvl+1)
	}
	for _, it := range l.items {
		if !lpLegal(it, s, lvl+1) {
			return false
		}
	}
	return true
}

func lpLiterals() []*lpLit {
	null := &lpLit{null: true}
	b := &lpLit{leaf: true}
	list := func(items ...*lpLit) *lpLit { return &lpLit{items: items} }
	return []*lpLit{
		b,
		null,
		list(),
		list(b),
		list(null),
		list(b, null),
		list(b, b),
		list(list()),
		list(list(b)),
		list(list(null)),
		list(list(b), null),
		list(list(b, null)),
		list(list(b), b),
	}
}

var lpLits = lpLiterals()

func numListPairCases() int { return len(lpNameds) * len(lpShapes) * len(lpShapes) }

func (p c04) runListPair(k int) fw.Result {
	nS := len(lpShapes)
	named := lpNameds[k/(nS*nS)]
	a := lpShapes[(k/nS)%nS]
	b := lpShapes[k%nS]
	ta, tb := a.String(named.name), b.String(named.name)
	res := fw.Result{Key: fw.HashKey("listpair", named.name, ta, tb)}
	sdl := lpTypesSDL + fmt.Sprintf("type Query {\n  p(arg: %s): String\n  q(arg: %s): String\n  r(arg: %s): String\n}\n", ta, tb, ta)
	res.Sample = map[string]any{"listpair": named.name, "first": ta, "second": tb}
	ss, err := rig.LoadSchemas(sdl)
	if err != nil {
		res.Broken("listpair schema: "+err.Error(), map[string]any{"sdl": sdl})
		return res
	}
	eng, err := rig.NewAdmissionEngine(ss.Repo)
	if err != nil {
		res.Broken("engine construction: "+err.Error(), map[string]any{"sdl": sdl})
		return res
	}
	defer eng.Close()
	seen := map[string]bool{}
	for _, l := range lpLits {
		if !lpLegal(l, a, 0) || !lpLegal(l, b, 0) {
			continue
		}
		lit := l.render(named.leaf)
		if seen[lit] {
			continue
		}
		seen[lit] = true
		type lpOp struct{ form, name, text string }
		ops := []lpOp{
			{"two-positions", "Q", fmt.Sprintf("query Q { x: p(arg: %s) y: q(arg: %s) }", lit, lit)},
			// the literal a third time at a position of the first type, after the second
			{"three-positions", "", fmt.Sprintf("{ x: p(arg: %s) y: q(arg: %s) z: r(arg: %s) }", lit, lit, lit)},
			// the second position inside a fragment the operation reaches
			{"second-in-fragment", "Q", fmt.Sprintf("query Q { x: p(arg: %s) ...F } fragment F on Query { y: q(arg: %s) }", lit, lit)},
		}
		for _, op := range ops {
			if op.form == "three-positions" && ta == tb {
				continue
			}
			detail := map[string]any{"family": "listpair", "form": op.form, "sdl": sdl, "operation": op.text, "operationName": op.name, "variables": "{}", "first_type": ta, "second_type": tb, "literal": lit}
			fw.SetContext(detail)
			if _, gerrs := ss.LoadQuery(op.text); gerrs != nil {
				// the construction says valid, gqlparser does not agree: not judged
				res.Count("listpair_oracle_disagreement", 1)
				continue
			}
			res.Count("listpair_operations_judged", 1)
			if ta != tb {
				res.Count("listpair_operations_with_different_types", 1)
			}
			res.Nontrivial = true
			res.Keys = append(res.Keys, fw.HashKey("listpair", ta, tb, op.form, lit))
			// Three admission sequences are JUDGED here. The engine validates before it extracts
			// variables; the two documented hand sequences (execution/graphql Request.Normalize with
			// its default options, then ValidateForSchema; the README tutorial) extract first and
			// validate the extracted form. The reasons why the README sequence is only observed on the
			// generated cases (no unused-variable removal, no variable-value validation, literal values
			// invisible after extraction) cannot apply to these operations: no variables, no
			// directives, and valid — so each sequence has to accept.
			// The operation declares no variables and the request carries none: every refusal, at
			// whatever stage, is a refusal of the valid operation itself.
			refused := false
			for _, seq := range []string{"engine", "request", "tutorial"} {
				var ok bool
				var msg string
				switch seq {
				case "engine":
					ad := eng.Admit(op.text, op.name, []byte("{}"))
					ok, msg = ad.Stage == "", ad.Err
				case "request":
					ok, msg = requestAdmit(ss.Repo, op.text, op.name, []byte("{}"))
				case "tutorial":
					ok, _, msg = tutorialAdmit(ss.Repo, op.text, op.name, []byte("{}"))
				}
				if ok {
					res.Count("listpair_"+seq+"_admitted_valid", 1)
					continue
				}
				refused = true
				what := map[string]string{"engine": "ExecutionEngine.Execute", "request": "Request.Normalize + Request.ValidateForSchema (default options)", "tutorial": "the README sequence (normalise with variable extraction, then validate)"}[seq]
				res.Violate("rejects-valid", what+" refuses a valid operation: "+msg, map[string]string{"sequence": seq, "family": "listpair", "error_class": classifyRefusal(msg), "operation_kind": "query", "multi_operation": "false", "nullability_only_conflict": fmt.Sprint(nullabilityOnlyConflict(msg)), "spread_directive_without_inline_fragment_location": "false", "same_literal_at_differently_wrapped_positions": fmt.Sprint(ta != tb)}, detail)
			}
			if refused {
				// one witness per case is enough
				return res
			}
		}
	}
	return res
}
