// Package c04: the documented admission sequence (normalise, then validate the normalised
// operation) accepts exactly the spec-valid operations.
package c04

import (
	"encoding/json"
	"fmt"
	"regexp"
	"strings"

	"github.com/wundergraph/graphql-go-tools/execution/graphql"
	"github.com/wundergraph/graphql-go-tools/v2/pkg/ast"
	"github.com/wundergraph/graphql-go-tools/v2/pkg/astnormalization"
	"github.com/wundergraph/graphql-go-tools/v2/pkg/astparser"
	"github.com/wundergraph/graphql-go-tools/v2/pkg/astvalidation"
	"github.com/wundergraph/graphql-go-tools/v2/pkg/operationreport"

	"verifharness/internal/fw"
	"verifharness/internal/gen"
	"verifharness/internal/ref"
	"verifharness/internal/rig"
)

type c04 struct{ fw.Base }

func init() { fw.Register(c04{}) }

func (c04) ID() string { return "C04" }

// numGenerated: the generated cases come first; directed families are appended after them so that
// the index -> case mapping of the generated cases (which the pinned witnesses of the known
// findings refer to) never moves.
func numGenerated(tier string) int {
	if tier == fw.Thorough {
		return 50000
	}
	return 3000
}
func (c04) NumCases(tier string) int { return numGenerated(tier) + numListPairCases() }
func (c04) Rule() string {
	return "case = generated schema × one valid-by-construction operation (self-checked with gqlparser, variables coercible by the reference coercer) + up to 4 copies of it carrying exactly one rule-targeted mutation (" + fmt.Sprint(len(gen.MutationOperators)) + " operators, one per spec rule, rotated over case indexes so every operator is applied; sites: root / nested / inside fragments / under removed selections). Ground truth: valid by construction resp. invalid by design, judged only when gqlparser's validator agrees (disagreement = inconclusive, counted per operator). Two admission sequences: ExecutionEngine.Execute (real engine, observed at the request-option boundary) and the README tutorial (NewWithOpts(ExtractVariables, InlineFragmentSpreads, RemoveFragmentDefinitions, RemoveNotMatchingOperationDefinitions).NormalizeNamedOperation, then DefaultOperationValidator().Validate). Non-trivial = at least one mutant judged; distinct by hash of (schema, operation, mutants). Every generated case additionally carries " + fmt.Sprint(typeDirDraws) + " mutants of the operator " + gen.OperatorUndefinedDirectiveNamedLikeType + " (own PRNG stream: `@<TypeName>` without arguments, TypeName = a type of the schema incl. built-in scalars that is no directive, at a drawn location: field / inline fragment / fragment spread / fragment definition / operation; sites that survive normalisation preferred). Appended after the generated cases: the directed family listpair, " + fmt.Sprint(numListPairCases()) + " cases in both tiers = 6 named types × every ordered pair of the 14 list/non-null shapes of depth ≤ 2; each literal legal at both positions gives up to three valid operations (same literal at two positions, at three, second position inside a fragment) that all three admission sequences must admit (these operations have neither variables nor directives, so the README sequence and Request.Normalize + Request.ValidateForSchema — which validate AFTER variable extraction, unlike the engine — are judged on them, not only observed)."
}
func (c04) Assumptions() []string {
	return []string{"gqlparser's validator (graphql-js port) is correct where it agrees with the construction", "a refusal of a valid operation whose message is a variables-validation message belongs to C06 and is only counted here", "default validator options", "the README tutorial sequence is observed (counters) but not judged: it contains neither unused-variable removal nor variable-value validation, so by construction it refuses valid operations whose variables are only used in evaluated @skip/@include and cannot see literal values after extraction; the judged sequence is ExecutionEngine.Execute"}
}
func (c04) RequiredCounters(string) []string {
	return []string{"valid_judged", "mutants_judged", "engine_refused_invalid", "engine_admitted_valid", "tutorial_refused_invalid", "typedir_mutants_judged", "typedir_mutants_visible_to_validator", "typedir_engine_refused_invalid", "listpair_operations_judged", "listpair_operations_with_different_types", "listpair_engine_admitted_valid", "listpair_request_admitted_valid", "listpair_tutorial_admitted_valid"}
}

func varsJSON(vals map[string]*gen.Val) []byte {
	m := map[string]any{}
	for k, v := range vals {
		x, _ := v.JSON(nil)
		m[k] = x
	}
	b, _ := json.Marshal(m)
	return b
}

// tutorialAdmit replays the README sequence.
func tutorialAdmit(schema *graphql.Schema, query, opName string, vars []byte) (accepted bool, stage, msg string) {
	var report operationreport.Report
	doc := ast.NewSmallDocument()
	doc.Input.ResetInputString(query)
	astparser.NewParser().Parse(doc, &report)
	if report.HasErrors() {
		return false, "parse", report.Error()
	}
	doc.Input.Variables = append([]byte(nil), vars...)
	normalizer := astnormalization.NewWithOpts(
		astnormalization.WithExtractVariables(),
		astnormalization.WithInlineFragmentSpreads(),
		astnormalization.WithRemoveFragmentDefinitions(),
		astnormalization.WithRemoveNotMatchingOperationDefinitions(),
	)
	normalizer.NormalizeNamedOperation(doc, schema.Document(), []byte(opName), &report)
	if report.HasErrors() {
		return false, "normalize", report.Error()
	}
	astvalidation.DefaultOperationValidator().Validate(doc, schema.Document(), &report)
	if report.HasErrors() {
		return false, "validate", report.Error()
	}
	return true, "", ""
}

var reVarValidation = regexp.MustCompile(`Variable "\$[^"]*" (got invalid value|of required type|of non-null type)`)

var reConflictTypes = regexp.MustCompile(`conflicting types ["']([^"']+)["'] and ["']([^"']+)["']`)

func nullabilityOnlyConflict(msg string) bool {
	ms := reConflictTypes.FindAllStringSubmatch(msg, -1)
	if len(ms) == 0 {
		return false
	}
	for _, m := range ms {
		if strings.ReplaceAll(m[1], "!", "") != strings.ReplaceAll(m[2], "!", "") {
			return false
		}
	}
	return true
}

func classifyRefusal(msg string) string {
	switch {
	case reVarValidation.MatchString(msg):
		return "variables-validation"
	case strings.Contains(msg, "Int cannot represent non 32-bit"):
		return "int-range"
	case strings.Contains(msg, "not allowed on node of kind: INLINE_FRAGMENT"):
		return "directive-location-inline-fragment"
	case strings.Contains(msg, "conflict"):
		return "field-merge-conflict"
	case strings.Contains(msg, "oneOf") || strings.Contains(msg, "OneOf"):
		return "oneof"
	case strings.Contains(msg, "not defined") || strings.Contains(msg, "not used") || strings.Contains(msg, "unused"):
		return "variable-definition-use"
	case strings.Contains(msg, "cannot be spread") || strings.Contains(msg, "fragment"):
		return "fragment"
	case strings.Contains(msg, "expected type") || strings.Contains(msg, "Expected type") || strings.Contains(msg, "cannot represent") || strings.Contains(msg, "is not a valid") || strings.Contains(msg, "invalid value"):
		return "value-coercion"
	case strings.Contains(msg, "internal:"):
		return "internal-error"
	}
	return "other"
}

// typeDirDraws: mutants of the operator undefined-directive-named-like-a-type per generated case.
const typeDirDraws = 2

func (p c04) Run(c *fw.Ctx, idx int) fw.Result {
	if k := idx - numGenerated(c.Tier); k >= 0 {
		return p.runListPair(k)
	}
	res := fw.Result{}
	r := c.Rng(idx, "c04")
	sp := gen.DefaultProfile(r)
	sp.Keywords = idx%5 == 0
	sp.Subscription = idx%6 == 0
	sp.ExecDirectives = idx%2 == 1
	schema := gen.GenSchema(r, sp)
	sdl := schema.SDL()
	ss, err := rig.LoadSchemas(sdl)
	if err != nil {
		res.Broken("schema self-check: "+err.Error(), map[string]any{"sdl": sdl})
		return res
	}
	op := gen.DefaultOpProfile(r)
	op.MultiOps = idx%7 == 0
	op.NoSingletonVars = idx%2 == 0
	op.MultiFrag = idx%3 != 0
	op.CustomDirs = true
	if idx%4 == 1 {
		op.VarBias = 7
	}
	switch {
	case schema.Subscription != "" && idx%12 == 0:
		op.Kind = "subscription"
	case schema.Mutation != "" && idx%11 == 0:
		op.Kind = "mutation"
	}
	doc, vals := gen.GenOperation(r, schema, op)
	opName := "Main"
	if !op.MultiOps {
		doc.Ops[0].Name = "Q"
		opName = "Q"
	}
	text := doc.String()
	vars := varsJSON(vals)
	detail := func(extra map[string]any) map[string]any {
		m := map[string]any{"sdl": sdl, "operation": text, "operationName": opName, "variables": string(vars)}
		for k, v := range extra {
			m[k] = v
		}
		return m
	}
	// self-check of the valid document
	qd, gerrs := ss.LoadQuery(text)
	if gerrs != nil {
		res.Broken("operation self-check (gqlparser rejects a valid-by-construction operation): "+gerrs.Error(), detail(nil))
		return res
	}
	gop := rig.PickOperation(qd, opName)
	vm, _ := ref.DecodeJSON(vars)
	vmm, _ := vm.(map[string]any)
	coercer := ref.Coercer{Schema: ss.Gql}
	coerced, cerr := coercer.CoerceVariableValues(gop, vmm)
	if cerr != nil {
		res.Broken("variables self-check (not coercible for the reference coercer): "+cerr.Error(), detail(nil))
		return res
	}
	eng, err := rig.NewAdmissionEngine(ss.Repo)
	if err != nil {
		res.Broken("engine construction: "+err.Error(), detail(nil))
		return res
	}
	defer eng.Close()

	fw.SetContext(detail(nil))
	// ---- the valid operation must be admitted by both sequences
	res.Count("valid_judged", 1)
	a := eng.Admit(text, opName, vars)
	if a.Stage != "" {
		cls := classifyRefusal(a.Err)
		if cls == "variables-validation" {
			res.Count("valid_refused_by_variables_validation", 1)
		} else {
			res.Violate("rejects-valid", "ExecutionEngine.Execute refuses a valid operation: "+a.Err, map[string]string{"sequence": "engine", "error_class": cls, "operation_kind": doc.Ops[0].Kind, "multi_operation": fmt.Sprint(op.MultiOps), "nullability_only_conflict": fmt.Sprint(nullabilityOnlyConflict(a.Err)), "spread_directive_without_inline_fragment_location": fmt.Sprint(gen.SpreadDirectiveNotForInline(schema, doc))}, detail(nil))
		}
	} else {
		res.Count("engine_admitted_valid", 1)
	}
	if ok, _, msg := tutorialAdmit(ss.Repo, text, opName, vars); !ok {
		res.Count("tutorial_refused_valid", 1)
		res.Count("tutorial_refused_valid_"+classifyRefusal(msg), 1)
	} else {
		res.Count("tutorial_admitted_valid", 1)
	}

	// ---- mutants
	var mutTexts []string
	nOps := len(gen.MutationOperators)
	for k := 0; k < 4; k++ {
		operator := gen.MutationOperators[(idx*4+k)%nOps]
		md, m, ok := gen.Mutate(r, schema, doc, opName, coerced, operator)
		if !ok {
			res.Count("mutation_not_applicable", 1)
			continue
		}
		mtext := md.String()
		mutTexts = append(mutTexts, mtext)
		mdetail := func() map[string]any {
			return detail(map[string]any{"mutant": mtext, "operator": m.Operator, "designed_to_break": m.Rule, "site": m.Site, "erased_by_normalisation": m.UnderRemoved})
		}
		fw.SetContext(mdetail())
		// cross-check with gqlparser
		_, gerrs := ss.LoadQuery(mtext)
		if gerrs != nil && strings.Contains(gerrs.Error(), rig.GqlparserPanic) {
			res.Count("oracle_unavailable_gqlparser_panic", 1)
			continue
		}
		if gerrs == nil {
			res.Count("oracle_disagreement", 1)
			res.Count("oracle_disagreement_"+operator, 1)
			continue
		}
		res.Count("mutants_judged", 1)
		res.Count("judged_"+operator, 1)
		res.Observe("operators_judged", operator)
		res.Observe("sites", m.Site)
		if m.UnderRemoved {
			res.Count("mutants_erased_by_normalisation", 1)
		}
		match := func(seq string) map[string]string {
			return map[string]string{"sequence": seq, "operator": m.Operator, "rule": m.Rule, "erased_by_normalisation": fmt.Sprint(m.UnderRemoved)}
		}
		ma := eng.Admit(mtext, opName, vars)
		if ma.Stage == "" {
			res.Violate("accepts-invalid", "ExecutionEngine.Execute admits an operation that violates "+m.Rule+" ("+m.Operator+")", match("engine"), mdetail())
		} else {
			res.Count("engine_refused_invalid", 1)
		}
		// the README sequence is observed, not judged (see Assumptions)
		if ok, _, _ := tutorialAdmit(ss.Repo, mtext, opName, vars); ok {
			res.Count("tutorial_admitted_invalid", 1)
			res.Count("tutorial_admitted_invalid_"+operator, 1)
		} else {
			res.Count("tutorial_refused_invalid", 1)
		}
	}
	// ---- history independence of a re-used normaliser + validator instance (routers pool them):
	// the valid operation, its mutants and the valid operation again on ONE instance must each come
	// out exactly as on a fresh instance (verdict, printed operation, variables). No ground truth needed.
	{
		history := append(append([]string{text}, mutTexts...), text)
		shared := rig.NewPipeline()
		prev := "nothing"
		for i, q := range history {
			fresh := rig.NewPipeline().Run(ss.Repo, q, opName, vars)
			reused := shared.Run(ss.Repo, q, opName, vars)
			res.Count("reused_pipeline_documents_compared", 1)
			what := ""
			switch {
			case fresh.Verdict() != reused.Verdict():
				what = "verdict"
			case fresh.Printed != reused.Printed:
				what = "print"
			case fresh.Variables != reused.Variables:
				what = "variables"
			}
			if what != "" {
				res.Violate("history-dependent", "a re-used normaliser/validator instance answers differently from a fresh one ("+what+"): "+reused.Verdict()+" vs fresh "+fresh.Verdict(), map[string]string{"sequence": "reused-pipeline", "what": what}, detail(map[string]any{"document": q, "position_in_history": i, "processed_before": prev, "fresh": fresh, "reused": reused}))
				break
			}
			prev = q
		}
	}
	// ---- an undefined directive whose name is the name of a TYPE of the schema (types and directives
	// live in one name index of the schema document). Own PRNG stream, after everything else, so
	// that the generated case and its rotated mutants are what they were before this sub-check existed.
	var typeDirTexts []string
	{
		tr := c.Rng(idx, "c04-typedir")
		for k := 0; k < typeDirDraws; k++ {
			md, m, ok := gen.MutateUndefinedDirectiveNamedLikeType(tr, schema, doc, opName, coerced)
			if !ok {
				res.Count("typedir_not_applicable", 1)
				continue
			}
			mtext := md.String()
			typeDirTexts = append(typeDirTexts, mtext)
			// the engine's normalisation inlines every fragment spread and then deletes ALL fragment
			// definitions: what is written on a definition itself (its directives) never reaches the
			// validator, exactly like a construct under a removed selection (cf. duplicate-directive in gen)
			erased := m.UnderRemoved || m.Site == "fragment-definition"
			mdetail := detail(map[string]any{"mutant": mtext, "operator": m.Operator, "designed_to_break": m.Rule, "site": m.Site, "erased_by_normalisation": erased})
			fw.SetContext(mdetail)
			_, gerrs := ss.LoadQuery(mtext)
			if gerrs != nil && strings.Contains(gerrs.Error(), rig.GqlparserPanic) {
				res.Count("oracle_unavailable_gqlparser_panic", 1)
				continue
			}
			if gerrs == nil || !strings.Contains(gerrs.Error(), "Unknown directive") {
				res.Count("oracle_disagreement", 1)
				res.Count("oracle_disagreement_"+m.Operator, 1)
				continue
			}
			res.Count("typedir_mutants_judged", 1)
			res.Count("typedir_judged_at_"+m.Site, 1)
			res.Observe("typedir_sites", m.Site)
			if erased {
				res.Count("typedir_mutants_erased_by_normalisation", 1)
			} else {
				res.Count("typedir_mutants_visible_to_validator", 1)
			}
			if ma := eng.Admit(mtext, opName, vars); ma.Stage == "" {
				res.Violate("accepts-invalid", "ExecutionEngine.Execute admits an operation that violates "+m.Rule+" ("+m.Operator+")", map[string]string{"sequence": "engine", "operator": m.Operator, "rule": m.Rule, "erased_by_normalisation": fmt.Sprint(erased), "directive_location": m.Site}, mdetail)
			} else {
				res.Count("typedir_engine_refused_invalid", 1)
			}
			// the README sequence is observed only (first draw; see Assumptions)
			if k == 0 {
				if ok, _, _ := tutorialAdmit(ss.Repo, mtext, opName, vars); ok {
					res.Count("typedir_tutorial_admitted_invalid", 1)
				} else {
					res.Count("typedir_tutorial_refused_invalid", 1)
				}
			}
		}
	}
	res.Key = fw.HashKey(sdl, text, mutTexts)
	res.Nontrivial = len(mutTexts) > 0
	res.Sample = map[string]any{"operation": text, "variables": string(vars), "mutants": mutTexts, "undefined_directive_named_like_a_type": typeDirTexts}
	return res
}
