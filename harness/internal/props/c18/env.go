package c18

import (
	"context"
	"encoding/json"
	"errors"
	"fmt"
	"net"
	"net/http"
	"runtime"
	"strings"
	"sync"
	"sync/atomic"
	"time"

	client "github.com/wundergraph/graphql-go-tools/v2/pkg/engine/datasource/graphql_datasource/subscriptionclient"
	"github.com/wundergraph/graphql-go-tools/v2/pkg/engine/datasource/graphql_datasource/subscriptionclient/transport"
)

// watchdog for every single wait of a scenario. Generous: its firing never becomes a verdict.
const stepWatchdog = 15 * time.Second

// watchdog for the final cleanup wait (idle periods used are <= 80 ms).
const quiescenceWatchdog = 8 * time.Second

// tuple is one option tuple (what the connection key is computed from).
type tuple struct {
	Name      string            `json:"name"`
	Transport string            `json:"transport"` // ws | sse
	Proto     string            `json:"proto,omitempty"`
	Path      string            `json:"path"`
	Headers   map[string]string `json:"headers,omitempty"`
	Init      map[string]any    `json:"init,omitempty"`
	Method    string            `json:"method,omitempty"`
	// multi-valued headers: name exactly as spelled in Options.Headers (any case) -> values in order
	HeaderValues map[string][]string `json:"header_values,omitempty"`
}

func (t *tuple) options(u *upstream) client.Options {
	o := client.Options{}
	if len(t.Headers) > 0 || len(t.HeaderValues) > 0 {
		o.Headers = http.Header{}
		for k, v := range t.Headers {
			o.Headers.Set(k, v)
		}
		for k, vs := range t.HeaderValues {
			// the map key is used as spelled: the client hashes and sends what it was given
			o.Headers[k] = append([]string(nil), vs...)
		}
	}
	if t.Transport == "sse" {
		o.Transport = client.TransportSSE
		o.Endpoint = u.httpURL(t.Path)
		o.SSEMethod = client.SSEMethod(t.Method)
		return o
	}
	o.Transport = client.TransportWS
	o.Endpoint = u.wsURL(t.Path)
	o.WSSubprotocol = client.WSSubprotocol(t.Proto)
	if t.Init != nil {
		o.InitPayload = t.Init
	}
	return o
}

// what the server must have seen on a connection that carries a subscription of this tuple
func (t *tuple) expectHeaders() string {
	h := http.Header{}
	for k, v := range t.Headers {
		h.Set(k, v)
	}
	for k, vs := range t.HeaderValues {
		// what an HTTP server sees: canonical name, every value, in order
		for _, v := range vs {
			h.Add(k, v)
		}
	}
	return canonHeaders(h)
}
func (t *tuple) expectOffered() string {
	return strings.Join(client.WSSubprotocol(t.Proto).Subprotocols(), ",")
}
func (t *tuple) expectInit() string {
	if len(t.Init) == 0 {
		return ""
	}
	b, _ := json.Marshal(t.Init)
	return canonJSON(b)
}

// identity of the tuple as the statement defines it (endpoint, protocol, headers, init payload)
func (t *tuple) identity() string {
	return fmt.Sprintf("%s|%s|%s|%s|%s|%s", t.Transport, t.Path, t.Proto, t.Method, t.expectHeaders(), t.expectInit())
}

// ---------------------------------------------------------------------------------------------

type cevent struct {
	T     string `json:"t"` // data | complete | error | connerr | unknown
	K     string `json:"k,omitempty"`
	Seq   int    `json:"seq"`
	Conn  int    `json:"conn,omitempty"`
	Err   string `json:"err,omitempty"`
	Clock int64  `json:"clock"`
	errv  error
}

type subscriber struct {
	e   *env
	idx int
	key string
	tup *tuple
	sc  script

	ctx       context.Context
	cancelCtx context.CancelFunc
	unsubOnce sync.Once

	// plan knobs read by the hook
	cancelAtHook bool
	hookDelay    time.Duration

	mu              sync.Mutex
	evs             []cevent
	called          bool
	returned        bool
	subErr          error
	unsub           func()
	cancelled       bool
	cancelPhase     string
	cancelClock     int64
	ctxLiveAtReturn bool
	leaves          bool   // its own context carries a deadline that ends during the run (it leaves without cancel())
	leavePhase      string // phase label of that departure
	faulted         bool   // the server dropped / silenced the connection carrying it
	sendFailed      int    // manual mode: the upstream could not send because the subscription's connection was gone
	hookHits        int
}

type env struct {
	tag   string
	up    *upstream
	cl    *client.Client
	stop  context.CancelFunc
	httpc *http.Client
	note  *notifier
	clock atomic.Int64

	mu           sync.Mutex
	subs         []*subscriber
	inconclusive string
	cancels      map[string]int // injected cancels per phase
	gids         sync.Map       // goroutine id -> *subscriber
	hookHits     atomic.Int64
	idle         time.Duration
	pingInterval time.Duration
	pingTimeout  time.Duration

	outlived        []deviation // set by awaitConnsGone when it convicts
	idleTicksWaited int64
}

type envCfg struct {
	idle         time.Duration
	pingInterval time.Duration
	pingTimeout  time.Duration
}

var (
	hookOnce sync.Once
	curEnv   atomic.Pointer[env]
)

func installHook() {
	hookOnce.Do(func() {
		transport.SetVerifYield(func(point, id string) {
			e := curEnv.Load()
			if e == nil {
				return
			}
			e.hookHits.Add(1)
			if v, ok := e.gids.Load(curGID()); ok {
				s := v.(*subscriber)
				s.mu.Lock()
				s.hookHits++
				s.mu.Unlock()
				if s.hookDelay > 0 {
					time.Sleep(s.hookDelay)
				} else {
					runtime.Gosched()
				}
				if s.cancelAtHook {
					// the subscriber's context is cancelled exactly between registering the handler
					// and the protocol write of the subscribe message
					s.markCancelled("subscribe.write")
					s.cancelCtx()
				}
			}
		})
	})
}

func curGID() uint64 {
	var buf [64]byte
	n := runtime.Stack(buf[:], false)
	s := buf[:n]
	const p = "goroutine "
	if len(s) < len(p) {
		return 0
	}
	s = s[len(p):]
	var id uint64
	for _, c := range s {
		if c < '0' || c > '9' {
			break
		}
		id = id*10 + uint64(c-'0')
	}
	return id
}

// parkedDialWaiters counts goroutines blocked in WSTransport.getOrDial's wait for a dial started
// by another subscriber (in the select, not in dial itself). Observation only (no hook needed).
func parkedDialWaiters() int {
	buf := make([]byte, 1<<20)
	n := runtime.Stack(buf, true)
	cnt := 0
	for _, blk := range strings.Split(string(buf[:n]), "\n\n") {
		if !strings.Contains(blk, "(*WSTransport).getOrDial") || strings.Contains(blk, "(*WSTransport).dial(") {
			continue
		}
		if i := strings.Index(blk, "\n"); i > 0 && strings.Contains(blk[:i], "[select") {
			cnt++
		}
	}
	return cnt
}

func newEnv(tag string, cfg envCfg) *env {
	installHook()
	e := &env{tag: tag, note: newNotifier(), cancels: map[string]int{}, idle: cfg.idle, pingInterval: cfg.pingInterval, pingTimeout: cfg.pingTimeout}
	e.up = newUpstream(e.note)
	e.httpc = &http.Client{Transport: &http.Transport{MaxIdleConnsPerHost: 4, DisableCompression: true}}
	ctx, cancel := context.WithCancel(context.Background())
	e.stop = cancel
	e.cl = client.New(ctx, client.Config{
		UpgradeClient:   e.httpc,
		StreamingClient: e.httpc,
		PingInterval:    cfg.pingInterval,
		PingTimeout:     cfg.pingTimeout,
		AckTimeout:      60 * time.Second,
		WriteTimeout:    30 * time.Second,
		WSIdleTimeout:   cfg.idle,
	})
	curEnv.Store(e)
	return e
}

func (e *env) close() {
	curEnv.CompareAndSwap(e, nil)
	e.mu.Lock()
	subs := append([]*subscriber(nil), e.subs...)
	e.mu.Unlock()
	for _, s := range subs {
		s.cancelCtx()
	}
	e.stop()
	e.up.shutdown()
	e.httpc.CloseIdleConnections()
}

func (e *env) fail(class, what string) {
	e.mu.Lock()
	if e.inconclusive == "" {
		e.inconclusive = class + ": " + what
	}
	e.mu.Unlock()
}

func (e *env) failed() bool {
	e.mu.Lock()
	defer e.mu.Unlock()
	return e.inconclusive != ""
}

// wait blocks until cond holds; a watchdog firing makes the run inconclusive.
func (e *env) wait(what string, cond func() bool) bool {
	if e.failed() {
		return false
	}
	if e.note.until(stepWatchdog, cond) {
		return true
	}
	e.fail("watchdog", what)
	return false
}

func (e *env) newSub(key string, tup *tuple, sc script) *subscriber {
	ctx, cancel := context.WithCancel(context.Background())
	s := &subscriber{e: e, key: key, tup: tup, sc: sc, ctx: ctx, cancelCtx: cancel}
	e.up.setScript(key, sc)
	e.mu.Lock()
	s.idx = len(e.subs)
	e.subs = append(e.subs, s)
	e.mu.Unlock()
	return s
}

func (s *subscriber) handler(m *client.Message) {
	ev := cevent{Clock: s.e.clock.Add(1)}
	if m == nil {
		ev.T = "unknown"
	} else {
		switch m.Type {
		case client.MessageTypeData:
			ev.T = "data"
			ev.Seq = -1
			if m.Payload != nil {
				var d struct {
					K    string `json:"k"`
					Seq  *int   `json:"seq"`
					Conn int    `json:"conn"`
				}
				if json.Unmarshal(m.Payload.Data, &d) == nil {
					ev.K, ev.Conn = d.K, d.Conn
					if d.Seq != nil {
						ev.Seq = *d.Seq
					}
				}
				if ev.K == "" {
					ev.Err = "undecodable data payload: " + truncate(string(m.Payload.Data), 120)
				}
			}
		case client.MessageTypeComplete:
			ev.T = "complete"
		case client.MessageTypeError:
			ev.T = "error"
			if m.Payload != nil {
				if mm := regexpErrKey.FindStringSubmatch(string(m.Payload.Errors)); mm != nil {
					ev.K = mm[1]
				} else {
					ev.Err = "error payload without key: " + truncate(string(m.Payload.Errors), 120)
				}
			}
		case client.MessageTypeConnectionError:
			ev.T = "connerr"
			ev.errv = m.Err
			if m.Err != nil {
				ev.Err = truncate(m.Err.Error(), 300)
			}
		default:
			ev.T = "unknown"
		}
	}
	s.mu.Lock()
	s.evs = append(s.evs, ev)
	s.mu.Unlock()
	s.e.note.bump()
}

// start calls Client.Subscribe on a fresh goroutine. A subscriber whose context was cancelled
// while Subscribe was in flight calls the returned unsubscribe function as soon as it has it
// (this mirrors graphql_subscription_client.go: context.AfterFunc(ctx, cancel)).
func (s *subscriber) start() {
	s.mu.Lock()
	s.called = true
	s.mu.Unlock()
	s.e.clock.Add(1)
	go func() {
		gid := curGID()
		s.e.gids.Store(gid, s)
		opts := s.tup.options(s.e.up)
		req := &client.Request{Query: fmt.Sprintf(`subscription { ev(k: "%s") { seq } }`, s.key)}
		unsub, err := s.e.cl.Subscribe(s.ctx, req, opts, s.handler)
		s.e.gids.Delete(gid)
		s.mu.Lock()
		s.returned = true
		s.subErr = err
		s.unsub = unsub
		s.ctxLiveAtReturn = s.ctx.Err() == nil
		cancelled := s.cancelled
		s.mu.Unlock()
		s.e.clock.Add(1)
		if cancelled && unsub != nil {
			s.unsubOnce.Do(unsub)
		}
		s.e.note.bump()
	}()
}

func (s *subscriber) markCancelled(phase string) {
	s.mu.Lock()
	first := !s.cancelled
	if first {
		s.cancelled = true
		s.cancelPhase = phase
		s.cancelClock = s.e.clock.Add(1)
	}
	s.mu.Unlock()
	if !first {
		return
	}
	s.e.mu.Lock()
	s.e.cancels[phase]++
	s.e.mu.Unlock()
}

// leaveByDeadline gives the subscriber a context that ends by DEADLINE (context.WithTimeout) instead
// of by cancel(): ctx.Err() is context.DeadlineExceeded, errors produced on its behalf are timeouts.
// Must be called before start(). From now on the subscriber counts as one that goes away: like a
// cancelled one it is only required to have received a prefix. The caller watches ctx.Done() and
// then calls cancel(phase) (which, as graphql_subscription_client.go does through context.AfterFunc,
// calls the unsubscribe function if Subscribe had handed one out).
func (s *subscriber) leaveByDeadline(d time.Duration, phase string) {
	s.cancelCtx()
	s.ctx, s.cancelCtx = context.WithTimeout(context.Background(), d)
	s.mu.Lock()
	s.leaves = true
	s.leavePhase = phase
	s.mu.Unlock()
}

// ticks is a chain of consecutive runtime timers of one length: every time.AfterFunc(unit) arms the
// next one when it fires. It measures "n idle periods have passed" with the very facility the
// client's idle close uses (time.AfterFunc in the same process), so a starved process delays both
// alike; no wall-clock value is ever compared.
type ticks struct {
	unit    time.Duration
	n       atomic.Int64
	stopped atomic.Bool
	note    *notifier
}

func startTicks(unit time.Duration, note *notifier) *ticks {
	if unit <= 0 {
		unit = time.Millisecond
	}
	t := &ticks{unit: unit, note: note}
	t.arm()
	return t
}

func (t *ticks) arm() {
	time.AfterFunc(t.unit, func() {
		if t.stopped.Load() {
			return
		}
		t.n.Add(1)
		t.note.bump()
		t.arm()
	})
}

func (t *ticks) stop() { t.stopped.Store(true) }

// elapse lets n consecutive timers of the given length pass (bounded by the step watchdog).
func (e *env) elapse(unit time.Duration, n int, what string) bool {
	t := startTicks(unit, e.note)
	defer t.stop()
	return e.wait(what, func() bool { return t.n.Load() >= int64(n) })
}

// cancel is the subscriber going away: its context ends and, if Subscribe had already handed out
// the unsubscribe function, that is called (once).
func (s *subscriber) cancel(phase string) {
	s.markCancelled(phase)
	s.cancelCtx()
	s.mu.Lock()
	unsub := s.unsub
	s.mu.Unlock()
	if unsub != nil {
		s.unsubOnce.Do(unsub)
	}
	s.e.note.bump()
}

func (s *subscriber) isReturned() bool {
	s.mu.Lock()
	defer s.mu.Unlock()
	return s.returned
}

func (s *subscriber) subscribeErr() error {
	s.mu.Lock()
	defer s.mu.Unlock()
	return s.subErr
}

func (s *subscriber) isCancelled() bool {
	s.mu.Lock()
	defer s.mu.Unlock()
	return s.cancelled
}

func (s *subscriber) hasConnErr() bool {
	s.mu.Lock()
	defer s.mu.Unlock()
	for _, ev := range s.evs {
		if ev.T == "connerr" {
			return true
		}
	}
	return false
}

func (s *subscriber) setFaulted() {
	s.mu.Lock()
	s.faulted = true
	s.mu.Unlock()
}

func (s *subscriber) dataCount() int {
	s.mu.Lock()
	defer s.mu.Unlock()
	n := 0
	for _, ev := range s.evs {
		if ev.T == "data" {
			n++
		}
	}
	return n
}

func (s *subscriber) terminalCount() int {
	s.mu.Lock()
	defer s.mu.Unlock()
	n := 0
	for _, ev := range s.evs {
		if ev.T != "data" {
			n++
		}
	}
	return n
}

// settled: nothing more is expected for this subscriber, judged from events only:
// its Subscribe returned and either it failed, it was cancelled, a terminal event was delivered,
// or everything the server sent so far has been delivered.
func (s *subscriber) settled(expectData int) bool {
	s.mu.Lock()
	defer s.mu.Unlock()
	if !s.returned {
		return false
	}
	if s.subErr != nil || s.cancelled {
		return true
	}
	n, term := 0, false
	for _, ev := range s.evs {
		if ev.T == "data" {
			n++
		} else {
			term = true
		}
	}
	return term || n >= expectData
}

// errClass names an error by its identity (errors.Is), never by its text.
func errClass(err error) string {
	switch {
	case err == nil:
		return "nil"
	case errors.Is(err, context.Canceled):
		return "context-canceled"
	case errors.Is(err, context.DeadlineExceeded):
		return "deadline-exceeded"
	case errors.Is(err, client.ErrConnectionClosed):
		return "connection-closed"
	case errors.Is(err, client.ErrAckTimeout):
		return "ack-timeout"
	case errors.Is(err, client.ErrInitFailed):
		return "init-failed"
	case errors.Is(err, client.ErrDialFailed):
		return "dial-failed"
	case errors.Is(err, client.ErrClientClosed):
		return "client-closed"
	case errors.Is(err, net.ErrClosed):
		return "net-closed"
	}
	var fu client.ErrFailedUpgrade
	if errors.As(err, &fu) {
		return "failed-upgrade"
	}
	return "other"
}
