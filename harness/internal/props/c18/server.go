package c18

import (
	"context"
	"encoding/json"
	"fmt"
	"io"
	"net/http"
	"net/http/httptest"
	"regexp"
	"sort"
	"strings"
	"sync"
	"time"

	"github.com/coder/websocket"
)

// notifier is a broadcast "something changed" signal shared by the upstream server and the
// client-side recorders of one run.
type notifier struct {
	mu sync.Mutex
	ch chan struct{}
}

func newNotifier() *notifier { return &notifier{ch: make(chan struct{})} }

func (n *notifier) bump() {
	n.mu.Lock()
	close(n.ch)
	n.ch = make(chan struct{})
	n.mu.Unlock()
}

func (n *notifier) waitCh() <-chan struct{} {
	n.mu.Lock()
	defer n.mu.Unlock()
	return n.ch
}

// until waits (event driven, with a slow poll for conditions that do not bump) until cond holds.
// The watchdog only bounds the wait; its firing is reported by the caller as Inconclusive.
func (n *notifier) until(wd time.Duration, cond func() bool) bool {
	deadline := time.NewTimer(wd)
	defer deadline.Stop()
	tick := time.NewTicker(2 * time.Millisecond)
	defer tick.Stop()
	for {
		ch := n.waitCh()
		if cond() {
			return true
		}
		select {
		case <-ch:
		case <-tick.C:
		case <-deadline.C:
			return cond()
		}
	}
}

// ---------------------------------------------------------------------------------------------

// script is the per-subscription behaviour of the upstream in auto mode.
type script struct {
	N    int    // number of next messages
	Term string // "complete" | "error" | "open"
	Auto bool   // the server sends the script by itself when the subscribe arrives
}

type sentMsg struct {
	Kind string `json:"kind"` // next | complete | error
	Seq  int    `json:"seq"`
}

// srvSub is the upstream's view of one subscription (identified by the key embedded in the query).
type srvSub struct {
	Key    string
	WireID string
	conn   *srvConn
	sc     script

	// guarded by upstream.mu
	sent     []sentMsg
	stopped  bool   // the client sent complete/stop for the id, or its stream/connection went away
	termSent string // terminal the server sent
}

// srvConn is the upstream's record of one WebSocket connection or one SSE request.
type srvConn struct {
	ID         int
	Kind       string // ws | sse
	Method     string
	Path       string
	Offered    string // offered subprotocols, comma separated
	Negotiated string
	Headers    string // canonical X-Verif-* headers
	Init       string // canonical JSON of the connection_init payload ("" when absent)

	up *upstream
	ws *websocket.Conn
	w  http.ResponseWriter // sse

	wmu sync.Mutex // serialises writes on this connection together with the recording of what was sent

	// guarded by upstream.mu
	state      string // request | open | closed
	initSeen   bool
	acked      bool
	closedBy   string
	subs       []*srvSub
	silent     bool
	dropped    bool
	pings      int
	pongs      int
	maxPongLat time.Duration
	dropCh     chan struct{} // sse: closed to make the handler abort the stream
	sseDone    chan struct{} // sse: closed once the terminal event has been written
}

// connInfo is a serialisable snapshot of srvConn.
type connInfo struct {
	ID         int      `json:"id"`
	Kind       string   `json:"kind"`
	Method     string   `json:"method,omitempty"`
	Path       string   `json:"path"`
	Offered    string   `json:"offered,omitempty"`
	Negotiated string   `json:"negotiated,omitempty"`
	Headers    string   `json:"headers,omitempty"`
	Init       string   `json:"init,omitempty"`
	InitSeen   bool     `json:"init_seen,omitempty"`
	State      string   `json:"state"`
	Acked      bool     `json:"acked,omitempty"`
	ClosedBy   string   `json:"closed_by,omitempty"`
	Subs       []string `json:"subs,omitempty"`
	Pings      int      `json:"pings,omitempty"`
	Pongs      int      `json:"pongs,omitempty"`
	MaxPongLat string   `json:"max_pong_latency,omitempty"`
	liveSubs   []bool   // per Subs entry: neither stopped by the client nor ended by an upstream terminal
}

type upstream struct {
	srv    *httptest.Server
	ctx    context.Context
	cancel context.CancelFunc
	note   *notifier

	mu        sync.Mutex
	conns     []*srvConn
	subs      map[string]*srvSub
	scripts   map[string]script
	holdUp    chan struct{} // non-nil: requests arriving wait for it before the upgrade / the response headers
	holdAck   chan struct{} // non-nil: connection_ack is withheld until it is closed
	ackDelay  []time.Duration
	yieldy    bool          // auto senders yield between messages
	pongDelay time.Duration // pongs are written this long after the ping arrived (0 = at once)
	problems  []string
}

var keyRe = regexp.MustCompile(`k:\s*"([^"]+)"`)

func newUpstream(note *notifier) *upstream {
	ctx, cancel := context.WithCancel(context.Background())
	u := &upstream{ctx: ctx, cancel: cancel, note: note, subs: map[string]*srvSub{}, scripts: map[string]script{}}
	u.srv = httptest.NewUnstartedServer(http.HandlerFunc(u.serve))
	u.srv.Config.ErrorLog = nil
	u.srv.Start()
	return u
}

func (u *upstream) wsURL(path string) string {
	return "ws" + strings.TrimPrefix(u.srv.URL, "http") + path
}
func (u *upstream) httpURL(path string) string { return u.srv.URL + path }

func (u *upstream) problem(format string, a ...any) {
	u.mu.Lock()
	if len(u.problems) < 20 {
		u.problems = append(u.problems, fmt.Sprintf(format, a...))
	}
	u.mu.Unlock()
}

func (u *upstream) setScript(key string, sc script) {
	u.mu.Lock()
	u.scripts[key] = sc
	u.mu.Unlock()
}

func (u *upstream) armHoldUpgrade() {
	u.mu.Lock()
	u.holdUp = make(chan struct{})
	u.mu.Unlock()
}
func (u *upstream) releaseUpgrade() {
	u.mu.Lock()
	if u.holdUp != nil {
		select {
		case <-u.holdUp:
		default:
			close(u.holdUp)
		}
	}
	u.mu.Unlock()
}
func (u *upstream) armHoldAck() {
	u.mu.Lock()
	u.holdAck = make(chan struct{})
	u.mu.Unlock()
}
func (u *upstream) releaseAck() {
	u.mu.Lock()
	if u.holdAck != nil {
		select {
		case <-u.holdAck:
		default:
			close(u.holdAck)
		}
	}
	u.mu.Unlock()
}

func canonHeaders(h http.Header) string {
	var parts []string
	for k, v := range h {
		if strings.HasPrefix(k, "X-Verif-") {
			parts = append(parts, k+"="+strings.Join(v, ","))
		}
	}
	sort.Strings(parts)
	return strings.Join(parts, ";")
}

func canonJSON(raw []byte) string {
	if len(raw) == 0 {
		return ""
	}
	var v any
	if err := json.Unmarshal(raw, &v); err != nil {
		return "!" + string(raw)
	}
	if v == nil {
		return ""
	}
	if m, ok := v.(map[string]any); ok && len(m) == 0 {
		return ""
	}
	b, _ := json.Marshal(v) // map keys sorted
	return string(b)
}

func (u *upstream) newConn(kind string, r *http.Request) *srvConn {
	c := &srvConn{Kind: kind, Method: r.Method, Path: r.URL.Path, Headers: canonHeaders(r.Header), up: u, state: "request",
		Offered: strings.Join(splitTokens(r.Header.Values("Sec-WebSocket-Protocol")), ","), dropCh: make(chan struct{}), sseDone: make(chan struct{})}
	u.mu.Lock()
	c.ID = len(u.conns) + 1
	u.conns = append(u.conns, c)
	u.mu.Unlock()
	u.note.bump()
	return c
}

func splitTokens(vals []string) []string {
	var out []string
	for _, v := range vals {
		for _, t := range strings.Split(v, ",") {
			t = strings.TrimSpace(t)
			if t != "" {
				out = append(out, t)
			}
		}
	}
	return out
}

func (u *upstream) serve(w http.ResponseWriter, r *http.Request) {
	if strings.EqualFold(r.Header.Get("Upgrade"), "websocket") {
		u.serveWS(w, r)
		return
	}
	u.serveSSE(w, r)
}

func (u *upstream) closeConn(c *srvConn, by string) {
	u.mu.Lock()
	if c.state != "closed" {
		c.state = "closed"
		if c.closedBy == "" {
			c.closedBy = by
		}
		for _, s := range c.subs {
			s.stopped = true
		}
	}
	u.mu.Unlock()
	u.note.bump()
}

type wireMsg struct {
	ID      string          `json:"id,omitempty"`
	Type    string          `json:"type"`
	Payload json.RawMessage `json:"payload,omitempty"`
}

func (u *upstream) serveWS(w http.ResponseWriter, r *http.Request) {
	c := u.newConn("ws", r)
	u.mu.Lock()
	gate := u.holdUp
	u.mu.Unlock()
	if gate != nil {
		select {
		case <-gate:
		case <-u.ctx.Done():
			u.closeConn(c, "shutdown")
			return
		}
	}
	ws, err := websocket.Accept(w, r, &websocket.AcceptOptions{Subprotocols: []string{"graphql-transport-ws", "graphql-ws"}})
	if err != nil {
		u.closeConn(c, "upgrade-failed")
		return
	}
	u.mu.Lock()
	c.ws = ws
	c.Negotiated = ws.Subprotocol()
	c.state = "open"
	u.mu.Unlock()
	u.note.bump()
	defer ws.CloseNow()

	legacy := c.Negotiated == "graphql-ws"
	for {
		_, data, err := ws.Read(u.ctx)
		if err != nil {
			by := "client-abrupt"
			u.mu.Lock()
			dropped := c.dropped
			u.mu.Unlock()
			switch {
			case dropped:
				by = "server-drop"
			case u.ctx.Err() != nil:
				by = "shutdown"
			case websocket.CloseStatus(err) != -1:
				by = fmt.Sprintf("client-close-%d", int(websocket.CloseStatus(err)))
			}
			u.closeConn(c, by)
			return
		}
		var m wireMsg
		if err := json.Unmarshal(data, &m); err != nil {
			u.problem("conn %d: undecodable client message %q", c.ID, truncate(string(data), 200))
			continue
		}
		switch m.Type {
		case "connection_init":
			u.mu.Lock()
			if c.initSeen {
				u.problems = append(u.problems, fmt.Sprintf("conn %d: second connection_init", c.ID))
			}
			c.initSeen = true
			c.Init = canonJSON(m.Payload)
			ackGate := u.holdAck
			var delay time.Duration
			if c.ID-1 < len(u.ackDelay) {
				delay = u.ackDelay[c.ID-1]
			}
			u.mu.Unlock()
			u.note.bump()
			if ackGate != nil {
				select {
				case <-ackGate:
				case <-u.ctx.Done():
					u.closeConn(c, "shutdown")
					return
				}
			}
			if delay > 0 {
				time.Sleep(delay)
			}
			if c.write(wireMsg{Type: "connection_ack"}) == nil {
				u.mu.Lock()
				c.acked = true
				u.mu.Unlock()
				u.note.bump()
			}
		case "subscribe", "start":
			if (m.Type == "start") != legacy {
				u.problem("conn %d: %s on %s", c.ID, m.Type, c.Negotiated)
			}
			var p struct {
				Query string `json:"query"`
			}
			_ = json.Unmarshal(m.Payload, &p)
			u.registerSub(c, m.ID, p.Query)
		case "complete", "stop":
			u.mu.Lock()
			for _, s := range c.subs {
				if s.WireID == m.ID {
					s.stopped = true
				}
			}
			u.mu.Unlock()
			u.note.bump()
		case "ping":
			t0 := time.Now()
			u.mu.Lock()
			c.pings++
			silent := c.silent
			pongDelay := u.pongDelay
			u.mu.Unlock()
			pong := func() {
				if c.write(wireMsg{Type: "pong"}) == nil {
					lat := time.Since(t0)
					u.mu.Lock()
					c.pongs++
					if lat > c.maxPongLat {
						c.maxPongLat = lat
					}
					u.mu.Unlock()
					u.note.bump()
				}
			}
			switch {
			case silent:
			case pongDelay > 0:
				// answered late on purpose, without holding up the reading of the client's messages
				time.AfterFunc(pongDelay, pong)
			default:
				pong()
			}
		case "pong", "connection_terminate":
		default:
			u.problem("conn %d: unexpected client message type %q", c.ID, m.Type)
		}
	}
}

func (c *srvConn) write(m wireMsg) error {
	b, err := json.Marshal(m)
	if err != nil {
		return err
	}
	c.wmu.Lock()
	defer c.wmu.Unlock()
	return c.writeLocked(b)
}

func (c *srvConn) writeLocked(b []byte) error {
	if c.ws == nil {
		return fmt.Errorf("no websocket")
	}
	ctx, cancel := context.WithTimeout(c.up.ctx, 10*time.Second)
	defer cancel()
	return c.ws.Write(ctx, websocket.MessageText, b)
}

func (u *upstream) registerSub(c *srvConn, wireID, query string) *srvSub {
	key := ""
	if m := keyRe.FindStringSubmatch(query); m != nil {
		key = m[1]
	}
	if key == "" {
		u.problem("conn %d: subscribe without key: %q", c.ID, truncate(query, 200))
		return nil
	}
	u.mu.Lock()
	if _, dup := u.subs[key]; dup {
		u.problems = append(u.problems, fmt.Sprintf("conn %d: key %s subscribed twice", c.ID, key))
		u.mu.Unlock()
		return nil
	}
	for _, o := range c.subs {
		if o.WireID == wireID && c.Kind == "ws" {
			u.problems = append(u.problems, fmt.Sprintf("conn %d: wire id %s reused", c.ID, wireID))
		}
	}
	s := &srvSub{Key: key, WireID: wireID, conn: c, sc: u.scripts[key]}
	u.subs[key] = s
	c.subs = append(c.subs, s)
	yieldy := u.yieldy
	u.mu.Unlock()
	u.note.bump()
	if s.sc.Auto {
		go func() {
			for i := 0; i < s.sc.N; i++ {
				if !s.send("next") {
					return
				}
				if yieldy {
					time.Sleep(time.Duration(50+(i*37+len(key)*11)%200) * time.Microsecond)
				}
			}
			switch s.sc.Term {
			case "complete", "error":
				s.send(s.sc.Term)
			}
		}()
	}
	return s
}

// send writes the next message of the given kind for this subscription and records it; the
// record order per subscription equals the wire order because both happen under the connection's
// write mutex. Returns false when nothing was sent (stopped by the client, connection gone, or a
// terminal message was already sent).
func (s *srvSub) send(kind string) bool {
	c := s.conn
	u := c.up
	c.wmu.Lock()
	defer c.wmu.Unlock()
	u.mu.Lock()
	if s.stopped || s.termSent != "" || c.state != "open" {
		u.mu.Unlock()
		return false
	}
	seq := 0
	for _, m := range s.sent {
		if m.Kind == "next" {
			seq++
		}
	}
	// recorded before the write (a message can be delivered before Write returns); withdrawn if the
	// write fails
	s.sent = append(s.sent, sentMsg{Kind: kind, Seq: seq})
	if kind != "next" {
		s.termSent = kind
	}
	u.mu.Unlock()
	var err error
	if c.Kind == "ws" {
		legacy := c.Negotiated == "graphql-ws"
		var m wireMsg
		m.ID = s.WireID
		switch kind {
		case "next":
			m.Type = "next"
			if legacy {
				m.Type = "data"
			}
			m.Payload = json.RawMessage(fmt.Sprintf(`{"data":{"k":%q,"seq":%d,"conn":%d}}`, s.Key, seq, c.ID))
		case "complete":
			m.Type = "complete"
		case "error":
			m.Type = "error"
			if legacy {
				m.Payload = json.RawMessage(fmt.Sprintf(`{"message":"E:%s"}`, s.Key))
			} else {
				m.Payload = json.RawMessage(fmt.Sprintf(`[{"message":"E:%s"}]`, s.Key))
			}
		}
		b, _ := json.Marshal(m)
		err = c.writeLocked(b)
	} else {
		var ev string
		switch kind {
		case "next":
			ev = fmt.Sprintf("event: next\ndata: {\"data\":{\"k\":%q,\"seq\":%d,\"conn\":%d}}\n\n", s.Key, seq, c.ID)
		case "complete":
			ev = "event: complete\ndata: \n\n"
		case "error":
			ev = fmt.Sprintf("event: error\ndata: [{\"message\":\"E:%s\"}]\n\n", s.Key)
		}
		_, err = io.WriteString(c.w, ev)
		if err == nil {
			if f, ok := c.w.(http.Flusher); ok {
				f.Flush()
			}
		}
	}
	if err != nil {
		u.mu.Lock()
		s.sent = s.sent[:len(s.sent)-1]
		if kind != "next" {
			s.termSent = ""
		}
		u.mu.Unlock()
		return false
	}
	if kind != "next" && c.Kind == "sse" {
		close(c.sseDone)
	}
	u.note.bump()
	return true
}

func (u *upstream) serveSSE(w http.ResponseWriter, r *http.Request) {
	c := u.newConn("sse", r)
	query := ""
	switch r.Method {
	case http.MethodGet:
		query = r.URL.Query().Get("query")
	case http.MethodPost:
		body, _ := io.ReadAll(io.LimitReader(r.Body, 1<<20))
		var p struct {
			Query string `json:"query"`
		}
		_ = json.Unmarshal(body, &p)
		query = p.Query
	default:
		u.problem("sse request with method %s", r.Method)
	}
	if r.Header.Get("Accept") != "text/event-stream" {
		u.problem("sse request %d without Accept: text/event-stream", c.ID)
	}
	u.mu.Lock()
	gate := u.holdUp
	u.mu.Unlock()
	if gate != nil {
		select {
		case <-gate:
		case <-r.Context().Done():
			u.closeConn(c, "client-aborted-request")
			return
		case <-u.ctx.Done():
			u.closeConn(c, "shutdown")
			return
		}
	}
	c.wmu.Lock()
	c.w = w
	w.Header().Set("Content-Type", "text/event-stream")
	w.Header().Set("Cache-Control", "no-cache")
	w.WriteHeader(http.StatusOK)
	if f, ok := w.(http.Flusher); ok {
		f.Flush()
	}
	u.mu.Lock()
	c.state = "open"
	u.mu.Unlock()
	c.wmu.Unlock()
	u.note.bump()
	u.registerSub(c, fmt.Sprintf("sse-%d", c.ID), query)

	by := ""
	abort := false
	select {
	case <-r.Context().Done():
		by = "client-closed"
	case <-c.dropCh:
		by, abort = "server-drop", true
	case <-c.sseDone:
		by = "server-terminal"
	case <-u.ctx.Done():
		by = "shutdown"
	}
	// no write may happen after the handler returned
	c.wmu.Lock()
	u.closeConn(c, by)
	c.wmu.Unlock()
	if abort {
		panic(http.ErrAbortHandler)
	}
}

// drop closes the connection abruptly from the server side.
func (u *upstream) drop(c *srvConn) {
	u.mu.Lock()
	c.dropped = true
	ws := c.ws
	kind := c.Kind
	u.mu.Unlock()
	if kind == "ws" {
		if ws != nil {
			ws.CloseNow()
		}
		return
	}
	select {
	case <-c.dropCh:
	default:
		close(c.dropCh)
	}
}

func (u *upstream) silence(c *srvConn) {
	u.mu.Lock()
	c.silent = true
	u.mu.Unlock()
}

func (u *upstream) sub(key string) *srvSub {
	u.mu.Lock()
	defer u.mu.Unlock()
	return u.subs[key]
}

// sentFor returns a copy of what the server sent for the key.
func (u *upstream) sentFor(key string) (sent []sentMsg, stopped bool, conn *srvConn) {
	u.mu.Lock()
	defer u.mu.Unlock()
	s := u.subs[key]
	if s == nil {
		return nil, false, nil
	}
	return append([]sentMsg(nil), s.sent...), s.stopped, s.conn
}

func (u *upstream) openCount() int {
	u.mu.Lock()
	defer u.mu.Unlock()
	n := 0
	for _, c := range u.conns {
		if c.state == "open" {
			n++
		}
	}
	return n
}

// openWS: the WebSocket connections the upstream still holds open.
func (u *upstream) openWS() []connInfo {
	var out []connInfo
	for _, ci := range u.snapshot() {
		if ci.Kind == "ws" && ci.State == "open" {
			out = append(out, ci)
		}
	}
	return out
}

func (u *upstream) connCount() int {
	u.mu.Lock()
	defer u.mu.Unlock()
	return len(u.conns)
}

// stateOf reports the most advanced state of any live connection matching the predicate.
func (u *upstream) tupleState(match func(c *srvConn) bool) string {
	u.mu.Lock()
	defer u.mu.Unlock()
	best := "none"
	rank := map[string]int{"none": 0, "upgrading": 1, "initializing": 2, "ready": 3}
	for _, c := range u.conns {
		if c.state == "closed" || !match(c) {
			continue
		}
		st := "upgrading"
		if c.state == "open" {
			st = "initializing"
			if c.acked || c.Kind == "sse" {
				st = "ready"
			}
		}
		if rank[st] > rank[best] {
			best = st
		}
	}
	return best
}

func (u *upstream) snapshot() []connInfo {
	u.mu.Lock()
	defer u.mu.Unlock()
	out := make([]connInfo, 0, len(u.conns))
	for _, c := range u.conns {
		ci := connInfo{ID: c.ID, Kind: c.Kind, Path: c.Path, Offered: c.Offered, Negotiated: c.Negotiated, Headers: c.Headers, Init: c.Init,
			InitSeen: c.initSeen, State: c.state, Acked: c.acked, ClosedBy: c.closedBy, Pings: c.pings, Pongs: c.pongs}
		if c.Kind == "sse" {
			ci.Method = c.Method
		}
		if c.maxPongLat > 0 {
			ci.MaxPongLat = c.maxPongLat.String()
		}
		for _, s := range c.subs {
			ci.Subs = append(ci.Subs, s.Key)
			ci.liveSubs = append(ci.liveSubs, !s.stopped && s.termSent == "")
		}
		out = append(out, ci)
	}
	return out
}

func (u *upstream) connInfoOf(c *srvConn) connInfo {
	for _, ci := range u.snapshot() {
		if ci.ID == c.ID {
			return ci
		}
	}
	return connInfo{}
}

func (u *upstream) problemList() []string {
	u.mu.Lock()
	defer u.mu.Unlock()
	return append([]string(nil), u.problems...)
}

func (u *upstream) shutdown() {
	u.releaseUpgrade()
	u.releaseAck()
	u.cancel()
	u.mu.Lock()
	var wss []*websocket.Conn
	for _, c := range u.conns {
		if c.ws != nil {
			wss = append(wss, c.ws)
		}
	}
	u.mu.Unlock()
	for _, ws := range wss {
		ws.CloseNow()
	}
	u.srv.CloseClientConnections()
	u.srv.Close()
}

func truncate(s string, n int) string {
	if len(s) > n {
		return s[:n] + "…"
	}
	return s
}
