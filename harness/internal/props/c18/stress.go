package c18

import (
	"fmt"
	"math/rand/v2"
	"sync"
	"time"
)

// stress tier: 2–64 subscribers over 1–3 option tuples subscribe and cancel concurrently; the
// upstream delays connection_ack a little so that dial / init / subscribe windows are hit.

type stressSub struct {
	Tuple         int    `json:"tuple"`
	Script        script `json:"script"`
	StartDelayUs  int    `json:"start_delay_us"`
	Cancel        string `json:"cancel"` // none | early | hook | after-return | after-k
	CancelDelayUs int    `json:"cancel_delay_us,omitempty"`
	K             int    `json:"k,omitempty"`
	HookDelayUs   int    `json:"hook_delay_us,omitempty"`
	// early only: the subscriber does not call cancel() after CancelDelayUs, its context is a
	// context.WithTimeout(CancelDelayUs) (0 = already expired when it subscribes)
	ByDeadline bool `json:"by_deadline,omitempty"`
}

// markDeadlines turns a share of the early cancels into context deadlines. Drawn from its own
// random stream so that the rest of the generated case is unchanged.
func markDeadlines(p *stressParam, r *rand.Rand) {
	for i := range p.Subs {
		if p.Subs[i].Cancel == "early" && r.IntN(5) < 2 {
			p.Subs[i].ByDeadline = true
			if r.IntN(6) == 0 {
				p.Subs[i].CancelDelayUs = 0
			}
		}
	}
}

type stressParam struct {
	Tuples     []*tuple    `json:"tuples"`
	Subs       []stressSub `json:"subs"`
	AckDelayUs []int       `json:"ack_delay_us"`
	IdleMs     int         `json:"idle_ms"`
}

func genStress(r *rand.Rand) stressParam {
	var p stressParam
	nt := 1 + r.IntN(3)
	for i := 0; i < nt; i++ {
		var t *tuple
		if r.IntN(5) == 0 {
			m := []string{"GET", "POST"}[r.IntN(2)]
			t = sseTuple(fmt.Sprintf("sse-%s-%d", m, i), m, "/graphql")
		} else {
			proto := protoNames[r.IntN(3)]
			t = wsTuple(fmt.Sprintf("ws-%s-%d", protoLabel(proto), i), proto, "/graphql")
			if r.IntN(2) == 0 {
				t.Init = map[string]any{"token": fmt.Sprintf("tok%d", i)}
			}
		}
		t.Headers = map[string]string{"X-Verif-Tenant": fmt.Sprintf("t%d", i)}
		p.Tuples = append(p.Tuples, t)
	}
	var n int
	switch x := r.IntN(100); {
	case x < 50:
		n = 2 + r.IntN(11)
	case x < 85:
		n = 13 + r.IntN(20)
	default:
		n = 33 + r.IntN(32)
	}
	spread := []int{0, 300, 3000}[r.IntN(3)]
	for i := 0; i < n; i++ {
		s := stressSub{Tuple: r.IntN(nt), Script: autoScript(r)}
		if spread > 0 {
			s.StartDelayUs = r.IntN(spread)
		}
		switch x := r.IntN(100); {
		case x < 45:
			s.Cancel = "none"
		case x < 65:
			s.Cancel = "early"
			s.CancelDelayUs = r.IntN(2500)
		case x < 80:
			s.Cancel = "hook"
		case x < 90:
			s.Cancel = "after-return"
		default:
			s.Cancel = "after-k"
			s.K = r.IntN(s.Script.N + 1)
		}
		if r.IntN(4) == 0 {
			s.HookDelayUs = r.IntN(400)
		}
		p.Subs = append(p.Subs, s)
	}
	for i := 0; i < 48; i++ {
		p.AckDelayUs = append(p.AckDelayUs, r.IntN(3000))
	}
	p.IdleMs = []int{0, 0, 5, 30}[r.IntN(4)]
	return p
}

func runStress(p stressParam, withCancel bool, tag string) *runReport {
	e := newEnv(tag, envCfg{idle: time.Duration(p.IdleMs) * time.Millisecond})
	e.up.mu.Lock()
	e.up.yieldy = true
	for _, d := range p.AckDelayUs {
		e.up.ackDelay = append(e.up.ackDelay, time.Duration(d)*time.Microsecond)
	}
	e.up.mu.Unlock()
	subs := make([]*subscriber, len(p.Subs))
	for i, sp := range p.Subs {
		s := e.newSub(fmt.Sprintf("k%d", i), p.Tuples[sp.Tuple], sp.Script)
		s.hookDelay = time.Duration(sp.HookDelayUs) * time.Microsecond
		subs[i] = s
	}
	var wg sync.WaitGroup
	for i := range subs {
		s, sp := subs[i], p.Subs[i]
		plan := sp.Cancel
		if !withCancel {
			plan = "none"
		}
		if plan == "hook" && s.tup.Transport != "ws" {
			plan = "early"
		}
		if plan == "hook" {
			s.cancelAtHook = true
		}
		wg.Add(1)
		go func() {
			defer wg.Done()
			if sp.StartDelayUs > 0 {
				time.Sleep(time.Duration(sp.StartDelayUs) * time.Microsecond)
			}
			if plan == "early" && sp.ByDeadline {
				s.leaveByDeadline(time.Duration(sp.CancelDelayUs)*time.Microsecond, "deadline")
			}
			s.start()
			switch plan {
			case "early":
				if sp.ByDeadline {
					<-s.ctx.Done()
					e.mu.Lock()
					e.cancels["by-deadline"]++
					e.mu.Unlock()
				} else if sp.CancelDelayUs > 0 {
					time.Sleep(time.Duration(sp.CancelDelayUs) * time.Microsecond)
				}
				phase := "after-return"
				if !s.isReturned() {
					t := s.tup
					phase = "inflight." + e.up.tupleState(func(c *srvConn) bool {
						return c.Path == t.Path && c.Headers == t.expectHeaders() && (c.Kind == "sse") == (t.Transport == "sse")
					})
				}
				s.cancel(phase)
			case "after-return":
				e.note.until(stepWatchdog, s.isReturned)
				s.cancel("after-return")
			case "after-k":
				e.note.until(stepWatchdog, func() bool { return s.isReturned() && (s.dataCount() >= sp.K || s.quiet()) })
				s.cancel("after-k")
			}
		}()
	}
	wg.Wait()
	e.waitQuiet(subs, "every subscriber that did not cancel to have received its script")
	rep := e.judge()
	e.finish(rep)
	return rep
}
