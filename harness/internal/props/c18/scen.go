package c18

import (
	"fmt"
	"math/rand/v2"
	"os"
	"time"
)

// ---- shared helpers of the scripted scenarios

var protoNames = []string{"graphql-transport-ws", "graphql-ws", ""}

func protoLabel(p string) string {
	if p == "" {
		return "auto"
	}
	return p
}

func wsTuple(name, proto, path string) *tuple {
	return &tuple{Name: name, Transport: "ws", Proto: proto, Path: path}
}

func sseTuple(name, method, path string) *tuple {
	return &tuple{Name: name, Transport: "sse", Method: method, Path: path}
}

// randTuple: a base tuple for a scenario. sse=true gives an SSE tuple.
func randTuple(r *rand.Rand, sse bool) *tuple {
	if sse {
		m := []string{"GET", "POST"}[r.IntN(2)]
		return sseTuple("sse-"+m, m, "/graphql")
	}
	p := protoNames[r.IntN(3)]
	t := wsTuple("ws-"+protoLabel(p), p, "/graphql")
	if r.IntN(3) == 0 {
		t.Headers = map[string]string{"X-Verif-Tenant": "t1"}
	}
	if r.IntN(3) == 0 {
		t.Init = map[string]any{"token": "a"}
	}
	return t
}

func (s *subscriber) hasNonData() bool {
	s.mu.Lock()
	defer s.mu.Unlock()
	for _, ev := range s.evs {
		if ev.T != "data" {
			return true
		}
	}
	return false
}

// quiet: judged from events only, nothing more is expected to arrive for this subscriber given
// what the upstream has sent / was scripted to send.
func (s *subscriber) quiet() bool {
	s.mu.Lock()
	returned, failed, cancelled, sendFailed := s.returned, s.subErr != nil, s.cancelled, s.sendFailed > 0
	nData, nTerm, connErr := 0, 0, false
	for _, ev := range s.evs {
		switch ev.T {
		case "data":
			nData++
		case "connerr":
			connErr = true
		default:
			nTerm++
		}
	}
	s.mu.Unlock()
	if !returned {
		return false
	}
	if failed || cancelled || connErr {
		return true
	}
	if s.e.up.sub(s.key) == nil {
		// Subscribe returned nil: the upstream will see the subscription (or the client will report a
		// connection error)
		return false
	}
	if sendFailed && nTerm == 0 {
		// the upstream found the connection gone: the client will notice it too
		return false
	}
	if s.sc.Auto {
		return nData >= s.sc.N && (s.sc.Term == "open" || nTerm >= 1)
	}
	sent, _, _ := s.e.up.sentFor(s.key)
	sn, st := 0, false
	for _, m := range sent {
		if m.Kind == "next" {
			sn++
		} else {
			st = true
		}
	}
	return nData >= sn && (!st || nTerm >= 1)
}

func (e *env) waitQuiet(subs []*subscriber, what string) bool {
	return e.wait(what, func() bool {
		for _, s := range subs {
			if !s.quiet() {
				return false
			}
		}
		return true
	})
}

// establish starts the subscribers one after the other and waits until the upstream has each.
func (e *env) establish(subs []*subscriber) bool {
	for _, s := range subs {
		s.start()
		if !e.wait("Subscribe of "+s.key+" to return", s.isReturned) {
			return false
		}
		if s.subscribeErr() != nil {
			continue
		}
		if !e.wait("upstream to receive the subscription "+s.key, func() bool { return e.up.sub(s.key) != nil || s.hasNonData() }) {
			return false
		}
	}
	return true
}

// srvSend makes the upstream send one message for the subscriber (manual mode).
func (e *env) srvSend(s *subscriber, kind string) bool {
	ss := e.up.sub(s.key)
	if ss != nil && ss.send(kind) {
		return true
	}
	s.mu.Lock()
	s.sendFailed++
	s.mu.Unlock()
	return false
}

func manual() script { return script{} }

func autoScript(r *rand.Rand) script {
	return script{Auto: true, N: r.IntN(5), Term: []string{"complete", "error", "open"}[r.IntN(3)]}
}

// ---------------------------------------------------------------------------------------------
// scenarios 1, 2 (and the SSE form of 2): a subscriber cancels while the connection it shares with
// waiting subscribers is being dialled (upgrade withheld) or initialised (connection_ack withheld)

type dialCancelParam struct {
	Window    string   `json:"window"` // ack | upgrade
	Tuple     *tuple   `json:"tuple"`
	Waiters   int      `json:"waiters"`
	Canceller int      `json:"canceller"` // 0 = the dial leader, j = waiter j
	Scripts   []script `json:"scripts"`
	IdleMs    int      `json:"idle_ms"`
	// How the canceller goes away: "" = cancel(); "deadline" = its own context carries a deadline
	// (context.WithTimeout of DeadlineMs, started when it subscribes) that ends while the upstream
	// withholds the upgrade / the connection_ack.
	How        string `json:"how,omitempty"`
	DeadlineMs int    `json:"deadline_ms,omitempty"`
}

// genDialDeadline: the K1/K2 situation with the leaver's context ending by deadline.
func genDialDeadline(r *rand.Rand, window string) dialCancelParam {
	p := genDialCancel(r, window, false)
	p.How = "deadline"
	p.DeadlineMs = []int{40, 80, 150}[r.IntN(3)]
	if r.IntN(10) < 8 {
		p.Canceller = 0
	}
	return p
}

func genDialCancel(r *rand.Rand, window string, sse bool) dialCancelParam {
	p := dialCancelParam{Window: window, Tuple: randTuple(r, sse), Waiters: 1 + r.IntN(4), IdleMs: []int{0, 10, 40}[r.IntN(3)]}
	if r.IntN(10) < 7 {
		p.Canceller = 0
	} else {
		p.Canceller = 1 + r.IntN(p.Waiters)
	}
	for i := 0; i <= p.Waiters; i++ {
		sc := autoScript(r)
		if sc.N == 0 && sc.Term == "open" {
			sc.N = 1
		}
		p.Scripts = append(p.Scripts, sc)
	}
	return p
}

func runDialCancel(p dialCancelParam, withCancel bool, tag string) (rep *runReport, parked bool) {
	e := newEnv(tag, envCfg{idle: time.Duration(p.IdleMs) * time.Millisecond})
	if p.Window == "ack" {
		e.up.armHoldAck()
	} else {
		e.up.armHoldUpgrade()
	}
	var subs []*subscriber
	for i := 0; i <= p.Waiters; i++ {
		subs = append(subs, e.newSub(fmt.Sprintf("k%d", i), p.Tuple, p.Scripts[i]))
	}
	sse := p.Tuple.Transport == "sse"
	// deadline form: the leaver's context is a context.WithTimeout that starts when it subscribes.
	// The scenario never races it: it waits for the departure (Subscribe returned, context ended)
	// before the upstream lets anything through. A deadline that ends before the waiters are parked
	// only makes the case trivial (left() ends the waits early), never changes the verdict.
	byDeadline := withCancel && p.How == "deadline"
	leaver := subs[p.Canceller]
	startSub := func(s *subscriber) {
		if byDeadline && s == leaver {
			s.leaveByDeadline(time.Duration(p.DeadlineMs)*time.Millisecond, "dial."+p.Window+".deadline")
			s.start()
			go func() {
				<-s.ctx.Done()
				s.cancel("dial." + p.Window + ".deadline")
			}()
			return
		}
		s.start()
	}
	left := func() bool { return byDeadline && leaver.isCancelled() }
	startSub(subs[0])
	withheld := func() bool {
		for _, ci := range e.up.snapshot() {
			if p.Window == "ack" && ci.InitSeen && !ci.Acked {
				return true
			}
			if p.Window == "upgrade" && ci.State == "request" {
				return true
			}
		}
		return false
	}
	ok := e.wait("upstream to see the dial leader's connection in the withheld state", func() bool { return withheld() || left() }) && withheld()
	if ok {
		for _, s := range subs[1:] {
			startSub(s)
		}
		if sse {
			// SSE has no shared connection: every subscriber has its own withheld request
			parked = e.wait("upstream to see every withheld SSE request", func() bool { return e.up.connCount() == p.Waiters+1 })
		} else {
			seen := false
			e.note.until(stepWatchdog, func() bool {
				if !left() && parkedDialWaiters() == p.Waiters {
					seen = true
				}
				return seen || left()
			})
			parked = seen
			if !parked && !left() {
				e.fail("hook", fmt.Sprintf("only %d of %d waiters observed parked on the shared dial", parkedDialWaiters(), p.Waiters))
			}
		}
	}
	if byDeadline {
		// the deadline does the cancelling; nothing is released before the leaver has gone
		e.wait("the subscriber whose context carries the deadline to leave", func() bool { return leaver.isCancelled() && leaver.isReturned() })
	} else if ok && parked && withCancel {
		c := subs[p.Canceller]
		c.cancel("dial." + p.Window)
		e.wait("cancelled subscriber's Subscribe to return", c.isReturned)
	}
	e.up.releaseUpgrade()
	e.up.releaseAck()
	e.waitQuiet(subs, "every subscriber to have received its script")
	rep = e.judge()
	e.finish(rep)
	return rep, parked
}

// ---------------------------------------------------------------------------------------------
// scenario 3: cancel between registering the handler and the subscribe write on a shared,
// established connection (yield point ws.subscribe.beforeWrite)

type writeCancelParam struct {
	Tuple       *tuple `json:"tuple"`
	Established int    `json:"established"`
	Cancellers  int    `json:"cancellers"`
	Concurrent  bool   `json:"concurrent"`
	Before      int    `json:"before"`
	After       int    `json:"after"`
	IdleMs      int    `json:"idle_ms"`
}

func genWriteCancel(r *rand.Rand) writeCancelParam {
	return writeCancelParam{Tuple: randTuple(r, false), Established: 2 + r.IntN(4), Cancellers: 1 + r.IntN(3), Concurrent: r.IntN(2) == 0,
		Before: 1 + r.IntN(3), After: 1 + r.IntN(3), IdleMs: []int{0, 10, 40}[r.IntN(3)]}
}

func runWriteCancel(p writeCancelParam, withCancel bool, tag string) (rep *runReport, hookReached bool) {
	e := newEnv(tag, envCfg{idle: time.Duration(p.IdleMs) * time.Millisecond})
	var est, cs []*subscriber
	for i := 0; i < p.Established; i++ {
		est = append(est, e.newSub(fmt.Sprintf("k%d", i), p.Tuple, manual()))
	}
	for j := 0; j < p.Cancellers; j++ {
		c := e.newSub(fmt.Sprintf("c%d", j), p.Tuple, script{Auto: true, N: 2, Term: "complete"})
		c.cancelAtHook = withCancel
		cs = append(cs, c)
	}
	if e.establish(est) {
		for i := 0; i < p.Before; i++ {
			for _, s := range est {
				e.srvSend(s, "next")
			}
		}
		e.waitQuiet(est, "established subscribers to receive the first messages")
		if p.Concurrent {
			for _, c := range cs {
				c.start()
			}
			for _, c := range cs {
				e.wait("Subscribe of "+c.key+" to return", c.isReturned)
			}
		} else {
			for _, c := range cs {
				c.start()
				e.wait("Subscribe of "+c.key+" to return", c.isReturned)
			}
		}
		hookReached = true
		for _, c := range cs {
			c.mu.Lock()
			if c.hookHits == 0 {
				hookReached = false
			}
			c.mu.Unlock()
		}
		for i := 0; i < p.After; i++ {
			for _, s := range est {
				e.srvSend(s, "next")
			}
		}
		for i, s := range est {
			switch i % 3 {
			case 0:
				e.srvSend(s, "complete")
			case 1:
				e.srvSend(s, "error")
			}
		}
		e.waitQuiet(append(append([]*subscriber(nil), est...), cs...), "established subscribers to receive the remaining messages")
	}
	rep = e.judge()
	e.finish(rep)
	return rep, hookReached
}

// ---------------------------------------------------------------------------------------------
// scenarios 4 and 5: per-id complete/error isolation and interleaved next on one connection
// (or, for SSE, on one request per subscription)

type interleaveParam struct {
	Tuple    *tuple   `json:"tuple"`
	N        int      `json:"n"`
	Order    []int    `json:"order"`    // subscriber index per message, in upstream send order
	Complete []int    `json:"complete"` // subscribers completed by the upstream
	Error    []int    `json:"error"`    // subscribers ended with an error by the upstream
	After    int      `json:"after"`    // messages for the survivors after the terminals
	Auto     bool     `json:"auto"`     // concurrent auto senders instead of the scripted order
	Scripts  []script `json:"scripts,omitempty"`
	IdleMs   int      `json:"idle_ms"`
}

func genInterleave(r *rand.Rand, sse bool, minN, maxN int, terminals bool) interleaveParam {
	p := interleaveParam{Tuple: randTuple(r, sse), N: minN + r.IntN(maxN-minN+1), IdleMs: []int{0, 10, 40}[r.IntN(3)]}
	for i := 0; i < p.N; i++ {
		for k := r.IntN(6); k >= 0; k-- {
			p.Order = append(p.Order, i)
		}
	}
	r.Shuffle(len(p.Order), func(i, j int) { p.Order[i], p.Order[j] = p.Order[j], p.Order[i] })
	if terminals {
		perm := r.Perm(p.N)
		nc := 1 + r.IntN((p.N+1)/3+1)
		ne := 1 + r.IntN((p.N+1)/3+1)
		if nc+ne >= p.N {
			nc, ne = 1, 1
		}
		p.Complete = perm[:nc]
		p.Error = perm[nc : nc+ne]
		p.After = 1 + r.IntN(3)
	} else if r.IntN(3) == 0 {
		p.Auto = true
		for i := 0; i < p.N; i++ {
			p.Scripts = append(p.Scripts, script{Auto: true, N: 1 + r.IntN(8), Term: []string{"complete", "error"}[r.IntN(2)]})
		}
	}
	return p
}

func runInterleave(p interleaveParam, tag string) *runReport {
	e := newEnv(tag, envCfg{idle: time.Duration(p.IdleMs) * time.Millisecond})
	e.up.mu.Lock()
	e.up.yieldy = true
	e.up.mu.Unlock()
	var subs []*subscriber
	for i := 0; i < p.N; i++ {
		sc := manual()
		if p.Auto {
			sc = p.Scripts[i]
		}
		subs = append(subs, e.newSub(fmt.Sprintf("k%d", i), p.Tuple, sc))
	}
	if p.Auto {
		for _, s := range subs {
			s.start()
		}
		e.waitQuiet(subs, "every subscriber to have received its script")
	} else if e.establish(subs) {
		for _, i := range p.Order {
			e.srvSend(subs[i], "next")
		}
		ended := map[int]bool{}
		for _, i := range p.Complete {
			e.srvSend(subs[i], "complete")
			ended[i] = true
		}
		for _, i := range p.Error {
			e.srvSend(subs[i], "error")
			ended[i] = true
		}
		if len(ended) > 0 {
			// the terminals must have been processed by the client before the survivors get more
			e.waitQuiet(subs, "terminals to be delivered")
			for k := 0; k < p.After; k++ {
				for i, s := range subs {
					if !ended[i] {
						e.srvSend(s, "next")
					}
				}
			}
		} else {
			for _, i := range rand.New(rand.NewPCG(uint64(p.N), uint64(len(p.Order)))).Perm(p.N) {
				e.srvSend(subs[i], []string{"complete", "error"}[i%2])
			}
		}
		e.waitQuiet(subs, "all messages to be delivered")
	}
	rep := e.judge()
	e.finish(rep)
	return rep
}

// ---------------------------------------------------------------------------------------------
// scenario 6: option tuples that differ in exactly one component must not share a connection

type tuplesParam struct {
	Tuples     []*tuple `json:"tuples"`
	Differs    []string `json:"differs"` // per variant: which component differs from the base
	PerTuple   int      `json:"per_tuple"`
	Concurrent bool     `json:"concurrent"`
	IdleMs     int      `json:"idle_ms"`
}

func cloneTuple(t *tuple, name string) *tuple {
	c := *t
	c.Name = name
	if t.Headers != nil {
		c.Headers = map[string]string{}
		for k, v := range t.Headers {
			c.Headers[k] = v
		}
	}
	if t.HeaderValues != nil {
		c.HeaderValues = map[string][]string{}
		for k, v := range t.HeaderValues {
			c.HeaderValues[k] = append([]string(nil), v...)
		}
	}
	if t.Init != nil {
		c.Init = map[string]any{}
		for k, v := range t.Init {
			c.Init[k] = v
		}
	}
	return &c
}

var variantKinds = []string{"endpoint", "subprotocol", "header-value", "header-extra", "init-value", "init-presence", "init-extra-key"}

func genTuples(r *rand.Rand) tuplesParam {
	base := wsTuple("base", protoNames[r.IntN(3)], "/graphql")
	base.Headers = map[string]string{"X-Verif-Tenant": "t1", "X-Verif-Trace": "on"}
	base.Init = map[string]any{"token": "a"}
	if r.IntN(4) == 0 {
		base.Headers = nil
	}
	if r.IntN(4) == 0 {
		base.Init = nil
	}
	p := tuplesParam{Tuples: []*tuple{base, cloneTuple(base, "twin")}, Differs: []string{"-", "nothing"}, PerTuple: 1 + r.IntN(2), Concurrent: r.IntN(2) == 0, IdleMs: []int{0, 10, 40}[r.IntN(3)]}
	nv := 2 + r.IntN(4)
	for _, vi := range r.Perm(len(variantKinds))[:nv] {
		kind := variantKinds[vi]
		v := cloneTuple(base, "var-"+kind)
		switch kind {
		case "endpoint":
			v.Path = "/graphql/other"
		case "subprotocol":
			for v.Proto == base.Proto {
				v.Proto = protoNames[r.IntN(3)]
			}
		case "header-value":
			if v.Headers == nil {
				continue
			}
			v.Headers["X-Verif-Tenant"] = "t2"
		case "header-extra":
			if v.Headers == nil {
				v.Headers = map[string]string{}
			}
			v.Headers["X-Verif-Extra"] = "1"
		case "init-value":
			if v.Init == nil {
				continue
			}
			v.Init["token"] = "b"
		case "init-presence":
			if v.Init == nil {
				v.Init = map[string]any{"token": "a"}
			} else {
				v.Init = nil
			}
		case "init-extra-key":
			if v.Init == nil {
				v.Init = map[string]any{}
			}
			v.Init["role"] = "admin"
		}
		p.Tuples = append(p.Tuples, v)
		p.Differs = append(p.Differs, kind)
	}
	return p
}

// scenario 12: option tuples whose MULTI-VALUED headers differ in exactly one respect. The base
// carries one or two X-Verif-* headers with 2-4 values each; every variant changes one thing about
// one of them. "same headers" is what the upstream sees on the upgrade request: canonical name,
// every value, in order (the oracle compares the connection's recorded headers with the
// subscription's own); the name-case variant therefore is the same tuple as the base (sharing it
// or not are both fine), all the others are different tuples.
var multiHeaderKinds = []string{"first-value", "middle-value", "last-value", "value-order", "value-order-keeping-last", "fewer-values-drop-first", "fewer-values-drop-last",
	"more-values-prepend", "more-values-append", "single-last-value", "name-case", "other-header-first-value"}

func genHeaderTuples(r *rand.Rand) tuplesParam {
	base := wsTuple("base", protoNames[r.IntN(3)], "/graphql")
	nv := 2 + r.IntN(3)
	vals := []string{"tenant-a", "team-1", "region-x", "read"}[4-nv:]
	vals = append([]string(nil), vals...)
	name := []string{"X-Verif-Scope", "x-verif-scope", "X-VERIF-SCOPE"}[r.IntN(3)]
	base.HeaderValues = map[string][]string{name: vals}
	other := ""
	if r.IntN(2) == 0 {
		other = "X-Verif-Group"
		base.HeaderValues[other] = []string{"g1", "g2"}
	}
	if r.IntN(3) == 0 {
		base.Headers = map[string]string{"X-Verif-Tenant": "t1"}
	}
	if r.IntN(3) == 0 {
		base.Init = map[string]any{"token": "a"}
	}
	p := tuplesParam{Tuples: []*tuple{base, cloneTuple(base, "twin")}, Differs: []string{"-", "nothing"}, PerTuple: 1 + r.IntN(2), Concurrent: r.IntN(2) == 0, IdleMs: []int{0, 10, 40}[r.IntN(3)]}
	n := 4 + r.IntN(4)
	for _, vi := range r.Perm(len(multiHeaderKinds))[:n] {
		kind := multiHeaderKinds[vi]
		v := cloneTuple(base, "var-"+kind)
		hv := v.HeaderValues[name]
		switch kind {
		case "first-value":
			hv[0] = "tenant-b"
		case "middle-value":
			if len(hv) < 3 {
				continue
			}
			hv[1] = "team-2"
		case "last-value":
			hv[len(hv)-1] = "write"
		case "value-order":
			hv[0], hv[len(hv)-1] = hv[len(hv)-1], hv[0]
		case "value-order-keeping-last":
			if len(hv) < 3 {
				continue
			}
			hv[0], hv[1] = hv[1], hv[0]
		case "fewer-values-drop-first":
			hv = hv[1:]
		case "fewer-values-drop-last":
			hv = hv[:len(hv)-1]
		case "more-values-prepend":
			hv = append([]string{"admin"}, hv...)
		case "more-values-append":
			hv = append(hv, "audit")
		case "single-last-value":
			hv = hv[len(hv)-1:]
		case "name-case":
			delete(v.HeaderValues, name)
			alt := "X-Verif-Scope"
			if name == alt {
				alt = "x-verif-scope"
			}
			v.HeaderValues[alt] = hv
			p.Tuples = append(p.Tuples, v)
			p.Differs = append(p.Differs, kind)
			continue
		case "other-header-first-value":
			if other == "" {
				continue
			}
			v.HeaderValues[other][0] = "g9"
			p.Tuples = append(p.Tuples, v)
			p.Differs = append(p.Differs, kind)
			continue
		}
		v.HeaderValues[name] = hv
		p.Tuples = append(p.Tuples, v)
		p.Differs = append(p.Differs, kind)
	}
	return p
}

func runTuples(p tuplesParam, tag string) (rep *runReport, distinctPairs, twinShared int) {
	e := newEnv(tag, envCfg{idle: time.Duration(p.IdleMs) * time.Millisecond})
	var subs []*subscriber
	for ti, t := range p.Tuples {
		for j := 0; j < p.PerTuple; j++ {
			subs = append(subs, e.newSub(fmt.Sprintf("k%d.%d", ti, j), t, script{Auto: true, N: 2, Term: "open"}))
		}
	}
	if p.Concurrent {
		for _, s := range subs {
			s.start()
		}
	} else {
		e.establish(subs)
	}
	e.waitQuiet(subs, "every subscriber to have received its script")
	rep = e.judge()
	// evidence: pairs of different tuples observed on different connections; twins observed sharing
	connOf := map[string]int{}
	for _, ci := range rep.Conns {
		for _, k := range ci.Subs {
			connOf[k] = ci.ID
		}
	}
	for i, a := range subs {
		for _, b := range subs[i+1:] {
			ca, cb := connOf[a.key], connOf[b.key]
			if ca == 0 || cb == 0 {
				continue
			}
			if a.tup.identity() != b.tup.identity() && ca != cb {
				distinctPairs++
			}
			if a.tup.identity() == b.tup.identity() && ca == cb {
				twinShared++
			}
		}
	}
	e.finish(rep)
	return rep, distinctPairs, twinShared
}

// ---------------------------------------------------------------------------------------------
// scenario 7: the last subscription ends -> the connection is closed after the idle period; a
// subscriber arriving during the linger is served and not cut off by the idle timer

type idleParam struct {
	Tuple   *tuple `json:"tuple"`
	N       int    `json:"n"`
	IdleMs  int    `json:"idle_ms"`
	Order   []int  `json:"order"`
	Variant string `json:"variant"` // cancel | upstream-terminal | resubscribe
}

func genIdle(r *rand.Rand, sse bool) idleParam {
	p := idleParam{Tuple: randTuple(r, sse), N: 1 + r.IntN(5), IdleMs: []int{0, 15, 40}[r.IntN(3)]}
	p.Order = r.Perm(p.N)
	p.Variant = []string{"cancel", "upstream-terminal", "resubscribe"}[r.IntN(3)]
	if p.Variant == "resubscribe" {
		p.IdleMs = 40 + 20*r.IntN(3)
		if sse {
			p.Variant = "cancel"
		}
	}
	return p
}

func runIdle(p idleParam, withCancel bool, tag string) (rep *runReport, reused bool) {
	e := newEnv(tag, envCfg{idle: time.Duration(p.IdleMs) * time.Millisecond})
	var subs []*subscriber
	for i := 0; i < p.N; i++ {
		subs = append(subs, e.newSub(fmt.Sprintf("k%d", i), p.Tuple, manual()))
	}
	var late *subscriber
	if e.establish(subs) {
		for _, s := range subs {
			e.srvSend(s, "next")
		}
		e.waitQuiet(subs, "first messages")
		if withCancel {
			for _, i := range p.Order {
				switch p.Variant {
				case "upstream-terminal":
					e.srvSend(subs[i], []string{"complete", "error"}[i%2])
				default:
					subs[i].cancel("established")
				}
			}
			e.waitQuiet(subs, "terminals")
		}
		if p.Variant == "resubscribe" {
			late = e.newSub("late", p.Tuple, manual())
			if e.establish([]*subscriber{late}) && late.subscribeErr() == nil {
				if _, _, c := e.up.sentFor(late.key); c != nil {
					if _, _, c0 := e.up.sentFor(subs[0].key); c0 != nil && c0.ID == c.ID {
						reused = true
					}
				}
				e.srvSend(late, "next")
				// let the idle timer armed by the last cancel expire while `late` is subscribed
				time.Sleep(time.Duration(p.IdleMs)*time.Millisecond*2 + 5*time.Millisecond)
				e.srvSend(late, "next")
				e.srvSend(late, "next")
				e.waitQuiet([]*subscriber{late}, "late subscriber's messages")
			}
		}
	}
	rep = e.judge()
	e.finish(rep)
	return rep, reused
}

// ---------------------------------------------------------------------------------------------
// scenario 11: idle-period histories. With an idle period configured, one connection goes through
// several rounds of "runs empty -> (is picked up again during the idle period and stays in use past
// that period's end | is picked up again briefly | is closed and replaced)"; after the last round
// nobody is left and the connection must go away (finish: connections -> 0).

type idleRound struct {
	Ends []string `json:"ends"` // how each subscription of the round ends: cancel | complete | error
	// what follows once the round's last subscription has ended (the connection runs empty):
	//  reuse-hold  : the next round subscribes at once (during the idle period) and is still subscribed when that period is over
	//  reuse-brief : the next round subscribes at once and ends at once (before that period is over)
	//  after-close : the next round starts after the upstream saw the connection closed
	//  ""          : last round
	Next string `json:"next,omitempty"`
}

type idleHistParam struct {
	Tuple  *tuple      `json:"tuple"`
	IdleMs int         `json:"idle_ms"`
	Rounds []idleRound `json:"rounds"`
}

func genIdleHist(r *rand.Rand) idleHistParam {
	p := idleHistParam{Tuple: randTuple(r, false), IdleMs: []int{20, 30, 50}[r.IntN(3)]}
	n := 2 + r.IntN(3)
	hold := false
	for i := 0; i < n; i++ {
		var rd idleRound
		for j := 1 + r.IntN(3); j > 0; j-- {
			rd.Ends = append(rd.Ends, []string{"cancel", "cancel", "complete", "error"}[r.IntN(4)])
		}
		if i < n-1 {
			switch x := r.IntN(10); {
			case x < 6:
				rd.Next = "reuse-hold"
				hold = true
			case x < 8:
				rd.Next = "reuse-brief"
			default:
				rd.Next = "after-close"
			}
		}
		p.Rounds = append(p.Rounds, rd)
	}
	if !hold {
		p.Rounds[r.IntN(n-1)].Next = "reuse-hold"
	}
	return p
}

// runIdleHist returns the report, the number of rounds that verifiably re-used the connection left
// empty by the round before (same upstream connection id) and, of those, the rounds that stayed
// subscribed until the idle period started by that run-empty was over.
func runIdleHist(p idleHistParam, tag string) (rep *runReport, reused, held int) {
	idle := time.Duration(p.IdleMs) * time.Millisecond
	e := newEnv(tag, envCfg{idle: idle})
	prevConn, prevNext := 0, ""
rounds:
	for ri, rd := range p.Rounds {
		var subs []*subscriber
		for j := range rd.Ends {
			subs = append(subs, e.newSub(fmt.Sprintf("r%d.%d", ri, j), p.Tuple, manual()))
		}
		if !e.establish(subs) {
			break
		}
		cid := 0
		for _, s := range subs {
			if s.subscribeErr() != nil {
				// judged by the oracle (nobody cancelled: a failing Subscribe is a deviation)
				break rounds
			}
			if _, _, c := e.up.sentFor(s.key); c != nil {
				cid = c.ID
			}
		}
		same := prevConn != 0 && cid == prevConn
		if same && (prevNext == "reuse-hold" || prevNext == "reuse-brief") {
			reused++
		}
		for _, s := range subs {
			e.srvSend(s, "next")
		}
		if !e.waitQuiet(subs, "round's first messages") {
			break
		}
		if prevNext == "reuse-hold" {
			// two consecutive timers of the idle period armed after the run-empty: the idle period that
			// started when the previous round ended is over while this round is still subscribed
			if !e.elapse(idle, 2, "idle period of the previous run-empty to pass") {
				break
			}
			for _, s := range subs {
				e.srvSend(s, "next")
				e.srvSend(s, "next")
			}
			if !e.waitQuiet(subs, "messages after the idle period") {
				break
			}
			if same {
				held++
			}
		}
		for j, s := range subs {
			switch rd.Ends[j] {
			case "cancel":
				s.cancel("established")
			default:
				e.srvSend(s, rd.Ends[j])
			}
		}
		if !e.waitQuiet(subs, "round's subscriptions to end") {
			break
		}
		prevConn, prevNext = cid, rd.Next
		switch rd.Next {
		case "after-close":
			// every subscription of the history so far has ended: the connection has to go
			if !e.awaitConnsGone() {
				break rounds
			}
		case "reuse-hold", "reuse-brief":
			// upstream terminals: the client drops the subscription right after the handler returned
			time.Sleep(200 * time.Microsecond)
		}
	}
	rep = e.judge()
	e.finish(rep)
	return rep, reused, held
}

// ---------------------------------------------------------------------------------------------
// scenario 13: heartbeat on healthy connections. PingInterval > PingTimeout > 0 (the shape of the
// datasource default 30 s / 10 s, scaled down); the upstream answers every ping (PongDelayMs after
// it arrived: well after the client has finished sending the ping, well before the next tick).
// The connections live for >= Ticks pings while every subscription keeps receiving data in
// round trips (upstream sends one message per subscription, the scenario waits for the delivery).
// Nothing may be closed and nothing may be lost.

type healthyPingParam struct {
	Tuples      []*tuple `json:"tuples"`
	PerConn     []int    `json:"per_conn"`
	IntervalMs  int      `json:"ping_interval_ms"`
	TimeoutMs   int      `json:"ping_timeout_ms"`
	PongDelayMs int      `json:"pong_delay_ms"`
	Ticks       int      `json:"ticks"`
}

func genHealthyPing(r *rand.Rand) healthyPingParam {
	p := healthyPingParam{IntervalMs: []int{90, 120, 150}[r.IntN(3)], PongDelayMs: []int{8, 12, 20}[r.IntN(3)], Ticks: 3 + r.IntN(2)}
	p.TimeoutMs = p.IntervalMs / 3
	n := 1 + r.IntN(2)
	for i := 0; i < n; i++ {
		proto := []string{"graphql-transport-ws", ""}[r.IntN(2)]
		if i == 1 && r.IntN(3) == 0 {
			proto = "graphql-ws" // no client pings on this protocol: must simply stay
		}
		t := wsTuple(fmt.Sprintf("ws-%s-%d", protoLabel(proto), i), proto, "/graphql")
		t.Headers = map[string]string{"X-Verif-Tenant": fmt.Sprintf("t%d", i)}
		p.Tuples = append(p.Tuples, t)
		p.PerConn = append(p.PerConn, 1+r.IntN(3))
	}
	return p
}

const pingClosureFact = "every_ping_answered_and_conn_read_after_last_pong"

func pingClosures(rep *runReport) int {
	n := 0
	for _, d := range rep.Devs {
		if d.Facts[pingClosureFact] == "true" {
			n++
		}
	}
	return n
}

func dropPingClosures(rep *runReport, why string) {
	kept := rep.Devs[:0]
	for _, d := range rep.Devs {
		if d.Facts[pingClosureFact] != "true" {
			kept = append(kept, d)
		}
	}
	rep.Devs = kept
	if rep.Inconclusive == "" {
		rep.Inconclusive = why
	}
}

// instantPong (VERIF_C18_INSTANT_PONG=1, not part of any tier): the upstream answers pings at once
// and a single closure convicts. Shows the window in the unchanged sendPing (the pong is handled
// before lastPingSentAt is stored) in roughly one case out of four.
var instantPong = os.Getenv("VERIF_C18_INSTANT_PONG") != ""

// runHealthyPing returns the report, the pings answered on connections that stayed and the number
// of completed data round trips.
func runHealthyPing(p healthyPingParam, tag string) (rep *runReport, answered, rounds int) {
	e := newEnv(tag, envCfg{idle: 10 * time.Millisecond, pingInterval: time.Duration(p.IntervalMs) * time.Millisecond, pingTimeout: time.Duration(p.TimeoutMs) * time.Millisecond})
	e.up.mu.Lock()
	e.up.pongDelay = time.Duration(p.PongDelayMs) * time.Millisecond
	if instantPong {
		e.up.pongDelay = 0
	}
	e.up.mu.Unlock()
	var subs []*subscriber
	for ti, t := range p.Tuples {
		for j := 0; j < p.PerConn[ti]; j++ {
			subs = append(subs, e.newSub(fmt.Sprintf("k%d.%d", ti, j), t, manual()))
		}
	}
	// evidence per upstream connection: pongs written so far, and the number of consecutive round
	// trips completed since the last pong was written. A message of such a round trip was written
	// after that pong on the same connection; the client's single read loop handled the pong first.
	lastPongs, sincePong := map[int]int{}, map[int]int{}
	connOf := map[string]*srvConn{}
	if e.establish(subs) {
		for _, s := range subs {
			if _, _, c := e.up.sentFor(s.key); c != nil {
				connOf[s.key] = c
			}
		}
		pinged := func() (min int, any bool) {
			min = -1
			for _, ci := range e.up.snapshot() {
				if ci.Kind != "ws" || ci.Negotiated != "graphql-transport-ws" {
					continue
				}
				any = true
				if min < 0 || ci.Pongs < min {
					min = ci.Pongs
				}
			}
			return min, any
		}
		broken := func() bool {
			for _, s := range subs {
				if s.hasNonData() {
					return true
				}
			}
			return e.up.openCount() < len(p.Tuples)
		}
		deadline := time.Now().Add(stepWatchdog) // watchdog only
		for {
			if n, any := pinged(); (any && n >= p.Ticks) || (!any && rounds >= 20) {
				break
			}
			if broken() {
				break
			}
			if time.Now().After(deadline) {
				e.fail("watchdog", fmt.Sprintf("%d answered pings on every connection", p.Ticks))
				break
			}
			before := map[int]int{}
			for _, ci := range e.up.snapshot() {
				before[ci.ID] = ci.Pongs
			}
			sentAll := true
			for _, s := range subs {
				if !e.srvSend(s, "next") {
					sentAll = false
				}
			}
			if !sentAll || !e.waitQuiet(subs, "round trip") || broken() {
				break
			}
			rounds++
			for _, ci := range e.up.snapshot() {
				if ci.Pongs == before[ci.ID] && ci.Pongs == lastPongs[ci.ID] {
					sincePong[ci.ID]++
				} else {
					sincePong[ci.ID] = 0
				}
				lastPongs[ci.ID] = ci.Pongs
			}
			time.Sleep(2 * time.Millisecond)
		}
	}
	// something broke: let the client tell every subscriber of the affected connections and the
	// upstream register the closures, so that the facts below are the final ones
	hit := map[*srvConn]bool{}
	for _, s := range subs {
		s.mu.Lock()
		bad := s.sendFailed > 0
		s.mu.Unlock()
		if c := connOf[s.key]; c != nil && (bad || s.hasNonData()) {
			hit[c] = true
		}
	}
	if len(hit) > 0 {
		e.note.until(3*time.Second, func() bool {
			for _, s := range subs {
				if c := connOf[s.key]; c != nil && hit[c] && (!s.hasNonData() || e.up.connInfoOf(c).State != "closed") {
					return false
				}
			}
			return true
		})
	}
	rep = e.judge()
	// A healthy connection closed by the client's ping timeout: convicted when the upstream answered
	// every ping it received on that connection and >= 3 round trips were completed after the last
	// pong had been written (the client was reading that connection all along). Otherwise this
	// process stalled around a tick: timing, inconclusive.
	kept := rep.Devs[:0]
	for _, d := range rep.Devs {
		if d.Isolation && d.Facts["conn_closed_by"] == "client-close-1000" && d.SubIdx >= 0 && d.SubIdx < len(subs) {
			c := connOf[subs[d.SubIdx].key]
			strong := false
			if c != nil {
				ci := e.up.connInfoOf(c)
				strong = ci.Pings > 0 && ci.Pongs >= ci.Pings && sincePong[c.ID] >= 3
				d.Facts["pings_seen_on_conn"] = fmt.Sprint(ci.Pings)
				d.Msg += fmt.Sprintf(" [connection %d: %d pings received, %d pongs written (pong delay %d ms), %d data round trips completed after the last pong; ping interval %d ms, timeout %d ms]",
					c.ID, ci.Pings, ci.Pongs, p.PongDelayMs, sincePong[c.ID], p.IntervalMs, p.TimeoutMs)
			}
			d.Facts[pingClosureFact] = fmt.Sprint(strong)
			if instantPong {
				d.Facts["upstream_pong"] = "instant"
			}
			if !strong {
				if rep.Inconclusive == "" {
					rep.Inconclusive = "timing: a connection was closed by the client's ping timeout and the upstream's records do not show that its last pong was handled in time"
				}
				continue
			}
		}
		kept = append(kept, d)
	}
	rep.Devs = kept
	for _, ci := range e.up.snapshot() {
		if ci.State == "open" {
			answered += ci.Pongs
		}
	}
	e.finish(rep)
	return rep, answered, rounds
}

// ---------------------------------------------------------------------------------------------
// scenario 8: the upstream drops a connection / stops answering pings

type faultParam struct {
	Mode    string   `json:"mode"` // drop | silent
	Tuples  []*tuple `json:"tuples"`
	PerConn []int    `json:"per_conn"`
	Victim  int      `json:"victim"`
	Before  int      `json:"before"`
	After   int      `json:"after"`
}

func genFault(r *rand.Rand, mode string, sse bool) faultParam {
	p := faultParam{Mode: mode, Before: 1 + r.IntN(2), After: 1 + r.IntN(2)}
	n := 2 + r.IntN(2)
	for i := 0; i < n; i++ {
		var t *tuple
		if sse {
			t = randTuple(r, true)
			t.Name = fmt.Sprintf("%s-%d", t.Name, i)
		} else {
			proto := protoNames[r.IntN(3)]
			if mode == "silent" {
				proto = []string{"graphql-transport-ws", ""}[r.IntN(2)] // only this protocol has client pings
			}
			t = wsTuple(fmt.Sprintf("ws-%s-%d", protoLabel(proto), i), proto, "/graphql")
		}
		t.Headers = map[string]string{"X-Verif-Tenant": fmt.Sprintf("t%d", i)}
		p.Tuples = append(p.Tuples, t)
		p.PerConn = append(p.PerConn, 1+r.IntN(4))
	}
	p.Victim = r.IntN(n)
	return p
}

func runFault(p faultParam, tag string) *runReport {
	cfg := envCfg{idle: 10 * time.Millisecond}
	if p.Mode == "silent" {
		// the client's pong check only ever fires when the timeout is shorter than the interval
		// (every ping refreshes the reference time), as in the repository's own heartbeat test
		cfg.pingInterval = 150 * time.Millisecond
		cfg.pingTimeout = 50 * time.Millisecond
	}
	e := newEnv(tag, cfg)
	var subs, victims, others []*subscriber
	for ti, t := range p.Tuples {
		for j := 0; j < p.PerConn[ti]; j++ {
			s := e.newSub(fmt.Sprintf("k%d.%d", ti, j), t, manual())
			subs = append(subs, s)
			if ti == p.Victim {
				victims = append(victims, s)
			} else {
				others = append(others, s)
			}
		}
	}
	if e.establish(subs) {
		for i := 0; i < p.Before; i++ {
			for _, s := range subs {
				e.srvSend(s, "next")
			}
		}
		if e.waitQuiet(subs, "first messages") {
			// fault on every upstream connection that carries a victim (one for WS, one per victim for SSE)
			seen := map[int]bool{}
			for _, v := range victims {
				v.setFaulted()
				if _, _, c := e.up.sentFor(v.key); c != nil && !seen[c.ID] {
					seen[c.ID] = true
					if p.Mode == "drop" {
						e.up.drop(c)
					} else {
						e.up.silence(c)
					}
				}
			}
			told := func() bool {
				for _, v := range victims {
					if !v.hasNonData() {
						return false
					}
				}
				return true
			}
			// the client itself has taken the failed connection(s) off its books
			otherWS, otherSSE := map[string]bool{}, 0
			for _, s := range others {
				if s.tup.Transport == "ws" {
					otherWS[s.tup.identity()] = true
				} else {
					otherSSE++
				}
			}
			forgot := func() bool {
				st := e.cl.Stats()
				return st.WSConns <= len(otherWS) && st.SSEConns <= otherSSE
			}
			if e.note.until(stepWatchdog, func() bool { return told() || forgot() }) && !told() {
				// deregistered but (not yet) told: a bounded grace, then the judge convicts (connerr.missing)
				e.note.until(3*time.Second, told)
			}
			if !told() && !forgot() {
				e.fail("watchdog", "the client to notice the failed connection")
			}
			for i := 0; i < p.After; i++ {
				for _, s := range others {
					e.srvSend(s, "next")
				}
			}
			for i, s := range others {
				if i%2 == 0 {
					e.srvSend(s, "complete")
				}
			}
			e.waitQuiet(others, "subscriptions on the other connections to keep receiving")
		}
	}
	rep := e.judge()
	if p.Mode == "silent" {
		// A connection on which the upstream did answer every ping may still be closed by the
		// client's (small) ping timeout when this process stalls between the pong's arrival and the
		// ping loop's next tick. That closure is a normal close handshake (code 1000) initiated by the
		// client. It is timing, not cross-talk, so such a case is inconclusive; the drop mode (no
		// pings configured at all) is the one that convicts "a fault on one connection hit another".
		kept := rep.Devs[:0]
		for _, d := range rep.Devs {
			excuse := false
			if d.Isolation && d.SubIdx < len(rep.Outcomes) && d.Facts["conn_closed_by"] == "client-close-1000" {
				excuse = true
			}
			if excuse {
				if rep.Inconclusive == "" {
					rep.Inconclusive = "timing: a connection that answered its pings was closed by the client's ping timeout"
				}
				continue
			}
			kept = append(kept, d)
		}
		rep.Devs = kept
	}
	e.finish(rep)
	return rep
}
