// Package c18 decides C18 — upstream subscription connections are multiplexed without cross-talk —
// by running the real subscriptionclient against an in-process scripted GraphQL-over-WebSocket /
// SSE upstream and judging, from the handler callbacks and the upstream's own records, delivery,
// per-id termination, cancel isolation, sharing legality and cleanup.
package c18

import (
	"fmt"

	"verifharness/internal/fw"
)

type c18 struct{ fw.Base }

func init() { fw.Register(c18{}) }

func (c18) ID() string             { return "C18" }
func (c18) Race() bool             { return true }
func (c18) CrashIsViolation() bool { return false }
func (c18) CaseTimeout(string) int { return 240 }

func (c18) Rule() string {
	return "scripted kinds (each parameterised by the seed: protocol graphql-transport-ws/graphql-ws/auto or SSE GET/POST, number of subscribers, who cancels, message counts, idle period): " +
		"K1 dial leader or a waiter cancels while connection_ack is withheld and 1-4 subscribers wait on the shared dial (waiters observed parked in getOrDial); K2 same with the HTTP upgrade withheld; " +
		"K3 1-3 subscribers cancel at the yield point ws.subscribe.beforeWrite on a connection shared with 2-5 established subscriptions; K4 upstream complete/error for some of 3-8 ids, the others continue; " +
		"K5 interleaved next for 3-20 ids (scripted order or concurrent senders); K6 option tuples differing in exactly one of endpoint/subprotocol/header value/extra header/init value/init presence/init key plus an identical twin; " +
		"K7 last subscription ends by cancel or upstream terminal -> connection closes (idle 0/15/40 ms), and a subscriber arriving during the linger survives the idle timer; K8 upstream drops one of 2-3 connections or stops answering pings; " +
		"K9 the SSE forms of K2, K4, K5, K7, K8; " +
		"K10 the K1/K2 situation where the leaver (dial leader 80%, else a waiter) does not call cancel(): its own context is a context.WithTimeout(40/80/150 ms) that ends by DEADLINE while the upstream withholds the connection_ack / the upgrade " +
		"(the scenario waits for the departure before the upstream lets anything through; the waiters must then be served by a second dial); " +
		"K11 idle-period histories (idle 20/30/50 ms): 2-4 rounds of 1-3 subscriptions on one option tuple, each round ended by cancel / upstream complete / upstream error so that the connection runs empty, followed by " +
		"reuse-hold (next round subscribes during the idle period and stays subscribed until two consecutive timers of the idle period have fired), reuse-brief (subscribes and ends at once) or after-close (next round after the connection went away); after the last round no subscriber is left and the connections must go. " +
		"K12 the K6 situation for MULTI-VALUED headers: the base carries one or two X-Verif-* headers with 2-4 values (name spelled canonical / lower / upper case), plus an identical twin and 4-7 variants that differ in exactly one respect: first / middle / last value, value order (with and without keeping the last value), one value fewer (first or last dropped), one more (prepended or appended), only the last value, the header-name case (same tuple to an HTTP server: sharing or not are both fine), the first value of a second multi-valued header; " +
		"the oracle is the K6 one: a connection may carry a subscription only if the upstream recorded exactly that subscription's header values, in order, on its upgrade request; " +
		"K13 heartbeat on healthy connections: PingInterval 90/120/150 ms > PingTimeout = interval/3 > 0, 1-2 connections (graphql-transport-ws / auto, sometimes a graphql-ws one without client pings) with 1-3 subscriptions each, the upstream answers every ping 8/12/20 ms after it arrived; " +
		"the connections live until 3-4 pings were answered on each while every subscription receives data in round trips (one message per subscription, delivery awaited, 2 ms pause); no connection may be closed, nothing may be lost; " +
		"K1, K2, K3, K7-resubscribe, K10 and the stress kind run twice: control (no cancel / no deadline) and experiment; the outcome of every subscriber that did not cancel must equal its control outcome. " +
		"Stress: 2-64 concurrent subscribers over 1-3 option tuples with random cancels (before Subscribe returns - by cancel() or, for 2 in 5 of them, by a context.WithTimeout of 0-2.5 ms on the subscriber's own context -, at the yield point, after return, after k messages) against an upstream that delays connection_ack 0-3 ms. " +
		"Every run of every kind ends with the cleanup oracle: once no subscriber is left, client Stats() and the upstream's open connections return to zero; a WebSocket connection the upstream still sees open after 100 consecutive timers of max(idle period, 40 ms) is a violation (cleanup.conn-outlives-idle). " +
		"A case is non-trivial when its window was actually reached (waiters parked while the leaver was still there / yield point hit / connection shared by >=2 subscriptions with a cancel in flight / different tuples observed on different connections / connection observed closing after its last subscription / " +
		"K12: >=1 pair of different multi-valued-header tuples observed on different connections / K13: >=3 answered pings on a connection that stayed, >=10 round trips / " +
		"K11: >=1 round verifiably re-used the idling connection (same upstream connection id) and outstayed the idle period, and the connection was then seen closing); distinct by hash of the generated parameters."
}

func (c18) Assumptions() []string {
	return []string{
		"a subscriber 'cancels' the way graphql_subscription_client.go does: its context ends - by cancel() or because the context carries a deadline (context.WithTimeout) - and, once Subscribe has returned the unsubscribe function, that function is called once",
		"the upstream embeds (subscription key, sequence number, server connection id) in every payload; the key travels in the query text, so the upstream can attribute wire ids without trusting the client",
		"a subscription that cancelled is only required to have received a prefix of what was sent; messages delivered after a terminal/connection error are counted, not judged",
		"requested subprotocol 'auto' and an explicit subprotocol count as different option tuples (the upstream compares the offered subprotocol list)",
		"stalls are bounded-progress checks: a 15 s watchdog per wait makes the case inconclusive, never violated; ping timeouts on connections whose pong was measurably slow are excused as timing",
		"cleanup (connections -> 0 once no subscriber is left): 'does not outlive its last subscription by more than the configured idle period' is judged with a 100-fold margin measured in the client's own currency - a chain of 100 consecutive time.AfterFunc timers of max(idle period, 40 ms) run by the harness in the same process, so a starved process delays both alike and no wall-clock value is compared; " +
			"only a WebSocket connection the upstream still sees open after those 100 timers is convicted; timers that did not fire within the 16 s watchdog, SSE requests still open, or a client Stats() that stays non-zero although the upstream sees nothing open make the case inconclusive",
		"a deadline that ends before the waiters are parked (K10) or a round that lands on a fresh connection because the idle period was over before it subscribed (K11) only makes the case trivial; the verdicts do not depend on it",
		"'same headers' is what an HTTP server sees on the upgrade request: canonical header name, every value, in order; option tuples whose headers differ only in the spelling (case) of a header name are the same tuple",
		"K13: a healthy connection closed by the client's ping timeout is convicted only when (a) the upstream answered every ping it received on it and >= 3 data round trips were completed on it after the last pong was written (the client's single read loop had handled that pong) and (b) the same scenario shows such a closure in three more consecutive runs; otherwise the case is inconclusive (timing). " +
			"(b) keeps the check clear of a narrow window in the unchanged sendPing/pongOverdue - a pong handled before lastPingSentAt is stored counts as older than the ping - which an upstream that pongs at once hits in about one case out of four (VERIF_C18_INSTANT_PONG=1 shows it; reported separately); the upstream of K13 therefore pongs 8-20 ms late",
		"loopback TCP through net/http/httptest is part of the trusted base",
	}
}

func (c18) RequiredCounters(string) []string {
	return []string{"msgs_delivered", "msgs_checked", "conns_opened", "shared_conns", "conns_closed_after_last_sub", "ws_conns_closed_after_last_sub", "hook_ws.subscribe.beforeWrite",
		"cancel_dial.ack", "cancel_dial.upgrade", "cancel_subscribe.write", "waiters_parked", "isolation_comparisons", "distinct_tuple_pairs_on_distinct_conns",
		"fault_victim_errors", "idle_linger_reuse", "k7_ws_idle_close_observed",
		"scen_K1", "scen_K2", "scen_K3", "scen_K4", "scen_K5", "scen_K6", "scen_K7", "scen_K8", "scen_K9", "scen_stress",
		"scen_K10", "scen_K11", "cancel_dial.ack.deadline", "cancel_dial.upgrade.deadline", "deadline_leader_left_waiters_parked", "cancel_by-deadline",
		"idle_history_rounds_reusing_idle_conn", "idle_history_rounds_held_past_idle_period",
		"scen_K12", "scen_K13", "multi_value_header_tuple_pairs_on_distinct_conns", "healthy_conn_pings_answered", "healthy_conn_data_round_trips"}
}

const (
	perKindQuick = 40
	stressQuick  = 160
)

func mult(tier string) int {
	if tier == fw.Thorough {
		return 40
	}
	return 1
}

// K10 - K13 were added after the first nine kinds and the stress kind; they take the indices
// behind them so that every older case keeps its index (and random stream).
func (c18) NumCases(tier string) int {
	return (9*perKindQuick + stressQuick + 4*perKindQuick) * mult(tier)
}

func (p c18) Run(c *fw.Ctx, idx int) fw.Result {
	m := mult(c.Tier)
	kind, sub := "stress", idx-9*perKindQuick*m
	if idx < 9*perKindQuick*m {
		kind, sub = fmt.Sprintf("K%d", idx/(perKindQuick*m)+1), idx%(perKindQuick*m)
	} else if late := idx - (9*perKindQuick+stressQuick)*m; late >= 0 {
		kind, sub = fmt.Sprintf("K%d", 10+late/(perKindQuick*m)), late%(perKindQuick*m)
	}
	r := c.Rng(idx, "c18")
	res := fw.Result{}
	var param any
	cancels := func(rep *runReport, phase string) int { return rep.Cancels[phase] }
	switch kind {
	case "K1", "K2":
		window := "ack"
		if kind == "K2" {
			window = "upgrade"
		}
		pp := genDialCancel(r, window, false)
		param = pp
		ctl, _ := runDialCancel(pp, false, "control")
		exp, parked := runDialCancel(pp, true, "experiment")
		emit(&res, kind, ctl, exp, param)
		if parked {
			res.Count("waiters_parked", int64(pp.Waiters))
		}
		res.Nontrivial = parked && cancels(exp, "dial."+window) > 0
		res.Observe("dial_cancel_roles", fmt.Sprintf("%s:%s:canceller=%s", window, protoLabel(pp.Tuple.Proto), map[bool]string{true: "leader", false: "waiter"}[pp.Canceller == 0]))
	case "K3":
		pp := genWriteCancel(r)
		param = pp
		ctl, _ := runWriteCancel(pp, false, "control")
		exp, reached := runWriteCancel(pp, true, "experiment")
		emit(&res, kind, ctl, exp, param)
		if !reached && res.Inconclusive == "" {
			res.Inconclusive = "hook: yield point ws.subscribe.beforeWrite not reached by every cancelling subscriber"
		}
		res.Nontrivial = reached && cancels(exp, "subscribe.write") > 0 && exp.Shared > 0
	case "K4", "K5":
		pp := genInterleave(r, false, 3, map[string]int{"K4": 8, "K5": 20}[kind], kind == "K4")
		param = pp
		exp := runInterleave(pp, "run")
		emit(&res, kind, nil, exp, param)
		res.Nontrivial = exp.MaxShare >= 3 && exp.Delivered > 0
		res.Observe("ids_on_one_connection", fmt.Sprint(exp.MaxShare))
	case "K6":
		pp := genTuples(r)
		param = pp
		exp, pairs, twins := runTuples(pp, "run")
		emit(&res, kind, nil, exp, param)
		res.Count("distinct_tuple_pairs_on_distinct_conns", int64(pairs))
		res.Count("identical_tuples_sharing", int64(twins))
		for _, d := range pp.Differs[2:] {
			res.Observe("tuple_variants", d)
		}
		res.Nontrivial = pairs > 0
	case "K7":
		pp := genIdle(r, false)
		param = pp
		var ctl *runReport
		if pp.Variant == "resubscribe" {
			ctl, _ = runIdle(pp, false, "control")
		}
		exp, reused := runIdle(pp, true, "experiment")
		emit(&res, kind, ctl, exp, param)
		if reused {
			res.Count("idle_linger_reuse", 1)
		}
		res.Observe("idle_variants", fmt.Sprintf("%s/idle=%dms", pp.Variant, pp.IdleMs))
		res.Nontrivial = exp.ClosedAfterLast > 0
		res.Count("k7_ws_idle_close_observed", int64(exp.WSClosedAfterLast))
	case "K10":
		window := []string{"ack", "upgrade"}[sub%2]
		pp := genDialDeadline(r, window)
		param = pp
		ctl, _ := runDialCancel(pp, false, "control")
		exp, parked := runDialCancel(pp, true, "experiment")
		emit(&res, kind, ctl, exp, param)
		left := cancels(exp, "dial."+window+".deadline")
		if parked && left > 0 {
			res.Count("waiters_parked_on_deadline_dial", int64(pp.Waiters))
			if pp.Canceller == 0 {
				res.Count("deadline_leader_left_waiters_parked", int64(pp.Waiters))
			}
		} else if left > 0 {
			res.Count("deadline_ended_before_waiters_parked", 1)
		}
		res.Nontrivial = parked && left > 0
		res.Observe("dial_deadline_roles", fmt.Sprintf("%s:%s:leaver=%s:%dms", window, protoLabel(pp.Tuple.Proto), map[bool]string{true: "leader", false: "waiter"}[pp.Canceller == 0], pp.DeadlineMs))
	case "K11":
		pp := genIdleHist(r)
		param = pp
		exp, reused, held := runIdleHist(pp, "run")
		emit(&res, kind, nil, exp, param)
		res.Count("idle_history_rounds", int64(len(pp.Rounds)))
		res.Count("idle_history_rounds_reusing_idle_conn", int64(reused))
		res.Count("idle_history_rounds_held_past_idle_period", int64(held))
		if held > 0 {
			res.Count("idle_history_ws_close_after_reuse", int64(exp.WSClosedAfterLast))
		}
		shape := ""
		for _, rd := range pp.Rounds {
			shape += "/" + rd.Next
		}
		res.Observe("idle_history_shapes", fmt.Sprintf("idle=%dms%s", pp.IdleMs, shape))
		res.Nontrivial = held > 0 && exp.WSClosedAfterLast > 0
	case "K12":
		pp := genHeaderTuples(r)
		param = pp
		exp, pairs, twins := runTuples(pp, "run")
		emit(&res, kind, nil, exp, param)
		res.Count("multi_value_header_tuple_pairs_on_distinct_conns", int64(pairs))
		res.Count("identical_tuples_sharing", int64(twins))
		for _, d := range pp.Differs[2:] {
			res.Observe("multi_value_header_variants", d)
		}
		res.Nontrivial = pairs > 0
	case "K13":
		pp := genHealthyPing(r)
		param = pp
		exp, answered, rounds := runHealthyPing(pp, "run")
		if n := pingClosures(exp); n > 0 && !instantPong {
			// A healthy connection was closed by the client's ping timeout. The unchanged code has a
			// narrow window of this kind (see Assumptions); what is judged here is whether a healthy
			// connection is closed as a rule: the same scenario must show it three more times in a row.
			again := 0
			for i := 0; i < 3; i++ {
				rr, _, _ := runHealthyPing(pp, fmt.Sprintf("repeat%d", i+1))
				if pingClosures(rr) == 0 {
					break
				}
				again++
			}
			res.Count("healthy_conn_ping_closures", int64(n))
			if again < 3 {
				res.Count("healthy_conn_ping_closures_not_reproduced", int64(n))
				dropPingClosures(exp, fmt.Sprintf("timing: a connection whose pings were all answered was closed by the client's ping timeout, but only in %d of %d consecutive runs of the scenario", again+1, again+2))
			} else {
				for i := range exp.Devs {
					if exp.Devs[i].Facts[pingClosureFact] == "true" {
						exp.Devs[i].Facts["reproduced_in_consecutive_runs"] = "4/4"
					}
				}
			}
		}
		emit(&res, kind, nil, exp, param)
		res.Count("healthy_conn_pings_answered", int64(answered))
		res.Count("healthy_conn_data_round_trips", int64(rounds))
		res.Observe("heartbeat_settings", fmt.Sprintf("interval=%dms timeout=%dms pong-delay=%dms", pp.IntervalMs, pp.TimeoutMs, pp.PongDelayMs))
		res.Nontrivial = answered >= pp.Ticks && rounds >= 10 && exp.Delivered > 0
	case "K8":
		mode := "drop"
		if sub%10 >= 7 {
			mode = "silent"
		}
		pp := genFault(r, mode, false)
		param = pp
		exp := runFault(pp, "run")
		emit(&res, kind, nil, exp, param)
		res.Nontrivial = countFaultErrors(&res, exp) > 0
		res.Observe("fault_modes", mode)
	case "K9":
		switch sub % 5 {
		case 0:
			pp := genDialCancel(r, "upgrade", true)
			param = pp
			ctl, _ := runDialCancel(pp, false, "control")
			exp, parked := runDialCancel(pp, true, "experiment")
			emit(&res, kind, ctl, exp, param)
			res.Nontrivial = parked && cancels(exp, "dial.upgrade") > 0
			res.Count("sse_cancel_during_request", int64(cancels(exp, "dial.upgrade")))
		case 1, 2:
			pp := genInterleave(r, true, 3, 12, sub%5 == 1)
			param = pp
			exp := runInterleave(pp, "run")
			emit(&res, kind, nil, exp, param)
			res.Nontrivial = exp.Delivered > 0
		case 3:
			pp := genIdle(r, true)
			param = pp
			exp, _ := runIdle(pp, true, "experiment")
			emit(&res, kind, nil, exp, param)
			res.Nontrivial = exp.ClosedAfterLast > 0
		default:
			pp := genFault(r, "drop", true)
			param = pp
			exp := runFault(pp, "run")
			emit(&res, kind, nil, exp, param)
			res.Nontrivial = countFaultErrors(&res, exp) > 0
		}
		res.Observe("sse_forms", []string{"cancel-during-request", "terminals", "interleave", "cleanup", "drop"}[sub%5])
	default:
		pp := genStress(r)
		markDeadlines(&pp, c.Rng(idx, "c18.deadline"))
		param = pp
		ctl := runStress(pp, false, "control")
		exp := runStress(pp, true, "experiment")
		short := map[string]any{"tuples": pp.Tuples, "subscribers": len(pp.Subs), "idle_ms": pp.IdleMs, "first_subs": firstN(pp.Subs, 6)}
		emit(&res, "stress", ctl, exp, short)
		inflight := 0
		for ph, n := range exp.Cancels {
			if len(ph) > 8 && ph[:8] == "inflight" || ph == "subscribe.write" {
				inflight += n
			}
		}
		res.Count("stress_subscribers", int64(len(pp.Subs)))
		res.Nontrivial = exp.Shared > 0 && inflight > 0
		res.Observe("stress_sizes", fmt.Sprintf("%d subs/%d tuples", len(pp.Subs)/8*8, len(pp.Tuples)))
		res.Key = fw.HashKey("C18", kind, pp)
		res.Sample = map[string]any{"kind": kind, "param": short}
		return res
	}
	res.Key = fw.HashKey("C18", kind, param)
	res.Sample = map[string]any{"kind": kind, "param": param}
	return res
}

func firstN(s []stressSub, n int) []stressSub {
	if len(s) > n {
		return s[:n]
	}
	return s
}

func countFaultErrors(res *fw.Result, rep *runReport) int {
	n := 0
	for _, o := range rep.Outcomes {
		if !o.Faulted {
			continue
		}
		for _, ev := range o.Events {
			if ev.T == "connerr" {
				n++
				res.Observe("fault_error_class", errClass(ev.errv))
			}
		}
	}
	res.Count("fault_victim_errors", int64(n))
	return n
}
