package c18

import (
	"encoding/json"
	"fmt"
	"os"
	"regexp"
	"sort"
	"strings"
	"time"

	"verifharness/internal/fw"
)

var regexpErrKey = regexp.MustCompile(`E:([A-Za-z0-9_.\-]+)`)

// outcome is what one subscriber observed, reduced to what the statement talks about.
type outcome struct {
	Key         string    `json:"key"`
	Tuple       string    `json:"tuple"`
	Cancelled   bool      `json:"cancelled,omitempty"`
	CancelPhase string    `json:"cancel_phase,omitempty"`
	ByDeadline  bool      `json:"left_by_context_deadline,omitempty"`
	Faulted     bool      `json:"faulted,omitempty"`
	Returned    bool      `json:"returned"`
	SubErr      string    `json:"subscribe_err_class"`
	SubErrText  string    `json:"subscribe_err,omitempty"`
	CtxLive     bool      `json:"own_ctx_live_at_return"`
	Events      []cevent  `json:"events,omitempty"`
	ServerSent  []sentMsg `json:"server_sent,omitempty"`
	ServerConn  int       `json:"server_conn,omitempty"`
	HookHits    int       `json:"hook_hits,omitempty"`
	tup         *tuple
}

func (o *outcome) signature() string {
	var sb strings.Builder
	sb.WriteString(o.SubErr)
	for _, ev := range o.Events {
		fmt.Fprintf(&sb, "|%s:%s:%d", ev.T, ev.K, ev.Seq)
	}
	return sb.String()
}

type deviation struct {
	SubIdx    int
	Kind      string
	Isolation bool // the outcome of a subscriber that neither cancelled nor was hit by an upstream fault deviates
	Msg       string
	Facts     map[string]string
}

type runReport struct {
	Tag               string
	Outcomes          []outcome
	Devs              []deviation
	Conns             []connInfo
	Cancels           map[string]int
	Inconclusive      string
	Problems          []string
	HookHits          int64
	Delivered         int
	Shared            int // server connections that carried >= 2 subscriptions
	MaxShare          int
	Tuples            int
	ClosedAfterLast   int // connections observed closed by the client after their last subscription ended
	WSClosedAfterLast int
	Outlived          int // WebSocket connections convicted of outliving their last subscription
	IdleTicksWaited   int64
}

// judge evaluates the run against the statement. It must be called after the scenario's own
// waits and before the cleanup cancels.
func (e *env) judge() *runReport {
	rep := &runReport{Tag: e.tag, Cancels: map[string]int{}}
	e.mu.Lock()
	subs := append([]*subscriber(nil), e.subs...)
	for k, v := range e.cancels {
		rep.Cancels[k] = v
	}
	rep.Inconclusive = e.inconclusive
	e.mu.Unlock()
	rep.HookHits = e.hookHits.Load()
	rep.Conns = e.up.snapshot()
	rep.Problems = e.up.problemList()
	conclusive := rep.Inconclusive == ""

	byKey := map[string]*subscriber{}
	for _, s := range subs {
		byKey[s.key] = s
	}
	// a subscriber that was told about a connection error: give the upstream the chance to register
	// the closure of that connection, so that the closed_by fact is the final one
	for _, s := range subs {
		if !s.hasConnErr() {
			continue
		}
		if s.isReturned() && s.subscribeErr() == nil {
			// its subscribe message was written: the upstream may still be working through its backlog
			e.note.until(2*time.Second, func() bool { return e.up.sub(s.key) != nil })
		}
		if _, _, sc := e.up.sentFor(s.key); sc != nil {
			e.note.until(3*time.Second, func() bool { return e.up.connInfoOf(sc).State == "closed" })
		}
	}
	rep.Conns = e.up.snapshot()
	connOfKey := map[string]int{}
	for _, ci := range rep.Conns {
		for _, k := range ci.Subs {
			connOfKey[k] = ci.ID
		}
		if len(ci.Subs) >= 2 {
			rep.Shared++
		}
		if len(ci.Subs) > rep.MaxShare {
			rep.MaxShare = len(ci.Subs)
		}
	}
	dev := func(s *subscriber, kind string, isolation bool, facts map[string]string, format string, a ...any) {
		if facts == nil {
			facts = map[string]string{}
		}
		rep.Devs = append(rep.Devs, deviation{SubIdx: s.idx, Kind: kind, Isolation: isolation, Msg: fmt.Sprintf("%s[%s]: ", e.tag, s.key) + fmt.Sprintf(format, a...), Facts: facts})
	}

	for _, s := range subs {
		s.mu.Lock()
		o := outcome{Key: s.key, Tuple: s.tup.Name, Cancelled: s.cancelled || s.leaves, CancelPhase: s.cancelPhase, Faulted: s.faulted, Returned: s.returned,
			SubErr: errClass(s.subErr), CtxLive: s.ctxLiveAtReturn, Events: append([]cevent(nil), s.evs...), HookHits: s.hookHits, tup: s.tup}
		if s.leaves {
			o.ByDeadline = true
			if o.CancelPhase == "" {
				o.CancelPhase = s.leavePhase
			}
		}
		if s.subErr != nil {
			o.SubErrText = truncate(s.subErr.Error(), 300)
		}
		called := s.called
		sendFailed := s.sendFailed
		var connErrClass string
		for _, ev := range s.evs {
			if ev.T == "connerr" && connErrClass == "" {
				connErrClass = errClass(ev.errv)
			}
		}
		s.mu.Unlock()
		sent, _, sconn := e.up.sentFor(s.key)
		o.ServerSent = sent
		closedBy := "none"
		if sconn != nil {
			o.ServerConn = sconn.ID
			ci := e.up.connInfoOf(sconn)
			closedBy = ci.ClosedBy
			if ci.State == "open" {
				closedBy = "open"
			}
		}
		rep.Outcomes = append(rep.Outcomes, o)
		if !called {
			continue
		}
		sentNext, sentTerm := 0, ""
		for _, m := range sent {
			if m.Kind == "next" {
				sentNext++
			} else {
				sentTerm = m.Kind
			}
		}

		// ---- A: holds for every subscriber, cancelled or not
		nData, nTerm, nConnErr := 0, 0, 0
		afterTerminal := false
		for _, ev := range o.Events {
			switch ev.T {
			case "data":
				rep.Delivered++
				if ev.K == "" {
					dev(s, "delivery.corrupt", false, nil, "data message that does not carry an origin: %s", ev.Err)
				} else if ev.K != s.key {
					same := "false"
					if connOfKey[ev.K] != 0 && connOfKey[ev.K] == connOfKey[s.key] {
						same = "true"
					}
					dev(s, "delivery.cross", false, map[string]string{"same_connection": same}, "received message #%d that the upstream sent for %s (server connection %d)", ev.Seq, ev.K, ev.Conn)
				} else if ev.Seq != nData {
					what := "gap"
					if ev.Seq < nData {
						what = "duplicate-or-reordered"
					}
					dev(s, "delivery.order", false, map[string]string{"what": what}, "expected message #%d next, received #%d", nData, ev.Seq)
				}
				if ev.K == s.key {
					nData++
				}
				if afterTerminal {
					// not forbidden by the statement; counted
					rep.Problems = append(rep.Problems, "data after terminal for "+s.key)
				}
			case "complete", "error":
				nTerm++
				afterTerminal = true
				if ev.T == "error" && ev.K != "" && ev.K != s.key {
					dev(s, "terminal.crosstalk", false, map[string]string{"terminal": "error"}, "received the error the upstream sent for %s", ev.K)
				} else if sentTerm != ev.T {
					dev(s, "terminal.crosstalk", false, map[string]string{"terminal": ev.T}, "received %s but the upstream sent %q as terminal for this subscription", ev.T, sentTerm)
				}
			case "connerr":
				nConnErr++
				afterTerminal = true
			default:
				dev(s, "delivery.unknown-message", false, nil, "handler received a message of unknown type")
			}
		}
		if nData > sentNext {
			dev(s, "delivery.phantom", false, nil, "%d data messages delivered but the upstream sent only %d", nData, sentNext)
		}
		if nTerm > 1 || nConnErr > 1 {
			dev(s, "terminal.duplicate", false, nil, "%d complete/error and %d connection errors delivered", nTerm, nConnErr)
		}

		if o.Cancelled {
			continue
		}
		facts := func(effect, errc string) map[string]string {
			fam := errc
			switch errc {
			case "connection-closed", "net-closed":
				fam = "local-close" // the client itself had closed the connection
			case "context-canceled", "deadline-exceeded":
				fam = "context"
			case "init-failed", "dial-failed", "ack-timeout", "failed-upgrade":
				fam = "dial" // produced by the dial / protocol init path
			}
			return map[string]string{"effect": effect, "err": errc, "err_family": fam, "conn_closed_by": closedBy, "own_ctx_live": fmt.Sprint(o.CtxLive || !o.Returned),
				"victim_got_data": fmt.Sprint(nData > 0)}
		}
		if o.Faulted {
			// ---- C: the upstream dropped / went silent on this subscriber's connection
			if conclusive && o.Returned && o.SubErr == "nil" && nConnErr != 1 {
				dev(s, "connerr.missing", false, nil, "the upstream connection was lost but %d connection errors were delivered", nConnErr)
			}
			continue
		}
		// ---- B: neither cancelled nor hit by an upstream fault
		if !o.Returned {
			if conclusive {
				dev(s, "subscribe-stalled", true, facts("stalled", "nil"), "Subscribe never returned")
			}
			continue
		}
		if o.SubErr != "nil" {
			dev(s, "subscribe-failed", true, facts("subscribe-error", o.SubErr), "Subscribe failed: %s", o.SubErrText)
			continue
		}
		if nConnErr > 0 {
			dev(s, "connerr.spurious", true, facts("connection-error", connErrClass), "connection error delivered although the upstream did not fail its connection (server side: closed_by=%s)", closedBy)
			continue
		}
		if !conclusive {
			continue
		}
		if sconn == nil {
			dev(s, "subscribe-lost", true, facts("subscribe-lost", "nil"), "Subscribe returned nil but the upstream never received the subscription")
			continue
		}
		wantNext, wantTerm := sentNext, sentTerm
		if s.sc.Auto {
			wantNext = s.sc.N
			if s.sc.Term != "open" {
				wantTerm = s.sc.Term
			}
		}
		if nData != wantNext {
			dev(s, "delivery.missing", true, facts("missing-data", "nil"), "%d of %d messages delivered (upstream wrote %d)", nData, wantNext, sentNext)
		}
		if wantTerm != "" && nTerm != 1 {
			dev(s, "terminal.missing", true, facts("missing-terminal", "nil"), "upstream terminal %q not delivered", wantTerm)
		}
		if sendFailed > 0 && nData == wantNext {
			dev(s, "connection-lost", true, facts("connection-lost", "nil"), "the upstream could not send %d messages: the connection carrying the subscription was gone (closed_by=%s)", sendFailed, closedBy)
		}
	}

	// ---- D: sharing legality, from the server's per-connection record
	for _, ci := range rep.Conns {
		for _, k := range ci.Subs {
			s := byKey[k]
			if s == nil {
				continue
			}
			var diff []string
			if ci.Path != s.tup.Path {
				diff = append(diff, "endpoint")
			}
			if ci.Headers != s.tup.expectHeaders() {
				diff = append(diff, "headers")
			}
			if ci.Kind == "ws" {
				if s.tup.Transport != "ws" {
					diff = append(diff, "transport")
				} else {
					if ci.Offered != s.tup.expectOffered() {
						diff = append(diff, "subprotocol")
					}
					if ci.Init != s.tup.expectInit() {
						diff = append(diff, "init-payload")
					}
				}
			} else {
				if s.tup.Transport != "sse" {
					diff = append(diff, "transport")
				} else if ci.Method != s.tup.Method {
					diff = append(diff, "method")
				}
				if len(ci.Subs) > 1 {
					diff = append(diff, "sse-request-shared")
				}
			}
			if len(diff) > 0 {
				others := []string{}
				for _, ok := range ci.Subs {
					if o := byKey[ok]; o != nil && o.tup.identity() != s.tup.identity() {
						others = append(others, ok+"("+o.tup.Name+")")
					}
				}
				sort.Strings(diff)
				dev(s, "sharing.illegal", false, map[string]string{"differs": strings.Join(diff, "+")},
					"rides server connection %d (path=%s offered=%s headers=%s init=%s) whose %s differ from its own options (tuple %s); other tuples on it: %v",
					ci.ID, ci.Path, ci.Offered, ci.Headers, ci.Init, strings.Join(diff, ","), s.tup.Name, others)
			}
		}
	}
	seenT := map[string]bool{}
	for _, s := range subs {
		seenT[s.tup.identity()] = true
	}
	rep.Tuples = len(seenT)
	return rep
}

// minIdleUnit is the timer length used for the idle-period count when the configured idle period is
// shorter (or zero: the close is then due at once); outlivedIdlePeriods is how many consecutive
// timers must have fired, with every subscriber gone, before a connection that is still open is
// convicted of outliving its last subscription. 100 x max(idle, 40 ms) is at most the 8 s
// quiescence watchdog for the idle periods used here (<= 80 ms).
const (
	minIdleUnit         = 40 * time.Millisecond
	outlivedIdlePeriods = 100
)

func firstStrings(s []string, n int) []string {
	if len(s) > n {
		return s[:n]
	}
	return s
}

// awaitConnsGone is called at a point where no subscriber is left (every subscription was ended by
// its subscriber or by an upstream terminal and every Subscribe call has returned), i.e. the
// logical activity is idle: the client's Stats() and the upstream's open connection count must
// return to zero. Returns true when they did.
//
// A chain of harness timers of the configured idle period (at least minIdleUnit) counts how many
// idle periods pass meanwhile. A WebSocket connection that the upstream still sees open after
// outlivedIdlePeriods consecutive timers is convicted of outliving its last subscription
// (cleanup.conn-outlives-idle, remembered in e.outlived); everything else that keeps the counts from
// returning to zero within the quiescence watchdog makes the run inconclusive, as does a process so
// starved that the timers did not fire within the watchdog.
func (e *env) awaitConnsGone() bool {
	e.mu.Lock()
	convicted := len(e.outlived) > 0
	subs := append([]*subscriber(nil), e.subs...)
	e.mu.Unlock()
	if convicted || e.failed() {
		return false
	}
	unit := e.idle
	if unit < minIdleUnit {
		unit = minIdleUnit
	}
	tk := startTicks(unit, e.note)
	defer tk.stop()
	quiescent := func() bool {
		st := e.cl.Stats()
		return st.WSConns == 0 && st.SSEConns == 0 && e.up.openCount() == 0
	}
	// the watchdog leaves room for the timers (100 x 80 ms = 8 s for the longest idle period used)
	e.note.until(2*quiescenceWatchdog, func() bool {
		return quiescent() || (tk.n.Load() >= outlivedIdlePeriods && len(e.up.openWS()) > 0)
	})
	ok := quiescent()
	n := tk.n.Load()
	e.mu.Lock()
	e.idleTicksWaited = n
	e.mu.Unlock()
	if ok {
		return true
	}
	st := e.cl.Stats()
	leaked := e.up.openWS()
	switch {
	case len(leaked) > 0 && n >= outlivedIdlePeriods:
		var devs []deviation
		for _, ci := range leaked {
			last, live := -1, 0
			for _, k := range ci.Subs {
				for _, s := range subs {
					if s.key == k && s.idx > last {
						last = s.idx
					}
				}
			}
			for _, l := range ci.liveSubs {
				if l {
					live++
				}
			}
			devs = append(devs, deviation{SubIdx: last, Kind: "cleanup.conn-outlives-idle",
				Msg: fmt.Sprintf("%s: upstream connection %d (carried %d subscriptions: %v) is still open although no subscriber is left and %d consecutive timers of %s have fired since (configured idle period %s); client Stats() ws=%d sse=%d",
					e.tag, ci.ID, len(ci.Subs), firstStrings(ci.Subs, 8), n, unit, e.idle, st.WSConns, st.SSEConns),
				Facts: map[string]string{"idle_period_configured": fmt.Sprint(e.idle > 0), "client_still_registers_conn": fmt.Sprint(st.WSConns > 0),
					"conn_carried_subscriptions": fmt.Sprint(len(ci.Subs) > 0), "conn_established": fmt.Sprint(ci.Acked), "upstream_considers_a_subscription_live": fmt.Sprint(live > 0)}})
		}
		e.mu.Lock()
		e.outlived = devs
		e.mu.Unlock()
	case e.up.openCount() == 0 && (st.WSConns != 0 || st.SSEConns != 0):
		// no connection is left at the upstream, only the client's registry still counts one
		e.fail("stale-stats", "every upstream connection is closed but client Stats() does not return to 0")
	default:
		e.fail("watchdog", "quiescence: client Stats() and upstream open connections back to 0")
	}
	return false
}

// finish: cleanup cancel of everything still alive, then quiescence: the client's Stats() and the
// upstream's open connection count return to zero (awaitConnsGone).
func (e *env) finish(rep *runReport) {
	e.mu.Lock()
	subs := append([]*subscriber(nil), e.subs...)
	e.mu.Unlock()
	for _, s := range subs {
		s.mu.Lock()
		done := s.cancelled || !s.called
		s.mu.Unlock()
		if !done {
			s.cancel("cleanup")
		}
	}
	for _, s := range subs {
		s.mu.Lock()
		called := s.called
		s.mu.Unlock()
		if called {
			e.wait("Subscribe of "+s.key+" to return after cleanup", s.isReturned)
		}
	}
	ok := e.awaitConnsGone()
	e.mu.Lock()
	rep.Devs = append(rep.Devs, e.outlived...)
	rep.Outlived = len(e.outlived)
	rep.IdleTicksWaited = e.idleTicksWaited
	e.mu.Unlock()
	if ok {
		for _, ci := range e.up.snapshot() {
			if ci.Acked && strings.HasPrefix(ci.ClosedBy, "client-close") {
				rep.ClosedAfterLast++
				rep.WSClosedAfterLast++
			}
			if ci.Kind == "sse" && (ci.ClosedBy == "client-closed" || ci.ClosedBy == "server-terminal") {
				rep.ClosedAfterLast++
			}
		}
	} else if rep.Inconclusive == "" && e.failed() {
		e.mu.Lock()
		rep.Inconclusive = e.inconclusive
		e.mu.Unlock()
		st := e.cl.Stats()
		rep.Inconclusive += fmt.Sprintf(" (Stats ws=%d sse=%d, upstream open=%d, idle period %s)", st.WSConns, st.SSEConns, e.up.openCount(), e.idle)
	}
	rep.Conns = e.up.snapshot()
	e.close()
}

// ---------------------------------------------------------------------------------------------

// emit folds the report(s) of a case into the framework result. control may be nil.
func emit(res *fw.Result, kind string, control, exp *runReport, param any) {
	count := func(r *runReport, prefix string) {
		res.Count("msgs_delivered", int64(r.Delivered))
		res.Count("msgs_checked", int64(r.Delivered))
		res.Count("subscriptions", int64(len(r.Outcomes)))
		res.Count("conns_opened", int64(len(r.Conns)))
		res.Count("shared_conns", int64(r.Shared))
		res.Count("conns_closed_after_last_sub", int64(r.ClosedAfterLast))
		res.Count("ws_conns_closed_after_last_sub", int64(r.WSClosedAfterLast))
		res.Count("ws_conns_outliving_last_sub", int64(r.Outlived))
		res.Count("hook_ws.subscribe.beforeWrite", r.HookHits)
		for ph, n := range r.Cancels {
			res.Count("cancel_"+ph, int64(n))
		}
		for _, p := range r.Problems {
			if strings.HasPrefix(p, "data after terminal") {
				res.Count("data_after_terminal", 1)
			} else {
				res.Count("upstream_notes", 1)
				res.Observe("upstream_notes", truncate(p, 120))
			}
		}
		for _, ci := range r.Conns {
			if ci.ClosedBy != "" {
				res.Observe("conn_closed_by", ci.Kind+":"+ci.ClosedBy)
			}
			if len(ci.Subs) >= 2 {
				res.Observe("share_sizes", fmt.Sprint(len(ci.Subs)))
			}
		}
		for _, o := range r.Outcomes {
			if o.Cancelled {
				res.Observe("cancelled_subscribe_result", o.CancelPhase+":"+o.SubErr)
			}
		}
		_ = prefix
	}
	res.Count("scen_"+kind, 1)
	if dir := os.Getenv("VERIF_C18_DUMP"); dir != "" {
		// debugging aid for replays: full reports of the case
		b, _ := json.MarshalIndent(map[string]any{"kind": kind, "param": param, "control": dumpable(control), "experiment": dumpable(exp)}, "", " ")
		_ = os.WriteFile(fmt.Sprintf("%s/c18-%s-%d.json", dir, kind, os.Getpid()), b, 0o644)
	}
	if control != nil {
		count(control, "control")
		res.Count("control_runs", 1)
	}
	count(exp, "exp")

	detail := func(r *runReport, d deviation) map[string]any {
		m := map[string]any{"run": r.Tag, "scenario": kind, "param": param, "cancels_injected": r.Cancels, "upstream_connections": r.Conns}
		if d.SubIdx >= 0 && d.SubIdx < len(r.Outcomes) {
			m["subscriber"] = r.Outcomes[d.SubIdx]
		}
		// the other subscribers, without their full traces
		var others []string
		for i, o := range r.Outcomes {
			if i == d.SubIdx {
				continue
			}
			x := fmt.Sprintf("%s tuple=%s conn=%d err=%s events=%d", o.Key, o.Tuple, o.ServerConn, o.SubErr, len(o.Events))
			if o.Cancelled {
				x += " cancelled@" + o.CancelPhase
			}
			if len(others) < 70 {
				others = append(others, x)
			}
		}
		m["other_subscribers"] = others
		return m
	}
	limit := 0
	seenClass := map[string]bool{}
	report := func(r *runReport, d deviation, kindName string, facts map[string]string) {
		if d.Isolation && d.SubIdx >= 0 && d.SubIdx < len(r.Outcomes) && r.Outcomes[d.SubIdx].tup != nil {
			// from the upstream's final records: did the client tear down (TCP close without a close
			// frame) an established connection that belongs to this subscriber's option tuple?
			t := r.Outcomes[d.SubIdx].tup
			abrupt := false
			for _, ci := range r.Conns {
				if ci.Kind == "ws" && t.Transport == "ws" && ci.Path == t.Path && ci.Headers == t.expectHeaders() && ci.Offered == t.expectOffered() && ci.ClosedBy == "client-abrupt" && ci.Acked {
					abrupt = true
				}
			}
			f := map[string]string{"established_conn_of_tuple_torn_down_by_client": fmt.Sprint(abrupt)}
			for k, v := range facts {
				f[k] = v
			}
			facts = f
		}
		// one witness per (kind, facts) class and case: the other subscribers hit in the same way are counted
		fk, _ := json.Marshal(facts)
		cls := kindName + string(fk)
		res.Count("deviating_subscribers", 1)
		if seenClass[cls] {
			res.Count("same_class_deviations_in_case", 1)
			return
		}
		seenClass[cls] = true
		limit++
		if limit > 8 {
			res.Count("violations_suppressed_in_case", 1)
			return
		}
		res.Violate(kindName, d.Msg, facts, detail(r, d))
	}
	controlDev := map[int]bool{}
	if control != nil {
		for _, d := range control.Devs {
			controlDev[d.SubIdx] = true
			report(control, d, isoKind(d), d.Facts)
		}
	}
	totalCancels := 0
	for ph, n := range exp.Cancels {
		if ph != "cleanup" {
			totalCancels += n
		}
	}
	flagged := map[int]bool{}
	for _, d := range exp.Devs {
		flagged[d.SubIdx] = true
		if d.Isolation && control != nil && !controlDev[d.SubIdx] && totalCancels > 0 && control.Inconclusive == "" {
			// same scenario without the cancel was fine for this subscriber: another subscriber's
			// cancel changed its outcome
			f := map[string]string{}
			for k, v := range d.Facts {
				f[k] = v
			}
			report(exp, d, "isolation.cancel", f)
			continue
		}
		report(exp, d, isoKind(d), d.Facts)
	}
	// differential: outcome of every never-cancelled subscriber equals its outcome in the control run
	if control != nil && control.Inconclusive == "" && exp.Inconclusive == "" && len(control.Outcomes) == len(exp.Outcomes) {
		for i := range exp.Outcomes {
			x, c := &exp.Outcomes[i], &control.Outcomes[i]
			if x.Cancelled || c.Cancelled || x.Faulted || flagged[i] || controlDev[i] {
				continue
			}
			res.Count("isolation_comparisons", 1)
			if x.signature() != c.signature() {
				report(exp, deviation{SubIdx: i, Msg: fmt.Sprintf("%s: outcome differs from the run without cancels: %s vs %s", x.Key, truncate(x.signature(), 200), truncate(c.signature(), 200))},
					"isolation.cancel", map[string]string{"effect": "outcome-differs", "err": x.SubErr, "err_family": x.SubErr, "conn_closed_by": "n/a", "own_ctx_live": fmt.Sprint(x.CtxLive), "victim_got_data": "n/a"})
			}
		}
	}
	inc := exp.Inconclusive
	if control != nil && control.Inconclusive != "" {
		inc = control.Inconclusive
	}
	res.Inconclusive = inc
	if inc != "" {
		res.Observe("inconclusive_detail", kind+": "+truncate(inc, 160))
	}
}

// isoKind: deviations of a subscriber that neither cancelled nor was hit by an upstream fault are
// reported as isolation.peer (no cancel involved: only the other subscribers' subscribe /
// terminal activity can have caused it) or, when the same scenario without the cancels was fine,
// as isolation.cancel. The fact "effect" says what happened to the victim.
func isoKind(d deviation) string {
	if d.Isolation {
		return "isolation.peer"
	}
	return d.Kind
}

func dumpable(r *runReport) any {
	if r == nil {
		return nil
	}
	return map[string]any{"tag": r.Tag, "outcomes": r.Outcomes, "conns": r.Conns, "cancels": r.Cancels, "inconclusive": r.Inconclusive, "problems": r.Problems, "deviations": len(r.Devs)}
}
