package c15

import (
	"fmt"
	"math/rand/v2"

	"verifharness/internal/fed"
	"verifharness/internal/fw"
	"verifharness/internal/gen"
	"verifharness/internal/ref"
	"verifharness/internal/rig"
)

// ---------------------------------------------------------------------------------------------
// the fixed schema of the bundle cases

func named(n string) *gen.TypeRef   { return gen.Named(n, false) }
func nonNull(n string) *gen.TypeRef { return gen.Named(n, true) }

func bundleSchema() *gen.Schema {
	s := &gen.Schema{Query: "Query"}
	s.Add(&gen.TypeDef{Name: "JSON", Kind: gen.Scalar})
	s.Add(&gen.TypeDef{Name: "Color", Kind: gen.Enum, EnumValues: []gen.EnumVal{{Name: "RED"}, {Name: "GREEN"}, {Name: "BLUE"}}})
	inner := []*gen.Arg{
		{Name: "s", Type: named("String")},
		{Name: "n", Type: named("Int"), Default: gen.IntV(5)},
		{Name: "f", Type: named("Float")},
		{Name: "l", Type: gen.ListOf(named("String"), false)},
		{Name: "j", Type: named("JSON")},
		{Name: "id", Type: named("ID")},
		{Name: "c", Type: named("Color"), Default: gen.EnumV("GREEN")},
		{Name: "req", Type: nonNull("Boolean"), Default: gen.BoolV(true)},
		{Name: "ll", Type: gen.ListOf(gen.ListOf(named("Float"), false), false)},
		{Name: "sd", Type: named("String"), Default: gen.StrV("dflt")},
	}
	s.Add(&gen.TypeDef{Name: "Inner", Kind: gen.Input, InputFields: inner})
	in := append([]*gen.Arg{}, inner...)
	in = append(in, &gen.Arg{Name: "nested", Type: named("Inner")}, &gen.Arg{Name: "items", Type: gen.ListOf(nonNull("Inner"), false)}, &gen.Arg{Name: "self", Type: named("In")})
	s.Add(&gen.TypeDef{Name: "In", Kind: gen.Input, InputFields: in})
	str := func(name string, args ...*gen.Arg) *gen.Field {
		return &gen.Field{Name: name, Type: named("String"), Args: args}
	}
	common := []*gen.Field{
		str("str", &gen.Arg{Name: "s", Type: named("String")}),
		str("strReq", &gen.Arg{Name: "s", Type: nonNull("String")}),
		str("idf", &gen.Arg{Name: "id", Type: named("ID")}),
		str("flt", &gen.Arg{Name: "f", Type: named("Float")}),
		str("int", &gen.Arg{Name: "n", Type: named("Int")}),
		str("js", &gen.Arg{Name: "j", Type: named("JSON")}),
		str("inp", &gen.Arg{Name: "in", Type: named("In")}),
		str("strs", &gen.Arg{Name: "l", Type: gen.ListOf(named("String"), false)}),
		str("flts", &gen.Arg{Name: "l", Type: gen.ListOf(gen.ListOf(named("Float"), false), false)}),
		str("def", &gen.Arg{Name: "s", Type: named("String"), Default: gen.StrV("dflt")}, &gen.Arg{Name: "n", Type: named("Int"), Default: gen.IntV(7)}, &gen.Arg{Name: "c", Type: named("Color"), Default: gen.EnumV("GREEN")}, &gen.Arg{Name: "f", Type: named("Float")}),
		str("two", &gen.Arg{Name: "a", Type: named("String")}, &gen.Arg{Name: "b", Type: named("String")}),
		str("js2", &gen.Arg{Name: "j", Type: named("JSON")}),
		str("idf2", &gen.Arg{Name: "id", Type: named("ID")}),
		str("jss", &gen.Arg{Name: "l", Type: gen.ListOf(named("JSON"), false)}),
		str("ids", &gen.Arg{Name: "l", Type: gen.ListOf(named("ID"), false)}),
	}
	obj := &gen.TypeDef{Name: "Obj", Kind: gen.Object}
	obj.Fields = append(obj.Fields, common...)
	obj.Fields = append(obj.Fields, &gen.Field{Name: "child", Type: named("Obj")})
	s.Add(obj)
	q := &gen.TypeDef{Name: "Query", Kind: gen.Object}
	q.Fields = append(q.Fields, common...)
	q.Fields = append(q.Fields, &gen.Field{Name: "obj", Type: named("Obj"), Args: []*gen.Arg{{Name: "id", Type: named("ID")}}})
	s.Add(q)
	return s
}

// ---------------------------------------------------------------------------------------------
// twin literals: literals of different kinds with the same spelling ("1" and 1, "null" and null,
// "[]" and []) on arguments of one type that admits both (ID, custom scalars). Their spelling is
// the point, so they are never re-spelled.

var twinGroups = [][]func() *gen.Val{
	{func() *gen.Val { return gen.StrV("1") }, func() *gen.Val { return gen.IntV(1) }},
	{func() *gen.Val { return gen.StrV("1.5") }, func() *gen.Val { return gen.FloatV(1.5) }},
	{func() *gen.Val { return gen.StrV("true") }, func() *gen.Val { return gen.BoolV(true) }},
	{func() *gen.Val { return gen.StrV("false") }, func() *gen.Val { return gen.BoolV(false) }},
	{func() *gen.Val { return gen.StrV("null") }, func() *gen.Val { return gen.Null() }},
	{func() *gen.Val { return gen.StrV("[]") }, func() *gen.Val { return gen.ListV() }},
	{func() *gen.Val { return gen.StrV("{}") }, func() *gen.Val { return gen.ObjV() }},
	{func() *gen.Val { return gen.StrV("") }, func() *gen.Val { return gen.StrV("0") }, func() *gen.Val { return gen.IntV(0) }},
}

// twinValues draws 2-3 values, mostly from one group (same spelling, different kinds), in random
// order. forID: only what an ID argument admits (strings, integers, null); nullable: null allowed.
func twinValues(r *rand.Rand, forID, nullable bool) []*gen.Val {
	for {
		g := twinGroups[r.IntN(len(twinGroups))]
		n := 2 + r.IntN(2)
		var out []*gen.Val
		for i := 0; i < n; i++ {
			mk := g[i%len(g)]
			if i >= len(g) && r.IntN(2) == 0 {
				og := twinGroups[r.IntN(len(twinGroups))]
				mk = og[r.IntN(len(og))]
			}
			out = append(out, mk())
		}
		ok := true
		for _, v := range out {
			switch v.Kind {
			case gen.VNull:
				ok = ok && nullable
			case gen.VString, gen.VInt:
			default:
				ok = ok && !forID
			}
		}
		if !ok {
			continue
		}
		r.Shuffle(len(out), func(i, j int) { out[i], out[j] = out[j], out[i] })
		// the string first at least half of the time: de-duplication looks at earlier extractions
		if r.IntN(2) == 0 {
			for i, v := range out {
				if v.Kind == gen.VString {
					out[0], out[i] = out[i], out[0]
					break
				}
			}
		}
		return out
	}
}

// twinFields: aliased fields carrying twin literals, in document order.
func (b *bundleGen) twinFields(parent *gen.TypeDef) []*gen.FieldSel {
	forID := b.r.IntN(3) == 0
	vals := twinValues(b.r, forID, true)
	for _, v := range vals {
		b.fixed[v] = true
	}
	direct, other, list, objField := "js", "js2", "jss", "j"
	argn := "j"
	if forID {
		direct, other, list, objField, argn = "idf", "idf2", "ids", "id", "id"
	}
	var out []*gen.FieldSel
	switch b.r.IntN(6) {
	case 0, 1: // the same field under different aliases
		for _, v := range vals {
			out = append(out, b.field(parent, direct, arg(argn, v)))
		}
	case 2: // different fields with the same argument type
		for i, v := range vals {
			out = append(out, b.field(parent, []string{direct, other}[i%2], arg(argn, v)))
		}
	case 3: // inside an input object field of that type
		for i, v := range vals {
			o := gen.ObjV(gen.ObjField{Name: objField, Val: v})
			if i == 1 && b.r.IntN(2) == 0 {
				o = gen.ObjV(gen.ObjField{Name: "nested", Val: gen.ObjV(gen.ObjField{Name: objField, Val: v})})
			}
			out = append(out, b.field(parent, "inp", arg("in", o)))
		}
	case 4: // inside a list / as a single item where a list is expected
		single := b.r.IntN(2) == 0
		for _, v := range vals {
			if single && v.Kind != gen.VNull && v.Kind != gen.VList {
				out = append(out, b.field(parent, list, arg("l", v)))
			} else {
				out = append(out, b.field(parent, list, arg("l", gen.ListV(v))))
			}
		}
	default: // one list holding all of them next to the direct arguments
		out = append(out, b.field(parent, list, arg("l", gen.ListV(vals...))))
		for _, v := range twinValues(b.r, forID, true) {
			b.fixed[v] = true
			out = append(out, b.field(parent, direct, arg(argn, v)))
		}
	}
	return out
}

type bundleGen struct {
	fixed map[*gen.Val]bool
	r     *rand.Rand
	s     *gen.Schema
	op    *gen.Op
	vals  map[string]*gen.Val
	n     int
	alias int
	varN  int
}

func (b *bundleGen) pStr() *gen.Val   { b.n++; return gen.StrV(fmt.Sprintf("p%d", b.n)) }
func (b *bundleGen) pInt() *gen.Val   { b.n++; return gen.IntV(int64(1000 + b.n)) }
func (b *bundleGen) pFloat() *gen.Val { b.n++; return gen.FloatV(float64(b.n) + 0.5) }

func (b *bundleGen) color() *gen.Val {
	return gen.EnumV([]string{"RED", "GREEN", "BLUE"}[b.r.IntN(3)])
}

// jsonScalar: a literal for the custom scalar.
func (b *bundleGen) jsonScalar(depth int) *gen.Val {
	switch b.r.IntN(8) {
	case 0:
		return b.pStr()
	case 1, 2:
		return b.pFloat()
	case 3:
		return gen.BoolV(b.r.IntN(2) == 0)
	case 4:
		if depth < 2 {
			return gen.ListV(b.jsonScalar(depth+1), b.jsonScalar(depth+1), gen.Null())
		}
	case 5:
		if depth < 2 {
			return gen.ObjV(gen.ObjField{Name: "k", Val: b.jsonScalar(depth + 1)}, gen.ObjField{Name: "n", Val: b.pFloat()}, gen.ObjField{Name: "e", Val: b.color()})
		}
	case 6:
		return b.pInt()
	}
	return b.pStr()
}

func (b *bundleGen) inner(depth int, self bool) *gen.Val {
	var fs []gen.ObjField
	add := func(n string, v *gen.Val) { fs = append(fs, gen.ObjField{Name: n, Val: v}) }
	pick := func() bool { return b.r.IntN(3) == 0 }
	if pick() {
		add("s", b.pStr())
	}
	if pick() {
		add("n", []*gen.Val{b.pInt(), gen.Null()}[b.r.IntN(2)])
	}
	if pick() {
		add("f", b.pFloat())
	}
	if pick() {
		add("l", gen.ListV(b.pStr(), gen.Null(), b.pStr()))
	}
	if pick() {
		add("j", b.jsonScalar(1))
	}
	if pick() {
		add("id", []*gen.Val{b.pStr(), b.pInt()}[b.r.IntN(2)])
	}
	if pick() {
		add("c", []*gen.Val{b.color(), gen.Null()}[b.r.IntN(2)])
	}
	if pick() {
		add("ll", gen.ListV(gen.ListV(b.pFloat(), gen.Null()), gen.Null(), gen.ListV()))
	}
	if pick() {
		add("sd", []*gen.Val{b.pStr(), gen.Null()}[b.r.IntN(2)])
	}
	if b.r.IntN(6) == 0 {
		add("req", gen.BoolV(false))
	}
	if self && depth < 2 {
		if pick() {
			add("nested", b.inner(depth+1, false))
		}
		if pick() {
			add("items", gen.ListV(b.inner(depth+1, false), b.inner(depth+1, false)))
		}
		if b.r.IntN(5) == 0 {
			add("self", b.inner(depth+1, true))
		}
	}
	if len(fs) == 0 {
		add("s", b.pStr())
	}
	b.r.Shuffle(len(fs), func(i, j int) { fs[i], fs[j] = fs[j], fs[i] })
	return gen.ObjV(fs...)
}

func (b *bundleGen) field(parent *gen.TypeDef, name string, args ...*gen.ArgVal) *gen.FieldSel {
	b.alias++
	return &gen.FieldSel{Alias: fmt.Sprintf("a%d", b.alias), Name: name, Args: args, Def: parent.Field(name), Parent: parent.Name}
}

func arg(n string, v *gen.Val) *gen.ArgVal { return &gen.ArgVal{Name: n, Val: v} }

// leafField: one aliased field carrying fresh leaves.
func (b *bundleGen) leafField(parent *gen.TypeDef) *gen.FieldSel {
	switch b.r.IntN(16) {
	case 0, 1, 2:
		return b.field(parent, "str", arg("s", b.pStr()))
	case 3:
		return b.field(parent, "strReq", arg("s", b.pStr()))
	case 4:
		return b.field(parent, "idf", arg("id", []*gen.Val{b.pStr(), b.pInt()}[b.r.IntN(2)]))
	case 5, 6:
		return b.field(parent, "flt", arg("f", b.pFloat()))
	case 7:
		return b.field(parent, "int", arg("n", b.pInt()))
	case 8, 9:
		return b.field(parent, "js", arg("j", b.jsonScalar(0)))
	case 10, 11:
		return b.field(parent, "inp", arg("in", b.inner(0, true)))
	case 12:
		switch b.r.IntN(3) {
		case 0:
			return b.field(parent, "strs", arg("l", b.pStr())) // single item where a list is expected
		case 1:
			return b.field(parent, "strs", arg("l", gen.ListV()))
		}
		return b.field(parent, "strs", arg("l", gen.ListV(b.pStr(), b.pStr(), gen.Null())))
	case 13:
		return b.field(parent, "flts", arg("l", gen.ListV(gen.ListV(b.pFloat(), b.pFloat()), gen.Null(), gen.ListV(gen.Null()))))
	case 14:
		var as []*gen.ArgVal
		if b.r.IntN(2) == 0 {
			as = append(as, arg("s", []*gen.Val{b.pStr(), gen.Null()}[b.r.IntN(2)]))
		}
		if b.r.IntN(2) == 0 {
			as = append(as, arg("n", []*gen.Val{b.pInt(), gen.Null()}[b.r.IntN(2)]))
		}
		if b.r.IntN(2) == 0 {
			as = append(as, arg("c", []*gen.Val{b.color(), gen.Null()}[b.r.IntN(2)]))
		}
		if b.r.IntN(2) == 0 {
			as = append(as, arg("f", b.pFloat()))
		}
		return b.field(parent, "def", as...)
	}
	return b.field(parent, "two", arg("b", b.pStr()), arg("a", b.pStr()))
}

// newVar declares a variable in one of the states of the absent / null / value / default matrix
// and returns its use.
func (b *bundleGen) newVar(t *gen.TypeRef, value func() *gen.Val) *gen.Val {
	b.varN++
	vd := &gen.VarDef{Name: fmt.Sprintf("o%d", b.varN), Type: t}
	b.op.Vars = append(b.op.Vars, vd)
	switch b.r.IntN(6) {
	case 0: // omitted, no default
	case 1: // explicit null
		b.vals[vd.Name] = gen.Null()
	case 2: // value
		b.vals[vd.Name] = value()
	case 3: // omitted with a default
		vd.Default = value()
	case 4: // omitted with a null default
		vd.Default = gen.Null()
	case 5: // explicit null although there is a default
		vd.Default = value()
		b.vals[vd.Name] = gen.Null()
	}
	return gen.VarV(vd.Name)
}

func (b *bundleGen) matrixField(parent *gen.TypeDef) *gen.FieldSel {
	str := func() *gen.Val { return b.newVar(named("String"), b.pStr) }
	switch b.r.IntN(5) {
	case 0:
		return b.field(parent, "def", arg("s", str()), arg("n", b.newVar(named("Int"), b.pInt)), arg("c", b.newVar(named("Color"), b.color)), arg("f", b.newVar(named("Float"), b.pFloat)))
	case 1:
		return b.field(parent, "inp", arg("in", gen.ObjV(
			gen.ObjField{Name: "s", Val: str()},
			gen.ObjField{Name: "n", Val: b.newVar(named("Int"), b.pInt)},
			gen.ObjField{Name: "sd", Val: str()},
			gen.ObjField{Name: "c", Val: b.newVar(named("Color"), b.color)},
			gen.ObjField{Name: "l", Val: gen.ListV(str(), b.pStr())},
			gen.ObjField{Name: "nested", Val: gen.ObjV(gen.ObjField{Name: "s", Val: str()}, gen.ObjField{Name: "j", Val: b.newVar(named("JSON"), func() *gen.Val { return b.jsonScalar(0) })})},
			gen.ObjField{Name: "items", Val: gen.ListV(gen.ObjV(gen.ObjField{Name: "sd", Val: str()}, gen.ObjField{Name: "f", Val: b.newVar(named("Float"), b.pFloat)}))},
		)))
	case 2:
		return b.field(parent, "inp", arg("in", b.newVar(named("In"), func() *gen.Val { return b.inner(0, true) })))
	case 3:
		return b.field(parent, "strs", arg("l", b.newVar(gen.ListOf(named("String"), false), func() *gen.Val {
			if b.r.IntN(3) == 0 {
				return b.pStr()
			}
			return gen.ListV(b.pStr(), gen.Null())
		})))
	}
	return b.field(parent, "two", arg("a", str()), arg("b", str()))
}

func buildBundle(r *rand.Rand, idx int) *opCase {
	s := bundleSchema()
	b := &bundleGen{r: r, s: s, op: &gen.Op{Kind: "query", Name: "Q"}, vals: map[string]*gen.Val{}, fixed: map[*gen.Val]bool{}}
	q, obj := s.Type("Query"), s.Type("Obj")
	nLeaf := 6 + r.IntN(10)
	for i := 0; i < nLeaf; i++ {
		b.op.Sel = append(b.op.Sel, &gen.Sel{Field: b.leafField(q)})
	}
	for i := 0; i < 1+r.IntN(3); i++ {
		b.op.Sel = append(b.op.Sel, &gen.Sel{Field: b.matrixField(q)})
	}
	// nested positions
	if r.IntN(2) == 0 {
		o := b.field(q, "obj", arg("id", []*gen.Val{b.pStr(), b.pInt()}[r.IntN(2)]))
		o.Sel = append(o.Sel, &gen.Sel{Field: b.leafField(obj)}, &gen.Sel{Field: b.matrixField(obj)})
		ch := &gen.FieldSel{Name: "child", Def: obj.Field("child"), Parent: "Obj"}
		ch.Sel = append(ch.Sel, &gen.Sel{Field: b.leafField(obj)})
		o.Sel = append(o.Sel, &gen.Sel{Field: ch})
		b.op.Sel = append(b.op.Sel, &gen.Sel{Field: o})
	}
	// a field under @skip / @include with a variable condition
	if r.IntN(2) == 0 {
		f := b.leafField(q)
		b.varN++
		vd := &gen.VarDef{Name: fmt.Sprintf("b%d", b.varN), Type: nonNull("Boolean")}
		cond := r.IntN(2) == 0
		if r.IntN(3) == 0 {
			vd.Default = gen.BoolV(cond)
		} else {
			b.vals[vd.Name] = gen.BoolV(cond)
		}
		b.op.Vars = append(b.op.Vars, vd)
		f.Dirs = []*gen.Dir{{Name: []string{"skip", "include"}[r.IntN(2)], Args: []*gen.ArgVal{{Name: "if", Val: gen.VarV(vd.Name)}}}}
		b.op.Sel = append(b.op.Sel, &gen.Sel{Field: f})
	}
	r.Shuffle(len(b.op.Sel), func(i, j int) { b.op.Sel[i], b.op.Sel[j] = b.op.Sel[j], b.op.Sel[i] })
	// twin literals: inserted after the shuffle (their order is part of the shape), each at a random
	// place behind the previous one, at the root or below obj
	if idx%2 == 0 {
		for k := 0; k < 1+r.IntN(2); k++ {
			pos := 0
			for _, f := range b.twinFields(q) {
				pos += r.IntN(len(b.op.Sel) - pos + 1)
				b.op.Sel = append(b.op.Sel[:pos], append([]*gen.Sel{{Field: f}}, b.op.Sel[pos:]...)...)
				pos++
			}
		}
		if r.IntN(3) == 0 {
			o := b.field(q, "obj", arg("id", b.pInt()))
			for _, f := range b.twinFields(obj) {
				o.Sel = append(o.Sel, &gen.Sel{Field: f})
			}
			b.op.Sel = append(b.op.Sel, &gen.Sel{Field: o})
		}
	}
	if len(b.op.Vars) == 0 && r.IntN(2) == 0 {
		b.op.Name = ""
	}
	doc := &gen.Doc{Ops: []*gen.Op{b.op}}
	// some of the fields move into a named fragment / an inline fragment (aliases are unique, so
	// the flattened operation is the same)
	if idx%4 == 1 && len(b.op.Sel) > 4 {
		k := 1 + r.IntN(3)
		fr := &gen.Frag{Name: "BF", On: "Query", Sel: append([]*gen.Sel(nil), b.op.Sel[:k]...)}
		in := &gen.InlineFrag{On: []string{"Query", ""}[r.IntN(2)], Parent: "Query", Sel: append([]*gen.Sel(nil), b.op.Sel[k:k+1]...)}
		rest := append([]*gen.Sel{{Spread: &gen.Spread{Name: "BF", Parent: "Query"}}, {Inline: in}}, b.op.Sel[k+1:]...)
		b.op.Sel = rest
		doc.Frags = append(doc.Frags, fr)
	}
	c := newCase(s, doc, b.op.Name, b.vals)
	c.fixed = b.fixed
	c.jsonStyle = idx % 4
	c.spellAll(r, idx)
	return c
}

// spellAll assigns spellings to every leaf of the case: arguments, variable defaults, variable values.
func (c *opCase) spellAll(r *rand.Rand, idx int) {
	k := idx
	sp := &speller{c: c, r: r}
	sp.focus = func() (string, bool, string) {
		k++
		qf := ""
		if m := k % (len(quotedFeatures) + 2); m < len(quotedFeatures) {
			qf = quotedFeatures[m]
		}
		jf := ""
		if m := k % (len(jsonFeatures) + 2); m < len(jsonFeatures) {
			jf = jsonFeatures[m]
		}
		return qf, k%4 == 0, jf
	}
	for _, vr := range c.argRefs() {
		if vr.field == nil || vr.field.Def == nil {
			continue
		}
		ad := vr.field.Def.Arg(vr.arg.Name)
		if ad == nil {
			continue
		}
		sp.spellTree(*vr.ref, ad.Type, "lit")
	}
	op := c.mainOp()
	for _, vd := range op.Vars {
		if vd.Default != nil {
			sp.spellTree(vd.Default, vd.Type, "lit")
		}
		if v, ok := c.vals[vd.Name]; ok {
			sp.spellTree(v, vd.Type, "json")
		}
	}
}

// ---------------------------------------------------------------------------------------------
// generated schema + operation

func buildGenerated(r *rand.Rand, idx int) (*opCase, string) {
	sp := gen.DefaultProfile(r)
	sp.Scalars = 1 + r.IntN(2)
	sp.Inputs = 1 + r.IntN(3)
	sp.OneOf = idx%2 == 0
	schema := gen.GenSchema(r, sp)
	var doc *gen.Doc
	var vals map[string]*gen.Val
	opName := ""
	for try := 0; ; try++ {
		op := gen.OpProfile{MaxDepth: 1 + r.IntN(2), MaxFields: 2 + r.IntN(3), Variables: true, Aliases: true, Typename: true,
			Fragments: idx%4 == 0, Directives: idx%3 == 0, Duplicates: idx%5 == 0, MultiOps: idx%10 == 0, VarBias: 3 + r.IntN(4)}
		if schema.Mutation != "" && idx%11 == 0 {
			op.Kind = "mutation"
		}
		doc, vals = gen.GenOperation(r, schema, op)
		opName = ""
		if op.MultiOps {
			opName = "Main"
		}
		if !gen.UnionFragmentInNonUnionParent(schema, doc) || try > 5 {
			break
		}
	}
	if gen.UnionFragmentInNonUnionParent(schema, doc) {
		return nil, "union fragment in a non-union parent (open finding C01-F1)"
	}
	c := newCase(schema, doc, opName, vals)
	if idx%2 == 0 {
		c.addTwinsGenerated(r)
	}
	// the absent / null / value matrix for nullable variables
	for _, vd := range c.mainOp().Vars {
		if vd.Type.NonNull {
			continue
		}
		switch r.IntN(4) {
		case 0:
			delete(vals, vd.Name)
		case 1:
			vals[vd.Name] = gen.Null()
		}
	}
	c.jsonStyle = idx % 4
	c.spellAll(r, idx)
	return c, ""
}

// addTwinsGenerated appends, to the main operation of a generated case, aliased selections of a
// root field that has an ID / custom scalar argument (all other arguments optional), carrying twin
// literals.
func (c *opCase) addTwinsGenerated(r *rand.Rand) {
	op := c.mainOp()
	rootName := c.schema.Query
	if op.Kind == "mutation" {
		rootName = c.schema.Mutation
	}
	root := c.schema.Type(rootName)
	if root == nil || op.Kind == "subscription" {
		return
	}
	type cand struct {
		f *gen.Field
		a *gen.Arg
	}
	var cands []cand
	for _, f := range root.Fields {
		for _, a := range f.Args {
			cls := c.typeClass(a.Type.NamedType())
			if cls != "ID" && cls != "scalar" {
				continue
			}
			if a.Type.Elem != nil && a.Type.Elem.Elem != nil {
				continue // nested lists: single-item coercion is another topic
			}
			ok := true
			for _, o := range f.Args {
				if o != a && o.Type.NonNull && o.Default == nil {
					ok = false
				}
			}
			if ok {
				cands = append(cands, cand{f, a})
			}
		}
	}
	if len(cands) == 0 {
		return
	}
	for k := 0; k < 1+r.IntN(2); k++ {
		cd := cands[r.IntN(len(cands))]
		isList := cd.a.Type.Elem != nil
		itemNullable := !cd.a.Type.NonNull
		if isList {
			itemNullable = !cd.a.Type.Elem.NonNull
		}
		vals := twinValues(r, c.typeClass(cd.a.Type.NamedType()) == "ID", itemNullable)
		wrap := isList && r.IntN(2) == 0
		pos := 0
		for i, v := range vals {
			c.fixed[v] = true
			av := v
			if isList && (wrap || v.Kind == gen.VNull || v.Kind == gen.VList) {
				av = gen.ListV(v)
			}
			fs := &gen.FieldSel{Alias: fmt.Sprintf("tw%d_%d", k, i), Name: cd.f.Name, Def: cd.f, Parent: rootName, Args: []*gen.ArgVal{{Name: cd.a.Name, Val: av}}}
			if c.schema.IsComposite(cd.f.Type.NamedType()) {
				fs.Sel = []*gen.Sel{{Field: &gen.FieldSel{Name: "__typename", Parent: cd.f.Type.NamedType()}}}
			}
			pos += r.IntN(len(op.Sel) - pos + 1)
			op.Sel = append(op.Sel[:pos], append([]*gen.Sel{{Field: fs}}, op.Sel[pos:]...)...)
			pos++
		}
	}
}

// ---------------------------------------------------------------------------------------------
// federated layout + operation

func buildFederated(r *rand.Rand, idx int) (*opCase, *fed.Layout, string) {
	prof := fed.RandomProfile(r)
	l := fed.GenLayout(r, prof)
	var doc *gen.Doc
	var vals map[string]*gen.Val
	for try := 0; ; try++ {
		op := gen.OpProfile{MaxDepth: 2 + r.IntN(2), MaxFields: 2 + r.IntN(3), Variables: true, Aliases: true, Typename: true,
			Fragments: idx%4 == 1, Directives: idx%3 == 1, VarBias: 3 + r.IntN(4), NoSingletonVars: true,
			// only fields that take arguments or lead to some: keeps the operations about arguments
		}
		if l.Super.Mutation != "" && idx%5 == 0 {
			op.Kind = "mutation"
		}
		doc, vals = gen.GenOperation(r, l.Super, op)
		if !gen.UnionFragmentInNonUnionParent(l.Super, doc) || try > 5 {
			break
		}
	}
	if gen.UnionFragmentInNonUnionParent(l.Super, doc) {
		return nil, nil, "union fragment in a non-union parent (open finding C01-F1)"
	}
	c := newCase(l.Super, doc, "", vals)
	for _, vd := range c.mainOp().Vars {
		if vd.Type.NonNull {
			continue
		}
		switch r.IntN(4) {
		case 0:
			delete(vals, vd.Name)
		case 1:
			vals[vd.Name] = gen.Null()
		}
	}
	c.jsonStyle = idx % 4
	c.spellAll(r, idx)
	return c, l, ""
}

func newFedWorld(l *fed.Layout, seed uint64) (*world, error) {
	ss, err := rig.LoadSchemas(l.SuperSDL)
	if err != nil {
		return nil, fmt.Errorf("supergraph self-check: %v", err)
	}
	eng, err := rig.NewAdmissionEngine(ss.Repo)
	if err != nil {
		return nil, fmt.Errorf("engine construction: %v", err)
	}
	ents := map[string]bool{}
	for e := range l.Entities {
		ents[e] = true
	}
	u := &ref.Universe{Seed: seed, Schema: ss.Gql, NullRate: 1, Entities: ents, PoolSize: 4, MaxList: 2}
	gw, err := fed.NewGateway(l, ss.Gql, u, fed.GatewayOptions{})
	if err != nil {
		eng.Close()
		return nil, fmt.Errorf("gateway construction: %v", err)
	}
	return &world{ss: ss, eng: eng, gw: gw, co: &coercer{schema: ss.Gql}, layout: l, universe: u}, nil
}

// ---------------------------------------------------------------------------------------------

func newWorld(s *gen.Schema, sdl string, seed uint64) (*world, error) {
	ss, err := rig.LoadSchemas(sdl)
	if err != nil {
		return nil, fmt.Errorf("schema self-check: %v", err)
	}
	eng, err := rig.NewAdmissionEngine(ss.Repo)
	if err != nil {
		return nil, fmt.Errorf("engine construction: %v", err)
	}
	u := &ref.Universe{Seed: seed, Schema: ss.Gql, NullRate: 0, MaxList: 1}
	gw, err := fed.NewGateway(singleLayout(s, sdl), ss.Gql, u, fed.GatewayOptions{})
	if err != nil {
		eng.Close()
		return nil, fmt.Errorf("gateway construction: %v", err)
	}
	return &world{ss: ss, eng: eng, gw: gw, co: &coercer{schema: ss.Gql}}, nil
}

func (p c15) Run(c *fw.Ctx, idx int) fw.Result {
	res := fw.Result{}
	r := c.Rng(idx, "c15")
	var oc *opCase
	var layout *fed.Layout
	kind := "bundle"
	if idx%6 == 5 {
		kind = "federated"
		var skip string
		oc, layout, skip = buildFederated(r, idx)
		if oc == nil {
			res.Inconclusive = "generator-steered-away: " + skip
			res.Key = fw.HashKey("c15-skip", idx)
			return res
		}
	} else if idx%3 == 2 {
		kind = "generated"
		var skip string
		oc, skip = buildGenerated(r, idx)
		if oc == nil {
			res.Inconclusive = "generator-steered-away: " + skip
			res.Key = fw.HashKey("c15-skip", idx)
			return res
		}
	} else {
		oc = buildBundle(r, idx)
	}
	sdl := oc.schema.SDL()
	var w *world
	var err error
	if layout != nil {
		w, err = newFedWorld(layout, r.Uint64())
	} else {
		w, err = newWorld(oc.schema, sdl, r.Uint64())
	}
	if err != nil {
		res.Broken(err.Error(), map[string]any{"sdl": sdl})
		return res
	}
	defer w.close()
	text, vars := oc.render(func(*leaf) bool { return true })
	// self-check of the construction: every spelling denotes what the construction says
	for _, l := range oc.leaves {
		if why := l.selfCheck(); why != "" {
			res.Broken("spelling self-check: "+why, map[string]any{"literal": l.literalText(), "json": l.js, "denoted": l.den})
			return res
		}
	}
	base := map[string]any{"case_kind": kind, "operationName": oc.opName}
	if kind == "federated" {
		base["supergraph"] = sdl
		base["layout"] = layout.Describe
		for _, sg := range layout.Subgraphs {
			base["sdl_"+sg.Name] = sg.SDL
		}
	} else if kind == "generated" {
		base["sdl"] = sdl
	} else {
		base["sdl"] = "(fixed bundle schema) " + sdl
	}
	fw.SetContext(map[string]any{"case_kind": kind, "sdl": sdl, "operation": text, "variables": vars})
	res.Count("cases_"+kind, 1)
	res.Count("leaves_generated", int64(len(oc.leaves)))
	res.Count("twin_literals", int64(len(oc.fixed)))
	nOmitted, nNull := 0, 0
	for _, vd := range oc.mainOp().Vars {
		v, ok := oc.vals[vd.Name]
		switch {
		case !ok:
			nOmitted++
		case v.Kind == gen.VNull:
			nNull++
		}
	}
	j := &judge{w: w, c: oc, res: &res, base: base, reported: map[string]bool{}, budget: 150, microCache: map[string]microResult{}}
	j.judgeCase()
	if j.mw != nil {
		j.mw.close()
	}
	if res.Counters["runs_judged"] > 0 {
		res.Count("omitted_variables_judged", int64(nOmitted))
		res.Count("null_variables_judged", int64(nNull))
	}
	res.Key = fw.HashKey(sdl, text, vars)
	res.Nontrivial = res.Counters["leaves_exotic_judged"] > 0
	res.Sample = map[string]any{"case_kind": kind, "operation": truncate(text, 1500), "variables": truncate(vars, 800)}
	return res
}

// selfCheck: the reference decoders agree with the construction, literal and JSON forms denote the
// same value, the canonical spellings denote it too.
func (l *leaf) selfCheck() string {
	if l.str {
		var d string
		var ok bool
		if l.block {
			ok, d = validBlockRaw(l.lit), blockValue(l.lit)
		} else {
			d, ok = decodeQuoted(l.lit)
		}
		if !ok || d != l.den {
			return fmt.Sprintf("literal %+q decodes to %+q (ok=%v), construction says %+q", l.literalText(), d, ok, l.den)
		}
		if jd, ok := decodeJSONString(l.js); !ok || jd != l.den {
			return fmt.Sprintf("JSON %+q decodes to %+q (ok=%v), construction says %+q", l.js, jd, ok, l.den)
		}
		if cd, ok := decodeQuoted(l.canonLiteral()); !ok || cd != l.den {
			return fmt.Sprintf("canonical literal %+q decodes to %+q", l.canonLiteral(), cd)
		}
		return ""
	}
	a, ok1 := numRat(l.lit)
	b, ok2 := numRat(l.canonLiteral())
	cj, ok3 := numRat(l.js)
	if !ok1 || !ok2 || !ok3 || a.Cmp(b) != 0 || a.Cmp(cj) != 0 {
		return fmt.Sprintf("number spellings %q / %q / %q do not denote the same value", l.lit, l.canonLiteral(), l.js)
	}
	if isIntToken(l.lit) != isIntToken(l.canonLiteral()) {
		return fmt.Sprintf("canonical spelling %q of %q changes the token kind", l.canonLiteral(), l.lit)
	}
	return ""
}
