package c15

// Attribution of a violation to the spelling that causes it. Every non-canonical leaf of the failing
// rendering is sent ALONE, as the only argument of a one-field operation on the fixed bundle schema
// (literal leaves as literal, JSON leaves as the value of the only variable); a leaf whose
// one-field operation violates the property is a culprit, its spelling is minimised (delta
// debugging) in that one-field operation and the violation is reported with the features of the
// minimised witness. Afterwards the full operation is run again with the culprits spelled
// canonically: whatever still fires is reported on its own (context dependent).

import (
	"encoding/json"
	"fmt"
	"sort"
	"strings"

	"verifharness/internal/gen"
)

func (j *judge) microWorld() *world {
	if j.mw != nil || j.mwErr != nil {
		return j.mw
	}
	s := bundleSchema()
	j.mw, j.mwErr = newWorld(s, s.SDL(), 7)
	return j.mw
}

// microOp builds the one-field operation carrying the spelling (and its canonical twin).
func microOp(typ, lk, spelling string) (text, vars, canonText, canonVars string, ok bool) {
	field, argn, gqlType := "str", "s", "String"
	switch typ {
	case "ID":
		field, argn, gqlType = "idf", "id", "ID"
	case "Float":
		field, argn, gqlType = "flt", "f", "Float"
	case "Int":
		field, argn, gqlType = "int", "n", "Int"
	case "scalar":
		field, argn, gqlType = "js", "j", "JSON"
	}
	var lit, canon string
	switch lk {
	case "quoted":
		d, okd := decodeQuoted(spelling)
		if !okd {
			return
		}
		lit, canon = spelling, gen.QuoteGraphQL(d)
	case "block":
		if !validBlockRaw(spelling) {
			return
		}
		lit, canon = `"""`+spelling+`"""`, gen.QuoteGraphQL(blockValue(spelling))
	case "number":
		if !validNumber(spelling) {
			return
		}
		lit, canon = spelling, plainDecimal(spelling)
	case "jstring":
		d, okd := decodeJSONString(spelling)
		if !okd {
			return
		}
		b, _ := json.Marshal(d)
		lit, canon = spelling, string(b)
	case "jnumber":
		if !validNumber(spelling) {
			return
		}
		lit, canon = spelling, plainDecimal(spelling)
	default:
		return
	}
	if lk == "jstring" || lk == "jnumber" {
		text = fmt.Sprintf("query Q($v: %s) { %s(%s: $v) }", gqlType, field, argn)
		return text, `{"v":` + lit + `}`, text, `{"v":` + canon + `}`, true
	}
	return fmt.Sprintf("{ %s(%s: %s) }", field, argn, lit), "", fmt.Sprintf("{ %s(%s: %s) }", field, argn, canon), "", true
}

type microResult struct {
	findings []finding
	text     string
	vars     string
}

// micro runs the one-field operation; findings that also occur with the canonical spelling are dropped.
func (j *judge) micro(typ, lk, spelling string) (microResult, bool) {
	mw := j.microWorld()
	if mw == nil {
		return microResult{}, false
	}
	text, vars, ctext, cvars, ok := microOp(typ, lk, spelling)
	if !ok {
		return microResult{}, false
	}
	j.res.Count("attribution_runs", 1)
	exp := mw.expect(ctext, "", cvars)
	if exp.err != "" {
		return microResult{}, false
	}
	exp.declared = map[string]bool{}
	rr := mw.run(text, "", vars, exp)
	out := microResult{text: text, vars: vars}
	if len(rr.findings) == 0 {
		return out, true
	}
	base := mw.run(ctext, "", cvars, exp)
	bk := map[string]bool{}
	for _, f := range base.findings {
		bk[f.key()] = true
	}
	for _, f := range rr.findings {
		if !bk[f.key()] {
			out.findings = append(out.findings, f)
		}
	}
	return out, true
}

// witnessClass reduces the features of a minimised witness to the class used for matching.
func witnessClass(lk, spelling string) string {
	fs := featuresOf(lk, spelling)
	has := func(x string) bool {
		for _, f := range fs {
			if f == x {
				return true
			}
		}
		return false
	}
	switch lk {
	case "block":
		switch {
		case has("bs-escaped-triple-quote"):
			return "bs-escaped-triple-quote"
		case has("bs-quote"):
			return "bs-quote"
		case has("bs-empty-value") && spelling != "":
			return "bs-blank-only"
		}
	case "number", "jnumber":
		if has("num-exponent-sign") && has("num-exponent-without-fraction") {
			return "num-exponent-sign-without-fraction"
		}
	}
	var keep []string
	for _, f := range fs {
		switch f {
		case "block", "number", "json-number", "json-string":
			continue
		}
		keep = append(keep, f)
	}
	if len(keep) == 0 {
		return "plain"
	}
	return strings.Join(keep, ",")
}

func exoticFeatureCount(lk, spelling string) int {
	n := 0
	for _, f := range featuresOf(lk, spelling) {
		switch f {
		case "block", "number", "json-number", "json-string":
		default:
			n++
		}
	}
	return n
}

// minimise shrinks spelling while the one-field operation still shows a finding of the kind.
func (j *judge) minimise(typ, lk, spelling, kind string, first microResult) (string, microResult, finding) {
	pick := func(m microResult) (finding, bool) {
		for _, f := range m.findings {
			if f.kind == kind {
				return f, true
			}
		}
		return finding{}, false
	}
	last, _ := pick(first)
	cur, curRes := spelling, first
	if lk != "block" && exoticFeatureCount(lk, spelling) <= 1 && len(spelling) <= 12 {
		return cur, curRes, last
	}
	budget := 120
	for progress := true; progress && budget > 0; {
		progress = false
		for _, cand := range shrinkCandidates(lk, cur) {
			if budget <= 0 {
				break
			}
			budget--
			m, ok := j.micro(typ, lk, cand)
			if !ok {
				continue
			}
			if f, hit := pick(m); hit {
				cur, curRes, last, progress = cand, m, f, true
				break
			}
		}
	}
	return cur, curRes, last
}

// attribute explains the fresh findings of a rendering (see the file comment).
func (j *judge) attribute(label string, fresh []finding, text, vars string) (runResult, map[*leaf]bool) {
	culprit := map[*leaf]bool{}
	if j.microWorld() == nil {
		j.res.Broken("attribution world: "+fmt.Sprint(j.mwErr), nil)
		return runResult{refused: "attribution unavailable"}, culprit
	}
	type use struct {
		l  *leaf
		lk string
	}
	var uses []use
	for _, l := range j.c.leaves {
		for _, lk := range j.c.kindsInUse(l) {
			uses = append(uses, use{l, lk})
		}
	}
	for _, u := range uses {
		l, lk := u.l, u.lk
		sp := l.spellingOf(lk)
		if sp == canonOf(l, lk) {
			continue
		}
		key := l.typ + "|" + lk + "|" + sp
		m, done := j.microCache[key]
		if !done {
			var ok bool
			m, ok = j.micro(l.typ, lk, sp)
			if !ok {
				continue
			}
			j.microCache[key] = m
		}
		if len(m.findings) == 0 {
			continue
		}
		culprit[l] = true
		if done {
			continue // already reported for an equal spelling
		}
		kinds := sortedKeys(kindsOf(m.findings))
		handled := map[string]bool{}
		for _, kind := range kinds {
			if handled[kind] {
				continue
			}
			min, mres, _ := j.minimise(l.typ, lk, sp, kind, m)
			class := witnessClass(lk, min)
			// every kind the minimised witness shows is reported with it
			for _, f := range mres.findings {
				if handled[f.kind] {
					continue
				}
				handled[f.kind] = true
				cls := f.kind + "|" + lk + "|" + class
				if j.reported[cls] {
					continue
				}
				j.reported[cls] = true
				match := map[string]string{"origin": "spelling", "leaf_kind": lk, "witness_features": class}
				if f.kind == "panic" {
					match["panic"] = fmt.Sprint(f.detail["panic"])
				}
				j.res.Violate(f.kind, f.msg, match, j.detail(map[string]any{
					"variant": label, "culprit_spelling": fmt.Sprintf("%+q", displaySpelling(lk, sp)), "culprit_type": l.typ,
					"witness_operation": mres.text, "witness_variables": mres.vars, "witness_spelling": fmt.Sprintf("%+q", displaySpelling(lk, min)),
					"witness_schema": "the fixed bundle schema (see sdl of any bundle case)", "finding": f.detail,
					"found_in_operation": truncate(text, 1500), "found_in_variables": truncate(vars, 600),
				}))
			}
		}
	}
	// what remains when the culprits are spelled canonically?
	rr, text2, vars2, exp := j.once(func(l *leaf) bool { return !culprit[l] })
	if exp.err != "" {
		return runResult{refused: "expected side unavailable"}, culprit
	}
	br, _, _, _ := j.once(nil)
	bk := map[string]bool{}
	for _, f := range br.findings {
		bk[f.key()] = true
	}
	var rest []finding
	for _, f := range rr.findings {
		if !bk[f.key()] {
			rest = append(rest, f)
		}
	}
	if len(culprit) == 0 {
		j.res.Count("violations_without_standalone_culprit", 1)
	}
	rr.findings = rest
	if len(rest) > 0 {
		j.baseKeys = bk
		more := j.attributeInContext(label, rest, text2, vars2, culprit)
		if len(more) > 0 {
			for _, l := range more {
				culprit[l] = true
			}
			rr2, _, _, exp2 := j.once(func(l *leaf) bool { return !culprit[l] })
			if exp2.err == "" {
				var rest2 []finding
				for _, f := range rr2.findings {
					if !bk[f.key()] {
						rest2 = append(rest2, f)
					}
				}
				rr2.findings = rest2
				return rr2, culprit
			}
		}
	}
	return rr, culprit
}

// attributeInContext: leaves that reproduce a finding kind alone inside the full operation.
func (j *judge) attributeInContext(label string, fresh []finding, text, vars string, skip map[*leaf]bool) (found []*leaf) {
	byKind := map[string]finding{}
	for _, f := range fresh {
		if _, ok := byKind[f.kind]; !ok {
			byKind[f.kind] = f
		}
	}
	kinds := make([]string, 0, len(byKind))
	for k := range byKind {
		kinds = append(kinds, k)
	}
	sort.Strings(kinds)
	explained := map[string]bool{}
	for _, l := range j.c.leaves {
		lk := j.c.kindInUse(l)
		if skip[l] || j.c.spellingInUse(l) == canonOf(l, lk) || j.budget <= 0 {
			continue
		}
		j.budget--
		rr, _, _, exp := j.once(func(x *leaf) bool { return x == l })
		if exp.err != "" {
			continue
		}
		ks := kindsOf(j.freshOnly(rr.findings))
		hit := false
		for _, kind := range kinds {
			if ks[kind] {
				explained[kind] = true
				hit = true
				j.minimiseInContext(label, l, kind, byKind[kind], text, vars)
			}
		}
		if hit {
			found = append(found, l)
		}
	}
	for _, kind := range kinds {
		if explained[kind] {
			continue
		}
		f := byKind[kind]
		cls := "combination|" + kind
		if j.reported[cls] {
			continue
		}
		j.reported[cls] = true
		m := map[string]string{"origin": "spelling-combination", "variant": label}
		if kind == "panic" {
			m["panic"] = fmt.Sprint(f.detail["panic"])
		}
		j.res.Violate(kind, f.msg+" (no single leaf reproduces it alone)", m, j.detail(map[string]any{"variant": label, "operation": text, "variables": vars, "finding": f.detail}))
	}
	return found
}

func (j *judge) minimiseInContext(label string, l *leaf, kind string, orig finding, text, vars string) {
	lk := j.c.kindInUse(l)
	saveLit, saveJS, saveDen, saveBlock := l.lit, l.js, l.den, l.block
	defer func() { l.lit, l.js, l.den, l.block = saveLit, saveJS, saveDen, saveBlock }()
	only := func(x *leaf) bool { return x == l }
	still := func() (bool, finding) {
		rr, _, _, exp := j.once(only)
		if exp.err != "" {
			return false, finding{}
		}
		for _, f := range j.freshOnly(rr.findings) {
			if f.kind == kind {
				return true, f
			}
		}
		return false, finding{}
	}
	orig0 := j.c.spellingInUse(l)
	cur := orig0
	last := orig
	for progress := true; progress && j.budget > 0; {
		progress = false
		for _, cand := range shrinkCandidates(lk, cur) {
			if j.budget <= 0 {
				break
			}
			j.budget--
			pl, pj, pd, pb := l.lit, l.js, l.den, l.block
			if !j.c.setSpelling(l, lk, cand) {
				continue
			}
			if ok, f := still(); ok {
				cur, last, progress = cand, f, true
				break
			}
			l.lit, l.js, l.den, l.block = pl, pj, pd, pb
		}
	}
	class := witnessClass(lk, cur)
	cls := "context|" + kind + "|" + lk + "|" + class + fmt.Sprint(j.c.siteOf(l))
	if j.reported[cls] {
		return
	}
	j.reported[cls] = true
	mtext, mvars := j.c.render(only)
	inFrag, inDefault := j.c.siteOf(l)
	m := map[string]string{"origin": "spelling-in-context", "leaf_kind": lk, "witness_features": class, "in_named_fragment": fmt.Sprint(inFrag), "in_variable_default": fmt.Sprint(inDefault)}
	if kind == "panic" {
		m["panic"] = fmt.Sprint(last.detail["panic"])
	}
	j.res.Violate(kind, last.msg, m, j.detail(map[string]any{
		"variant": label, "operation": text, "variables": vars,
		"culprit_spelling": fmt.Sprintf("%+q", displaySpelling(lk, orig0)), "culprit_type": l.typ,
		"witness_spelling":  fmt.Sprintf("%+q", displaySpelling(lk, cur)),
		"witness_operation": mtext, "witness_variables": mvars, "finding": last.detail,
	}))
}

func displaySpelling(kind, s string) string {
	if kind == "block" {
		return `"""` + s + `"""`
	}
	return s
}

// freshOnly drops the findings that the canonical rendering of the current shape shows as well.
func (j *judge) freshOnly(fs []finding) []finding {
	var out []finding
	for _, f := range fs {
		if !j.baseKeys[f.key()] {
			out = append(out, f)
		}
	}
	return out
}
