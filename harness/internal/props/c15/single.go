package c15

import (
	"github.com/wundergraph/graphql-go-tools/v2/pkg/engine/plan"

	"verifharness/internal/fed"
	"verifharness/internal/gen"
)

// singleLayout wraps an arbitrary generated schema into a fed.Layout with one plain GraphQL
// subgraph that owns every field (no federation): the gateway forwards every field — and so every
// argument — to that subgraph, whose schema is the client schema itself.
func singleLayout(s *gen.Schema, sdl string) *fed.Layout {
	l := &fed.Layout{
		Profile:      fed.Profile{Single: true, Subgraphs: 1, Args: true, ListFields: true},
		Super:        s,
		SuperSDL:     sdl,
		Entities:     map[string][]int{},
		Fields:       map[string]*fed.FieldInfo{},
		LookupFields: map[string]bool{},
		Describe:     "single plain subgraph mirroring the schema",
	}
	sg := &fed.Subgraph{Index: 0, Name: "sub0", SDL: sdl, Meta: &plan.DataSourceMetadata{},
		Present: map[string]bool{}, Owned: map[string]bool{}, External: map[string]bool{}, ProvidedOn: map[string]string{}, RequiresIn: map[string]string{}}
	for _, td := range s.Types {
		sg.Present[td.Name] = true
		if td.Kind != gen.Object && td.Kind != gen.Interface {
			continue
		}
		tf := plan.TypeField{TypeName: td.Name}
		for _, f := range td.Fields {
			tf.FieldNames = append(tf.FieldNames, f.Name)
			c := td.Name + "." + f.Name
			sg.Owned[c] = true
			l.Fields[c] = &fed.FieldInfo{Owners: []int{0}}
			if len(f.Args) > 0 {
				fc := plan.FieldConfiguration{TypeName: td.Name, FieldName: f.Name}
				for _, a := range f.Args {
					fc.Arguments = append(fc.Arguments, plan.ArgumentConfiguration{Name: a.Name, SourceType: plan.FieldArgumentSource})
				}
				l.FieldConfigs = append(l.FieldConfigs, fc)
			}
		}
		if td.Name == s.Query || td.Name == s.Mutation || td.Name == s.Subscription {
			sg.Meta.RootNodes = append(sg.Meta.RootNodes, tf)
		} else {
			sg.Meta.ChildNodes = append(sg.Meta.ChildNodes, tf)
		}
	}
	l.Subgraphs = []*fed.Subgraph{sg}
	return l
}
