package c15

// Exact reference coercion (spec CoerceVariableValues / CoerceArgumentValues over gqlparser's AST,
// an independent parser) producing canonical, typed value descriptions in which numbers keep their
// exact value, and the static enumeration of the argument positions of an operation.

import (
	"encoding/json"
	"fmt"
	"math"
	"math/big"
	"sort"
	"strconv"
	"strings"

	gast "github.com/vektah/gqlparser/v2/ast"
)

// canonical values: nil (null), cv{…} leaves, []any, map[string]any.
type cv struct {
	k string // "i" Int, "f" Float, "s" String, "id" ID, "b" Boolean, "e" enum, "n" number inside a custom scalar
	v string
}

type coercer struct {
	schema *gast.Schema
	frags  gast.FragmentDefinitionList
}

type coerceErr struct{ msg string }

func (e *coerceErr) Error() string { return e.msg }

func cerrf(format string, a ...any) *coerceErr { return &coerceErr{fmt.Sprintf(format, a...)} }

func ratCanon(r *big.Rat) string {
	if r.Sign() == 0 {
		return "0"
	}
	return r.RatString()
}

func floatCanon(f float64) string {
	if f == 0 {
		return "0"
	}
	return strconv.FormatFloat(f, 'g', -1, 64)
}

func parseRat(s string) (*big.Rat, bool) {
	// exponents are bounded by the generators (|e| <= 999); refuse absurd ones instead of exhausting memory
	if i := strings.IndexAny(s, "eE"); i >= 0 {
		if e, err := strconv.Atoi(s[i+1:]); err != nil || e > 5000 || e < -5000 {
			return nil, false
		}
	}
	return new(big.Rat).SetString(s)
}

func (c *coercer) intFrom(num string) (any, *coerceErr) {
	r, ok := parseRat(num)
	if !ok || !r.IsInt() {
		return nil, cerrf("Int cannot represent %s", num)
	}
	n := r.Num()
	if !n.IsInt64() || n.Int64() > math.MaxInt32 || n.Int64() < math.MinInt32 {
		return nil, cerrf("Int out of 32-bit range: %s", num)
	}
	return cv{"i", n.String()}, nil
}

func (c *coercer) floatFrom(num string) (any, *coerceErr) {
	f, err := strconv.ParseFloat(num, 64)
	if err != nil || math.IsInf(f, 0) || math.IsNaN(f) {
		return nil, cerrf("Float cannot represent %s", num)
	}
	return cv{"f", floatCanon(f)}, nil
}

func (c *coercer) scalarNumber(num string) (any, *coerceErr) {
	r, ok := parseRat(num)
	if !ok {
		return nil, cerrf("not a number: %s", num)
	}
	return cv{"n", ratCanon(r)}, nil
}

// untypedJSON describes an arbitrary JSON value (custom scalars).
func (c *coercer) untypedJSON(v any) (any, *coerceErr) {
	switch x := v.(type) {
	case nil:
		return nil, nil
	case bool:
		return cv{"b", fmt.Sprint(x)}, nil
	case string:
		return cv{"s", x}, nil
	case json.Number:
		return c.scalarNumber(string(x))
	case []any:
		out := make([]any, len(x))
		for i, it := range x {
			cvv, err := c.untypedJSON(it)
			if err != nil {
				return nil, err
			}
			out[i] = cvv
		}
		return out, nil
	case map[string]any:
		out := map[string]any{}
		for k, it := range x {
			cvv, err := c.untypedJSON(it)
			if err != nil {
				return nil, err
			}
			out[k] = cvv
		}
		return out, nil
	}
	return nil, cerrf("unexpected JSON value %T", v)
}

func (c *coercer) coerceVars(op *gast.OperationDefinition, provided map[string]any) (map[string]any, *coerceErr) {
	out := map[string]any{}
	for _, vd := range op.VariableDefinitions {
		v, has := provided[vd.Variable]
		if !has {
			if vd.DefaultValue != nil {
				dv, _, err := c.coerceLit(vd.Type, vd.DefaultValue, nil)
				if err != nil {
					return nil, cerrf("default of $%s: %s", vd.Variable, err.msg)
				}
				out[vd.Variable] = dv
				continue
			}
			if vd.Type.NonNull {
				return nil, cerrf("required variable $%s not provided", vd.Variable)
			}
			continue
		}
		x, err := c.coerceJSON(vd.Type, v)
		if err != nil {
			return nil, cerrf("$%s: %s", vd.Variable, err.msg)
		}
		out[vd.Variable] = x
	}
	return out, nil
}

func (c *coercer) coerceJSON(t *gast.Type, v any) (any, *coerceErr) {
	if v == nil {
		if t.NonNull {
			return nil, cerrf("null for non-null type %s", t.String())
		}
		return nil, nil
	}
	if t.Elem != nil {
		list, ok := v.([]any)
		if !ok {
			it, err := c.coerceJSON(t.Elem, v)
			if err != nil {
				return nil, err
			}
			return []any{it}, nil
		}
		out := make([]any, len(list))
		for i, it := range list {
			x, err := c.coerceJSON(t.Elem, it)
			if err != nil {
				return nil, err
			}
			out[i] = x
		}
		return out, nil
	}
	name := t.NamedType
	switch name {
	case "Int":
		n, ok := v.(json.Number)
		if !ok {
			return nil, cerrf("Int cannot represent non-number %v", v)
		}
		return c.intFrom(string(n))
	case "Float":
		n, ok := v.(json.Number)
		if !ok {
			return nil, cerrf("Float cannot represent non-number %v", v)
		}
		return c.floatFrom(string(n))
	case "String":
		s, ok := v.(string)
		if !ok {
			return nil, cerrf("String cannot represent non-string %v", v)
		}
		return cv{"s", s}, nil
	case "Boolean":
		b, ok := v.(bool)
		if !ok {
			return nil, cerrf("Boolean cannot represent %v", v)
		}
		return cv{"b", fmt.Sprint(b)}, nil
	case "ID":
		switch x := v.(type) {
		case string:
			return cv{"id", x}, nil
		case json.Number:
			r, ok := parseRat(string(x))
			if !ok || !r.IsInt() {
				return nil, cerrf("ID cannot represent %s", x)
			}
			return cv{"id", r.Num().String()}, nil
		}
		return nil, cerrf("ID cannot represent %v", v)
	}
	def := c.schema.Types[name]
	if def == nil {
		return nil, cerrf("unknown type %s", name)
	}
	switch def.Kind {
	case gast.Enum:
		s, ok := v.(string)
		if !ok || def.EnumValues.ForName(s) == nil {
			return nil, cerrf("not a value of enum %s: %v", name, v)
		}
		return cv{"e", s}, nil
	case gast.Scalar:
		return c.untypedJSON(v)
	case gast.InputObject:
		m, ok := v.(map[string]any)
		if !ok {
			return nil, cerrf("input object %s must be an object", name)
		}
		for k := range m {
			if def.Fields.ForName(k) == nil {
				return nil, cerrf("unknown input field %s.%s", name, k)
			}
		}
		out := map[string]any{}
		for _, f := range def.Fields {
			fv, has := m[f.Name]
			if !has {
				if f.DefaultValue != nil {
					dv, _, err := c.coerceLit(f.Type, f.DefaultValue, nil)
					if err != nil {
						return nil, err
					}
					out[f.Name] = dv
					continue
				}
				if f.Type.NonNull {
					return nil, cerrf("required input field %s.%s missing", name, f.Name)
				}
				continue
			}
			x, err := c.coerceJSON(f.Type, fv)
			if err != nil {
				return nil, err
			}
			out[f.Name] = x
		}
		if def.Directives.ForName("oneOf") != nil {
			if len(m) != 1 {
				return nil, cerrf("oneOf input object %s must have exactly one field", name)
			}
			for _, x := range m {
				if x == nil {
					return nil, cerrf("oneOf member of %s must be non-null", name)
				}
			}
		}
		return out, nil
	}
	return nil, cerrf("not an input type: %s", name)
}

// coerceLit coerces a literal (variables resolved through the coerced variable values).
// present=false: a variable without a value.
func (c *coercer) coerceLit(t *gast.Type, v *gast.Value, vars map[string]any) (any, bool, *coerceErr) {
	if v == nil {
		return nil, false, nil
	}
	if v.Kind == gast.Variable {
		x, ok := vars[v.Raw]
		if !ok {
			return nil, false, nil
		}
		if x == nil && t.NonNull {
			return nil, true, cerrf("null variable $%s at non-null position", v.Raw)
		}
		return x, true, nil
	}
	if v.Kind == gast.NullValue {
		if t.NonNull {
			return nil, true, cerrf("null for non-null type %s", t.String())
		}
		return nil, true, nil
	}
	if t.Elem != nil {
		if v.Kind != gast.ListValue {
			it, _, err := c.coerceLit(t.Elem, v, vars)
			if err != nil {
				return nil, true, err
			}
			return []any{it}, true, nil
		}
		out := make([]any, 0, len(v.Children))
		for _, ch := range v.Children {
			it, has, err := c.coerceLit(t.Elem, ch.Value, vars)
			if err != nil {
				return nil, true, err
			}
			if !has {
				if t.Elem.NonNull {
					return nil, true, cerrf("list item variable without value at non-null item position")
				}
				it = nil
			}
			out = append(out, it)
		}
		return out, true, nil
	}
	name := t.NamedType
	wrap := func(x any, err *coerceErr) (any, bool, *coerceErr) { return x, true, err }
	switch name {
	case "Int":
		if v.Kind != gast.IntValue {
			return nil, true, cerrf("Int literal expected, got %s", v.String())
		}
		return wrap(c.intFrom(v.Raw))
	case "Float":
		if v.Kind != gast.IntValue && v.Kind != gast.FloatValue {
			return nil, true, cerrf("Float literal expected, got %s", v.String())
		}
		return wrap(c.floatFrom(v.Raw))
	case "String":
		if v.Kind != gast.StringValue && v.Kind != gast.BlockValue {
			return nil, true, cerrf("String literal expected, got %s", v.String())
		}
		return cv{"s", v.Raw}, true, nil
	case "Boolean":
		if v.Kind != gast.BooleanValue {
			return nil, true, cerrf("Boolean literal expected, got %s", v.String())
		}
		return cv{"b", v.Raw}, true, nil
	case "ID":
		switch v.Kind {
		case gast.StringValue, gast.BlockValue:
			return cv{"id", v.Raw}, true, nil
		case gast.IntValue:
			r, ok := parseRat(v.Raw)
			if !ok {
				return nil, true, cerrf("bad ID %s", v.Raw)
			}
			return cv{"id", r.Num().String()}, true, nil
		}
		return nil, true, cerrf("ID literal expected, got %s", v.String())
	}
	def := c.schema.Types[name]
	if def == nil {
		return nil, true, cerrf("unknown type %s", name)
	}
	switch def.Kind {
	case gast.Enum:
		if v.Kind != gast.EnumValue || def.EnumValues.ForName(v.Raw) == nil {
			return nil, true, cerrf("value of enum %s expected, got %s", name, v.String())
		}
		return cv{"e", v.Raw}, true, nil
	case gast.Scalar:
		return wrap(c.untypedLit(v, vars))
	case gast.InputObject:
		if v.Kind != gast.ObjectValue {
			return nil, true, cerrf("object literal expected for %s, got %s", name, v.String())
		}
		out := map[string]any{}
		given := map[string]bool{}
		nonNull := 0
		for _, ch := range v.Children {
			fd := def.Fields.ForName(ch.Name)
			if fd == nil {
				return nil, true, cerrf("unknown input field %s.%s", name, ch.Name)
			}
			fv, has, err := c.coerceLit(fd.Type, ch.Value, vars)
			if err != nil {
				return nil, true, err
			}
			if !has {
				continue
			}
			given[ch.Name] = true
			if fv != nil {
				nonNull++
			}
			out[ch.Name] = fv
		}
		for _, f := range def.Fields {
			if given[f.Name] {
				continue
			}
			if f.DefaultValue != nil {
				dv, _, err := c.coerceLit(f.Type, f.DefaultValue, nil)
				if err != nil {
					return nil, true, err
				}
				out[f.Name] = dv
				continue
			}
			if f.Type.NonNull {
				return nil, true, cerrf("required input field %s.%s missing", name, f.Name)
			}
		}
		if def.Directives.ForName("oneOf") != nil && (len(v.Children) != 1 || nonNull != 1) {
			return nil, true, cerrf("oneOf input object %s must have exactly one non-null field", name)
		}
		return out, true, nil
	}
	return nil, true, cerrf("not an input type: %s", name)
}

// untypedLit converts a literal at a custom scalar position (any literal kind).
func (c *coercer) untypedLit(v *gast.Value, vars map[string]any) (any, *coerceErr) {
	switch v.Kind {
	case gast.Variable:
		return untag(vars[v.Raw]), nil
	case gast.IntValue, gast.FloatValue:
		return c.scalarNumber(v.Raw)
	case gast.StringValue, gast.BlockValue, gast.EnumValue:
		// an enum literal has no JSON denotation other than its name
		return cv{"s", v.Raw}, nil
	case gast.BooleanValue:
		return cv{"b", v.Raw}, nil
	case gast.NullValue:
		return nil, nil
	case gast.ListValue:
		out := make([]any, 0, len(v.Children))
		for _, ch := range v.Children {
			x, err := c.untypedLit(ch.Value, vars)
			if err != nil {
				return nil, err
			}
			out = append(out, x)
		}
		return out, nil
	case gast.ObjectValue:
		out := map[string]any{}
		for _, ch := range v.Children {
			if ch.Value.Kind == gast.Variable {
				if _, ok := vars[ch.Value.Raw]; !ok {
					continue
				}
			}
			x, err := c.untypedLit(ch.Value, vars)
			if err != nil {
				return nil, err
			}
			out[ch.Name] = x
		}
		return out, nil
	}
	return nil, cerrf("unexpected literal kind")
}

// untag rewrites a typed value (a variable of a built-in type used inside a custom scalar literal)
// into the untyped description used for custom scalars.
func untag(v any) any {
	switch x := v.(type) {
	case cv:
		switch x.k {
		case "i", "f":
			if r, ok := parseRat(x.v); ok {
				return cv{"n", ratCanon(r)}
			}
		case "e", "id":
			return cv{"s", x.v}
		}
		return x
	case []any:
		out := make([]any, len(x))
		for i, it := range x {
			out[i] = untag(it)
		}
		return out
	case map[string]any:
		out := map[string]any{}
		for k, it := range x {
			out[k] = untag(it)
		}
		return out
	}
	return v
}

func (c *coercer) coerceArgs(defs gast.ArgumentDefinitionList, args gast.ArgumentList, vars map[string]any) (map[string]any, *coerceErr) {
	out := map[string]any{}
	for _, ad := range defs {
		a := args.ForName(ad.Name)
		var val any
		has := false
		if a != nil {
			v, present, err := c.coerceLit(ad.Type, a.Value, vars)
			if err != nil {
				return nil, cerrf("argument %s: %s", ad.Name, err.msg)
			}
			val, has = v, present
		}
		if !has {
			if ad.DefaultValue != nil {
				dv, _, err := c.coerceLit(ad.Type, ad.DefaultValue, nil)
				if err != nil {
					return nil, err
				}
				out[ad.Name] = dv
				continue
			}
			if ad.Type.NonNull {
				return nil, cerrf("required argument %s missing", ad.Name)
			}
			continue
		}
		out[ad.Name] = val
	}
	return out, nil
}

func canonValue(v any) string {
	var sb strings.Builder
	canonInto(&sb, v)
	return sb.String()
}

func canonInto(sb *strings.Builder, v any) {
	switch x := v.(type) {
	case nil:
		sb.WriteString("null")
	case cv:
		switch x.k {
		case "s", "id":
			fmt.Fprintf(sb, "%s:%+q", x.k, x.v)
		default:
			sb.WriteString(x.k + ":" + x.v)
		}
	case []any:
		sb.WriteByte('[')
		for i, it := range x {
			if i > 0 {
				sb.WriteByte(',')
			}
			canonInto(sb, it)
		}
		sb.WriteByte(']')
	case map[string]any:
		keys := make([]string, 0, len(x))
		for k := range x {
			keys = append(keys, k)
		}
		sort.Strings(keys)
		sb.WriteByte('{')
		for i, k := range keys {
			if i > 0 {
				sb.WriteByte(',')
			}
			sb.WriteString(k + "=")
			canonInto(sb, x[k])
		}
		sb.WriteByte('}')
	default:
		fmt.Fprintf(sb, "?%v", x)
	}
}

// position is one argument-carrying field position of an operation.
type position struct {
	Field string
	Args  string // canonical coerced arguments, or "!error: …"
	Bad   bool
	Val   map[string]any
}

// diffClass names the first difference between an expected and an observed canonical value.
func diffClass(e, g any, path string) (string, string) {
	switch x := e.(type) {
	case map[string]any:
		y, ok := g.(map[string]any)
		if !ok {
			return path, "kind-changed"
		}
		keys := map[string]bool{}
		for k := range x {
			keys[k] = true
		}
		for k := range y {
			keys[k] = true
		}
		for _, k := range sortedKeys(keys) {
			ev, eok := x[k]
			gv, gok := y[k]
			switch {
			case eok && !gok && ev == nil:
				return path + "." + k, "null-became-absent"
			case eok && !gok:
				return path + "." + k, "value-became-absent"
			case !eok && gok && gv == nil:
				return path + "." + k, "absent-became-null"
			case !eok && gok:
				return path + "." + k, "absent-became-value"
			}
			if p, c := diffClass(ev, gv, path+"."+k); c != "" {
				return p, c
			}
		}
		return "", ""
	case []any:
		y, ok := g.([]any)
		if !ok {
			return path, "kind-changed"
		}
		if len(x) != len(y) {
			return path, "list-length-changed"
		}
		for i := range x {
			if p, c := diffClass(x[i], y[i], fmt.Sprintf("%s[%d]", path, i)); c != "" {
				return p, c
			}
		}
		return "", ""
	case nil:
		if g != nil {
			return path, "null-became-value"
		}
		return "", ""
	case cv:
		y, ok := g.(cv)
		switch {
		case g == nil:
			return path, "value-became-null"
		case !ok:
			return path, "kind-changed"
		case x.k != y.k:
			return path, "scalar-kind-changed"
		case x.v != y.v:
			switch x.k {
			case "i", "f", "n":
				return path, "number-changed"
			case "s", "id":
				return path, "string-changed"
			}
			return path, "value-changed"
		}
		return "", ""
	}
	return "", ""
}

// positions enumerates statically every field position of the operation — response path with the
// concrete runtime type assumed at each level, for every possible runtime type — with its coerced
// arguments. @skip/@include are evaluated with the coerced variables; fragments are flattened, so
// the result does not depend on the fragment structure of the document.
func (c *coercer) positions(doc *gast.QueryDocument, op *gast.OperationDefinition, vars map[string]any) map[string]position {
	out := map[string]position{}
	root := c.schema.Query
	switch op.Operation {
	case gast.Mutation:
		root = c.schema.Mutation
	case gast.Subscription:
		root = c.schema.Subscription
	}
	if root == nil {
		return out
	}
	c.frags = doc.Fragments
	c.walk(root.Name, op.SelectionSet, "", vars, out, 0)
	return out
}

func (c *coercer) includes(dirs gast.DirectiveList, vars map[string]any) bool {
	for _, d := range dirs {
		if d.Name != "skip" && d.Name != "include" {
			continue
		}
		a := d.Arguments.ForName("if")
		if a == nil {
			continue
		}
		b := false
		if a.Value.Kind == gast.Variable {
			if x, ok := vars[a.Value.Raw].(cv); ok {
				b = x.v == "true"
			}
		} else {
			b = a.Value.Raw == "true"
		}
		if d.Name == "skip" && b || d.Name == "include" && !b {
			return false
		}
	}
	return true
}

func (c *coercer) typeMatches(rt, cond string) bool {
	if cond == "" || rt == cond {
		return true
	}
	def := c.schema.Types[cond]
	if def == nil {
		return false
	}
	for _, pt := range c.schema.GetPossibleTypes(def) {
		if pt.Name == rt {
			return true
		}
	}
	return false
}

func (c *coercer) collect(rt string, sels gast.SelectionSet, vars map[string]any, keys *[]string, groups map[string][]*gast.Field, visited map[string]bool) {
	for _, s := range sels {
		switch s := s.(type) {
		case *gast.Field:
			if !c.includes(s.Directives, vars) {
				continue
			}
			k := s.Alias
			if k == "" {
				k = s.Name
			}
			// the planner re-aliases fields of abstract selections as __internal_merge_<Type>_<key>
			// (and maps them back in the response): the position is the client's response key
			if rest, ok := strings.CutPrefix(k, "__internal_merge_"); ok {
				if i := strings.IndexByte(rest, '_'); i > 0 {
					k = rest[i+1:]
				}
			}
			if _, ok := groups[k]; !ok {
				*keys = append(*keys, k)
			}
			groups[k] = append(groups[k], s)
		case *gast.InlineFragment:
			if c.includes(s.Directives, vars) && c.typeMatches(rt, s.TypeCondition) {
				c.collect(rt, s.SelectionSet, vars, keys, groups, visited)
			}
		case *gast.FragmentSpread:
			def := s.Definition
			if def == nil {
				def = c.frags.ForName(s.Name) // parsed without validation
			}
			if !c.includes(s.Directives, vars) || visited[s.Name] || def == nil {
				continue
			}
			visited[s.Name] = true
			if c.typeMatches(rt, def.TypeCondition) {
				c.collect(rt, def.SelectionSet, vars, keys, groups, visited)
			}
		}
	}
}

func (c *coercer) walk(rt string, sels gast.SelectionSet, path string, vars map[string]any, out map[string]position, depth int) {
	if depth > 8 {
		return
	}
	def := c.schema.Types[rt]
	if def == nil {
		return
	}
	var keys []string
	groups := map[string][]*gast.Field{}
	c.collect(rt, sels, vars, &keys, groups, map[string]bool{})
	for _, k := range keys {
		fs := groups[k]
		f := fs[0]
		if strings.HasPrefix(f.Name, "__") {
			continue
		}
		fd := def.Fields.ForName(f.Name)
		if fd == nil {
			continue
		}
		p := path + "/" + k + "<" + rt + ">"
		if len(fd.Arguments) > 0 {
			args, err := c.coerceArgs(fd.Arguments, f.Arguments, vars)
			if err != nil {
				out[p] = position{Field: f.Name, Args: "!error: " + err.msg, Bad: true}
			} else {
				out[p] = position{Field: f.Name, Args: canonValue(args), Val: args}
			}
		} else {
			out[p] = position{Field: f.Name}
		}
		rdef := c.schema.Types[fd.Type.Name()]
		if rdef == nil || (rdef.Kind != gast.Object && rdef.Kind != gast.Interface && rdef.Kind != gast.Union) {
			continue
		}
		var sub gast.SelectionSet
		for _, x := range fs {
			sub = append(sub, x.SelectionSet...)
		}
		for _, pt := range c.schema.GetPossibleTypes(rdef) {
			c.walk(pt.Name, sub, p, vars, out, depth+1)
		}
	}
}
