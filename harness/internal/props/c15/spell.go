package c15

// Character-level spellings of leaf values with the denoted value known by construction, reference
// decoders (used to cross-check the construction and to recompute the denoted value while a witness
// is being minimised), feature extraction and candidate simplifications for minimisation.

import (
	"encoding/json"
	"fmt"
	"math/big"
	"math/rand/v2"
	"regexp"
	"sort"
	"strings"
	"unicode/utf8"

	"verifharness/internal/shape"
)

// ---------------------------------------------------------------------------------------------
// quoted strings ("…")

type atom struct {
	sp   string // spelling fragment
	den  string // denoted fragment
	feat string
}

const plainChars = "abcXYZ 0189!#$%&'()*+,-./:;<=>?@[]^_`{|}~"

var rawBMP = []rune{0xE9, 0x4E2D, 0xDF, 0xA0, 0x85, 0x2028, 0x2029, 0xFEFF, 0xFFFD, 0x7F, 0x3b1}
var rawAstral = []rune{0x1F600, 0x1D4B3, 0x20000, 0x1F9D1, 0x10FFFD}
var rawC0 = []rune{0x01, 0x02, 0x07, 0x08, 0x0B, 0x0C, 0x0E, 0x1B, 0x1F}
var simpleEsc = [][2]string{{`\n`, "\n"}, {`\t`, "\t"}, {`\"`, `"`}, {`\\`, `\`}, {`\/`, "/"}, {`\b`, "\b"}, {`\f`, "\f"}, {`\r`, "\r"}}
var u4Points = []rune{0x0000, 0x0009, 0x000A, 0x000D, 0x001F, 0x0022, 0x005C, 0x002F, 0x0041, 0x007F, 0x00E9, 0x4E2D, 0x2028, 0xFFFD, 0xFEFF, 0x0024, 0x007B}
var bracePoints = []rune{0x1F600, 0x41, 0xE9, 0x10FFFD, 0x0, 0x22, 0x5C, 0xA, 0x4E2D, 0x1D4B3}

func hexCase(r *rand.Rand, s string) string {
	switch r.IntN(3) {
	case 0:
		return strings.ToUpper(s)
	case 1:
		return strings.ToLower(s)
	}
	b := []byte(s)
	for i := range b {
		if r.IntN(2) == 0 {
			b[i] = strings.ToUpper(string(b[i]))[0]
		} else {
			b[i] = strings.ToLower(string(b[i]))[0]
		}
	}
	return string(b)
}

// quotedFeatures lists the atom classes of GraphQL quoted strings.
var quotedFeatures = []string{"plain", "raw-bmp", "raw-astral", "raw-tab", "raw-c0", "esc-simple", "esc-u4", "esc-surrogate", "esc-ubrace", "esc-backslash-then-text"}

func genAtom(r *rand.Rand, feat string) atom {
	switch feat {
	case "raw-bmp":
		c := rawBMP[r.IntN(len(rawBMP))]
		return atom{string(c), string(c), feat}
	case "raw-astral":
		c := rawAstral[r.IntN(len(rawAstral))]
		return atom{string(c), string(c), feat}
	case "raw-tab":
		return atom{"\t", "\t", feat}
	case "raw-c0":
		c := rawC0[r.IntN(len(rawC0))]
		return atom{string(c), string(c), feat}
	case "esc-simple":
		e := simpleEsc[r.IntN(len(simpleEsc))]
		return atom{e[0], e[1], feat}
	case "esc-u4":
		c := u4Points[r.IntN(len(u4Points))]
		return atom{`\u` + hexCase(r, fmt.Sprintf("%04x", c)), string(c), feat}
	case "esc-surrogate":
		c := rawAstral[r.IntN(len(rawAstral))]
		c2 := c - 0x10000
		hi, lo := 0xD800+(c2>>10), 0xDC00+(c2&0x3FF)
		return atom{`\u` + hexCase(r, fmt.Sprintf("%04x", hi)) + `\u` + hexCase(r, fmt.Sprintf("%04x", lo)), string(c), feat}
	case "esc-ubrace":
		c := bracePoints[r.IntN(len(bracePoints))]
		h := fmt.Sprintf("%x", c)
		if r.IntN(3) == 0 {
			h = strings.Repeat("0", 1+r.IntN(4)) + h
		}
		return atom{`\u{` + hexCase(r, h) + `}`, string(c), feat}
	case "esc-backslash-then-text":
		// an escaped backslash followed by text that would be an escape had the backslash not been escaped
		t := []string{"u0041", "n", "t", `u{41}`, "/", "b"}[r.IntN(6)]
		return atom{`\\` + t, `\` + t, feat}
	}
	c := plainChars[r.IntN(len(plainChars))]
	return atom{string(c), string(c), "plain"}
}

// genQuoted builds a quoted string literal. focus = the feature the case is about ("" = mix).
func genQuoted(r *rand.Rand, focus string) (spelling, denoted string) {
	n := r.IntN(7)
	if focus != "" && n == 0 {
		n = 1
	}
	var atoms []atom
	for i := 0; i < n; i++ {
		f := "plain"
		switch {
		case focus != "" && (i == 0 || r.IntN(3) == 0):
			f = focus
		case focus == "" && r.IntN(2) == 0:
			f = quotedFeatures[r.IntN(len(quotedFeatures))]
		}
		atoms = append(atoms, genAtom(r, f))
	}
	r.Shuffle(len(atoms), func(i, j int) { atoms[i], atoms[j] = atoms[j], atoms[i] })
	var sp, den strings.Builder
	for _, a := range atoms {
		sp.WriteString(a.sp)
		den.WriteString(a.den)
	}
	return `"` + sp.String() + `"`, den.String()
}

func unhex(s string) (rune, bool) {
	if s == "" {
		return 0, false
	}
	var v rune
	for _, c := range s {
		var d rune
		switch {
		case c >= '0' && c <= '9':
			d = c - '0'
		case c >= 'a' && c <= 'f':
			d = c - 'a' + 10
		case c >= 'A' && c <= 'F':
			d = c - 'A' + 10
		default:
			return 0, false
		}
		v = v*16 + d
		if v > 0x10FFFF {
			return 0, false
		}
	}
	return v, true
}

// decodeQuoted is the reference semantics of a quoted StringValue (spec September 2025: \uXXXX,
// surrogate pairs, \u{…}, the eight simple escapes). ok=false: not a valid literal.
func decodeQuoted(lit string) (string, bool) {
	if len(lit) < 2 || lit[0] != '"' || lit[len(lit)-1] != '"' || !utf8.ValidString(lit) {
		return "", false
	}
	s := lit[1 : len(lit)-1]
	var out strings.Builder
	for i := 0; i < len(s); {
		c := s[i]
		switch {
		case c == '"' || c == '\n' || c == '\r' || c == 0:
			return "", false
		case c != '\\':
			_, w := utf8.DecodeRuneInString(s[i:])
			out.WriteString(s[i : i+w])
			i += w
		default:
			if i+1 >= len(s) {
				return "", false
			}
			e := s[i+1]
			switch e {
			case 'n':
				out.WriteByte('\n')
			case 't':
				out.WriteByte('\t')
			case 'r':
				out.WriteByte('\r')
			case 'b':
				out.WriteByte('\b')
			case 'f':
				out.WriteByte('\f')
			case '"', '\\', '/':
				out.WriteByte(e)
			case 'u':
				if i+2 < len(s) && s[i+2] == '{' {
					j := strings.IndexByte(s[i+3:], '}')
					if j < 0 {
						return "", false
					}
					v, ok := unhex(s[i+3 : i+3+j])
					if !ok || (v >= 0xD800 && v <= 0xDFFF) {
						return "", false
					}
					out.WriteRune(v)
					i += 3 + j + 1
					continue
				}
				if i+6 > len(s) {
					return "", false
				}
				v, ok := unhex(s[i+2 : i+6])
				if !ok {
					return "", false
				}
				if v >= 0xD800 && v <= 0xDBFF {
					if i+12 > len(s) || s[i+6] != '\\' || s[i+7] != 'u' {
						return "", false
					}
					lo, ok := unhex(s[i+8 : i+12])
					if !ok || lo < 0xDC00 || lo > 0xDFFF {
						return "", false
					}
					out.WriteRune(0x10000 + (v-0xD800)<<10 + (lo - 0xDC00))
					i += 12
					continue
				}
				if v >= 0xDC00 && v <= 0xDFFF {
					return "", false
				}
				out.WriteRune(v)
				i += 6
				continue
			default:
				return "", false
			}
			i += 2
		}
	}
	return out.String(), true
}

var reU4 = regexp.MustCompile(`\\u[0-9a-fA-F]{4}`)
var reSurr = regexp.MustCompile(`\\u[dD][89abAB][0-9a-fA-F]{2}\\u[dD][c-fC-F][0-9a-fA-F]{2}`)

// quotedFeaturesOf extracts the spelling features present in a quoted literal.
func quotedFeaturesOf(lit string) []string {
	set := map[string]bool{}
	s := lit
	if len(s) >= 2 {
		s = s[1 : len(s)-1]
	}
	for i := 0; i < len(s); {
		c := s[i]
		if c == '\\' && i+1 < len(s) {
			switch {
			case s[i+1] == 'u' && i+2 < len(s) && s[i+2] == '{':
				set["esc-ubrace"] = true
				j := strings.IndexByte(s[i:], '}')
				if j < 0 {
					j = len(s) - i - 1
				}
				i += j + 1
			case s[i+1] == 'u':
				if reSurr.MatchString(s[i:min(len(s), i+12)]) {
					set["esc-surrogate"] = true
					i += 12
				} else {
					set["esc-u4"] = true
					i += 6
				}
			default:
				set["esc-simple"] = true
				i += 2
			}
			continue
		}
		r, w := utf8.DecodeRuneInString(s[i:])
		switch {
		case r == '\t':
			set["raw-tab"] = true
		case r < 0x20:
			set["raw-c0"] = true
		case r >= 0x10000:
			set["raw-astral"] = true
		case r >= 0x7F:
			set["raw-bmp"] = true
		}
		i += w
	}
	return sortedKeys(set)
}

func sortedKeys(m map[string]bool) []string {
	out := make([]string, 0, len(m))
	for k := range m {
		out = append(out, k)
	}
	sort.Strings(out)
	return out
}

// ---------------------------------------------------------------------------------------------
// block strings ("""…""")

// validBlockRaw reports whether raw can stand between triple quotes (the closing quotes are found
// exactly at the end).
func validBlockRaw(raw string) bool {
	if !utf8.ValidString(raw) || strings.ContainsRune(raw, 0) {
		return false
	}
	for i := 0; i < len(raw); {
		switch {
		case strings.HasPrefix(raw[i:], `\"""`):
			i += 4
		case strings.HasPrefix(raw[i:], `"""`):
			return false
		default:
			i++
		}
	}
	if strings.HasSuffix(raw, `"`) && !strings.HasSuffix(raw, `\"""`) {
		return false
	}
	// a trailing backslash would turn the closing quotes into an escaped triple quote
	if strings.HasSuffix(raw, `\`) {
		return false
	}
	return true
}

var blockContentAtoms = []string{"a", "b c", "x", `"`, `""`, `\"""`, `\`, `\n`, `A`, `\\`, "é", "😀", "\t", "#", "$v", "{k: 1}", `\"`, "  ", " "}
var blockIndents = []string{"", "", " ", "  ", "    ", "\t", " \t", "   "}
var blockTerminators = []string{"\n", "\n", "\n", "\r\n", "\r"}

// genBlock builds the raw content of a block string (between the triple quotes).
func genBlock(r *rand.Rand) string {
	for try := 0; try < 50; try++ {
		var sb strings.Builder
		nl := 1 + r.IntN(5)
		baseIndent := blockIndents[r.IntN(len(blockIndents))]
		for i := 0; i < nl; i++ {
			if i > 0 {
				sb.WriteString(blockTerminators[r.IntN(len(blockTerminators))])
			}
			switch r.IntN(6) {
			case 0: // blank line
				continue
			case 1: // whitespace-only line
				sb.WriteString(blockIndents[r.IntN(len(blockIndents))])
				continue
			}
			ind := baseIndent
			if r.IntN(3) == 0 {
				ind += blockIndents[r.IntN(len(blockIndents))]
			}
			if i == 0 && r.IntN(2) == 0 {
				ind = ""
			}
			sb.WriteString(ind)
			na := 1 + r.IntN(4)
			for k := 0; k < na; k++ {
				sb.WriteString(blockContentAtoms[r.IntN(len(blockContentAtoms))])
			}
			if r.IntN(5) == 0 {
				sb.WriteString([]string{" ", "  ", "\t"}[r.IntN(3)])
			}
		}
		raw := sb.String()
		if !validBlockRaw(raw) {
			raw += []string{" ", "\n", "\n  ", "a"}[r.IntN(4)]
		}
		if validBlockRaw(raw) {
			return raw
		}
	}
	return "a"
}

func blockValue(raw string) string { return shape.BlockStringValue(raw) }

// blockFeaturesOf describes the raw content of a block string.
func blockFeaturesOf(raw string) []string {
	set := map[string]bool{"block": true}
	rest := strings.ReplaceAll(raw, `\"""`, "\x00")
	if strings.Contains(rest, "\x00") {
		set["bs-escaped-triple-quote"] = true
	}
	if strings.Contains(rest, `"`) {
		set["bs-quote"] = true
	}
	if strings.Contains(rest, `\`) {
		set["bs-backslash"] = true
	}
	if strings.Contains(raw, "\r\n") {
		set["bs-crlf"] = true
	}
	if strings.Contains(strings.ReplaceAll(raw, "\r\n", ""), "\r") {
		set["bs-cr"] = true
	}
	if strings.Contains(raw, "\t") {
		set["bs-tab"] = true
	}
	for _, c := range raw {
		if c >= 0x80 {
			set["bs-nonascii"] = true
		}
	}
	norm := strings.ReplaceAll(strings.ReplaceAll(raw, "\r\n", "\n"), "\r", "\n")
	lines := strings.Split(norm, "\n")
	isBlank := func(s string) bool { return strings.Trim(s, " \t") == "" }
	if len(lines) > 1 {
		set["bs-multiline"] = true
	}
	if len(lines) > 0 && !isBlank(lines[0]) && (lines[0][0] == ' ' || lines[0][0] == '\t') {
		set["bs-first-line-leading-ws"] = true
	}
	if len(lines) > 1 && isBlank(lines[0]) {
		set["bs-leading-blank-line"] = true
	}
	if len(lines) > 1 && isBlank(lines[len(lines)-1]) {
		set["bs-trailing-blank-line"] = true
	}
	common := -1
	for i, l := range lines {
		if i == 0 || isBlank(l) {
			continue
		}
		ind := len(l) - len(strings.TrimLeft(l, " \t"))
		if common == -1 || ind < common {
			common = ind
		}
	}
	if common > 0 {
		set["bs-common-indent"] = true
	}
	for i, l := range lines {
		if !isBlank(l) && (strings.HasSuffix(l, " ") || strings.HasSuffix(l, "\t")) {
			set["bs-line-trailing-ws"] = true
		}
		if isBlank(l) && l != "" && i > 0 && i < len(lines)-1 {
			set["bs-inner-ws-only-line"] = true
		}
	}
	if blockValue(raw) == "" {
		set["bs-empty-value"] = true
	}
	return sortedKeys(set)
}

// ---------------------------------------------------------------------------------------------
// numbers

var reNumber = regexp.MustCompile(`^-?(0|[1-9][0-9]*)(\.[0-9]+)?([eE][+-]?[0-9]+)?$`)

func validNumber(s string) bool { return reNumber.MatchString(s) }

func isIntToken(s string) bool { return !strings.ContainsAny(s, ".eE") }

// numRat is the exact value of a number spelling (exponents bounded by the generator).
func numRat(s string) (*big.Rat, bool) {
	if !validNumber(s) {
		return nil, false
	}
	r, ok := new(big.Rat).SetString(s)
	return r, ok
}

// plainDecimal rewrites a number spelling without exponent (positional notation), keeping the
// token kind (a float token stays a float token) and the sign.
func plainDecimal(s string) string {
	neg := strings.HasPrefix(s, "-")
	if neg {
		s = s[1:]
	}
	wasFloat := !isIntToken(s)
	mant, exp := s, 0
	if i := strings.IndexAny(s, "eE"); i >= 0 {
		mant = s[:i]
		fmt.Sscanf(s[i+1:], "%d", &exp)
	}
	ip, fp := mant, ""
	if i := strings.IndexByte(mant, '.'); i >= 0 {
		ip, fp = mant[:i], mant[i+1:]
	}
	digits := ip + fp
	point := len(ip) + exp // position of the decimal point inside digits
	switch {
	case point <= 0:
		digits = strings.Repeat("0", -point+1) + digits
		point = 1
	case point > len(digits):
		digits += strings.Repeat("0", point-len(digits))
	}
	ip, fp = digits[:point], digits[point:]
	ip = strings.TrimLeft(ip, "0")
	if ip == "" {
		ip = "0"
	}
	fp = strings.TrimRight(fp, "0")
	out := ip
	if fp != "" {
		out += "." + fp
	} else if wasFloat {
		out += ".0"
	}
	if neg {
		out = "-" + out
	}
	return out
}

var intSpellings = []string{"0", "-0", "1", "-1", "7", "2147483647", "-2147483648", "123456", "-1000", "42"}
var bigIntSpellings = []string{"2147483648", "-2147483649", "9007199254740993", "9223372036854775807", "-9223372036854775808", "4294967296"}
var hugeIntSpellings = []string{"9223372036854775808", "12345678901234567890", "-18446744073709551616", "123456789012345678901234567890", "100000000000000000000000"}
var floatMantissas = []string{"0", "1", "1.5", "0.1", "123456789.125", "6.0221413", "0.0", "1.0", "10.50", "0.000001", "1.7976931348623157", "4.9", "0.1000000000000000055511151231257827", "3.141592653589793238462643383279", "100", "12"}
var floatExps = []string{"e3", "E3", "e+3", "E+3", "e-3", "E-3", "e0", "e00", "e007", "e-0", "e+0", "e23", "e-7", "E+10", "e15", "e21", "e-21"}
var hugeExps = []string{"e308", "e-308", "e-324", "e-400", "E+300"}
var beyondFloatExps = []string{"e400", "e309", "E+999"}

// genNumber returns a number spelling valid at a position of the named type kind:
// "Int", "Float", "ID" (integer tokens within int64) or "scalar" (custom scalar: any number).
func genNumber(r *rand.Rand, kind string) string {
	neg := func(s string) string {
		if !strings.HasPrefix(s, "-") && r.IntN(4) == 0 {
			return "-" + s
		}
		return s
	}
	switch kind {
	case "Int":
		if r.IntN(3) == 0 {
			return fmt.Sprint(int64(r.IntN(2_000_001)) - 1_000_000)
		}
		return intSpellings[r.IntN(len(intSpellings))]
	case "ID":
		switch r.IntN(3) {
		case 0:
			return bigIntSpellings[r.IntN(len(bigIntSpellings))]
		case 1:
			return fmt.Sprint(r.IntN(100000))
		}
		return intSpellings[r.IntN(len(intSpellings))]
	}
	// Float / custom scalar
	for {
		var s string
		switch r.IntN(10) {
		case 0:
			s = intSpellings[r.IntN(len(intSpellings))]
		case 1:
			s = bigIntSpellings[r.IntN(len(bigIntSpellings))]
		case 2:
			s = hugeIntSpellings[r.IntN(len(hugeIntSpellings))]
		case 3, 4:
			m := floatMantissas[r.IntN(len(floatMantissas))]
			if !strings.Contains(m, ".") {
				m += ".0"
			}
			s = neg(m)
		case 5:
			s = neg(floatMantissas[r.IntN(len(floatMantissas))] + hugeExps[r.IntN(len(hugeExps))])
		case 6:
			if kind == "scalar" {
				s = neg(floatMantissas[r.IntN(len(floatMantissas))] + beyondFloatExps[r.IntN(len(beyondFloatExps))])
				break
			}
			fallthrough
		default:
			s = neg(floatMantissas[r.IntN(len(floatMantissas))] + floatExps[r.IntN(len(floatExps))])
		}
		if !validNumber(s) {
			continue
		}
		if kind == "Float" {
			// must denote a finite double
			f, _ := new(big.Float).SetString(s)
			if f == nil {
				continue
			}
			if v, _ := f.Float64(); v > 1.7e308 || v < -1.7e308 {
				continue
			}
		}
		return s
	}
}

func numberFeaturesOf(s string) []string {
	set := map[string]bool{"number": true}
	if strings.HasPrefix(s, "-") {
		set["num-negative"] = true
	}
	if strings.Contains(s, ".") {
		set["num-fraction"] = true
	}
	if i := strings.IndexAny(s, "eE"); i >= 0 {
		set["num-exponent"] = true
		if s[i] == 'E' {
			set["num-exponent-upper"] = true
		}
		e := s[i+1:]
		if strings.HasPrefix(e, "+") || strings.HasPrefix(e, "-") {
			set["num-exponent-sign"] = true
			e = e[1:]
		}
		if !strings.Contains(s[:i], ".") {
			set["num-exponent-without-fraction"] = true
		}
		if len(e) > 1 && e[0] == '0' {
			set["num-exponent-leading-zero"] = true
		}
		var ev int
		fmt.Sscanf(e, "%d", &ev)
		if ev > 300 {
			set["num-huge-exponent"] = true
		}
	}
	if rt, ok := numRat(s); ok {
		if rt.Sign() == 0 && strings.HasPrefix(s, "-") {
			set["num-negative-zero"] = true
		}
		if rt.IsInt() {
			n := rt.Num()
			if n.BitLen() > 31 {
				set["num-beyond-int32"] = true
			}
			if n.BitLen() > 53 {
				set["num-beyond-2^53"] = true
			}
			if n.BitLen() > 63 {
				set["num-beyond-int64"] = true
			}
		}
	}
	digits := 0
	for _, c := range strings.SplitN(strings.ToLower(s), "e", 2)[0] {
		if c >= '0' && c <= '9' {
			digits++
		}
	}
	if digits > 17 {
		set["num-more-than-17-digits"] = true
	}
	return sortedKeys(set)
}

// ---------------------------------------------------------------------------------------------
// JSON spellings (variable values)

var jsonFeatures = []string{"plain", "j-raw-bmp", "j-raw-astral", "j-esc-simple", "j-esc-u4", "j-esc-surrogate", "j-raw-del"}

func genJSONAtom(r *rand.Rand, feat string) atom {
	switch feat {
	case "j-raw-bmp":
		c := rawBMP[r.IntN(len(rawBMP))]
		return atom{string(c), string(c), feat}
	case "j-raw-astral":
		c := rawAstral[r.IntN(len(rawAstral))]
		return atom{string(c), string(c), feat}
	case "j-raw-del":
		return atom{"\x7f", "\x7f", feat}
	case "j-esc-simple":
		e := simpleEsc[r.IntN(len(simpleEsc))]
		return atom{e[0], e[1], feat}
	case "j-esc-u4":
		pts := append([]rune{0x01, 0x1B, 0x08}, u4Points...)
		c := pts[r.IntN(len(pts))]
		return atom{`\u` + hexCase(r, fmt.Sprintf("%04x", c)), string(c), feat}
	case "j-esc-surrogate":
		c := rawAstral[r.IntN(len(rawAstral))]
		c2 := c - 0x10000
		hi, lo := 0xD800+(c2>>10), 0xDC00+(c2&0x3FF)
		return atom{`\u` + hexCase(r, fmt.Sprintf("%04x", hi)) + `\u` + hexCase(r, fmt.Sprintf("%04x", lo)), string(c), feat}
	}
	c := plainChars[r.IntN(len(plainChars))]
	return atom{string(c), string(c), "plain"}
}

// genJSONString builds a JSON string token for a fresh denoted value.
func genJSONString(r *rand.Rand, focus string) (spelling, denoted string) {
	n := r.IntN(7)
	if focus != "" && n == 0 {
		n = 1
	}
	var sp, den strings.Builder
	for i := 0; i < n; i++ {
		f := "plain"
		switch {
		case focus != "" && (i == 0 || r.IntN(3) == 0):
			f = focus
		case focus == "" && r.IntN(2) == 0:
			f = jsonFeatures[r.IntN(len(jsonFeatures))]
		}
		a := genJSONAtom(r, f)
		sp.WriteString(a.sp)
		den.WriteString(a.den)
	}
	return `"` + sp.String() + `"`, den.String()
}

// jsonSpellOf spells a GIVEN denoted string as a JSON string token with random escape choices.
func jsonSpellOf(r *rand.Rand, s string, exotic bool) string {
	if !exotic {
		b, _ := json.Marshal(s)
		return string(b)
	}
	var sb strings.Builder
	sb.WriteByte('"')
	for _, c := range s {
		switch {
		case c == '"' || c == '\\':
			if r.IntN(3) == 0 {
				fmt.Fprintf(&sb, `\u%04x`, c)
			} else {
				sb.WriteString(`\` + string(c))
			}
		case c == '/':
			sb.WriteString([]string{"/", `\/`, `/`}[r.IntN(3)])
		case c < 0x20:
			short := map[rune]string{'\n': `\n`, '\t': `\t`, '\r': `\r`, '\b': `\b`, '\f': `\f`}
			if e, ok := short[c]; ok && r.IntN(2) == 0 {
				sb.WriteString(e)
			} else {
				sb.WriteString(`\u` + hexCase(r, fmt.Sprintf("%04x", c)))
			}
		case c >= 0x10000 && r.IntN(2) == 0:
			c2 := c - 0x10000
			fmt.Fprintf(&sb, `\u%04x\u%04X`, 0xD800+(c2>>10), 0xDC00+(c2&0x3FF))
		case c >= 0x7F && c < 0x10000 && r.IntN(2) == 0:
			sb.WriteString(`\u` + hexCase(r, fmt.Sprintf("%04x", c)))
		case c < 0x7F && r.IntN(12) == 0:
			fmt.Fprintf(&sb, `\u%04x`, c)
		default:
			sb.WriteRune(c)
		}
	}
	sb.WriteByte('"')
	return sb.String()
}

func decodeJSONString(tok string) (string, bool) {
	var s string
	if err := json.Unmarshal([]byte(tok), &s); err != nil {
		return "", false
	}
	return s, utf8.ValidString(tok)
}

func jsonStringFeaturesOf(tok string) []string {
	set := map[string]bool{"json-string": true}
	s := tok
	if len(s) >= 2 {
		s = s[1 : len(s)-1]
	}
	for i := 0; i < len(s); {
		if s[i] == '\\' && i+1 < len(s) {
			if s[i+1] == 'u' {
				if reSurr.MatchString(s[i:min(len(s), i+12)]) {
					set["j-esc-surrogate"] = true
					i += 12
				} else {
					set["j-esc-u4"] = true
					i += 6
				}
			} else {
				set["j-esc-simple"] = true
				i += 2
			}
			continue
		}
		r, w := utf8.DecodeRuneInString(s[i:])
		switch {
		case r >= 0x10000:
			set["j-raw-astral"] = true
		case r == 0x7F:
			set["j-raw-del"] = true
		case r > 0x7F:
			set["j-raw-bmp"] = true
		}
		i += w
	}
	return sortedKeys(set)
}

// ---------------------------------------------------------------------------------------------
// minimisation candidates: spellings "simpler" than s — chunk deletions from large to small
// (delta debugging) and simplifying single replacements — all valid for the leaf kind; the caller
// keeps a candidate when the same violation still occurs.

func chunkDeletions(toks []string) [][]string {
	var out [][]string
	n := len(toks)
	for size := n / 2; size >= 1; size /= 2 {
		for start := 0; start < n; start += size {
			end := min(n, start+size)
			out = append(out, append(append([]string{}, toks[:start]...), toks[end:]...))
		}
		if size == 1 {
			break
		}
	}
	return out
}

func splitRunes(s string) []string {
	var out []string
	for _, r := range s {
		out = append(out, string(r))
	}
	return out
}

func shrinkCandidates(kind, s string) []string {
	var out []string
	seen := map[string]bool{s: true}
	add := func(c string, valid bool) {
		if valid && !seen[c] {
			seen[c] = true
			out = append(out, c)
		}
	}
	switch kind {
	case "quoted", "jstring":
		valid := func(c string) bool {
			if kind == "quoted" {
				_, ok := decodeQuoted(c)
				return ok
			}
			_, ok := decodeJSONString(c)
			return ok
		}
		toks := tokenizeQuoted(s[1 : len(s)-1])
		// a single token alone
		if len(toks) > 1 {
			for _, t := range toks {
				if t != "a" {
					c := `"` + t + `"`
					add(c, valid(c))
				}
			}
		}
		for _, cand := range chunkDeletions(toks) {
			c := `"` + strings.Join(cand, "") + `"`
			add(c, valid(c))
		}
		for i, t := range toks {
			if len(t) == 1 && t[0] >= 'a' && t[0] <= 'z' {
				continue
			}
			cp := append([]string{}, toks...)
			cp[i] = "a"
			c := `"` + strings.Join(cp, "") + `"`
			add(c, valid(c))
		}
	case "block":
		lines := strings.SplitAfter(s, "\n")
		if len(lines) > 1 {
			for _, cand := range chunkDeletions(lines) {
				c := strings.Join(cand, "")
				add(c, validBlockRaw(c))
			}
		}
		rs := splitRunes(s)
		for _, cand := range chunkDeletions(rs) {
			c := strings.Join(cand, "")
			add(c, validBlockRaw(c))
		}
		for i, ch := range rs {
			rep := ""
			switch {
			case ch == "\r":
				rep = "\n"
			case ch == "\t":
				rep = " "
			case ch != "a" && ch != " " && ch != "\n" && ch != `"` && ch != "\\":
				rep = "a"
			default:
				continue
			}
			cp := append([]string{}, rs...)
			cp[i] = rep
			c := strings.Join(cp, "")
			add(c, validBlockRaw(c))
		}
	case "number", "jnumber":
		for _, cand := range chunkDeletions(splitRunes(s)) {
			c := strings.Join(cand, "")
			add(c, validNumber(c) && isIntToken(c) == isIntToken(s))
		}
		for i := range s {
			var rep byte
			switch {
			case s[i] == 'E':
				rep = 'e'
			case s[i] >= '2' && s[i] <= '9':
				rep = '1'
			default:
				continue
			}
			c := s[:i] + string(rep) + s[i+1:]
			add(c, validNumber(c))
		}
	}
	return out
}

// tokenizeQuoted splits the body of a quoted string into escape sequences and single characters.
func tokenizeQuoted(body string) []string {
	var toks []string
	for i := 0; i < len(body); {
		if body[i] == '\\' && i+1 < len(body) {
			n := 2
			if body[i+1] == 'u' {
				if i+2 < len(body) && body[i+2] == '{' {
					if j := strings.IndexByte(body[i:], '}'); j >= 0 {
						n = j + 1
					}
				} else if reSurr.MatchString(body[i:min(len(body), i+12)]) {
					n = 12
				} else {
					n = 6
				}
			}
			if i+n > len(body) {
				n = len(body) - i
			}
			toks = append(toks, body[i:i+n])
			i += n
			continue
		}
		_, w := utf8.DecodeRuneInString(body[i:])
		toks = append(toks, body[i:i+w])
		i += w
	}
	return toks
}
