package c15

// The case model: an operation (gen.Doc) + provided variables whose string / number leaves carry a
// chosen spelling for the literal form and for the JSON form. Every leaf can be switched between
// its chosen ("exotic") spelling and a canonical spelling of the same denoted value; the expected
// side is always computed from the all-canonical rendering.

import (
	"encoding/json"
	"fmt"
	"math/rand/v2"
	"sort"
	"strconv"
	"strings"

	"verifharness/internal/gen"
)

type leaf struct {
	id     int
	str    bool       // string leaf (else number)
	nodes  []*gen.Val // the value nodes that carry this leaf (several when equal literals must stay equal)
	typ    string     // String | ID | Int | Float | scalar
	block  bool       // literal form is a block string (lit holds the RAW content)
	lit    string     // literal spelling: quoted literal incl. quotes, block raw content, or number text
	js     string     // JSON spelling: string token incl. quotes, or number text
	den    string     // denoted string (string leaves)
	active bool
}

func (l *leaf) literalText() string {
	if l.block {
		return `"""` + l.lit + `"""`
	}
	return l.lit
}

func (l *leaf) canonLiteral() string {
	if l.str {
		return gen.QuoteGraphQL(l.den)
	}
	return plainDecimal(l.lit)
}

func (l *leaf) canonJSON() string {
	if l.str {
		b, _ := json.Marshal(l.den)
		return string(b)
	}
	return plainDecimal(l.js)
}

// apply writes the leaf's current spellings into its nodes.
func (l *leaf) apply(jspell map[*gen.Val]string) {
	for _, n := range l.nodes {
		if l.str {
			n.Kind = gen.VString
			n.Str = l.den
			if l.active {
				n.Spelling = l.literalText()
				jspell[n] = l.js
			} else {
				n.Spelling = ""
				jspell[n] = l.canonJSON()
			}
			continue
		}
		lit, js := l.lit, l.js
		if !l.active {
			lit, js = l.canonLiteral(), l.canonJSON()
		}
		if isIntToken(lit) {
			n.Kind = gen.VInt
		} else {
			n.Kind = gen.VFloat
		}
		n.Spelling = lit
		n.Raw = json.RawMessage(js)
		jspell[n] = js
	}
}

// kindsInUse tells which spellings of the leaf the current shape of the case uses: "quoted" /
// "block" / "number" for nodes in literal position, "jstring" / "jnumber" for nodes inside a JSON
// variable value (a leaf shared by equal values can have nodes in both).
func (c *opCase) kindsInUse(l *leaf) []string {
	js := c.jsonNodes()
	inLit, inJSON := false, false
	for _, n := range l.nodes {
		if js[n] {
			inJSON = true
		} else {
			inLit = true
		}
	}
	var out []string
	if inLit {
		switch {
		case l.str && l.block:
			out = append(out, "block")
		case l.str:
			out = append(out, "quoted")
		default:
			out = append(out, "number")
		}
	}
	if inJSON {
		if l.str {
			out = append(out, "jstring")
		} else {
			out = append(out, "jnumber")
		}
	}
	return out
}

// kindInUse: the literal kind when any node is a literal, else the JSON kind.
func (c *opCase) kindInUse(l *leaf) string { return c.kindsInUse(l)[0] }

func (l *leaf) spellingOf(kind string) string {
	switch kind {
	case "jstring", "jnumber":
		return l.js
	}
	return l.lit
}

func (c *opCase) spellingInUse(l *leaf) string { return l.spellingOf(c.kindInUse(l)) }

func featuresOf(kind, spelling string) []string {
	switch kind {
	case "quoted":
		return quotedFeaturesOf(spelling)
	case "block":
		return blockFeaturesOf(spelling)
	case "jstring":
		return jsonStringFeaturesOf(spelling)
	case "number":
		return numberFeaturesOf(spelling)
	case "jnumber":
		return append([]string{"json-number"}, numberFeaturesOf(spelling)[1:]...)
	}
	return nil
}

// setSpelling replaces the spelling in use by s (a valid spelling of the given kind), recomputing
// the denoted value with the reference decoder and resetting the other form to a canonical one.
func (c *opCase) setSpelling(l *leaf, kind, s string) bool {
	switch kind {
	case "quoted":
		d, ok := decodeQuoted(s)
		if !ok {
			return false
		}
		l.lit, l.den, l.block = s, d, false
		b, _ := json.Marshal(d)
		l.js = string(b)
	case "block":
		if !validBlockRaw(s) {
			return false
		}
		l.lit, l.den, l.block = s, blockValue(s), true
		b, _ := json.Marshal(l.den)
		l.js = string(b)
	case "jstring":
		d, ok := decodeJSONString(s)
		if !ok {
			return false
		}
		l.js, l.den, l.block = s, d, false
		l.lit = gen.QuoteGraphQL(d)
	case "number", "jnumber":
		if !validNumber(s) {
			return false
		}
		l.lit, l.js = s, s
	}
	return true
}

type opCase struct {
	schema    *gen.Schema
	doc       *gen.Doc
	opName    string
	vals      map[string]*gen.Val // provided variables (absent key = omitted by the client)
	leaves    []*leaf
	jspell    map[*gen.Val]string
	jsonStyle int
	memo      map[string]*leaf
	// fixed: value nodes whose spelling is part of the case shape and is never re-spelled ("twin"
	// literals: "1" next to 1, "null" next to null, ...)
	fixed map[*gen.Val]bool
}

func newCase(s *gen.Schema, doc *gen.Doc, opName string, vals map[string]*gen.Val) *opCase {
	return &opCase{schema: s, doc: doc, opName: opName, vals: vals, jspell: map[*gen.Val]string{}, memo: map[string]*leaf{}, fixed: map[*gen.Val]bool{}}
}

func (c *opCase) mainOp() *gen.Op {
	for _, o := range c.doc.Ops {
		if o.Name == c.opName || c.opName == "" {
			return o
		}
	}
	return c.doc.Ops[0]
}

// jsonNodes: the value nodes reachable from the provided variable values.
func (c *opCase) jsonNodes() map[*gen.Val]bool {
	set := map[*gen.Val]bool{}
	var walk func(v *gen.Val)
	walk = func(v *gen.Val) {
		if v == nil {
			return
		}
		set[v] = true
		for _, it := range v.Items {
			walk(it)
		}
		for _, f := range v.Fields {
			walk(f.Val)
		}
	}
	for _, v := range c.vals {
		walk(v)
	}
	return set
}

// render gives the operation text and the variables JSON with the leaves selected by on spelled
// as chosen and every other leaf spelled canonically.
func (c *opCase) render(on func(*leaf) bool) (text string, vars string) {
	for _, l := range c.leaves {
		l.active = on != nil && on(l)
		l.apply(c.jspell)
	}
	return c.doc.String(), c.renderVars()
}

func (c *opCase) renderVars() string {
	names := make([]string, 0, len(c.vals))
	for k := range c.vals {
		names = append(names, k)
	}
	sort.Strings(names)
	if c.jsonStyle%2 == 1 {
		// reverse order: the order of members is not significant
		for i, j := 0, len(names)-1; i < j; i, j = i+1, j-1 {
			names[i], names[j] = names[j], names[i]
		}
	}
	w := &jsonWriter{style: c.jsonStyle, spell: c.jspell}
	w.open('{')
	for i, k := range names {
		if i > 0 {
			w.comma()
		}
		kb, _ := json.Marshal(k)
		w.sb.Write(kb)
		w.colon()
		w.value(c.vals[k])
	}
	w.close('}')
	return w.sb.String()
}

type jsonWriter struct {
	sb    strings.Builder
	style int
	spell map[*gen.Val]string
	n     int
}

func (w *jsonWriter) ws() {
	w.n++
	switch w.style {
	case 2:
		w.sb.WriteString([]string{" ", "", "  "}[w.n%3])
	case 3:
		w.sb.WriteString([]string{"\n", "\t", "\r\n ", " "}[w.n%4])
	}
}
func (w *jsonWriter) open(b byte)  { w.sb.WriteByte(b); w.ws() }
func (w *jsonWriter) close(b byte) { w.ws(); w.sb.WriteByte(b) }
func (w *jsonWriter) comma()       { w.ws(); w.sb.WriteByte(','); w.ws() }
func (w *jsonWriter) colon()       { w.ws(); w.sb.WriteByte(':'); w.ws() }

func (w *jsonWriter) value(v *gen.Val) {
	switch v.Kind {
	case gen.VNull:
		w.sb.WriteString("null")
	case gen.VBool:
		w.sb.WriteString(strconv.FormatBool(v.Bool))
	case gen.VInt, gen.VFloat:
		if s, ok := w.spell[v]; ok && s != "" {
			w.sb.WriteString(s)
		} else if v.Raw != nil {
			w.sb.Write(v.Raw)
		} else if v.Kind == gen.VInt {
			w.sb.WriteString(strconv.FormatInt(v.Int, 10))
		} else {
			w.sb.WriteString(strconv.FormatFloat(v.Float, 'g', -1, 64))
		}
	case gen.VString, gen.VEnum:
		if s, ok := w.spell[v]; ok && s != "" && v.Kind == gen.VString {
			w.sb.WriteString(s)
		} else {
			b, _ := json.Marshal(v.Str)
			w.sb.Write(b)
		}
	case gen.VList:
		w.open('[')
		for i, it := range v.Items {
			if i > 0 {
				w.comma()
			}
			w.value(it)
		}
		w.close(']')
	case gen.VObject:
		w.open('{')
		for i, f := range v.Fields {
			if i > 0 {
				w.comma()
			}
			b, _ := json.Marshal(f.Name)
			w.sb.Write(b)
			w.colon()
			w.value(f.Val)
		}
		w.close('}')
	default:
		w.sb.WriteString("null")
	}
}

// ---------------------------------------------------------------------------------------------
// typed traversal: choose new denoted values and spellings for every string / number leaf

type speller struct {
	c     *opCase
	r     *rand.Rand
	focus func() (quoted string, block bool, jsonFocus string) // per-leaf spelling focus
}

func (c *opCase) typeClass(named string) string {
	switch named {
	case "String", "ID", "Int", "Float", "Boolean":
		return named
	}
	if td := c.schema.Type(named); td != nil {
		switch td.Kind {
		case gen.Scalar:
			return "scalar"
		case gen.Enum:
			return "enum"
		case gen.Input:
			return "input"
		}
	}
	return "scalar"
}

// spellTree walks a value of type t and re-creates each string / number leaf with a fresh denoted
// value and spellings. site: "lit" (literal in the document) or "json" (variable value).
func (s *speller) spellTree(v *gen.Val, t *gen.TypeRef, site string) {
	if v == nil || s.c.fixed[v] {
		return
	}
	switch v.Kind {
	case gen.VNull, gen.VBool, gen.VEnum, gen.VVar:
		return
	case gen.VList:
		et := t
		if t.Elem != nil {
			et = t.Elem
		}
		for _, it := range v.Items {
			s.spellTree(it, et, site)
		}
		return
	case gen.VObject:
		named := t.NamedType()
		td := s.c.schema.Type(named)
		for _, f := range v.Fields {
			ft := gen.Named(named, false) // custom scalar: untyped content keeps the scalar's class
			if td != nil && td.Kind == gen.Input {
				if fd := td.InputField(f.Name); fd != nil {
					ft = fd.Type
				}
			}
			s.spellTree(f.Val, ft, site)
		}
		return
	}
	cls := s.c.typeClass(t.NamedType())
	key := fmt.Sprintf("%s|%s|%d|%s", site, cls, v.Kind, v.Literal())
	if l, ok := s.c.memo[key]; ok {
		l.nodes = append(l.nodes, v)
		return
	}
	l := &leaf{id: len(s.c.leaves), nodes: []*gen.Val{v}, typ: cls}
	qf, blk, jf := "", false, ""
	if s.focus != nil {
		qf, blk, jf = s.focus()
	}
	switch v.Kind {
	case gen.VString:
		if cls != "String" && cls != "ID" && cls != "scalar" {
			return
		}
		l.str = true
		if site == "json" {
			l.js, l.den = genJSONString(s.r, jf)
			l.lit = quotedSpellOf(s.r, l.den)
		} else if blk {
			l.block = true
			l.lit = genBlock(s.r)
			l.den = blockValue(l.lit)
			l.js = jsonSpellOf(s.r, l.den, true)
		} else {
			l.lit, l.den = genQuoted(s.r, qf)
			l.js = jsonSpellOf(s.r, l.den, true)
		}
	case gen.VInt, gen.VFloat:
		switch cls {
		case "Int", "ID", "Float", "scalar":
		default:
			return
		}
		k := cls
		if v.Kind == gen.VFloat && cls == "Int" {
			return
		}
		l.lit = genNumber(s.r, k)
		l.js = l.lit
	default:
		return
	}
	s.c.memo[key] = l
	s.c.leaves = append(s.c.leaves, l)
}

// quotedSpellOf spells a GIVEN string as a GraphQL quoted literal with random escape choices.
func quotedSpellOf(r *rand.Rand, s string) string {
	var sb strings.Builder
	sb.WriteByte('"')
	for _, c := range s {
		switch {
		case c == '"' || c == '\\':
			sb.WriteString(`\` + string(c))
		case c == '\n' || c == '\r' || c == 0:
			short := map[rune]string{'\n': `\n`, '\r': `\r`, 0: `\u0000`}
			sb.WriteString(short[c])
		case c == '\t':
			sb.WriteString([]string{`\t`, "\t", `\u0009`}[r.IntN(3)])
		case c < 0x20:
			fmt.Fprintf(&sb, `\u%04x`, c)
		case c >= 0x10000 && r.IntN(3) == 0:
			fmt.Fprintf(&sb, `\u{%X}`, c)
		case c >= 0x10000 && r.IntN(2) == 0:
			c2 := c - 0x10000
			fmt.Fprintf(&sb, `\u%04X\u%04x`, 0xD800+(c2>>10), 0xDC00+(c2&0x3FF))
		case c >= 0x7F && c < 0x10000 && r.IntN(3) == 0:
			fmt.Fprintf(&sb, `\u%04x`, c)
		default:
			sb.WriteRune(c)
		}
	}
	sb.WriteByte('"')
	return sb.String()
}

// ---------------------------------------------------------------------------------------------
// walking every value reference of the document

type valRef struct {
	ref   **gen.Val
	field *gen.FieldSel // the field whose argument this is (nil for directive arguments)
	arg   *gen.ArgVal
	top   bool // the reference is the argument value itself
}

func (c *opCase) argRefs() []valRef {
	var out []valRef
	seen := map[*gen.ArgVal]bool{}
	var walk func(sels []*gen.Sel)
	doArgs := func(f *gen.FieldSel, args []*gen.ArgVal) {
		for _, a := range args {
			if seen[a] {
				continue
			}
			seen[a] = true
			out = append(out, valRef{ref: &a.Val, field: f, arg: a, top: true})
		}
	}
	doDirs := func(ds []*gen.Dir) {
		for _, d := range ds {
			doArgs(nil, d.Args)
		}
	}
	walk = func(sels []*gen.Sel) {
		for _, x := range sels {
			switch {
			case x.Field != nil:
				doArgs(x.Field, x.Field.Args)
				doDirs(x.Field.Dirs)
				walk(x.Field.Sel)
			case x.Inline != nil:
				doDirs(x.Inline.Dirs)
				walk(x.Inline.Sel)
			case x.Spread != nil:
				doDirs(x.Spread.Dirs)
			}
		}
	}
	op := c.mainOp()
	doDirs(op.Dirs)
	walk(op.Sel)
	for _, f := range c.doc.Frags {
		walk(f.Sel)
	}
	return out
}

// deepRefs lists every nested value reference below (and including) a top reference.
func deepRefs(ref **gen.Val, out *[]**gen.Val) {
	*out = append(*out, ref)
	v := *ref
	for i := range v.Items {
		deepRefs(&v.Items[i], out)
	}
	for i := range v.Fields {
		deepRefs(&v.Fields[i].Val, out)
	}
}

// ---------------------------------------------------------------------------------------------
// literal <-> variable rewrites, done in place and undone by the returned function

// lit2var turns every constant literal argument of a field into a variable carrying the same
// value tree as its JSON value.
func (c *opCase) lit2var() (undo func(), n int) {
	op := c.mainOp()
	savedVars := append([]*gen.VarDef(nil), op.Vars...)
	type saved struct {
		ref **gen.Val
		old *gen.Val
	}
	var restore []saved
	var added []string
	byKey := map[string]string{}
	used := map[string]bool{}
	for _, v := range op.Vars {
		used[v.Name] = true
	}
	for _, vr := range c.argRefs() {
		if vr.field == nil || vr.field.Def == nil {
			continue
		}
		ad := vr.field.Def.Arg(vr.arg.Name)
		v := *vr.ref
		if ad == nil || v.Kind == gen.VVar || v.HasVar() {
			continue
		}
		key := vr.field.Name + "|" + vr.arg.Name + "|" + v.Literal()
		name, ok := byKey[key]
		if !ok {
			for i := 1; ; i++ {
				name = fmt.Sprintf("lv%d", i)
				if !used[name] {
					break
				}
			}
			used[name] = true
			byKey[key] = name
			op.Vars = append(op.Vars, &gen.VarDef{Name: name, Type: ad.Type})
			c.vals[name] = v
			added = append(added, name)
		}
		restore = append(restore, saved{vr.ref, v})
		*vr.ref = gen.VarV(name)
		n++
	}
	return func() {
		for _, s := range restore {
			*s.ref = s.old
		}
		for _, a := range added {
			delete(c.vals, a)
		}
		op.Vars = savedVars
	}, n
}

// var2lit replaces every use of a provided variable by the literal of its value (the value tree
// itself, so its leaves keep their spellings) and drops the variable.
func (c *opCase) var2lit() (undo func(), n int) {
	op := c.mainOp()
	savedVars := append([]*gen.VarDef(nil), op.Vars...)
	savedVals := map[string]*gen.Val{}
	for k, v := range c.vals {
		savedVals[k] = v
	}
	type saved struct {
		ref **gen.Val
		old *gen.Val
	}
	var restore []saved
	replaced := map[string]bool{}
	for _, vr := range c.argRefs() {
		var refs []**gen.Val
		deepRefs(vr.ref, &refs)
		for _, ref := range refs {
			v := *ref
			if v.Kind != gen.VVar {
				continue
			}
			val, ok := c.vals[v.Str]
			if !ok {
				continue
			}
			restore = append(restore, saved{ref, v})
			*ref = val
			replaced[v.Str] = true
			n++
		}
	}
	var keep []*gen.VarDef
	for _, vd := range op.Vars {
		if replaced[vd.Name] {
			delete(c.vals, vd.Name)
			continue
		}
		keep = append(keep, vd)
	}
	op.Vars = keep
	return func() {
		for _, s := range restore {
			*s.ref = s.old
		}
		op.Vars = savedVars
		for k := range c.vals {
			delete(c.vals, k)
		}
		for k, v := range savedVals {
			c.vals[k] = v
		}
	}, n
}

// siteOf tells whether the leaf sits inside a named fragment definition / a variable default.
func (c *opCase) siteOf(l *leaf) (inFragment, inDefault bool) {
	mine := map[*gen.Val]bool{}
	for _, n := range l.nodes {
		mine[n] = true
	}
	var hit bool
	var walkVal func(v *gen.Val)
	walkVal = func(v *gen.Val) {
		if v == nil {
			return
		}
		if mine[v] {
			hit = true
		}
		for _, it := range v.Items {
			walkVal(it)
		}
		for _, f := range v.Fields {
			walkVal(f.Val)
		}
	}
	var walk func(sels []*gen.Sel)
	walk = func(sels []*gen.Sel) {
		for _, x := range sels {
			switch {
			case x.Field != nil:
				for _, a := range x.Field.Args {
					walkVal(a.Val)
				}
				walk(x.Field.Sel)
			case x.Inline != nil:
				walk(x.Inline.Sel)
			}
		}
	}
	for _, f := range c.doc.Frags {
		walk(f.Sel)
	}
	inFragment = hit
	hit = false
	for _, vd := range c.mainOp().Vars {
		walkVal(vd.Default)
	}
	inDefault = hit
	return
}
