// Package c15: argument values survive extraction and forwarding unchanged.
package c15

import (
	"bytes"
	"context"
	"encoding/json"
	"fmt"
	"regexp"
	"runtime/debug"
	"sort"
	"unicode/utf8"

	"strings"

	gast "github.com/vektah/gqlparser/v2/ast"
	"github.com/vektah/gqlparser/v2/gqlerror"
	"github.com/vektah/gqlparser/v2/parser"

	"verifharness/internal/fed"
	"verifharness/internal/fw"
	"verifharness/internal/gen"
	"verifharness/internal/ref"
	"verifharness/internal/rig"
)

type c15 struct{ fw.Base }

func init() { fw.Register(c15{}) }

func (c15) ID() string { return "C15" }

func (c15) NumCases(tier string) int {
	if tier == fw.Thorough {
		return 60000
	}
	return 3000
}

func (c15) CaseTimeout(string) int { return 180 }

func (c15) Rule() string {
	return "case kinds by index (4:1:1). BUNDLE: a fixed schema with arguments of every input kind (String, String!, ID, Int, Float, Boolean, enum, custom scalar, input objects with defaults / nesting / lists / self reference, [String], [[Float]], argument defaults) and 8-20 aliased fields (root and nested, every fourth case partly inside a named + an inline fragment, optionally under @skip/@include with a variable), each carrying leaves whose SPELLING is generated at character level with the denoted value known by construction and cross-checked by a reference decoder — quoted strings: the eight simple escapes, \\uXXXX in any hex case (controls, quote, backslash, BMP), surrogate pairs, \\u{...} with leading zeros, raw TAB / other C0 controls / DEL / C1 / U+2028 / BOM / astral characters, an escaped backslash followed by escape-like text; block strings: random lines with mixed space/TAB indentation, blank and whitespace-only lines, LF / CR / CRLF, quotes, \\\"\"\", backslashes, trailing whitespace, non-ASCII; numbers: -0, int32 bounds, int64 bounds, integers beyond int64, fractions with more than 17 digits, exponents e/E with + / - / leading zeros with and without fraction, huge / sub-normal / beyond-double exponents (custom scalar) — placed directly, in lists, in (nested) input objects or inside a custom scalar, plus (every second bundle / generated case) 2-3 \"twin\" literals — same spelling, different kinds: \"1\"/1, \"1.5\"/1.5, \"true\"/true, \"false\"/false, \"null\"/null, \"[]\"/[], \"{}\"/{}, \"\"/\"0\"/0, never re-spelled — on ID / custom-scalar arguments of the same field under different aliases, of different fields with the same argument type, inside input-object fields and lists, in both orders (string first at least half of the time), plus 1-3 fields whose arguments are variables in the absent / null / value / absent+default / absent+null-default / null+default matrix (top level, inside object literals, inside list literals, whole input objects). GENERATED: gen.GenSchema + valid-by-construction operation (fragments, aliases, duplicates, @skip/@include, variables with defaults, literals mixing variables, list coercion, multi-operation documents) whose string / number leaves are re-spelled the same way and whose JSON variable values use exotic JSON spellings (escapes, surrogate pairs, raw astral / DEL, inter-token whitespace incl. CRLF/TAB, member order, number forms), nullable variables omitted / null / given. FEDERATED: fed.GenLayout (2-3 subgraphs, entities, @requires/@provides/shareable, interfaces, unions, mutations) + generated operation re-spelled the same way: arguments of entity fields travel in _entities fetches. Every case is run, on a real ExecutionEngine, (a) with canonical spellings (baseline), (b) with the chosen spellings, (c) with every constant literal argument turned into a JSON variable, (d) with every provided variable inlined as a literal — each through admission (rig: Input.Variables / printed operation / remap) and through the gateway (recorded subgraph request bodies). Oracle: for every argument-carrying field position of the client operation (static enumeration over all possible runtime types, fragments flattened, directives evaluated) the arguments coerced by the reference coercer from what the subgraph received (query text + variables of the raw body) equal those coerced from the canonical client operation + client variables (Int exact, Float by double value, ID as string, custom scalars with exact rational numbers, absent != null != default); federated: every reference-executed field position (type, object id, field, coerced arguments) was resolved by some subgraph; the same comparison for the normalised operation + Input.Variables; Input.Variables and every request body strictly valid JSON (encoding/json + UTF-8); an omitted client variable is never null and a null one never a value in Input.Variables; runs (b),(c),(d) are not refused when (a) is not. A violation that canonical spellings do not show is attributed: each non-canonical leaf is sent alone in a one-field operation, culprits are minimised by delta debugging and the violation carries the feature class of the minimal witness; the case is then judged again with the culprits spelled canonically, so one defect does not blind the case. Non-trivial = >=1 non-canonical, non-culprit leaf judged at the subgraph; distinct by hash of (schema, operation, variables)."
}

func (c15) Assumptions() []string {
	return []string{
		"gqlparser's parser reads the canonical respelling of the client operation (only simple escapes, \\u00XX for controls and raw characters occur there; numbers in positional notation) and gqlparser parses + validates the operations the subgraph receives; exotic spellings never reach gqlparser on the expected side",
		"the reference coercer implements the spec's CoerceVariableValues / CoerceArgumentValues; an enum literal inside a custom scalar denotes its name as a string; -0 and 0 are the same value; Float values are compared as doubles, custom scalar numbers exactly",
		"quoted strings follow the September 2025 grammar (\\u{...}, surrogate pairs, any Unicode scalar value except NUL as source character); raw C0 controls other than TAB are a separate, labelled class (raw-c0)",
		"a raw NUL byte is never generated (open finding C05-F9); union fragments inside non-union parents are not generated (C01-F1); operations the engine refuses with canonical spellings too (C03-F8 / C04-F2 nullability re-binding, C01-F2) leave the case inconclusive",
		"the planner's __internal_merge_<Type>_<key> aliases in subgraph operations stand for the client's response key <key>",
		"the subgraph that resolves a field: one plain subgraph mirroring the schema (bundle / generated cases) or the federated subgraph whose semantic server recorded the resolution (federated cases; schemas there have Int / String / ID / Boolean / enum arguments only)",
	}
}

func (c15) RequiredCounters(string) []string {
	return []string{"cases_bundle", "cases_generated", "cases_federated", "runs_judged", "positions_compared", "leaves_exotic_judged", "variables_json_checked", "request_bodies_checked", "normalized_positions_compared", "litvar_pairs_compared", "omitted_variables_judged", "null_variables_judged", "block_strings_judged", "quoted_strings_judged", "numbers_judged", "json_strings_judged", "json_numbers_judged", "runs_lit2var", "runs_var2lit", "federated_positions_compared", "federated_entity_requests", "twin_literals"}
}

// ---------------------------------------------------------------------------------------------
// observation

type finding struct {
	kind   string
	msg    string
	pos    string // position the finding is about ("" = whole request)
	detail map[string]any
}

func (f finding) key() string { return f.kind + "@" + f.pos }

// strictJSON: encoding/json validity (rejects unescaped control characters) + valid UTF-8.
func strictJSON(b []byte) string {
	if !utf8.Valid(b) {
		return "invalid UTF-8"
	}
	if !json.Valid(b) {
		var v any
		err := json.Unmarshal(b, &v)
		return fmt.Sprint("not valid JSON: ", err)
	}
	return ""
}

type world struct {
	ss  *rig.Schemas
	eng *rig.Engine
	gw  *fed.Gateway
	co  *coercer
	// federated cases: the layout and universe (nil for the single-subgraph world)
	layout   *fed.Layout
	universe *ref.Universe
}

func (w *world) close() {
	if w.eng != nil {
		w.eng.Close()
	}
	if w.gw != nil {
		w.gw.Close()
	}
}

type expected struct {
	pos      map[string]position
	provided map[string]any
	err      string
	// client variable definitions: name -> "its default is the null literal"
	declared map[string]bool
	// federated cases: response path -> identity of the resolved field position with its coerced
	// arguments (fed.ProvKey), from the reference execution of the supergraph
	prov map[string]string
}

func decodeObject(b []byte) (map[string]any, error) {
	if len(bytes.TrimSpace(b)) == 0 {
		return map[string]any{}, nil
	}
	v, err := ref.DecodeJSON(b)
	if err != nil {
		return nil, err
	}
	if v == nil {
		return map[string]any{}, nil
	}
	m, ok := v.(map[string]any)
	if !ok {
		return nil, fmt.Errorf("not a JSON object")
	}
	return m, nil
}

// positionsOf parses text with gqlparser, coerces the variables and enumerates the positions.
// validate=false (expected side, valid by construction): gqlparser's parser only — its validator
// evaluates number tokens with ParseInt / ParseFloat and so refuses integers beyond int64 and
// floats beyond the double range, which are legal at Float / custom scalar positions.
func (w *world) positionsOf(text, opName string, vars map[string]any, validate bool) (map[string]position, error) {
	var qd *gast.QueryDocument
	if validate {
		var gerrs gqlerror.List
		qd, gerrs = w.ss.LoadQuery(text)
		if gerrs != nil {
			return nil, fmt.Errorf("gqlparser: %s", gerrs.Error())
		}
	} else {
		var perr error
		qd, perr = parser.ParseQuery(&gast.Source{Name: "expected", Input: text})
		if perr != nil {
			return nil, fmt.Errorf("gqlparser (parser): %s", perr.Error())
		}
	}
	op := rig.PickOperation(qd, opName)
	if op == nil {
		return nil, fmt.Errorf("operation %q not found", opName)
	}
	cvs, cerr := w.co.coerceVars(op, vars)
	if cerr != nil {
		return nil, fmt.Errorf("variables not coercible: %s", cerr.msg)
	}
	return w.co.positions(qd, op, cvs), nil
}

func (w *world) expect(canonText, opName, canonVars string) expected {
	m, err := decodeObject([]byte(canonVars))
	if err != nil {
		return expected{err: "canonical variables: " + err.Error()}
	}
	pos, err := w.positionsOf(canonText, opName, m, false)
	if err != nil {
		return expected{err: err.Error()}
	}
	for p, x := range pos {
		if x.Bad {
			return expected{err: "expected position " + p + ": " + x.Args}
		}
	}
	exp := expected{pos: pos, provided: m}
	if w.layout != nil {
		qd, gerrs := w.ss.LoadQuery(canonText)
		if gerrs != nil {
			return expected{err: "gqlparser: " + gerrs.Error()}
		}
		op := rig.PickOperation(qd, opName)
		root := &ref.Obj{Type: "Query", ID: "root"}
		if op.Operation == gast.Mutation {
			root.Type = "Mutation"
		}
		prov := map[string]ref.Prov{}
		if _, _, cerr := rig.RefExec(w.ss.Gql, op, m, fed.NewReferenceResolver(w.layout, w.universe), root, prov); cerr != nil {
			return expected{err: "variables not coercible (reference): " + cerr.Error()}
		}
		exp.prov = map[string]string{}
		for path, pv := range prov {
			if fd := w.fieldDef(pv.ParentType, pv.Field); fd != nil && len(fd.Arguments) > 0 {
				exp.prov[path] = fed.ProvKey(pv.ParentType, pv.ObjID, pv.Field, pv.Args)
			}
		}
	}
	return exp
}

func (w *world) fieldDef(typeName, field string) *gast.FieldDefinition {
	if def := w.ss.Gql.Types[typeName]; def != nil {
		return def.Fields.ForName(field)
	}
	return nil
}

type runResult struct {
	findings []finding
	refused  string // the engine refused / failed the operation
	subPos   map[string]position
	nPos     int
	nNormPos int
	bodies   int
	nFedPos  int // federated: positions resolved below an _entities fetch or anywhere (all counted)
	nEntity  int // federated: _entities requests seen
}

func truncate(s string, n int) string {
	if len(s) > n {
		return s[:n] + "…"
	}
	return s
}

type panicInfo struct{ msg, sig, stack string }

func guard(f func()) (p *panicInfo) {
	defer func() {
		if r := recover(); r != nil {
			st := string(debug.Stack())
			p = &panicInfo{msg: fmt.Sprint(r), sig: fw.PanicSignature(fmt.Sprint(r), st), stack: truncate(st, 4000)}
		}
	}()
	f()
	return nil
}

// run sends one rendering through admission and through the gateway and compares with exp.
func (w *world) run(text, opName, vars string, exp expected) runResult {
	var rr runResult
	add := func(kind, pos, msg string, detail map[string]any) {
		rr.findings = append(rr.findings, finding{kind: kind, msg: msg, pos: pos, detail: detail})
	}
	// ---- observation point 1: admission on the real engine
	var a rig.Admission
	if p := guard(func() { a = w.eng.Admit(text, opName, []byte(vars)) }); p != nil {
		add("panic", "", "admission panicked: "+p.msg, map[string]any{"panic": p.sig, "stack": p.stack})
		rr.refused = "panic: " + p.msg
		return rr
	}
	if a.Stage != "" {
		rr.refused = a.Err
		add("refused", "", "the engine refuses the operation: "+a.Err, map[string]any{"error": a.Err})
		return rr
	}
	if why := strictJSON(a.Variables); why != "" {
		add("variables-json-invalid", "", "the variables exposed after normalisation are "+why, map[string]any{"normalized": a.Printed, "normalized_variables": string(a.Variables), "normalized_variables_quoted": fmt.Sprintf("%+q", a.Variables)})
	} else {
		vm, err := rig.VarsForRemapped(a.Variables, a.Remap)
		if err != nil {
			add("variables-json-invalid", "", "the variables exposed after normalisation: "+err.Error(), map[string]any{"normalized_variables": string(a.Variables)})
		} else {
			npos, err := w.positionsOf(a.Printed, "", vm, true)
			if err != nil {
				add("normalized-invalid", "", "the normalised operation + variables are not valid / coercible: "+err.Error(), map[string]any{"normalized": a.Printed, "normalized_variables": string(a.Variables)})
			} else {
				w.compare(&rr, "normalized", exp, npos, map[string]any{"normalized": a.Printed, "normalized_variables": string(a.Variables), "remap": a.Remap})
				rr.nNormPos = countArgPositions(exp.pos)
			}
		}
		// omitted stays omitted, null stays null (as far as the variable survives under its own name)
		if am, err := decodeObject(a.Variables); err == nil {
			for _, name := range sortedKeysOf(exp.declared) {
				nullDefault := exp.declared[name]
				after, present := am[name]
				cv, given := exp.provided[name]
				switch {
				case !given && present && after == nil && !nullDefault:
					add("omitted-became-null", "$"+name, "variable $"+name+" is null after normalisation although the client omitted it", map[string]any{"normalized": a.Printed, "normalized_variables": string(a.Variables)})
				case given && cv == nil && present && after != nil:
					add("null-became-value", "$"+name, "variable $"+name+" is not null after normalisation although the client sent null", map[string]any{"normalized": a.Printed, "normalized_variables": string(a.Variables)})
				}
			}
		}
	}
	// ---- observation point 2: the subgraph request
	var res *fed.Result
	if p := guard(func() { res = w.gw.Execute(context.Background(), text, opName, []byte(vars)) }); p != nil {
		add("panic", "", "execution panicked: "+p.msg, map[string]any{"panic": p.sig, "stack": p.stack})
		rr.refused = "panic: " + p.msg
		return rr
	}
	if res.Err != nil {
		rr.refused = res.Err.Error()
		add("refused", "", "ExecutionEngine.Execute fails: "+res.Err.Error(), map[string]any{"error": res.Err.Error()})
		return rr
	}
	if len(res.Requests) == 0 {
		if countArgPositions(exp.pos) > 0 {
			add("no-subgraph-request", "", "no request reached the subgraph", map[string]any{"response": truncate(res.Raw, 600)})
		}
		return rr
	}
	if w.layout != nil {
		w.compareFederated(&rr, exp, res)
		return rr
	}
	merged := map[string]position{}
	for _, rq := range res.Requests {
		rr.bodies++
		d := map[string]any{"request_body": rq.RawBody, "request_body_quoted": fmt.Sprintf("%+q", rq.RawBody)}
		if why := strictJSON([]byte(rq.RawBody)); why != "" {
			add("request-body-json-invalid", "", "the subgraph request body is "+why, d)
			continue
		}
		var body struct {
			Query     string          `json:"query"`
			Variables json.RawMessage `json:"variables"`
		}
		if err := json.Unmarshal([]byte(rq.RawBody), &body); err != nil {
			add("request-body-json-invalid", "", "the subgraph request body does not decode: "+err.Error(), d)
			continue
		}
		vm, err := decodeObject(body.Variables)
		if err != nil {
			add("request-body-json-invalid", "", "the variables of the subgraph request: "+err.Error(), d)
			continue
		}
		pos, err := w.positionsOf(body.Query, "", vm, true)
		if err != nil {
			add("subgraph-request-invalid", "", "the request the subgraph received is not valid / coercible for its schema: "+err.Error(), d)
			continue
		}
		for k, v := range pos {
			merged[k] = v
		}
	}
	rr.subPos = merged
	w.compare(&rr, "subgraph", exp, merged, map[string]any{"requests": requestDump(res.Requests)})
	rr.nPos = countArgPositions(exp.pos)
	return rr
}

// compareFederated: every argument-carrying field position of the reference execution must have
// been resolved, with the same coerced arguments, by some subgraph.
func (w *world) compareFederated(rr *runResult, exp expected, res *fed.Result) {
	resolved := map[string]bool{}
	for _, rq := range res.Requests {
		rr.bodies++
		if why := strictJSON([]byte(rq.RawBody)); why != "" {
			rr.findings = append(rr.findings, finding{kind: "request-body-json-invalid", msg: "the subgraph request body is " + why, detail: map[string]any{"request_body": rq.RawBody, "request_body_quoted": fmt.Sprintf("%+q", rq.RawBody)}})
			continue
		}
		for _, pr := range rq.Problems {
			if strings.Contains(pr, "not valid JSON") || strings.Contains(pr, "not valid for the subgraph schema") || strings.Contains(pr, "not coercible") {
				rr.findings = append(rr.findings, finding{kind: "subgraph-request-invalid", msg: "subgraph " + rq.Subgraph + " received a bad request: " + pr, detail: map[string]any{"request_body": rq.RawBody}})
				break
			}
		}
		for k := range rq.Resolved {
			resolved[k] = true
		}
		if strings.Contains(rq.Query, "_entities") {
			rr.nEntity++
		}
	}
	paths := make([]string, 0, len(exp.prov))
	for p := range exp.prov {
		paths = append(paths, p)
	}
	sort.Strings(paths)
	for _, p := range paths {
		key := exp.prov[p]
		rr.nPos++
		rr.nFedPos++
		if resolved[key] {
			continue
		}
		// what was resolved for the same object and field?
		prefix := key[:strings.LastIndex(key, "|")+1]
		var near []string
		for k := range resolved {
			if strings.HasPrefix(k, prefix) {
				near = append(near, k)
			}
		}
		sort.Strings(near)
		rr.findings = append(rr.findings, finding{kind: "subgraph-value-mismatch", pos: p, msg: "no subgraph resolved the field position " + p + " with the arguments the client supplied: expected " + truncate(key, 300) + " resolved instead " + truncate(strings.Join(near, " ; "), 300),
			detail: map[string]any{"position": p, "expected_resolution": key, "resolved_for_same_object_and_field": near, "requests": requestDump(res.Requests)}})
	}
}

func requestDump(rqs []*fed.Request) []map[string]any {
	var out []map[string]any
	for _, rq := range rqs {
		out = append(out, map[string]any{"subgraph": rq.Subgraph, "body": rq.RawBody, "problems": rq.Problems})
	}
	return out
}

func countArgPositions(pos map[string]position) int {
	n := 0
	for _, p := range pos {
		if p.Args != "" {
			n++
		}
	}
	return n
}

// compare judges every expected argument-carrying position against the observed ones.
func (w *world) compare(rr *runResult, where string, exp expected, got map[string]position, detail map[string]any) {
	keys := make([]string, 0, len(exp.pos))
	for k := range exp.pos {
		keys = append(keys, k)
	}
	sort.Strings(keys)
	for _, k := range keys {
		e := exp.pos[k]
		if e.Args == "" {
			continue
		}
		g, ok := got[k]
		d := map[string]any{"position": k, "field": e.Field, "expected_arguments": e.Args}
		for a, b := range detail {
			d[a] = b
		}
		switch {
		case !ok:
			rr.findings = append(rr.findings, finding{kind: where + "-position-missing", pos: k, msg: "field position " + k + " of the client operation does not occur in the " + where + " operation", detail: d})
		case g.Bad:
			d["observed_arguments"] = g.Args
			rr.findings = append(rr.findings, finding{kind: where + "-value-mismatch", pos: k, msg: "the arguments of " + k + " at the " + where + " side are not coercible: " + g.Args, detail: d})
		case g.Args != e.Args || g.Field != e.Field:
			d["observed_arguments"] = g.Args
			d["difference_at"], d["difference"] = diffClass(any(e.Val), any(g.Val), "")
			rr.findings = append(rr.findings, finding{kind: where + "-value-mismatch", pos: k, msg: "the " + where + " side gets a different value at " + k + ": expected " + truncate(e.Args, 300) + " observed " + truncate(g.Args, 300), detail: d})
		}
	}
}

// ---------------------------------------------------------------------------------------------
// judging a case

type judge struct {
	w    *world
	c    *opCase
	res  *fw.Result
	base map[string]any // detail common to every violation of the case
	// reported: violation classes already emitted for this case
	reported map[string]bool
	budget   int
	// nullabilityOnlyConflict: see judgeRun (fact operation_invalid_only_by_nullability_conflict)
	nullabilityOnlyConflict bool
	// one-field attribution world (bundle schema), built on first use
	mw         *world
	mwErr      error
	microCache map[string]microResult
	// baseKeys: findings of the canonical rendering of the shape being attributed
	baseKeys map[string]bool
}

func (j *judge) detail(extra map[string]any) map[string]any {
	m := map[string]any{}
	for k, v := range j.base {
		m[k] = v
	}
	for k, v := range extra {
		m[k] = v
	}
	return m
}

// once renders with the leaves selected by on and runs; the expected side comes from the canonical
// rendering of the same state of the case.
func (j *judge) once(on func(*leaf) bool) (runResult, string, string, expected) {
	j.res.Count("engine_runs", 1)
	canonText, canonVars := j.c.render(nil)
	exp := j.w.expect(canonText, j.c.opName, canonVars)
	exp.declared = map[string]bool{}
	for _, vd := range j.c.mainOp().Vars {
		exp.declared[vd.Name] = vd.Default != nil && vd.Default.Kind == gen.VNull
	}
	text, vars := j.c.render(on)
	if exp.err != "" {
		return runResult{}, text, vars, exp
	}
	return j.w.run(text, j.c.opName, vars, exp), text, vars, exp
}

func kindsOf(fs []finding) map[string]bool {
	m := map[string]bool{}
	for _, f := range fs {
		m[f.kind] = true
	}
	return m
}

// judgeVariant runs the current shape of the case (label: chosen / lit2var / var2lit) and reports.
// baseline: findings of the canonical rendering of the same shape.
func (j *judge) judgeVariant(label string) (ok bool, subPos map[string]position) {
	all := func(*leaf) bool { return true }
	// baseline with canonical spellings
	br, btext, bvars, exp := j.once(nil)
	if exp.err != "" {
		j.res.Broken("expected side unavailable ("+label+"): "+exp.err, j.detail(map[string]any{"variant": label, "canonical_operation": btext, "canonical_variables": bvars}))
		return false, nil
	}
	if br.refused != "" {
		j.res.Count("baseline_refused", 1)
		j.res.Count("baseline_refused_"+label, 1)
		j.res.Observe("baseline_refusals", truncate(br.refused, 220))
		if j.res.Inconclusive == "" {
			j.res.Inconclusive = "operation-refused-with-canonical-spellings (" + label + "): " + truncate(br.refused, 200)
		}
		for _, f := range br.findings {
			if f.kind == "panic" {
				j.res.Violate("panic", f.msg, map[string]string{"origin": "structure", "panic": fmt.Sprint(f.detail["panic"])}, j.detail(map[string]any{"variant": label, "operation": btext, "variables": bvars, "finding": f.detail}))
			}
		}
		return false, nil
	}
	j.res.Count("runs_judged", 1)
	j.res.Count("positions_compared", int64(br.nPos))
	j.res.Count("normalized_positions_compared", int64(br.nNormPos))
	j.res.Count("variables_json_checked", 1)
	j.res.Count("request_bodies_checked", int64(br.bodies))
	baseKeys := map[string]bool{}
	// input fact for the matcher: the normalised / upstream operation of this run is invalid ONLY because one
	// response name is selected as `X` and as `X!` (the root cause listed as C03-F8: hoisting `... on I { f }`
	// out of `... on T` re-binds f to T.f); positions cannot be located in such an operation
	j.nullabilityOnlyConflict = false
	for _, f := range br.findings {
		if (f.kind == "normalized-invalid" || f.kind == "subgraph-request-invalid") && nullabilityOnlyConflict(f.msg) {
			j.nullabilityOnlyConflict = true
		}
	}
	for _, f := range br.findings {
		baseKeys[f.key()] = true
		j.reportStructure(label, f, btext, bvars)
	}
	// the chosen spellings
	rr, text, vars, _ := j.once(all)
	j.res.Count("runs_judged", 1)
	j.res.Count("positions_compared", int64(rr.nPos))
	j.res.Count("normalized_positions_compared", int64(rr.nNormPos))
	j.res.Count("variables_json_checked", 1)
	j.res.Count("request_bodies_checked", int64(rr.bodies))
	j.res.Count("runs_"+label, 1)
	j.res.Count("federated_positions_compared", int64(rr.nFedPos+br.nFedPos))
	j.res.Count("federated_entity_requests", int64(rr.nEntity+br.nEntity))
	var fresh []finding
	for _, f := range rr.findings {
		if !baseKeys[f.key()] {
			fresh = append(fresh, f)
		}
	}
	// eff: the run whose observations count — the chosen spellings, or, when some leaves trip a
	// defect on their own, the chosen spellings with those culprits spelled canonically (so that one
	// defect does not blind the case for everything else)
	eff := rr
	culprit := map[*leaf]bool{}
	if len(fresh) > 0 {
		eff, culprit = j.attribute(label, fresh, text, vars)
		j.res.Count("runs_judged", 1)
		j.res.Count("positions_compared", int64(eff.nPos))
		j.res.Count("normalized_positions_compared", int64(eff.nNormPos))
		j.res.Count("request_bodies_checked", int64(eff.bodies))
	}
	if eff.refused == "" {
		for _, l := range j.c.leaves {
			k := j.c.kindInUse(l)
			if j.c.spellingInUse(l) == canonOf(l, k) {
				continue
			}
			if culprit[l] {
				j.res.Count("leaves_culprit", 1)
				continue
			}
			j.res.Count("leaves_exotic_judged", 1)
			switch k {
			case "quoted":
				j.res.Count("quoted_strings_judged", 1)
			case "block":
				j.res.Count("block_strings_judged", 1)
			case "jstring":
				j.res.Count("json_strings_judged", 1)
			case "number":
				j.res.Count("numbers_judged", 1)
			case "jnumber":
				j.res.Count("json_numbers_judged", 1)
			}
			for _, f := range featuresOf(k, j.c.spellingInUse(l)) {
				j.res.Observe("spelling_features_judged", f)
			}
		}
	} else {
		j.res.Count("runs_refused_after_attribution", 1)
	}
	return eff.refused == "" && len(eff.findings) == 0 && len(br.findings) == 0, eff.subPos
}

func canonOf(l *leaf, kind string) string {
	switch kind {
	case "jstring", "jnumber":
		return l.canonJSON()
	}
	return l.canonLiteral()
}

var reConflictTypes = regexp.MustCompile("conflicting types [\"']([^\"']+)[\"'] and [\"']([^\"']+)[\"']")

// nullabilityOnlyConflict: every field-merge conflict the message names differs in `!` only, and the
// message names at least one.
func nullabilityOnlyConflict(msg string) bool {
	ms := reConflictTypes.FindAllStringSubmatch(msg, -1)
	if len(ms) == 0 {
		return false
	}
	for _, m := range ms {
		if strings.ReplaceAll(m[1], "!", "") != strings.ReplaceAll(m[2], "!", "") {
			return false
		}
	}
	return true
}

// reportStructure reports a finding that occurs with canonical spellings already: it is about the
// structure of the value (null / absent / default / list / object), not about a spelling.
func (j *judge) reportStructure(label string, f finding, text, vars string) {
	cls := "structure|" + f.kind + "|" + fmt.Sprint(f.detail["difference"])
	if j.reported[cls] {
		return
	}
	j.reported[cls] = true
	m := map[string]string{"origin": "structure", "variant": label}
	if f.kind == "normalized-invalid" || f.kind == "subgraph-request-invalid" || f.kind == "subgraph-position-missing" {
		m["operation_invalid_only_by_nullability_conflict"] = fmt.Sprint(j.nullabilityOnlyConflict)
	}
	if f.kind == "panic" {
		m["panic"] = fmt.Sprint(f.detail["panic"])
	}
	if dc, ok := f.detail["difference"].(string); ok {
		m["difference"] = dc
	}
	j.res.Violate(f.kind, f.msg, m, j.detail(map[string]any{"variant": label, "operation": text, "variables": vars, "finding": f.detail}))
}

// comparePairs: literal and variable forms of the same values must give the subgraph the same.
func (j *judge) comparePair(a, b map[string]position, la, lb string, cleanA, cleanB bool) {
	if a == nil || b == nil {
		return
	}
	j.res.Count("litvar_pairs_compared", 1)
	if !cleanA || !cleanB {
		return // differences are already reported against the expected side
	}
	for k, pa := range a {
		if pb, ok := b[k]; ok && pa.Args != pb.Args {
			j.res.Violate("literal-variable-disagree", "the subgraph receives different values for the "+la+" and the "+lb+" form at "+k, map[string]string{"origin": "pair"}, j.detail(map[string]any{"position": k, la: pa.Args, lb: pb.Args}))
			return
		}
	}
}

// judgeCase runs the four renderings of a case.
func (j *judge) judgeCase() {
	okA, posA := j.judgeVariant("chosen")
	if j.res.Inconclusive != "" && posA == nil {
		return
	}
	undo, n := j.c.lit2var()
	if n > 0 {
		j.res.Count("literals_turned_into_variables", int64(n))
		okB, posB := j.judgeVariant("lit2var")
		j.comparePair(posA, posB, "literal", "variable", okA, okB)
	}
	undo()
	undo2, n2 := j.c.var2lit()
	if n2 > 0 {
		j.res.Count("variables_turned_into_literals", int64(n2))
		okC, posC := j.judgeVariant("var2lit")
		j.comparePair(posA, posC, "variable", "literal", okA, okC)
	}
	undo2()
}

var _ = gast.Query

func sortedKeysOf(m map[string]bool) []string {
	out := make([]string, 0, len(m))
	for k := range m {
		out = append(out, k)
	}
	sort.Strings(out)
	return out
}
