package c19

import (
	"context"
	"encoding/binary"
	"errors"
	"fmt"
	"net"
	"regexp"
	"sort"
	"strconv"
	"strings"
	"sync"
	"time"

	"github.com/gobwas/ws"
	"github.com/jensneuse/abstractlogger"

	"github.com/wundergraph/graphql-go-tools/execution/engine"
	"github.com/wundergraph/graphql-go-tools/execution/graphql"
	"github.com/wundergraph/graphql-go-tools/execution/subscription"
	"github.com/wundergraph/graphql-go-tools/execution/subscription/websocket"
	"github.com/wundergraph/graphql-go-tools/v2/pkg/ast"
	"github.com/wundergraph/graphql-go-tools/v2/pkg/engine/resolve"
)

// runOpts are the knobs of one run (one connection, one script).
type runOpts struct {
	cancel      string        // what a cancelled executor returns: "v2" (query: ctx error, subscription: nil, as ExecutorV2 over the resolver), "err" (always the ctx error), "data" (query: its result, subscription: nil)
	racy        bool          // feed messages and release engine events back to back, without waiting for the effects of the previous step
	heartbeat   time.Duration // keep-alive interval (0 = one hour, i.e. never inside a run)
	initTimeout time.Duration // connection init time out (0 = the default of ordinary runs)
	waitClose   bool          // after the script, wait for the server to close (init time-out cases)
	linger      time.Duration // after the script, stay connected for this long before the final probe (gives a timer that must NOT fire the chance to fire)
	abruptEOF   bool          // the client goes away right after the last step, without waiting for quiescence
	noProbe     bool          // do not append the final liveness probe
	preDelay    time.Duration // wait this long after the connection is up before the first message (init racing the timer)
	wire        bool          // serve the connection with the repository's websocket.Client over an in-memory net.Conn (wire.go)
	gateAt      int           // >0: slow write — message gateAt of the word is sent at the moment the client has received the server's first terminal message for that message's id while the server's write call has not returned yet (0 = off; message 0 can never be gated)
}

const (
	ordinaryInitTimeout = 500 * time.Millisecond
	updateInterval      = 100 * time.Microsecond
	watchdog            = 25 * time.Second
	enterGrace          = 40 * time.Millisecond
)

// traceEv is one entry of the merged trace, in the order of one logical clock (the rig mutex).
type traceEv struct {
	Kind   byte   // 'C' client message handed to the server, 'S' server message, 'X' server close frame, 'D' server disconnect without a frame, 'Z' client went away, 'B' (wire mode) the server's byte stream stopped being a sequence of frames
	Step   int    // 'C': index of the step in the word (len(word) for the final probe)
	Sym    sym    // 'C'
	Raw    string // message bytes
	Code   int    // 'X'
	Reason string // 'X'
}

func (e traceEv) String() string {
	switch e.Kind {
	case 'C':
		return fmt.Sprintf("C[%s] %s", e.Sym.name, e.Raw)
	case 'S':
		return "S " + e.Raw
	case 'X':
		return fmt.Sprintf("S <close %d %q>", e.Code, e.Reason)
	case 'D':
		return "S <disconnect>"
	case 'Z':
		return "C <gone>"
	case 'B':
		return "S <bytes that are no WebSocket frame: " + e.Raw + "…>"
	}
	return "?"
}

// opRec is the ground truth about the operation created by one subscribe/start step.
type opRec struct {
	token int
	id    string
	kind  symKind

	evCh chan byte // scripted engine events, consumed by the executor

	gets      int
	ctx       context.Context
	entered   bool
	execCalls int
	inExec    bool
	parked    bool // the executor is (about to be) blocked waiting for an engine event or cancellation
	sent      int  // events pushed by the driver
	acks      int  // events the executor has finished processing
	endCalls  int  // execCalls at the time Execute last returned (0 = it has not)
	put       bool
	putAt     int      // length of the trace when the engine handed the executor back (its goroutine is over)
	rejected  bool     // the driver concluded that the engine never started it
	emitted   []string // data items handed to the writer, in order
	selfEnd   string   // how the last scripted end of an Execute call looked: "f" | "x"
	selfEnds  int
	selfErrs  int
	cancelled bool // the executor observed its context being cancelled
	cancelAt  int  // length of the trace at that moment
	seq       int
}

type rig struct {
	p    proto
	opts runOpts

	mu   sync.Mutex
	wake chan struct{}

	// transport client state
	log            []traceEv
	closed         bool // no more writes reach the client (server closed, or client gone)
	serverClosed   bool
	in             chan feedItem
	eof            chan struct{}
	srvClosed      chan struct{}
	reads          int
	consumed       int
	rejectedWrites int
	lateCloses     int
	startT         time.Time
	ackT           time.Time

	// slow write gate (scripted client only)
	gateID      string        // armed for the first terminal message of this id ("" = not armed)
	gateHit     bool          // the terminal message was handed to the client; its write call is parked
	gateRelease chan struct{} // closed by the driver to let the write call return
	hookErr     string        // the engine with the before-start hook could not be built

	// wire mode
	wbuf       []byte // bytes written by the server and not yet parsed into frames
	corrupt    bool
	connShut   bool // the server closed the net.Conn
	clientGone bool

	ops         map[int]*opRec
	unknownGets int
	handlerGone bool
	hsErr       error
}

type feedItem struct {
	step  int
	sym   sym
	data  []byte
	taken chan bool // answered by the read that received the item: false when the server had closed meanwhile
}

func newRig(p proto, o runOpts) *rig {
	return &rig{p: p, opts: o, wake: make(chan struct{}), in: make(chan feedItem), eof: make(chan struct{}), srvClosed: make(chan struct{}), ops: map[int]*opRec{}}
}

// update mutates rig state under the lock and wakes every waiter.
func (r *rig) update(f func()) {
	r.mu.Lock()
	f()
	close(r.wake)
	r.wake = make(chan struct{})
	r.mu.Unlock()
}

// waitFor blocks until cond (evaluated under the lock) holds; false when d elapsed first.
func (r *rig) waitFor(cond func() bool, d time.Duration) bool {
	deadline := time.Now().Add(d)
	for {
		r.mu.Lock()
		ok := cond()
		w := r.wake
		r.mu.Unlock()
		if ok {
			return true
		}
		rem := time.Until(deadline)
		if rem <= 0 {
			return false
		}
		t := time.NewTimer(rem)
		select {
		case <-w:
			t.Stop()
		case <-t.C:
		}
	}
}

// ---------------------------------------------------------------------------------------------
// subscription.TransportClient

type tclient struct{ r *rig }

func (c tclient) ReadBytesFromClient() ([]byte, error) {
	r := c.r
	r.update(func() { r.reads++ })
	select {
	case it := <-r.in:
		// The hand-over is the linearisation point of the client message: everything the server
		// wrote before is a reaction to earlier messages only.
		taken := false
		r.update(func() {
			if r.closed {
				return // the server closed while this read was blocked: a real connection would fail the read
			}
			taken = true
			r.log = append(r.log, traceEv{Kind: 'C', Step: it.step, Sym: it.sym, Raw: string(it.data)})
			r.consumed++
		})
		it.taken <- taken
		if !taken {
			return nil, subscription.ErrTransportClientClosedConnection
		}
		return it.data, nil
	case <-r.srvClosed:
		return nil, subscription.ErrTransportClientClosedConnection
	case <-r.eof:
		r.update(func() {
			if !r.closed {
				r.closed = true
				r.log = append(r.log, traceEv{Kind: 'Z'})
			}
		})
		return nil, subscription.ErrTransportClientClosedConnection
	}
}

func (c tclient) WriteBytesToClient(b []byte) error {
	r := c.r
	var err error
	var park chan struct{}
	cp := string(b)
	r.update(func() {
		if r.closed {
			r.rejectedWrites++
			err = subscription.ErrTransportClientClosedConnection
			return
		}
		r.log = append(r.log, traceEv{Kind: 'S', Raw: cp})
		if r.ackT.IsZero() && strings.Contains(cp, `"connection_ack"`) {
			r.ackT = time.Now()
		}
		if r.gateID != "" && isTerminalFor(cp, r.gateID) {
			// slow write: the client has the message, the server's write call has not returned
			r.gateID = ""
			r.gateHit = true
			park = r.gateRelease
		}
	})
	if park != nil {
		t := time.NewTimer(watchdog)
		select {
		case <-park:
		case <-t.C:
		}
		t.Stop()
	}
	return err
}

// isTerminalFor: is the server message raw a complete/error for operation id?
func isTerminalFor(raw, id string) bool {
	if !strings.Contains(raw, `"id":"`+id+`"`) {
		return false
	}
	return strings.Contains(raw, `"type":"complete"`) || strings.Contains(raw, `"type":"error"`)
}

func (c tclient) IsConnected() bool {
	c.r.mu.Lock()
	defer c.r.mu.Unlock()
	return !c.r.closed
}

func (c tclient) Disconnect() error {
	r := c.r
	r.update(func() {
		if r.closed {
			r.lateCloses++
			return
		}
		r.closed = true
		r.serverClosed = true
		close(r.srvClosed)
		r.log = append(r.log, traceEv{Kind: 'D'})
	})
	return nil
}

func (c tclient) DisconnectWithReason(reason any) error {
	r := c.r
	code, text := closeInfo(reason)
	var err error
	r.update(func() {
		if r.closed {
			r.lateCloses++
			err = subscription.ErrTransportClientClosedConnection
			return
		}
		r.closed = true
		r.serverClosed = true
		close(r.srvClosed)
		r.log = append(r.log, traceEv{Kind: 'X', Code: code, Reason: text})
	})
	return err
}

func closeInfo(reason any) (int, string) {
	switch v := reason.(type) {
	case websocket.CloseReason:
		p := ws.Frame(v).Payload
		if len(p) >= 2 {
			return int(binary.BigEndian.Uint16(p[:2])), string(p[2:])
		}
		return -1, "close frame without status"
	case websocket.CompiledCloseReason:
		b := []byte(v)
		if len(b) >= 4 && b[1]&0x80 == 0 {
			l := int(b[1] & 0x7f)
			if l >= 2 && l < 126 && len(b) >= 2+l {
				return int(binary.BigEndian.Uint16(b[2:4])), string(b[4 : 2+l])
			}
		}
		return -1, "compiled close frame"
	}
	return -1, fmt.Sprintf("reason of type %T", reason)
}

// ---------------------------------------------------------------------------------------------
// subscription.ExecutorPool / subscription.Executor

type pool struct{ r *rig }

var tokenRe = regexp.MustCompile(`\b([qsxgh])_(\d+)\b`)

func (p pool) Get(payload []byte) (subscription.Executor, error) {
	r := p.r
	m := tokenRe.FindSubmatch(payload)
	if m == nil {
		r.update(func() { r.unknownGets++ })
		return nil, errors.New("scripted pool: payload without operation token")
	}
	tok, _ := strconv.Atoi(string(m[2]))
	var op *opRec
	r.update(func() {
		op = r.ops[tok]
		if op != nil {
			op.gets++
		} else {
			r.unknownGets++
		}
	})
	if op == nil {
		return nil, errors.New("scripted pool: unknown operation token")
	}
	if op.kind == kSubGetFail {
		return nil, fmt.Errorf("scripted pool: cannot build an executor for g_%d", tok)
	}
	if op.kind == kSubHookReject {
		// a real ExecutorV2 over a real engine whose WebsocketBeforeStartHook rejects h_* operations:
		// ExecutorEngine.handleOnBeforeStart only consults the hook of that executor type
		hp, err := hookPool()
		if err != nil {
			r.update(func() { r.hookErr = err.Error() })
			return nil, err
		}
		return hp.Get(payload)
	}
	return &executor{r: r, op: op}, nil
}

// rejectingHook is the engine's WebsocketBeforeStartHook: it refuses every operation whose text
// carries an h_<step> token and names that token in the error.
type rejectingHook struct{}

var hookTokRe = regexp.MustCompile(`\bh_(\d+)\b`)

func (rejectingHook) OnBeforeStart(_ context.Context, operation *graphql.Request) error {
	if operation == nil {
		return nil
	}
	if m := hookTokRe.FindString(operation.Query); m != "" {
		return fmt.Errorf("%s: operation refused by the before-start hook", m)
	}
	return nil
}

var (
	hookPoolOnce sync.Once
	hookPoolVal  *subscription.ExecutorV2Pool
	hookPoolErr  error
)

// hookPool builds (once per process) a minimal execution engine with the rejecting hook.
func hookPool() (*subscription.ExecutorV2Pool, error) {
	hookPoolOnce.Do(func() {
		schema, err := graphql.NewSchemaFromString("type Query { a: Int }")
		if err != nil {
			hookPoolErr = err
			return
		}
		conf := engine.NewConfiguration(schema)
		conf.SetWebsocketBeforeStartHook(rejectingHook{})
		eng, err := engine.NewExecutionEngine(context.Background(), abstractlogger.Noop{}, conf, resolve.ResolverOptions{MaxConcurrency: 16})
		if err != nil {
			hookPoolErr = err
			return
		}
		hookPoolVal = subscription.NewExecutorV2Pool(eng, context.Background())
	})
	return hookPoolVal, hookPoolErr
}

func (p pool) Put(e subscription.Executor) error {
	if ex, ok := e.(*executor); ok {
		p.r.update(func() { ex.op.put = true; ex.op.putAt = len(p.r.log) })
	}
	return nil
}

type executor struct {
	r  *rig
	op *opRec
}

func (e *executor) OperationType() ast.OperationType {
	switch e.op.kind {
	case kSubSub:
		return ast.OperationTypeSubscription
	case kSubQuery:
		return ast.OperationTypeQuery
	}
	return ast.OperationTypeUnknown // what ExecutorV2 reports for an unparsable document
}

func (e *executor) SetContext(ctx context.Context) {
	e.r.update(func() { e.op.ctx = ctx })
}

func (e *executor) Reset() {}

func (e *executor) nextData() string {
	var s string
	e.r.update(func() {
		e.op.seq++
		s = fmt.Sprintf(`{"data":{"op":%d,"n":%d}}`, e.op.token, e.op.seq)
		e.op.emitted = append(e.op.emitted, s)
	})
	return s
}

func (e *executor) Execute(w resolve.SubscriptionResponseWriter) error {
	r, op := e.r, e.op
	var ctx context.Context
	r.update(func() {
		op.entered = true
		op.execCalls++
		op.inExec = true
		ctx = op.ctx
	})
	defer r.update(func() {
		op.inExec = false
		op.endCalls = op.execCalls
	})
	if ctx == nil {
		ctx = context.Background()
	}
	if op.kind == kSubExecErr {
		r.update(func() { op.selfEnd = "x"; op.selfEnds++; op.selfErrs++ })
		return fmt.Errorf("x_%d: document cannot be parsed", op.token)
	}
	for {
		r.update(func() { op.parked = true })
		select {
		case <-ctx.Done():
			r.update(func() { op.cancelled = true; op.parked = false; op.cancelAt = len(r.log) })
			switch {
			case r.opts.cancel == "err":
				return ctx.Err()
			case op.kind == kSubSub:
				return nil
			case r.opts.cancel == "data":
				_, _ = w.Write([]byte(e.nextData()))
				return nil
			default:
				return ctx.Err()
			}
		case ev := <-op.evCh:
			r.update(func() { op.parked = false })
			switch ev {
			case 'd':
				if op.kind == kSubSub {
					_, _ = w.Write([]byte(e.nextData()))
					_ = w.Flush()
				}
				r.update(func() { op.acks++ })
			case 'f':
				_, _ = w.Write([]byte(e.nextData()))
				r.update(func() { op.acks++; op.selfEnd = "f"; op.selfEnds++ })
				return nil
			case 'x':
				var n int
				r.update(func() { op.acks++; op.selfEnd = "x"; op.selfEnds++; op.selfErrs++; n = op.selfEnds })
				return fmt.Errorf("x_%d: engine failure %d", op.token, n)
			default:
				r.update(func() { op.acks++ })
			}
		}
	}
}

// ---------------------------------------------------------------------------------------------
// driver

type opTruth struct {
	Token     int
	ID        string
	Kind      symKind
	Gets      int
	Entered   bool
	ExecCalls int
	Put       bool
	PutAt     int // length of the trace when the operation's goroutine ended
	Emitted   []string
	SelfEnd   string
	SelfEnds  int
	SelfErrs  int
	Cancelled bool
	CancelAt  int // length of the trace when the executor saw its context cancelled
}

type runResult struct {
	p          proto
	word       []sym
	sched      schedule
	opts       runOpts
	script     string
	trace      []traceEv
	ops        map[int]opTruth // ground truth at the very end of the run
	opsSettled map[int]opTruth // ground truth just before the client went away (what the liveness checks use)
	settled    bool            // every step's effects were awaited; end-of-run liveness checks apply
	wedge      string          // non-empty: a bounded wait on the server never finished
	ackLate    bool            // the first connection_ack was written later than half the init time-out after the start (a 4408 after it is then not judged: the timer may legitimately have fired first)

	fed, undelivered, rejectedWrites, lateCloses, unknownGets int
	eventsSent, eventsSkipped, gateHits                       int
	setupErr                                                  string
}

func initFunc(ctx context.Context, p websocket.InitPayload) (context.Context, error) {
	if strings.Contains(string(p), "reject") {
		return ctx, errors.New("init payload rejected")
	}
	return ctx, nil
}

// runScript plays one script against a fresh connection handled by websocket.HandleWithOptions.
func runScript(p proto, word []sym, sc schedule, o runOpts) *runResult {
	res := &runResult{p: p, word: word, sched: sc, opts: o, script: scriptString(word, sc), ops: map[int]opTruth{}}
	r := newRig(p, o)
	for t, s := range word {
		if s.isSub() {
			r.ops[t] = &opRec{token: t, id: s.id, kind: s.kind, evCh: make(chan byte, 32)}
		}
	}
	hopts := websocket.HandleOptions{
		Protocol:                         websocket.ProtocolGraphQLTransportWS,
		WebSocketInitFunc:                initFunc,
		CustomClient:                     tclient{r},
		CustomKeepAliveInterval:          time.Hour,
		CustomSubscriptionUpdateInterval: updateInterval,
		CustomConnectionInitTimeOut:      ordinaryInitTimeout,
		CustomReadErrorTimeOut:           time.Hour,
	}
	if p == protoGWS {
		hopts.Protocol = websocket.ProtocolGraphQLWS
	}
	if o.heartbeat > 0 {
		hopts.CustomKeepAliveInterval = o.heartbeat
	}
	initTO := ordinaryInitTimeout
	if o.initTimeout > 0 {
		initTO = o.initTimeout
		hopts.CustomConnectionInitTimeOut = o.initTimeout
	}
	done := make(chan bool)
	errCh := make(chan error, 1)
	a, b := net.Pipe()
	defer b.Close()
	if o.wire {
		hopts.CustomClient = nil
		_ = a.Close()
		a = &fakeConn{r: r}
	}
	gone := make(chan struct{})
	r.startT = time.Now()
	go func() {
		defer close(gone)
		defer r.update(func() { r.handlerGone = true })
		websocket.HandleWithOptions(done, errCh, a, pool{r}, hopts)
	}()
	select {
	case <-done:
	case err := <-errCh:
		res.setupErr = fmt.Sprint(err)
		return res
	case <-time.After(watchdog):
		res.wedge = "HandleWithOptions neither signalled done nor an error"
		return res
	}

	settled := true
	wedge := func(what string) {
		if res.wedge == "" {
			res.wedge = what
		}
		settled = false
	}

	handlerIdle := func() bool { return r.reads > r.consumed || r.handlerGone }

	// settleOps waits until no operation goroutine has work in flight.
	settleOps := func() {
		toks := make([]int, 0, len(r.ops))
		for t := range r.ops {
			toks = append(toks, t)
		}
		sort.Ints(toks)
		for _, t := range toks {
			op := r.ops[t]
			var skip, needEnter bool
			r.mu.Lock()
			skip = op.gets == 0 || op.put || op.rejected || op.kind == kSubHookReject
			needEnter = !skip && !op.entered
			if needEnter && (r.closed || r.dupRejectedLocked(op)) {
				op.rejected = true
				skip = true
			}
			r.mu.Unlock()
			if skip {
				continue
			}
			if needEnter {
				if !r.waitFor(func() bool { return op.entered || r.closed }, enterGrace) {
					r.update(func() { op.rejected = true })
					continue
				}
				r.mu.Lock()
				ent := op.entered
				if !ent {
					op.rejected = true
				}
				r.mu.Unlock()
				if !ent {
					continue
				}
			}
			ok := r.waitFor(func() bool {
				if op.put {
					return true
				}
				if op.ctx != nil && op.ctx.Err() != nil {
					return false // cancelled: its goroutine must run to the end
				}
				// alive: quiescent only when parked inside Execute with nothing left to process
				return op.inExec && op.parked && op.acks >= op.sent
			}, watchdog)
			if !ok {
				wedge(fmt.Sprintf("operation of step %d (id %s) did not reach a quiescent state", op.token, op.id))
			}
		}
	}
	settle := func() {
		if !r.waitFor(handlerIdle, watchdog) {
			wedge("the handler did not come back to read the next message")
		}
		settleOps()
	}

	feed := func(step int, s sym) bool {
		it := feedItem{step: step, sym: s, data: render(p, s, step), taken: make(chan bool, 1)}
		t := time.NewTimer(watchdog)
		defer t.Stop()
		select {
		case r.in <- it:
			if <-it.taken {
				res.fed++
				return true
			}
			res.undelivered++
			return false
		case <-r.srvClosed:
			res.undelivered++
			return false
		case <-gone:
			res.undelivered++
			return false
		case <-t.C:
			wedge(fmt.Sprintf("the handler did not take message %d (%s)", step, s.name))
			return false
		}
	}

	// slow-write runs: until the gated message has been sent nothing is awaited (the operation whose
	// terminal message is parked cannot finish), afterwards the run is deterministic again
	gating := o.gateAt > 0 && o.gateAt < len(word) && !o.wire
	gatePassed := false
	if gating {
		r.update(func() {
			r.gateID = word[o.gateAt].id
			r.gateRelease = make(chan struct{})
		})
	}
	loose := func() bool { return o.racy || (gating && !gatePassed) }

	release := func(e schedEv) {
		op := r.ops[e.op]
		if op == nil {
			res.eventsSkipped++
			return
		}
		if loose() {
			select {
			case op.evCh <- e.kind:
				r.update(func() { op.sent++ })
				res.eventsSent++
			default:
				res.eventsSkipped++
			}
			return
		}
		var skip bool
		r.mu.Lock()
		skip = op.gets == 0 || op.put || op.rejected || !op.entered || (op.ctx != nil && op.ctx.Err() != nil)
		if !skip {
			op.sent++
		}
		r.mu.Unlock()
		if skip {
			res.eventsSkipped++
			return
		}
		select {
		case op.evCh <- e.kind:
			res.eventsSent++
		default:
			r.update(func() { op.sent-- })
			res.eventsSkipped++
		}
	}

	if o.preDelay > 0 {
		time.Sleep(o.preDelay)
	}
	sc = sc.sorted()
	j := 0
	for t := 0; t <= len(word); t++ {
		for j < len(sc) && sc[j].slot <= t {
			release(sc[j])
			if !loose() {
				settleOps()
			}
			j++
		}
		if t < len(word) {
			gated := false
			if gating && t == o.gateAt {
				// wait until the server's terminal message for this id has been handed to the client
				gated = r.waitFor(func() bool { return r.gateHit }, 2*time.Second)
				if gated {
					res.gateHits++
				}
			}
			ok := feed(t, word[t])
			if gating && t == o.gateAt {
				if gated && ok {
					// give the handler the time to act on the message while the write call is still
					// parked (a correct server waits for that call to return, so this wait may expire)
					r.waitFor(func() bool { return handlerIdle() || r.closed }, 8*time.Millisecond)
				}
				r.update(func() { r.gateID = "" })
				close(r.gateRelease)
				gatePassed = true
			}
			if !ok {
				// connection gone: nothing else can be delivered; remaining engine events are moot
				res.undelivered += len(word) - t - 1
				break
			}
			if !loose() {
				settle()
			}
		}
		if res.wedge != "" {
			break
		}
	}
	if gating && !gatePassed {
		r.update(func() { r.gateID = "" })
		close(r.gateRelease)
		gatePassed = true
	}

	if res.wedge == "" && !o.abruptEOF {
		settle()
		if o.waitClose {
			// init time-out cases: the verdict is the trace order; this bound only ends the wait
			bound := 400 * initTO
			if bound < 6*time.Second {
				bound = 6 * time.Second
			}
			r.waitFor(func() bool { return r.closed }, bound)
		}
		if o.linger > 0 {
			time.Sleep(o.linger)
		}
		if !o.noProbe {
			probe := sym{name: "probe", kind: kPing}
			if p == protoGWS {
				probe = sym{name: "probe", kind: kInit}
			}
			if feed(len(word), probe) {
				settle()
			}
		}
	}

	r.mu.Lock()
	if !r.ackT.IsZero() && r.ackT.Sub(r.startT) > initTO/2 {
		res.ackLate = true
	}
	r.mu.Unlock()
	res.settled = settled && !o.abruptEOF && res.wedge == ""

	r.mu.Lock()
	res.opsSettled = r.snapshotOpsLocked()
	r.mu.Unlock()

	// The client goes away. Whatever the server tries to write from here on reaches nobody.
	close(r.eof)
	if res.wedge == "" {
		t := time.NewTimer(watchdog)
		select {
		case <-gone:
		case <-t.C:
			res.wedge = "the handler did not return after the client went away"
		}
		t.Stop()
	}
	if res.wedge == "" {
		if !r.waitFor(func() bool {
			for _, op := range r.ops {
				if op.entered && !op.put {
					return false
				}
			}
			return true
		}, watchdog) {
			res.wedge = "an operation goroutine did not finish after the connection ended"
		}
	}

	r.mu.Lock()
	res.trace = append([]traceEv(nil), r.log...)
	res.ops = r.snapshotOpsLocked()
	if r.hookErr != "" {
		res.setupErr = "before-start hook engine: " + r.hookErr
	}
	res.rejectedWrites = r.rejectedWrites
	res.lateCloses = r.lateCloses
	res.unknownGets = r.unknownGets
	r.mu.Unlock()
	return res
}

func (r *rig) snapshotOpsLocked() map[int]opTruth {
	out := make(map[int]opTruth, len(r.ops))
	for t, op := range r.ops {
		out[t] = opTruth{Token: op.token, ID: op.id, Kind: op.kind, Gets: op.gets, Entered: op.entered, ExecCalls: op.execCalls,
			Put: op.put, PutAt: op.putAt, Emitted: append([]string(nil), op.emitted...), SelfEnd: op.selfEnd, SelfEnds: op.selfEnds, SelfErrs: op.selfErrs, Cancelled: op.cancelled, CancelAt: op.cancelAt}
	}
	return out
}

// dupRejectedLocked: legacy protocol only — the engine answered the start of op with the
// duplicate-id error, so its executor will never run. Only used to avoid waiting for it.
func (r *rig) dupRejectedLocked(op *opRec) bool {
	if r.p != protoGWS {
		return false
	}
	seen := false
	for _, e := range r.log {
		if e.Kind == 'C' {
			if seen {
				return false // the refusal is written while the start is being handled, before the next message is taken
			}
			seen = e.Step == op.token
			continue
		}
		if seen && e.Kind == 'S' && strings.Contains(e.Raw, "already exists") && strings.Contains(e.Raw, `"id":"`+op.id+`"`) {
			return true
		}
	}
	return false
}

func traceStrings(tr []traceEv, max int) []string {
	out := make([]string, 0, len(tr))
	for i, e := range tr {
		if max > 0 && i >= max {
			out = append(out, fmt.Sprintf("… %d more", len(tr)-i))
			break
		}
		out = append(out, e.String())
	}
	return out
}
