package c19

import (
	"fmt"
	"os"
	"sort"
	"strconv"
	"strings"
	"testing"
	"time"
)

// go test -run TestDebugScript with C19_P=tws|gws C19_WORD="I Ss1 C1" C19_SCHED="1f3,1d2" C19_CANCEL=v2 C19_RACY=0
func TestDebugScript(t *testing.T) {
	wordS := os.Getenv("C19_WORD")
	if wordS == "" {
		t.Skip("no C19_WORD")
	}
	p := protoTWS
	alpha := append(append([]sym(nil), twsAlphabet...), twsExtra...)
	if os.Getenv("C19_P") == "gws" {
		p = protoGWS
		alpha = append(append([]sym(nil), gwsAlphabet...), gwsExtra...)
	}
	var w []sym
	for _, n := range strings.Fields(wordS) {
		found := false
		for _, s := range alpha {
			if s.name == n {
				w = append(w, s)
				found = true
				break
			}
		}
		if !found {
			t.Fatalf("unknown symbol %s", n)
		}
	}
	var sc schedule
	for _, e := range strings.Split(os.Getenv("C19_SCHED"), ",") {
		e = strings.TrimSpace(e)
		if e == "" {
			continue
		}
		// <op><kind><slot>, e.g. 1f3
		i := strings.IndexAny(e, "dfx")
		op, _ := strconv.Atoi(e[:i])
		slot, _ := strconv.Atoi(e[i+1:])
		sc = append(sc, schedEv{op: op, kind: e[i], slot: slot})
	}
	o := runOpts{cancel: os.Getenv("C19_CANCEL"), racy: os.Getenv("C19_RACY") == "1", wire: os.Getenv("C19_WIRE") == "1"}
	if v := os.Getenv("C19_GATE"); v != "" {
		o.gateAt, _ = strconv.Atoi(v)
	}
	if o.cancel == "" {
		o.cancel = "v2"
	}
	n := 1
	if v := os.Getenv("C19_N"); v != "" {
		n, _ = strconv.Atoi(v)
	}
	t0 := time.Now()
	defer func() { fmt.Printf("%d runs in %v (%v per run)\n", n, time.Since(t0), time.Since(t0)/time.Duration(n)) }()
	for k := 0; k < n; k++ {
		rr := runScript(p, w, sc, o)
		m := check(rr)
		if k == 0 || len(m.findings) > 0 {
			fmt.Println("script:", rr.script, "settled:", rr.settled, "wedge:", rr.wedge)
			for _, l := range traceStrings(rr.trace, 0) {
				fmt.Println("   ", l)
			}
			for tok, op := range rr.ops {
				fmt.Printf("   op %d: %+v\n", tok, op)
			}
			for _, f := range m.findings {
				fmt.Println("   FINDING", f.kind, f.match, f.msg)
			}
		}
	}
}

func TestCountRuns(t *testing.T) {
	if os.Getenv("C19_COUNT") == "" {
		t.Skip()
	}
	count := func(p proto, alpha []sym, lo, hi int, all bool, limit int) (words, runs, capped int) {
		for n := lo; n <= hi; n++ {
			for i := 0; i < numWords(len(alpha), n); i++ {
				w := wordAt(alpha, n, i)
				words++
				var k int
				if all {
					sc, tr := allSchedules(p, w, limit)
					k = len(sc)
					if tr {
						capped++
					}
				} else {
					sc, pl := fixedSchedules(p, w, quickFamily)
					for i := range sc {
						if pl[i] {
							runs += len(cancelModes(w))
						} else {
							runs++
						}
					}
					continue
				}
				runs += k * len(cancelModes(w))
			}
		}
		return
	}
	for _, c := range []struct {
		name   string
		p      proto
		a      []sym
		lo, hi int
		all    bool
		limit  int
	}{
		{"tws all 0..3", protoTWS, twsAlphabet, 0, 3, true, 0},
		{"tws fixed 4", protoTWS, twsAlphabet, 4, 4, false, 0},
		{"gws all 0..2", protoGWS, gwsAlphabet, 0, 2, true, 0},
		{"gws fixed 3", protoGWS, gwsAlphabet, 3, 3, false, 0},
		{"tws all 4 (cap 4000)", protoTWS, twsAlphabet, 4, 4, true, 4000},
		{"tws all 4 (cap 1000)", protoTWS, twsAlphabet, 4, 4, true, 1000},
		{"tws fixed 5", protoTWS, twsAlphabet, 5, 5, false, 0},
		{"gws all 3 (cap 4000)", protoGWS, gwsAlphabet, 3, 3, true, 4000},
		{"gws fixed 4", protoGWS, gwsAlphabet, 4, 4, false, 0},
	} {
		w, r, cp := count(c.p, c.a, c.lo, c.hi, c.all, c.limit)
		fmt.Printf("%-24s words=%d runs=%d capped=%d\n", c.name, w, r, cp)
	}
}

func TestSlowWords(t *testing.T) {
	if os.Getenv("C19_SLOW") == "" {
		t.Skip()
	}
	p, alpha := protoGWS, gwsAlphabet
	if os.Getenv("C19_P") == "tws" {
		p, alpha = protoTWS, twsAlphabet
	}
	type rec struct {
		w string
		d time.Duration
	}
	var recs []rec
	n := 3
	total := time.Duration(0)
	for i := 0; i < numWords(len(alpha), n); i += 7 {
		w := wordAt(alpha, n, i)
		sc, _ := fixedSchedules(p, w, quickFamily)
		t0 := time.Now()
		for _, s := range sc {
			runScript(p, w, s, runOpts{cancel: "v2"})
		}
		d := time.Since(t0) / time.Duration(len(sc))
		total += time.Since(t0)
		recs = append(recs, rec{wordString(w), d})
	}
	sort.Slice(recs, func(i, j int) bool { return recs[i].d > recs[j].d })
	fmt.Println("total", total, "words", len(recs))
	for _, r := range recs[:15] {
		fmt.Println(r.d, r.w)
	}
	fmt.Println("median", recs[len(recs)/2].d, recs[len(recs)/2].w)
}
