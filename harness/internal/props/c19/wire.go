package c19

import (
	"bytes"
	"encoding/binary"
	"fmt"
	"io"
	"net"
	"runtime"
	"strings"
	"time"
	"unicode/utf8"

	"github.com/gobwas/ws"
	"github.com/gobwas/ws/wsutil"
)

// Wire mode: the connection is served by the repository's own websocket.Client on top of an
// in-memory net.Conn. Client messages are handed to the server as masked WebSocket text frames;
// everything the server writes to the connection is recorded byte for byte (one Write call is
// atomic, as on a socket) and parsed back into frames. This is where "nothing is written after the
// close frame" can be observed on the wire.

type fakeConn struct {
	r   *rig
	cur []byte // rest of the frame the server is reading (only the reading goroutine touches it)
}

func (c *fakeConn) Read(p []byte) (int, error) {
	r := c.r
	if len(c.cur) == 0 {
		r.update(func() { r.reads++ })
		select {
		case it := <-r.in:
			taken := false
			r.update(func() {
				if r.closed {
					return
				}
				taken = true
				r.log = append(r.log, traceEv{Kind: 'C', Step: it.step, Sym: it.sym, Raw: string(it.data)})
				r.consumed++
			})
			it.taken <- taken
			if !taken {
				return 0, io.ErrClosedPipe
			}
			var buf bytes.Buffer
			if err := wsutil.WriteClientMessage(&buf, ws.OpText, it.data); err != nil {
				return 0, err
			}
			c.cur = buf.Bytes()
		case <-r.srvClosed:
			return 0, io.ErrClosedPipe
		case <-r.eof:
			r.update(func() {
				if !r.closed {
					r.closed = true
					r.log = append(r.log, traceEv{Kind: 'Z'})
				}
				r.clientGone = true
			})
			return 0, io.EOF
		}
	}
	n := copy(p, c.cur)
	c.cur = c.cur[n:]
	return n, nil
}

func (c *fakeConn) Write(p []byte) (int, error) {
	r := c.r
	var err error
	r.update(func() {
		if r.connShut || r.clientGone {
			r.rejectedWrites++
			err = io.ErrClosedPipe
			return
		}
		r.wbuf = append(r.wbuf, p...)
		r.parseFramesLocked()
	})
	if err != nil {
		return 0, err
	}
	// a write to a socket is a system call: other goroutines run meanwhile
	runtime.Gosched()
	return len(p), nil
}

func (c *fakeConn) Close() error {
	r := c.r
	r.update(func() {
		if r.connShut {
			return
		}
		r.connShut = true
		close(r.srvClosed)
		if !r.closed {
			r.closed = true
			r.serverClosed = true
			if len(r.wbuf) > 0 && !r.corrupt {
				// the connection is dropped in the middle of a frame: the close frame went inside it
				n := len(r.wbuf)
				if n > 48 {
					n = 48
				}
				r.corrupt = true
				r.log = append(r.log, traceEv{Kind: 'B', Raw: fmt.Sprintf("%x", r.wbuf[:n])})
			} else if !r.corrupt {
				r.log = append(r.log, traceEv{Kind: 'D'})
			}
		}
	})
	return nil
}

type fakeAddr struct{}

func (fakeAddr) Network() string { return "mem" }
func (fakeAddr) String() string  { return "mem" }

func (c *fakeConn) LocalAddr() net.Addr                { return fakeAddr{} }
func (c *fakeConn) RemoteAddr() net.Addr               { return fakeAddr{} }
func (c *fakeConn) SetDeadline(t time.Time) error      { return nil }
func (c *fakeConn) SetReadDeadline(t time.Time) error  { return nil }
func (c *fakeConn) SetWriteDeadline(t time.Time) error { return nil }

// parseFramesLocked turns the bytes the server has written so far into trace events.
func (r *rig) parseFramesLocked() {
	for !r.corrupt {
		b := r.wbuf
		if len(b) < 2 {
			return
		}
		op := ws.OpCode(b[0] & 0x0f)
		fin := b[0]&0x80 != 0
		rsv := b[0] & 0x70
		masked := b[1]&0x80 != 0
		l := int(b[1] & 0x7f)
		off := 2
		switch l {
		case 126:
			if len(b) < 4 {
				return
			}
			l = int(binary.BigEndian.Uint16(b[2:4]))
			off = 4
		case 127:
			if len(b) < 10 {
				return
			}
			l64 := binary.BigEndian.Uint64(b[2:10])
			if l64 > 1<<24 {
				l = -1
			} else {
				l = int(l64)
			}
			off = 10
		}
		known := op == ws.OpText || op == ws.OpClose || op == ws.OpPing || op == ws.OpPong
		if !fin || rsv != 0 || masked || !known || l < 0 || (op.IsControl() && l > 125) {
			r.corrupt = true
			n := len(b)
			if n > 48 {
				n = 48
			}
			r.log = append(r.log, traceEv{Kind: 'B', Raw: fmt.Sprintf("%x", b[:n])})
			return
		}
		if len(b) < off+l {
			return
		}
		payload := string(b[off : off+l])
		r.wbuf = append([]byte(nil), b[off+l:]...)
		switch op {
		case ws.OpText:
			r.log = append(r.log, traceEv{Kind: 'S', Raw: payload})
			if r.ackT.IsZero() && strings.Contains(payload, `"connection_ack"`) {
				r.ackT = time.Now()
			}
		case ws.OpClose:
			ev := traceEv{Kind: 'X', Code: -1, Reason: "close frame without status"}
			if len(payload) >= 2 {
				ev.Code = int(binary.BigEndian.Uint16([]byte(payload[:2])))
				ev.Reason = payload[2:]
			}
			if len(payload) >= 2 && (ev.Code < 1000 || ev.Code > 4999 || !utf8.ValidString(ev.Reason)) {
				// not a status code / reason: another frame's bytes sit where the close payload should be
				r.corrupt = true
				r.log = append(r.log, traceEv{Kind: 'B', Raw: fmt.Sprintf("88%02x%x", len(payload), truncate(payload, 40))})
				return
			}
			r.log = append(r.log, ev)
			// from here on no client message is handed to the server any more
			r.closed = true
			r.serverClosed = true
		}
	}
}
