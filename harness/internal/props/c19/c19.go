// Package c19 decides property C19: the WebSocket subscription server obeys graphql-transport-ws /
// graphql-ws on any client message sequence.
//
// The real websocket.HandleWithOptions (UniversalProtocolHandler + protocol handler +
// ExecutorEngine) is driven through a scripted subscription.TransportClient and a scripted
// subscription.ExecutorPool whose executors release data / completion / errors at chosen positions
// of the message feed and honour context cancellation. The merged trace of every connection is
// judged by a reference protocol state machine (model.go).
package c19

import (
	"encoding/json"
	"fmt"
	"math/rand/v2"
	"os"
	"sort"
	"strings"
	"sync"
	"syscall"
	"time"

	"verifharness/internal/fw"
)

type c19 struct{ fw.Base }

func init() {
	fw.Register(c19{})
	reexecWithoutRaceExitCode()
}

// reexecWithoutRaceExitCode: a -race worker that reported a data race exits with status 66 even
// though every case finished, which the runner cannot tell from a crash. Race reports are
// collected from the log files anyway, so the C19 workers run with exitcode=0.
func reexecWithoutRaceExitCode() {
	if len(os.Args) < 2 || os.Args[1] != "worker" {
		return
	}
	isC19 := false
	for i, a := range os.Args {
		if (a == "--prop" || a == "-prop") && i+1 < len(os.Args) && os.Args[i+1] == "C19" {
			isC19 = true
		}
	}
	gr := os.Getenv("GORACE")
	if !isC19 || gr == "" || strings.Contains(gr, "exitcode=") {
		return
	}
	exe, err := os.Executable()
	if err != nil {
		return
	}
	env := make([]string, 0, len(os.Environ())+1)
	for _, kv := range os.Environ() {
		if !strings.HasPrefix(kv, "GORACE=") {
			env = append(env, kv)
		}
	}
	env = append(env, "GORACE="+gr+" exitcode=0")
	_ = syscall.Exec(exe, os.Args, env)
}

func (c19) ID() string             { return "C19" }
func (c19) Race() bool             { return true }
func (c19) CrashIsViolation() bool { return true }
func (c19) CaseTimeout(string) int { return 150 }

func (c19) Rule() string {
	return "Each run = one fresh connection handled by websocket.HandleWithOptions with a scripted ExecutorPool and (a) a scripted TransportClient or (b, 'wire') the repository's websocket.Client over an in-memory net.Conn whose written bytes are parsed back into frames. Script = client word + engine-event schedule (d = one flushed data item, f = Execute returns nil with one buffered result, x = Execute returns an error; an event with slot t is released just before client message t, slot=len(word) after the word; within a slot in operation order) + what a cancelled executor returns (v2: query→ctx error, subscription→nil, as ExecutorV2 does; data: query→its result; err: always the ctx error). A final probe (ping / legacy connection_init) is appended to every run whose connection is still open. The reference machine rejects a trace at its first offending event (one violation per run at most); end-of-run liveness (missing close/ack/pong/terminal/data) is judged only in runs that waited for quiescence. " +
		"graphql-transport-ws alphabet (16): I Ip(accepted payload) Ir(payload the InitFunc rejects) P Q Sq1 Sq2 Ss1 Ss2 Sx1(executor fails at once) Sh1(a real ExecutorV2 whose engine's WebsocketBeforeStartHook rejects the operation: error(id), id free again) C1 C2 U J E. " +
		"EXHAUSTIVE, deterministic mode (after every step the driver waits until the handler is back in Read and every operation goroutine is parked, finished or re-polled): (A) quick: every word of length 0..3, thorough: 0..4, each with EVERY schedule of the space {per operation that can have started: query ∈ {ε,f,x}, subscription ∈ all sequences over {d,f,x} of length ≤2 plus d·(any two); every non-decreasing slot placement} (thorough only: capped at 1000 schedules per word, cap hits counted in words_with_schedule_cap_hit) × cancel modes {v2,data,err} when a complete follows a subscribe, else {v2}; (B) quick: every word of length 4 with the fixed family of 6 schedules (none, finish-asap, error-asap, finish-late, error-late, spread), thorough: every word of length 5 with 8 (plus finish-next, error-next); duplicates dropped; cancel modes {v2,data,err} only for 'none' and 'finish-late' of words where a complete follows a subscribe. " +
		"Legacy graphql-ws alphabet (15): I Ip Ir Tq1 Tq2 Ts1 Ts2 Tx1 Th1 St1 St2 T U J E; every schedule for length 0..2 (thorough 0..3, same cap), fixed family for length 3 (thorough 4). " +
		"SAMPLED (seeded): words of length 1..12 over the alphabets extended with id 3, undecodable payloads, pool failures, valid-JSON-of-the-wrong-shape, payload-less ping, server-only types, null …; random schedules (≤4 events per operation); half in racy mode (messages and events back to back, no waiting), a quarter with 0.1–1 ms keep-alives, some with the client vanishing abruptly. Wire runs (transport-ws): half random as above, half of the shape init · 1–3 subscriptions · fatal message or duplicate id, with data released around the fatal message in racy mode. Init time-out cases: no-init words with a 20–40 ms time-out (close 4408 awaited, judged by trace order), init-first words with a 300 ms time-out and a 450 ms linger (4408 must not come), init racing the timer. " +
		"SLOW WRITE (enumerated, both protocols): (init) · [streaming bystander on the other id] · first(i) · second(i) with first ∈ {query+f, query+x, failing executor}, second ∈ {Sq, Ss, Sx, Sh, complete}, i ∈ {1,2}: the scripted client takes the server's terminal message for i, parks that write call, sends second(i), gives the handler 8 ms, then lets the write return (a re-subscribe after an observed terminal must be accepted). " +
		"A run is non-trivial when the server wrote at least one message or close frame; distinct = distinct (protocol, word) for the exhaustive kinds, distinct (protocol, script, options) for the sampled ones."
}

func (c19) Assumptions() []string {
	return []string{
		"client messages enter the trace at the moment the read hands them to the handler; server messages when WriteBytesToClient is called (wire: when the last byte of the frame is written); one mutex orders both",
		"scripted-client runs: the client closes atomically (a write attempted after the close frame is refused and counted, as websocket.Client does once its closed flag is set); 'nothing after the close frame' and frame integrity are judged in the wire runs only, where one Write call on the connection is atomic and followed by a scheduler yield",
		"a subscribe whose id is in use is a duplicate unless every instance in the way gets its terminal before the server takes its next message (the server takes a message first and checks the id a moment later)",
		"a server 'complete' for an id that no accepted subscribe ever used is tolerated; an empty frame, a valid-JSON value of the wrong shape and a subscribe with an undecodable payload may be ignored, answered with error(id) or 4400; a refused init may be answered with any 44xx close or ignored, never with connection_ack",
		"close 4408 is accepted whenever no connection_ack has been written yet; after an ack it is a violation unless that ack was written later than half the time-out after the start (then: inconclusive)",
		"a subscription whose Execute returns nil is re-polled by the engine and owes no terminal; operations that ended by themselves (query result/error, subscription error) owe one, judged when the handler is idle and every goroutine parked",
		"messages without an operation token (complete, 'context canceled') are attributed by: result-then-complete adjacency, the instance the latest client complete gave up, executors that had observed cancellation by then (ground truth), newest live instance",
		"legacy graphql-ws: start before init, repeated init and connection_terminate are legal; after connection_terminate / a refused init every operation counts as given up by the client; an 'error' that says the id already exists is the refusal of a duplicate start, legal only while such a start is undecided",
		"an unanswered init time-out is reported only after 400× the configured time-out (≥6 s) with the handler idle; a bounded wait on the server that never ends (25 s) is left to the framework's hang path with the witness on stderr",
	}
}

func (c19) RequiredCounters(string) []string {
	return []string{"runs", "client_msgs_fed", "server_msgs", "ops_started", "terminals", "transitions", "words_distinct",
		"engine_events_released", "closes",
		"server_msgs.tws.connection_ack", "server_msgs.tws.pong", "server_msgs.tws.next", "server_msgs.tws.error", "server_msgs.tws.complete",
		"server_msgs.gws.connection_ack", "server_msgs.gws.data", "server_msgs.gws.error", "server_msgs.gws.complete", "server_msgs.gws.connection_error",
		"close.4400", "close.4401", "close.4408", "close.4409", "close.4429", "runs_racy", "runs_init_timeout", "runs_wire", "runs_slow_write", "slow_write_gate_hits"}
}

// ---------------------------------------------------------------------------------------------
// layout

type caseKind int

const (
	ckTwsAll caseKind = iota
	ckTwsFixed
	ckTwsRandom
	ckGwsAll
	ckGwsFixed
	ckGwsRandom
	ckTimeout
	ckTwsWire
	ckSlowWrite
)

type segment struct {
	kind   caseKind
	n      int // number of cases
	lo, hi int // word lengths (exhaustive kinds)
	runs   int // runs per case (sampled kinds)
}

const schedCapThorough = 1000

func layout(tier string) []segment {
	if tier == fw.Thorough {
		return []segment{
			{kind: ckTwsAll, n: 768, lo: 0, hi: 4},
			{kind: ckTwsFixed, n: 1536, lo: 5, hi: 5},
			{kind: ckTwsRandom, n: 960, runs: 150},
			{kind: ckGwsAll, n: 64, lo: 0, hi: 3},
			{kind: ckGwsFixed, n: 96, lo: 4, hi: 4},
			{kind: ckGwsRandom, n: 320, runs: 150},
			{kind: ckTimeout, n: 32},
			{kind: ckTwsWire, n: 160, runs: 150},
			{kind: ckSlowWrite, n: 8},
		}
	}
	return []segment{
		{kind: ckTwsAll, n: 48, lo: 0, hi: 3},
		{kind: ckTwsFixed, n: 96, lo: 4, hi: 4},
		{kind: ckTwsRandom, n: 48, runs: 120},
		{kind: ckGwsAll, n: 4, lo: 0, hi: 2},
		{kind: ckGwsFixed, n: 12, lo: 3, hi: 3},
		{kind: ckGwsRandom, n: 16, runs: 120},
		{kind: ckTimeout, n: 8},
		{kind: ckTwsWire, n: 16, runs: 100},
		{kind: ckSlowWrite, n: 2},
	}
}

func (c19) NumCases(tier string) int {
	n := 0
	for _, s := range layout(tier) {
		n += s.n
	}
	return n
}

func locate(tier string, idx int) (segment, int) {
	for _, s := range layout(tier) {
		if idx < s.n {
			return s, idx
		}
		idx -= s.n
	}
	return segment{kind: -1}, 0
}

// ---------------------------------------------------------------------------------------------
// per-case accumulation

type acc struct {
	res     *fw.Result
	keys    map[string]bool
	classes map[string]int
	sampled bool
	inconcl []string
	words   map[string]bool
	sigs    int
}

func newAcc(res *fw.Result) *acc {
	return &acc{res: res, keys: map[string]bool{}, classes: map[string]int{}, words: map[string]bool{}}
}

func pshort(p proto) string {
	if p == protoGWS {
		return "gws"
	}
	return "tws"
}

// wedgeMu serialises the (never returning) wedge report.
var wedgeMu sync.Mutex

// absorb judges one finished run and folds it into the case result.
func (a *acc) absorb(rr *runResult, key string) {
	res := a.res
	if rr.setupErr != "" {
		a.inconcl = append(a.inconcl, "setup: "+rr.setupErr)
		return
	}
	if rr.wedge != "" {
		// The statement promises that the connection is never wedged. Leave the verdict to the
		// framework's hang path (watchdog, isolated re-run): print the witness and stop here.
		wedgeMu.Lock()
		fmt.Fprintf(os.Stderr, "WATCHDOG C19 wedge: %s | protocol=%s script=%q cancel=%s racy=%v\n", rr.wedge, rr.p, rr.script, rr.opts.cancel, rr.opts.racy)
		for _, l := range traceStrings(rr.trace, 60) {
			fmt.Fprintln(os.Stderr, "  ", l)
		}
		select {}
	}
	m := check(rr)
	ps := pshort(rr.p)
	res.Count("runs", 1)
	res.Count("runs."+ps, 1)
	if rr.opts.racy {
		res.Count("runs_racy", 1)
	}
	if rr.settled {
		res.Count("runs_settled", 1)
	}
	res.Count("client_msgs_fed", int64(rr.fed))
	res.Count("client_msgs_undelivered_after_close", int64(rr.undelivered))
	res.Count("engine_events_released", int64(rr.eventsSent))
	res.Count("engine_events_moot", int64(rr.eventsSkipped))
	res.Count("writes_refused_after_close_or_eof", int64(rr.rejectedWrites))
	res.Count("close_attempts_after_close_or_eof", int64(rr.lateCloses))
	res.Count("pool_gets_unknown_payload", int64(rr.unknownGets))
	nS := 0
	for t, n := range m.serverMsgs {
		res.Count("server_msgs."+ps+"."+t, int64(n))
		nS += n
	}
	res.Count("server_msgs", int64(nS))
	for _, c := range m.closeCodes {
		res.Count("closes", 1)
		res.Count(fmt.Sprintf("close.%d", c), 1)
		res.Observe("close_codes."+ps, fmt.Sprint(c))
	}
	started, execCalls := 0, 0
	for _, t := range rr.ops {
		if t.Entered {
			started++
		}
		execCalls += t.ExecCalls
	}
	res.Count("ops_started", int64(started))
	res.Count("ops_started_by_reference_machine", int64(m.started))
	res.Count("executor_execute_calls", int64(execCalls))
	res.Count("terminals", int64(m.terminals))
	res.Count("transitions", int64(m.transitions))
	res.Count("keepalives_seen", int64(m.heartbeats))
	res.Count("complete_for_never_started_id_tolerated", int64(m.toleratedUnstartedComplete))
	for l := range m.labels {
		res.Observe("transitions."+ps, l)
	}
	if a.sigs < 48 {
		sig := traceSignature(rr.trace)
		before := len(res.Sets["trace_signatures"])
		res.Observe("trace_signatures", ps+": "+sig)
		if len(res.Sets["trace_signatures"]) > before {
			a.sigs++
		}
	}
	if m.inconclusive != "" {
		a.inconcl = append(a.inconcl, m.inconclusive)
		res.Count("runs_inconclusive", 1)
	}
	nontrivial := nS > 0 || len(m.closeCodes) > 0
	if nontrivial && m.inconclusive == "" {
		a.keys[key] = true
	}
	if res.Sample == nil && nontrivial {
		res.Sample = map[string]any{"protocol": rr.p.String(), "script": rr.script, "cancel": rr.opts.cancel, "racy": rr.opts.racy, "wire": rr.opts.wire, "trace": traceStrings(rr.trace, 24)}
	}
	for _, f := range m.findings {
		// at most one witness per (oracle, cause class) and case goes to the result; the rest is counted
		cls := f.kind + "/" + f.match["cause"]
		a.classes[cls]++
		res.Count("findings."+f.kind, 1)
		if a.classes[cls] > 1 {
			res.Count("findings_not_listed_individually", 1)
			continue
		}
		res.Violate(f.kind, fmt.Sprintf("[%s] script %q: %s", rr.p, rr.script, f.msg), f.match, map[string]any{
			"protocol": rr.p.String(), "script": rr.script, "word": wordString(rr.word), "schedule": scheduleKey(rr.sched),
			"options":     map[string]any{"wire": rr.opts.wire, "slow_write_gate_at": rr.opts.gateAt, "cancel": rr.opts.cancel, "racy": rr.opts.racy, "heartbeat": rr.opts.heartbeat.String(), "init_timeout": rr.opts.initTimeout.String(), "abrupt_eof": rr.opts.abruptEOF, "wait_close": rr.opts.waitClose},
			"trace_index": f.at, "trace": traceStrings(rr.trace, 80), "operations": rr.ops, "settled": rr.settled,
		})
	}
}

// traceSignature abstracts a trace to the sequence of its event kinds.
func traceSignature(tr []traceEv) string {
	var parts []string
	for _, e := range tr {
		switch e.Kind {
		case 'C':
			parts = append(parts, "c:"+e.Sym.name)
		case 'S':
			var w wireMsg
			_ = json.Unmarshal([]byte(e.Raw), &w)
			s := w.Type
			if w.ID != "" {
				s += "(" + w.ID + ")"
			}
			parts = append(parts, s)
		case 'X':
			parts = append(parts, fmt.Sprintf("close%d", e.Code))
		case 'D':
			parts = append(parts, "disconnect")
		case 'Z':
			parts = append(parts, "gone")
		}
		if len(parts) > 24 {
			parts = append(parts, "…")
			break
		}
	}
	return strings.Join(parts, " ")
}

func (a *acc) finish() {
	res := a.res
	for k := range a.keys {
		res.Keys = append(res.Keys, k)
	}
	sort.Strings(res.Keys)
	res.Count("words_distinct", int64(len(a.words)))
	res.Nontrivial = len(a.keys) > 0
	if len(a.inconcl) > 0 && len(a.inconcl)*10 > int(res.Counters["runs"])+1 {
		// more than a tenth of the runs of this case could not be judged
		res.Inconclusive = a.inconcl[0]
	}
}

// ---------------------------------------------------------------------------------------------
// Run

func (c19) Run(c *fw.Ctx, idx int) fw.Result {
	seg, sub := locate(c.Tier, idx)
	res := fw.Result{Key: fw.HashKey("C19", c.Tier, idx)}
	a := newAcc(&res)
	switch seg.kind {
	case ckTwsAll:
		runExhaustive(c, a, protoTWS, twsAlphabet, seg, sub, true)
	case ckTwsFixed:
		runExhaustive(c, a, protoTWS, twsAlphabet, seg, sub, false)
	case ckGwsAll:
		runExhaustive(c, a, protoGWS, gwsAlphabet, seg, sub, true)
	case ckGwsFixed:
		runExhaustive(c, a, protoGWS, gwsAlphabet, seg, sub, false)
	case ckTwsRandom:
		runRandom(c, a, protoTWS, seg, idx)
	case ckGwsRandom:
		runRandom(c, a, protoGWS, seg, idx)
	case ckTimeout:
		runTimeouts(c, a, idx, sub)
	case ckTwsWire:
		runWire(c, a, seg, idx)
	case ckSlowWrite:
		runSlowWrite(c, a, seg, sub)
	default:
		res.Inconclusive = "layout: index outside the case list"
		return res
	}
	a.finish()
	return res
}

// cancelModes: the executor's reaction to cancellation only matters when something can cancel an
// operation while the connection lives: a complete/stop/terminate (or, legacy, a refused init)
// after a subscribe.
func cancelModes(w []sym) []string {
	seenSub := false
	for _, s := range w {
		if s.isSub() {
			seenSub = true
			continue
		}
		if seenSub && (s.kind == kComplete || s.kind == kTerminate || s.kind == kInitReject) {
			return []string{"v2", "data", "err"}
		}
	}
	return []string{"v2"}
}

func runExhaustive(c *fw.Ctx, a *acc, p proto, alphabet []sym, seg segment, part int, all bool) {
	g := 0
	for n := seg.lo; n <= seg.hi; n++ {
		total := numWords(len(alphabet), n)
		for i := 0; i < total; i++ {
			mine := int((uint32(g)*2654435761)>>8)%seg.n == part
			g++
			if !mine {
				continue
			}
			w := wordAt(alphabet, n, i)
			ws := wordString(w)
			a.words[pshort(p)+":"+ws] = true
			var scheds []schedule
			var pendingLate []bool
			if all {
				limit := 0
				if c.Tier == fw.Thorough {
					limit = schedCapThorough
				}
				var trunc bool
				scheds, trunc = allSchedules(p, w, limit)
				if trunc {
					a.res.Count("words_with_schedule_cap_hit", 1)
				}
			} else {
				fam := fixedFamily
				if c.Tier != fw.Thorough {
					fam = quickFamily
				}
				scheds, pendingLate = fixedSchedules(p, w, fam)
			}
			key := fw.HashKey(p.String(), ws)
			modes := cancelModes(w)
			for k, sc := range scheds {
				ms := modes
				if !all && !pendingLate[k] {
					ms = modes[:1]
				}
				for _, cm := range ms {
					rr := runScript(p, w, sc, runOpts{cancel: cm})
					a.absorb(rr, key)
				}
			}
		}
	}
}

// ---------------------------------------------------------------------------------------------
// sampled sequences

func pick(rng *rand.Rand, xs []sym) sym { return xs[rng.IntN(len(xs))] }

func filter(xs []sym, f func(sym) bool) []sym {
	var out []sym
	for _, x := range xs {
		if f(x) {
			out = append(out, x)
		}
	}
	return out
}

func randomWord(rng *rand.Rand, p proto) []sym {
	base, extra := twsAlphabet, twsExtra
	if p == protoGWS {
		base, extra = gwsAlphabet, gwsExtra
	}
	all := append(append([]sym(nil), base...), extra...)
	inits := filter(all, func(s sym) bool { return s.kind == kInit || s.kind == kInitPayload })
	subs := filter(all, func(s sym) bool { return s.gated() })
	badSubs := filter(all, func(s sym) bool { return s.isSub() && !s.gated() })
	stops := filter(all, func(s sym) bool { return s.kind == kComplete })
	fatal := filter(all, func(s sym) bool { return s.kind == kUnknown || s.kind == kBadJSON || s.kind == kInitReject })
	soft := filter(all, func(s sym) bool {
		return s.kind == kPing || s.kind == kPong || s.kind == kEmpty || s.kind == kBadShape || s.kind == kTerminate
	})
	n := 1 + rng.IntN(12)
	w := make([]sym, 0, n)
	for len(w) < n {
		r := rng.IntN(100)
		if len(w) == 0 && r < 75 {
			w = append(w, pick(rng, inits))
			continue
		}
		switch {
		case r < 38:
			w = append(w, pick(rng, subs))
		case r < 62:
			w = append(w, pick(rng, stops))
		case r < 72:
			w = append(w, pick(rng, badSubs))
		case r < 86:
			w = append(w, pick(rng, soft))
		case r < 91:
			w = append(w, pick(rng, inits))
		case r < 96:
			w = append(w, pick(rng, fatal))
		default:
			w = append(w, pick(rng, all))
		}
	}
	return w
}

func randomSchedule(rng *rand.Rand, p proto, w []sym) schedule {
	var sc schedule
	for t, s := range w {
		if !s.gated() {
			continue
		}
		var seq string
		if s.kind == kSubQuery {
			seq = []string{"", "f", "x", "f", "f"}[rng.IntN(5)]
		} else {
			n := rng.IntN(5)
			for i := 0; i < n; i++ {
				seq += string("ddddffxxxd"[rng.IntN(10)])
			}
		}
		slot := t + 1
		for i := 0; i < len(seq); i++ {
			if slot < len(w) && rng.IntN(3) > 0 {
				slot += rng.IntN(len(w) - slot + 1)
			}
			sc = append(sc, schedEv{op: t, kind: seq[i], slot: slot})
		}
	}
	return sc.sorted()
}

func runRandom(c *fw.Ctx, a *acc, p proto, seg segment, idx int) {
	rng := c.Rng(idx, "random")
	a.sampled = true
	for i := 0; i < seg.runs; i++ {
		w := randomWord(rng, p)
		sc := randomSchedule(rng, p, w)
		o := runOpts{cancel: []string{"v2", "data", "err"}[rng.IntN(3)]}
		o.racy = rng.IntN(2) == 0
		if rng.IntN(4) == 0 {
			o.heartbeat = time.Duration(100+rng.IntN(900)) * time.Microsecond
		}
		if o.racy && rng.IntN(4) == 0 {
			o.abruptEOF = true
		}
		a.words[pshort(p)+":"+wordString(w)] = true
		rr := runScript(p, w, sc, o)
		a.absorb(rr, fw.HashKey(p.String(), rr.script, o.cancel, o.racy, o.heartbeat > 0, o.abruptEOF))
	}
}

// runWire: sampled graphql-transport-ws runs served by websocket.Client over an in-memory net.Conn.
// Half of them have the shape "init, 1..3 subscriptions, a fatal message, with data released around
// the fatal message" in racy mode, which is where a close frame meets concurrent writers.
func runWire(c *fw.Ctx, a *acc, seg segment, idx int) {
	rng := c.Rng(idx, "wire")
	subsS := filter(twsAlphabet, func(s sym) bool { return s.kind == kSubSub })
	subsS = append(subsS, sym{name: "Ss3", kind: kSubSub, id: "3"})
	fatals := []sym{{name: "U", kind: kUnknown}, {name: "J", kind: kBadJSON}, {name: "I", kind: kInit}}
	for i := 0; i < seg.runs; i++ {
		var w []sym
		var sc schedule
		o := runOpts{wire: true, cancel: []string{"v2", "data", "err"}[rng.IntN(3)]}
		if rng.IntN(2) == 0 {
			w = append(w, sym{name: "I", kind: kInit})
			n := 1 + rng.IntN(3)
			perm := rng.Perm(len(subsS))
			for k := 0; k < n; k++ {
				w = append(w, subsS[perm[k]])
			}
			if rng.IntN(4) == 0 {
				w = append(w, subsS[perm[0]]) // duplicate id
			} else {
				w = append(w, pick(rng, fatals))
			}
			last := len(w) - 1
			for k := 1; k <= n; k++ {
				for e := 0; e < 1+rng.IntN(4); e++ {
					slot := last
					if rng.IntN(4) == 0 {
						slot = last + 1
					}
					sc = append(sc, schedEv{op: k, kind: 'd', slot: slot})
				}
			}
			o.racy = true
		} else {
			w = randomWord(rng, protoTWS)
			sc = randomSchedule(rng, protoTWS, w)
			o.racy = rng.IntN(2) == 0
			if rng.IntN(4) == 0 {
				o.heartbeat = time.Duration(100+rng.IntN(900)) * time.Microsecond
			}
		}
		a.words["tws:"+wordString(w)] = true
		a.res.Count("runs_wire", 1)
		rr := runScript(protoTWS, w, sc.sorted(), o)
		a.absorb(rr, fw.HashKey("wire", rr.script, o.cancel, o.racy, o.heartbeat > 0))
	}
}

// runSlowWrite enumerates the "slow write" scripts: an operation ends by itself (query result, query
// error, executor failing at once); the transport client parks the server's write call of its terminal
// message after having taken the message, and at that moment the client sends the next message for
// the same id (a re-subscribe of every kind, or a complete). A client may use an id again as soon as
// it has seen the terminal message, so the re-subscribe has to be accepted. Both protocols, ids 1
// and 2, with and without a streaming operation on another id; thorough adds the cancel modes.
func runSlowWrite(c *fw.Ctx, a *acc, seg segment, part int) {
	type first struct {
		kind symKind
		ev   byte // 0: none (the executor fails at once)
	}
	firsts := []first{{kSubQuery, 'f'}, {kSubQuery, 'x'}, {kSubExecErr, 0}}
	seconds := []symKind{kSubQuery, kSubSub, kSubExecErr, kSubHookReject, kComplete}
	modes := []string{"v2"}
	if c.Tier == fw.Thorough {
		modes = []string{"v2", "data", "err"}
	}
	letter := func(p proto, k symKind, id string) sym {
		alpha := append(append([]sym(nil), twsAlphabet...), twsExtra...)
		if p == protoGWS {
			alpha = append(append([]sym(nil), gwsAlphabet...), gwsExtra...)
		}
		for _, s := range alpha {
			if s.kind == k && s.id == id && s.variant == 0 {
				return s
			}
		}
		return sym{name: fmt.Sprintf("k%d_%s", k, id), kind: k, id: id}
	}
	n := 0
	for _, p := range []proto{protoTWS, protoGWS} {
		prefixes := [][]sym{{{name: "I", kind: kInit}}}
		if p == protoGWS {
			prefixes = append(prefixes, []sym{})
		}
		for _, pre := range prefixes {
			for _, id := range []string{"1", "2"} {
				other := "2"
				if id == "2" {
					other = "1"
				}
				for _, bystander := range []bool{false, true} {
					for _, f := range firsts {
						for _, sk := range seconds {
							for _, cm := range modes {
								mine := n%seg.n == part
								n++
								if !mine {
									continue
								}
								w := append([]sym(nil), pre...)
								var sc schedule
								if bystander {
									w = append(w, letter(p, kSubSub, other))
									sc = append(sc, schedEv{op: len(w) - 1, kind: 'd', slot: len(w)})
								}
								w = append(w, letter(p, f.kind, id))
								fi := len(w) - 1
								w = append(w, letter(p, sk, id))
								gate := len(w) - 1
								if gate == 0 {
									continue
								}
								if f.ev != 0 {
									sc = append(sc, schedEv{op: fi, kind: f.ev, slot: gate})
								}
								if w[gate].gated() {
									sc = append(sc, schedEv{op: gate, kind: 'f', slot: len(w)})
								}
								if bystander {
									sc = append(sc, schedEv{op: fi - 1, kind: 'd', slot: len(w)})
								}
								a.words[pshort(p)+":"+wordString(w)+"@gate"] = true
								rr := runScript(p, w, sc.sorted(), runOpts{cancel: cm, gateAt: gate})
								a.res.Count("runs_slow_write", 1)
								a.res.Count("slow_write_gate_hits", int64(rr.gateHits))
								a.absorb(rr, fw.HashKey("slow-write", p.String(), rr.script, gate, cm))
							}
						}
					}
				}
			}
		}
	}
}

// ---------------------------------------------------------------------------------------------
// init time-out

func runTimeouts(c *fw.Ctx, a *acc, idx, part int) {
	rng := c.Rng(idx, "timeout")
	P := sym{name: "P", kind: kPing}
	Q := sym{name: "Q", kind: kPong}
	C1 := sym{name: "C1", kind: kComplete, id: "1"}
	C2 := sym{name: "C2", kind: kComplete, id: "2"}
	E := sym{name: "E", kind: kEmpty}
	I := sym{name: "I", kind: kInit}
	Ip := sym{name: "Ip", kind: kInitPayload}
	Sq1 := sym{name: "Sq1", kind: kSubQuery, id: "1"}
	Ss2 := sym{name: "Ss2", kind: kSubSub, id: "2"}
	noInit := [][]sym{{}, {P}, {Q}, {C1}, {E}, {P, P}, {P, Q}, {C1, C2}, {E, P}, {Q, C2, E}, {P, C1, P}}
	withInit := [][]sym{{I}, {Ip}, {I, P}, {P, I}, {I, Sq1}, {C1, Ip, Ss2}, {I, Sq1, C1}, {E, I, P, Q}}

	type job struct {
		w  []sym
		sc schedule
		o  runOpts
	}
	var jobs []job
	// (1) no init at all: the time-out must close with 4408
	for k := 0; k < 3; k++ {
		w := noInit[(part*3+k)%len(noInit)]
		jobs = append(jobs, job{w: w, o: runOpts{cancel: "v2", initTimeout: time.Duration(20+rng.IntN(21)) * time.Millisecond, waitClose: true}})
	}
	// (2) init in time: the timer must have been stopped
	for k := 0; k < 2; k++ {
		w := withInit[(part*2+k)%len(withInit)]
		sc := template{query: []tmplEv{{'f', 'L'}}, sub: []tmplEv{{'d', 'F'}, {'d', 'L'}}}.instantiate(protoTWS, w)
		jobs = append(jobs, job{w: w, sc: sc, o: runOpts{cancel: "v2", initTimeout: 300 * time.Millisecond, linger: 450 * time.Millisecond}})
	}
	// (3) init racing the timer (either order is legal; exercises the timer against the handler under -race)
	for k := 0; k < 2; k++ {
		d := time.Duration(4+rng.IntN(8)) * time.Millisecond
		jobs = append(jobs, job{w: []sym{I, P}, o: runOpts{cancel: "v2", initTimeout: d, linger: 2 * d, preDelay: d - time.Millisecond + time.Duration(rng.IntN(2000))*time.Microsecond}})
	}
	results := make([]*runResult, len(jobs))
	var wg sync.WaitGroup
	for i, j := range jobs {
		wg.Add(1)
		go func(i int, j job) {
			defer wg.Done()
			results[i] = runScript(protoTWS, j.w, j.sc, j.o)
		}(i, j)
	}
	wg.Wait()
	for i, rr := range results {
		a.words["tws:"+wordString(jobs[i].w)] = true
		a.res.Count("runs_init_timeout", 1)
		a.absorb(rr, fw.HashKey("timeout", rr.script, jobs[i].o.initTimeout.String(), jobs[i].o.waitClose, jobs[i].o.linger.String(), jobs[i].o.preDelay.String()))
	}
}
