package c19

import (
	"fmt"
	"sort"
	"strings"
)

// proto is the negotiated subprotocol of a run.
type proto int

const (
	protoTWS proto = iota // graphql-transport-ws
	protoGWS              // graphql-ws (legacy, subscriptions-transport-ws)
)

func (p proto) String() string {
	if p == protoGWS {
		return "graphql-ws"
	}
	return "graphql-transport-ws"
}

// symKind is the abstract kind of a client message.
type symKind int

const (
	kInit          symKind = iota // connection_init without payload
	kInitPayload                  // connection_init with a payload the InitFunc accepts
	kInitReject                   // connection_init with a payload the InitFunc rejects
	kPing                         // ping (transport-ws)
	kPong                         // pong (transport-ws)
	kSubQuery                     // subscribe / start carrying a query operation
	kSubSub                       // subscribe / start carrying a subscription operation
	kSubExecErr                   // subscribe / start whose executor fails at once (unparsable query, as ExecutorV2 reports it)
	kSubBadPayload                // subscribe / start whose payload cannot be decoded
	kSubGetFail                   // subscribe / start for which ExecutorPool.Get returns an error
	kSubHookReject                // subscribe / start of an operation the engine's WebsocketBeforeStartHook rejects (real ExecutorV2)
	kComplete                     // complete (transport-ws) / stop (legacy)
	kTerminate                    // connection_terminate (legacy)
	kUnknown                      // a message with an unknown / missing type
	kBadJSON                      // bytes that are not JSON (syntax error)
	kBadShape                     // valid JSON that does not have the shape of a message
	kEmpty                        // empty frame
)

// sym is one letter of a protocol alphabet.
type sym struct {
	name    string
	kind    symKind
	id      string
	variant int
}

func (s sym) isSub() bool {
	switch s.kind {
	case kSubQuery, kSubSub, kSubExecErr, kSubBadPayload, kSubGetFail, kSubHookReject:
		return true
	}
	return false
}

// gated says whether the operation waits for scripted engine events.
func (s sym) gated() bool { return s.kind == kSubQuery || s.kind == kSubSub }

func (s sym) isInit() bool { return s.kind == kInit || s.kind == kInitPayload || s.kind == kInitReject }

// the enumerated alphabets ------------------------------------------------------------------------

var twsAlphabet = []sym{
	{name: "I", kind: kInit},
	{name: "Ip", kind: kInitPayload},
	{name: "Ir", kind: kInitReject},
	{name: "P", kind: kPing},
	{name: "Q", kind: kPong},
	{name: "Sq1", kind: kSubQuery, id: "1"},
	{name: "Sq2", kind: kSubQuery, id: "2"},
	{name: "Ss1", kind: kSubSub, id: "1"},
	{name: "Ss2", kind: kSubSub, id: "2"},
	{name: "Sx1", kind: kSubExecErr, id: "1"},
	{name: "Sh1", kind: kSubHookReject, id: "1"},
	{name: "C1", kind: kComplete, id: "1"},
	{name: "C2", kind: kComplete, id: "2"},
	{name: "U", kind: kUnknown},
	{name: "J", kind: kBadJSON},
	{name: "E", kind: kEmpty},
}

var gwsAlphabet = []sym{
	{name: "I", kind: kInit},
	{name: "Ip", kind: kInitPayload},
	{name: "Ir", kind: kInitReject},
	{name: "Tq1", kind: kSubQuery, id: "1"},
	{name: "Tq2", kind: kSubQuery, id: "2"},
	{name: "Ts1", kind: kSubSub, id: "1"},
	{name: "Ts2", kind: kSubSub, id: "2"},
	{name: "Tx1", kind: kSubExecErr, id: "1"},
	{name: "Th1", kind: kSubHookReject, id: "1"},
	{name: "St1", kind: kComplete, id: "1"},
	{name: "St2", kind: kComplete, id: "2"},
	{name: "T", kind: kTerminate},
	{name: "U", kind: kUnknown},
	{name: "J", kind: kBadJSON},
	{name: "E", kind: kEmpty},
}

// extra letters used only by the seeded random sequences.
var twsExtra = []sym{
	{name: "P0", kind: kPing, variant: 1}, // ping without payload
	{name: "Qp", kind: kPong, variant: 1}, // pong with payload
	{name: "Sq3", kind: kSubQuery, id: "3"},
	{name: "Ss3", kind: kSubSub, id: "3"},
	{name: "Sp1", kind: kSubBadPayload, id: "1"},
	{name: "Sp2", kind: kSubBadPayload, id: "2", variant: 1},
	{name: "Sx2", kind: kSubExecErr, id: "2"},
	{name: "Sh2", kind: kSubHookReject, id: "2"},
	{name: "Sg1", kind: kSubGetFail, id: "1"},
	{name: "Sg2", kind: kSubGetFail, id: "2"},
	{name: "C3", kind: kComplete, id: "3"},
	{name: "U1", kind: kUnknown, variant: 1}, // a server-only type sent by the client
	{name: "U2", kind: kUnknown, variant: 2}, // JSON null
	{name: "U3", kind: kUnknown, variant: 3}, // object without type
	{name: "U4", kind: kUnknown, variant: 4}, // legacy 'start'
	{name: "J1", kind: kBadJSON, variant: 1},
	{name: "J2", kind: kBadJSON, variant: 2},
	{name: "Jt0", kind: kBadShape},
	{name: "Jt1", kind: kBadShape, variant: 1},
	{name: "Jt2", kind: kBadShape, variant: 2},
	{name: "Jt3", kind: kBadShape, variant: 3},
}

var gwsExtra = []sym{
	{name: "Tq3", kind: kSubQuery, id: "3"},
	{name: "Ts3", kind: kSubSub, id: "3"},
	{name: "Tx2", kind: kSubExecErr, id: "2"},
	{name: "Th2", kind: kSubHookReject, id: "2"},
	{name: "Tg1", kind: kSubGetFail, id: "1"},
	{name: "St3", kind: kComplete, id: "3"},
	{name: "U1", kind: kUnknown, variant: 1},
	{name: "U2", kind: kUnknown, variant: 2},
	{name: "U3", kind: kUnknown, variant: 3},
	{name: "U5", kind: kUnknown, variant: 5}, // transport-ws 'subscribe'
	{name: "J1", kind: kBadJSON, variant: 1},
	{name: "Jt0", kind: kBadShape},
	{name: "Jt1", kind: kBadShape, variant: 1},
	{name: "Jt3", kind: kBadShape, variant: 3},
}

// queryText is the GraphQL text carried by the subscribe step t. The token after '_' lets the
// scripted ExecutorPool find the operation record of that step.
func queryText(k symKind, t int) string {
	switch k {
	case kSubQuery:
		return fmt.Sprintf("query q_%d { a }", t)
	case kSubSub:
		return fmt.Sprintf("subscription s_%d { a }", t)
	case kSubExecErr:
		return fmt.Sprintf("x_%d {{{ not graphql", t)
	case kSubGetFail:
		return fmt.Sprintf("query g_%d { a }", t)
	case kSubHookReject:
		return fmt.Sprintf("query h_%d { __typename }", t)
	}
	return ""
}

// render gives the bytes of letter s fed as step t of a run under protocol p.
func render(p proto, s sym, t int) []byte {
	switch s.kind {
	case kInit:
		return []byte(`{"type":"connection_init"}`)
	case kInitPayload:
		return []byte(`{"type":"connection_init","payload":{"token":"ok"}}`)
	case kInitReject:
		return []byte(`{"type":"connection_init","payload":{"token":"reject"}}`)
	case kPing:
		if s.variant == 1 {
			return []byte(`{"type":"ping"}`)
		}
		return []byte(fmt.Sprintf(`{"type":"ping","payload":{"p":%d}}`, t))
	case kPong:
		if s.variant == 1 {
			return []byte(`{"type":"pong","payload":{"q":1}}`)
		}
		return []byte(`{"type":"pong"}`)
	case kSubQuery, kSubSub, kSubExecErr, kSubGetFail, kSubHookReject:
		typ := "subscribe"
		if p == protoGWS {
			typ = "start"
		}
		return []byte(fmt.Sprintf(`{"type":%q,"id":%q,"payload":{"query":%q}}`, typ, s.id, queryText(s.kind, t)))
	case kSubBadPayload:
		typ := "subscribe"
		if p == protoGWS {
			typ = "start"
		}
		if s.variant == 1 {
			return []byte(fmt.Sprintf(`{"type":%q,"id":%q,"payload":[1,2]}`, typ, s.id))
		}
		return []byte(fmt.Sprintf(`{"type":%q,"id":%q,"payload":7}`, typ, s.id))
	case kComplete:
		typ := "complete"
		if p == protoGWS {
			typ = "stop"
		}
		return []byte(fmt.Sprintf(`{"type":%q,"id":%q}`, typ, s.id))
	case kTerminate:
		return []byte(`{"type":"connection_terminate"}`)
	case kUnknown:
		switch s.variant {
		case 1:
			return []byte(`{"type":"connection_ack"}`)
		case 2:
			return []byte(`null`)
		case 3:
			return []byte(`{"id":"1","payload":{}}`)
		case 4:
			return []byte(`{"type":"start","id":"1","payload":{"query":"{a}"}}`)
		case 5:
			return []byte(`{"type":"subscribe","id":"1","payload":{"query":"{a}"}}`)
		}
		return []byte(fmt.Sprintf(`{"type":"bogus_%d"}`, t))
	case kBadJSON:
		switch s.variant {
		case 1:
			return []byte(`this is not json`)
		case 2:
			return []byte(`{"type":}`)
		}
		return []byte(`{"type":"ping"`)
	case kBadShape:
		switch s.variant {
		case 1:
			return []byte(`[1,2]`)
		case 2:
			return []byte(`"connection_init"`)
		case 3:
			return []byte(`{"type":"subscribe","id":7}`)
		}
		return []byte(`{"type":5}`)
	case kEmpty:
		return []byte{}
	}
	return []byte(`{}`)
}

// words -------------------------------------------------------------------------------------------

// numWords is |alphabet|^n.
func numWords(alpha, n int) int {
	r := 1
	for i := 0; i < n; i++ {
		r *= alpha
	}
	return r
}

// wordAt decodes index i of the words of length n (base-|alphabet| digits, most significant first).
func wordAt(alphabet []sym, n, i int) []sym {
	w := make([]sym, n)
	for p := n - 1; p >= 0; p-- {
		w[p] = alphabet[i%len(alphabet)]
		i /= len(alphabet)
	}
	return w
}

func wordString(w []sym) string {
	parts := make([]string, len(w))
	for i, s := range w {
		parts[i] = s.name
	}
	return strings.Join(parts, " ")
}

// engine event schedules ---------------------------------------------------------------------------

// schedEv releases one engine event for the operation created by step op: 'd' = one data item
// (written and flushed), 'f' = Execute returns nil (with one unflushed result in the buffer),
// 'x' = Execute returns an error. The event is released just before client message number slot is
// fed (slot == len(word) means after the whole word), so op < slot <= len(word).
type schedEv struct {
	op   int
	kind byte
	slot int
}

type schedule []schedEv

func (s schedule) sorted() schedule {
	out := append(schedule(nil), s...)
	sort.SliceStable(out, func(i, j int) bool {
		if out[i].slot != out[j].slot {
			return out[i].slot < out[j].slot
		}
		return out[i].op < out[j].op
	})
	return out
}

// scriptString renders word and schedule as one merged script, e.g. "I Ss1 d1 C1 f1".
func scriptString(w []sym, sc schedule) string {
	sc = sc.sorted()
	idUses := map[string]int{}
	for _, s := range w {
		if s.isSub() {
			idUses[s.id]++
		}
	}
	var parts []string
	evName := func(e schedEv) string {
		id := "?"
		if e.op >= 0 && e.op < len(w) {
			id = w[e.op].id
			if idUses[id] > 1 {
				id = fmt.Sprintf("%s@%d", id, e.op)
			}
		}
		return fmt.Sprintf("%c%s", e.kind, id)
	}
	j := 0
	for t := 0; t <= len(w); t++ {
		for j < len(sc) && sc[j].slot <= t {
			parts = append(parts, evName(sc[j]))
			j++
		}
		if t < len(w) {
			parts = append(parts, w[t].name)
		}
	}
	return strings.Join(parts, " ")
}

// gatedOps lists the steps whose operation can have started and waits for engine events. It uses
// only schedule-independent closers (a fatal message earlier in the word) and is used to prune the
// workload (no engine events are enumerated for operations that cannot have started), never for a
// verdict.
func gatedOps(p proto, w []sym) []int {
	var ops []int
	alive := true
	inited := false
	for i, s := range w {
		if !alive {
			break
		}
		if p == protoGWS {
			// the legacy handler never closes and does not require an init
			if s.gated() {
				ops = append(ops, i)
			}
			continue
		}
		switch s.kind {
		case kInit, kInitPayload:
			if inited {
				alive = false
			}
			inited = true
		case kInitReject, kUnknown, kBadJSON:
			alive = false
		case kSubQuery, kSubSub, kSubExecErr, kSubBadPayload, kSubGetFail, kSubHookReject:
			if !inited {
				alive = false
			} else if s.gated() {
				ops = append(ops, i)
			}
		}
	}
	return ops
}

// eventSeqs returns the event sequences enumerated for one operation.
// query operations: nothing | f | x (they cannot stream);
// subscription operations: every sequence over {d,f,x} of length <= 2 plus d·(any two).
func eventSeqs(k symKind) []string {
	if k == kSubQuery {
		return []string{"", "f", "x"}
	}
	out := []string{""}
	alpha := "dfx"
	for _, a := range alpha {
		out = append(out, string(a))
	}
	for _, a := range alpha {
		for _, b := range alpha {
			out = append(out, string(a)+string(b))
		}
	}
	for _, a := range alpha {
		for _, b := range alpha {
			out = append(out, "d"+string(a)+string(b))
		}
	}
	return out
}

// placements enumerates every non-decreasing assignment of slots lo..hi to the events of seq.
func placements(op int, seq string, lo, hi int) []schedule {
	if len(seq) == 0 {
		return []schedule{nil}
	}
	var out []schedule
	var rec func(i, from int, cur schedule)
	rec = func(i, from int, cur schedule) {
		if i == len(seq) {
			out = append(out, append(schedule(nil), cur...))
			return
		}
		for s := from; s <= hi; s++ {
			rec(i+1, s, append(cur, schedEv{op: op, kind: seq[i], slot: s}))
		}
	}
	rec(0, lo, nil)
	return out
}

// allSchedules is the complete enumerated schedule space of a word: the product, over the
// operations that can have started, of (event sequence × slot placement). limit > 0 truncates
// (the caller reports truncation).
func allSchedules(p proto, w []sym, limit int) (out []schedule, truncated bool) {
	ops := gatedOps(p, w)
	out = []schedule{nil}
	for _, op := range ops {
		var perOp []schedule
		for _, seq := range eventSeqs(w[op].kind) {
			perOp = append(perOp, placements(op, seq, op+1, len(w))...)
		}
		var next []schedule
		for _, a := range out {
			for _, b := range perOp {
				next = append(next, append(append(schedule(nil), a...), b...))
				if limit > 0 && len(next) >= limit {
					return next, true
				}
			}
		}
		out = next
	}
	return out, false
}

// fixed schedule family -----------------------------------------------------------------------------

type tmplEv struct {
	kind byte
	pos  byte // 'F' first slot (right after the subscribe), 'N' one message later, 'L' after the last message
}

type template struct {
	name  string
	query []tmplEv
	sub   []tmplEv
}

var fixedFamily = []template{
	{name: "none"},
	{name: "finish-asap", query: []tmplEv{{'f', 'F'}}, sub: []tmplEv{{'d', 'F'}, {'f', 'F'}}},
	{name: "error-asap", query: []tmplEv{{'x', 'F'}}, sub: []tmplEv{{'x', 'F'}, {'d', 'L'}}},
	{name: "finish-late", query: []tmplEv{{'f', 'L'}}, sub: []tmplEv{{'d', 'F'}, {'d', 'L'}}},
	{name: "error-late", query: []tmplEv{{'x', 'L'}}, sub: []tmplEv{{'d', 'F'}, {'x', 'L'}}},
	{name: "spread", query: []tmplEv{{'f', 'N'}}, sub: []tmplEv{{'d', 'F'}, {'d', 'N'}, {'f', 'L'}}},
	{name: "finish-next", query: []tmplEv{{'f', 'N'}}, sub: []tmplEv{{'f', 'N'}, {'d', 'L'}}},
	{name: "error-next", query: []tmplEv{{'x', 'N'}}, sub: []tmplEv{{'x', 'N'}, {'x', 'L'}}},
}

// quickFamily is the part of the family the quick tier uses for the longest enumerated words.
var quickFamily = fixedFamily[:6]

func (t template) instantiate(p proto, w []sym) schedule {
	var sc schedule
	for _, op := range gatedOps(p, w) {
		evs := t.sub
		if w[op].kind == kSubQuery {
			evs = t.query
		}
		for _, e := range evs {
			slot := op + 1
			switch e.pos {
			case 'N':
				slot = op + 2
			case 'L':
				slot = len(w)
			}
			if slot > len(w) {
				slot = len(w)
			}
			sc = append(sc, schedEv{op: op, kind: e.kind, slot: slot})
		}
	}
	return sc.sorted()
}

func scheduleKey(sc schedule) string {
	var b strings.Builder
	for _, e := range sc.sorted() {
		fmt.Fprintf(&b, "%d%c%d,", e.op, e.kind, e.slot)
	}
	return b.String()
}

// fixedSchedules instantiates the family for a word, dropping duplicates. lateOnly[i] tells whether
// schedule i leaves operations pending while later client messages arrive (so that what a cancelled
// executor returns matters).
func fixedSchedules(p proto, w []sym, family []template) (out []schedule, pendingLate []bool) {
	seen := map[string]bool{}
	for _, t := range family {
		sc := t.instantiate(p, w)
		k := scheduleKey(sc)
		if seen[k] {
			continue
		}
		seen[k] = true
		out = append(out, sc)
		pendingLate = append(pendingLate, t.name == "none" || t.name == "finish-late")
	}
	return out, pendingLate
}
