package c19

import (
	"bytes"
	"encoding/json"
	"fmt"
	"regexp"
	"strconv"
	"strings"
)

// The reference protocol state machines. One machine value consumes the merged trace of one
// connection (client messages in the order the server took them, server messages and close frames
// in the order they reached the transport client) and rejects what the negotiated protocol — read
// through the statement of C19 — does not allow. It never looks at the code under test; the only
// other input is the ground truth recorded by the scripted executors (which operation instance
// really ran, which data items it handed to the engine).

type finding struct {
	kind  string
	msg   string
	match map[string]string
	at    int
}

// instance is one operation created by one accepted (or refused) subscribe/start message.
type instance struct {
	token               int
	id                  string
	kind                symKind
	accepted            bool   // the reference machine started it
	reject              string // why it did not: "before-init" | "duplicate-id" | "after-fatal" | "undecodable"
	clientDone          bool   // the client completed/stopped it (or terminated the connection) while it was open
	terminated          bool
	termKind            string
	termAfterClientDone bool
	termTokened         bool        // its terminal was an error that named the operation (an engine failure, not a cancellation)
	refusedCause        string      // legacy: its start was refused as a duplicate although the id was free; cause class of that refusal
	hookErrOwed         bool        // hook-rejected subscribe on an id in use: one error naming it may come
	seen                int         // data messages observed for it (in any state)
	pendingDup          bool        // its id had an open instance when the subscribe was taken; decided at the next client message
	blockers            []*instance // the open instances that were in the way
	at                  int         // trace index of its subscribe
}

type idState struct {
	open      []*instance // accepted instances without a server terminal, oldest first
	last      *instance   // most recent accepted instance
	prev      *instance   // the accepted instance before last
	all       []*instance // every accepted instance, oldest first
	lastNext  *instance   // instance of the last data message for the id, while no other message for the id followed
	lastStop  *instance   // the instance the most recent client complete/stop of the id gave up
	lateStops int         // client complete/stop taken while the id had no open instance but a terminated one
	strayErr  int         // undecodable subscribes for the id: a server may answer each with one error(id), 4400, or not at all
}

type fatalExp struct {
	code    int
	trigger string
	at      int
}

type machine struct {
	p   proto
	res *runResult

	initOK       bool
	acked        bool
	ackOwed      int
	rejectedInit bool
	pings        []string
	fatal        *fatalExp
	optClose     map[int]bool
	closed       bool
	clientGone   bool
	ids          map[string]*idState
	inst         map[int]*instance
	connErrOwed  int
	bareErrOwed  int
	pending      []*instance

	findings     []finding
	rejectedAt   int
	inconclusive string

	// evidence
	transitions                int
	labels                     map[string]int
	serverMsgs                 map[string]int
	closeCodes                 []int
	terminals                  int
	started                    int
	heartbeats                 int
	toleratedUnstartedComplete int
	shapeIgnored               int
}

type wireMsg struct {
	ID      string          `json:"id"`
	Type    string          `json:"type"`
	Payload json.RawMessage `json:"payload"`
}

var (
	opTokRe  = regexp.MustCompile(`"op":(\d+)`)
	errTokRe = regexp.MustCompile(`\b[xh]_(\d+)`)
)

const heartbeatPayload = `{"type":"heartbeat"}`

func compactJSON(b []byte) string {
	if len(b) == 0 {
		return ""
	}
	var out bytes.Buffer
	if err := json.Compact(&out, b); err != nil {
		return string(b)
	}
	return out.String()
}

func (m *machine) label(s string) {
	m.transitions++
	m.labels[s]++
}

func (m *machine) violate(at int, kind, msg string, match map[string]string) {
	if match == nil {
		match = map[string]string{}
	}
	match["proto"] = m.p.String()
	if len(m.findings) < 8 {
		m.findings = append(m.findings, finding{kind: kind, msg: msg, match: match, at: at})
	}
}

func (m *machine) idst(id string) *idState {
	st := m.ids[id]
	if st == nil {
		st = &idState{}
		m.ids[id] = st
	}
	return st
}

func (m *machine) setFatal(at, code int, trigger string) {
	m.label(fmt.Sprintf("C.%s:must-close-%d", trigger, code))
	if m.fatal == nil {
		m.fatal = &fatalExp{code: code, trigger: trigger, at: at}
	}
}

// activeDup: is there an open instance of id that the client has not given up?
func (st *idState) activeDup() bool {
	for _, in := range st.open {
		if !in.clientDone {
			return true
		}
	}
	return false
}

func check(res *runResult) *machine {
	m := &machine{p: res.p, res: res, optClose: map[int]bool{}, ids: map[string]*idState{}, inst: map[int]*instance{},
		labels: map[string]int{}, serverMsgs: map[string]int{}}
	for i, e := range res.trace {
		switch e.Kind {
		case 'C':
			if m.closed {
				m.violate(i, "consumed-after-close", "the server took a client message after it had closed the connection", nil)
			}
			m.resolvePending()
			if m.p == protoTWS {
				m.clientTWS(i, e)
			} else {
				m.clientGWS(i, e)
			}
		case 'S':
			m.server(i, e)
		case 'X', 'D':
			m.serverClose(i, e)
		case 'Z':
			m.clientGone = true
			m.label("C.gone")
		case 'B':
			m.violate(i, "frame-stream.corrupt", "the bytes the server wrote to the connection stop being a sequence of WebSocket frames (two writers interleaved): "+e.Raw, map[string]string{"after_close_frame": fmt.Sprint(m.closed), "close_frame_inside_message": "false"})
		}
		if len(m.findings) > 0 {
			// The machine rejects the trace at its first offending event. What follows is not judged:
			// the machine's state no longer mirrors the server's.
			m.rejectedAt = i
			break
		}
	}
	m.finish()
	return m
}

// ---------------------------------------------------------------------------------------------
// client side

func (m *machine) newInstance(e traceEv) *instance {
	in := &instance{token: e.Step, id: e.Sym.id, kind: e.Sym.kind}
	m.inst[e.Step] = in
	return in
}

func (m *machine) accept(in *instance) {
	st := m.idst(in.id)
	in.accepted = true
	in.reject = ""
	in.pendingDup = false
	st.open = append(st.open, in)
	st.prev, st.last = st.last, in
	st.all = append(st.all, in)
}

func (m *machine) startOrDup(i int, e traceEv) {
	s := e.Sym
	in := m.newInstance(e)
	in.at = i
	st := m.idst(s.id)
	dup := st.activeDup()
	undecodable := s.kind == kSubBadPayload || s.kind == kSubGetFail
	switch {
	case undecodable:
		// The message names an id but carries nothing a server can run (payload of the wrong JSON
		// type, or the executor pool refuses it). Ignoring it, answering error(id), closing with
		// 4400 or — when the id is in use — with 4409 are all accepted; no operation starts.
		in.reject = "undecodable"
		st.strayErr++
		m.optClose[4400] = true
		if dup {
			m.optClose[4409] = true
		}
		m.label("C.subscribe:undecodable")
	case dup && s.kind == kSubHookReject:
		// The id is in use and the operation is one the before-start hook refuses. Whether a server
		// looks at the id first (4409) or asks the hook first (error for that subscribe, named by its
		// token, the running operation untouched) is its choice; the operation never starts.
		in.reject = "hook-on-active-id"
		in.hookErrOwed = true
		m.optClose[4409] = true
		m.label("C.subscribe:hook-rejected-on-active-id")
	case dup:
		// A duplicate unless the instances in the way end before the server reacts: the server takes
		// the message first and checks the id a moment later, and an operation may send its terminal
		// in between. Decided when the server takes its next message (see resolvePending).
		in.reject = "duplicate-id"
		in.pendingDup = true
		for _, o := range st.open {
			if !o.clientDone {
				in.blockers = append(in.blockers, o)
			}
		}
		m.pending = append(m.pending, in)
		m.label("C.subscribe:id-in-use")
	default:
		m.started++
		m.label("C.subscribe:start-" + optypeName(s.kind))
		m.accept(in)
	}
}

func (in *instance) blockersGone() bool {
	for _, b := range in.blockers {
		if !b.terminated {
			return false
		}
	}
	return true
}

// resolvePending decides the subscribes whose id was in use when they were taken. The handler is
// sequential, so when it takes the next message (or is idle at the end of a settled run) it has
// finished reacting to them.
func (m *machine) resolvePending() {
	for _, in := range m.pending {
		if !in.pendingDup {
			continue
		}
		in.pendingDup = false
		if in.blockersGone() {
			m.started++
			m.label("C.subscribe:start-after-terminal-of-previous")
			m.accept(in)
			continue
		}
		if m.p == protoTWS {
			m.setFatal(in.at, 4409, "duplicate-id")
		} else {
			m.label("C.start:duplicate-id-unanswered")
		}
	}
	m.pending = m.pending[:0]
}

func (m *machine) pendingFor(id string) *instance {
	for _, in := range m.pending {
		if in.pendingDup && in.id == id {
			return in
		}
	}
	return nil
}

func (m *machine) clientStop(id string) {
	st := m.idst(id)
	n := 0
	for _, in := range st.open {
		if !in.clientDone {
			in.clientDone = true
			st.lastStop = in
			n++
		}
	}
	switch {
	case n > 0:
		m.label("C.complete:active")
	case st.last != nil:
		st.lateStops++
		m.label("C.complete:terminated-id")
	default:
		m.label("C.complete:unknown-id")
	}
}

func (m *machine) clientTWS(i int, e traceEv) {
	s := e.Sym
	if m.fatal != nil {
		// the server should not be reading any more; reported as close.missing at the end
		m.label("C.after-fatal")
		if s.isSub() {
			m.newInstance(e).reject = "after-fatal"
		}
		if s.kind == kPing {
			var w wireMsg
			_ = json.Unmarshal([]byte(e.Raw), &w)
			m.pings = append(m.pings, compactJSON(w.Payload))
		}
		return
	}
	switch s.kind {
	case kInit, kInitPayload:
		if m.initOK {
			m.setFatal(i, 4429, "second-init")
		} else {
			m.initOK = true
			m.ackOwed++
			m.label("C.init:first")
		}
	case kInitReject:
		m.rejectedInit = true
		m.label("C.init:rejected")
	case kPing:
		var w wireMsg
		_ = json.Unmarshal([]byte(e.Raw), &w)
		m.pings = append(m.pings, compactJSON(w.Payload))
		m.label("C.ping")
	case kPong:
		m.label("C.pong")
	case kSubQuery, kSubSub, kSubExecErr, kSubBadPayload, kSubGetFail, kSubHookReject:
		if !m.initOK {
			m.newInstance(e).reject = "before-init"
			m.setFatal(i, 4401, "subscribe-before-init")
			return
		}
		m.startOrDup(i, e)
	case kComplete:
		m.clientStop(s.id)
	case kUnknown:
		m.setFatal(i, 4400, "unknown-type")
	case kBadJSON:
		m.setFatal(i, 4400, "malformed-json")
	case kBadShape:
		m.optClose[4400] = true
		m.label("C.bad-shape")
	case kEmpty:
		m.optClose[4400] = true
		m.label("C.empty")
	default:
		m.setFatal(i, 4400, "unknown-type")
	}
}

func (m *machine) clientGWS(i int, e traceEv) {
	s := e.Sym
	switch s.kind {
	case kInit, kInitPayload:
		m.initOK = true
		m.ackOwed++
		m.label("C.init")
	case kInitReject:
		m.rejectedInit = true
		m.connErrOwed++
		m.abandonAll()
		m.label("C.init:rejected")
	case kSubQuery, kSubSub, kSubExecErr, kSubBadPayload, kSubGetFail, kSubHookReject:
		m.startOrDup(i, e)
	case kComplete:
		m.clientStop(s.id)
	case kTerminate:
		m.abandonAll()
		m.label("C.terminate")
	case kUnknown, kPing, kPong:
		m.connErrOwed++
		m.label("C.unknown-type")
	case kBadJSON:
		m.bareErrOwed++
		m.label("C.malformed-json")
	case kBadShape:
		m.label("C.bad-shape")
	case kEmpty:
		m.label("C.empty")
	}
}

// abandonAll: the client (connection_terminate) or a refused init ended every operation; the
// server may drop them silently and their ids are free again.
func (m *machine) abandonAll() {
	for _, st := range m.ids {
		for _, in := range st.open {
			in.clientDone = true
		}
	}
}

// ---------------------------------------------------------------------------------------------
// server side

func (m *machine) server(i int, e traceEv) {
	if m.closed {
		m.violate(i, "write-after-close", "a message was written after the close frame", map[string]string{"late": "message"})
		return
	}
	var w wireMsg
	if err := json.Unmarshal([]byte(e.Raw), &w); err != nil {
		if m.res.opts.wire {
			// a well-delimited text frame whose payload is not a message: another writer's bytes landed inside it
			m.violate(i, "frame-stream.corrupt", fmt.Sprintf("text frame whose payload is no JSON message (%v); first bytes %x", err, truncate(e.Raw, 24)),
				map[string]string{"after_close_frame": fmt.Sprint(m.closed), "close_frame_inside_message": fmt.Sprint(strings.HasPrefix(e.Raw, "\x88"))})
			return
		}
		m.violate(i, "server-msg.invalid", "the server wrote bytes that are not a JSON message: "+err.Error(), nil)
		return
	}
	m.serverMsgs[w.Type]++
	if m.p == protoTWS {
		switch w.Type {
		case "connection_ack":
			m.ack(i)
		case "pong":
			pl := compactJSON(w.Payload)
			for k, p := range m.pings {
				if p == pl {
					m.pings = append(m.pings[:k:k], m.pings[k+1:]...)
					m.label("S.pong:answer")
					return
				}
			}
			if pl == heartbeatPayload && m.initOK {
				m.heartbeats++
				m.label("S.pong:heartbeat")
				return
			}
			m.violate(i, "pong.unsolicited", "pong that answers no ping and is not a keep-alive after init: "+e.Raw, nil)
		case "ping":
			m.label("S.ping")
		case "next":
			m.opMsg(i, "next", w, e.Raw)
		case "error":
			m.opMsg(i, "error", w, e.Raw)
		case "complete":
			m.opMsg(i, "complete", w, e.Raw)
		default:
			m.violate(i, "server-msg.type", "message type the protocol does not give to the server: "+e.Raw, map[string]string{"type": w.Type})
		}
		return
	}
	switch w.Type {
	case "connection_ack":
		m.ack(i)
	case "ka":
		if !m.initOK {
			m.violate(i, "ka.before-init", "keep-alive before any connection_init", nil)
			return
		}
		m.heartbeats++
		m.label("S.ka")
	case "connection_error":
		if m.connErrOwed > 0 {
			m.connErrOwed--
			m.label("S.connection_error:answer")
			return
		}
		m.violate(i, "connection_error.unsolicited", "connection_error that answers no client message: "+e.Raw, nil)
	case "data":
		m.opMsg(i, "next", w, e.Raw)
	case "error":
		if w.ID == "" {
			if m.bareErrOwed > 0 {
				m.bareErrOwed--
				m.label("S.error:malformed-answer")
				return
			}
			m.violate(i, "error.unsolicited", "error without id that answers no malformed message: "+e.Raw, nil)
			return
		}
		m.opMsg(i, "error", w, e.Raw)
	case "complete":
		m.opMsg(i, "complete", w, e.Raw)
	default:
		m.violate(i, "server-msg.type", "message type the protocol does not give to the server: "+e.Raw, map[string]string{"type": w.Type})
	}
}

func (m *machine) ack(i int) {
	if m.ackOwed > 0 {
		m.ackOwed--
		m.acked = true
		m.label("S.connection_ack")
		return
	}
	m.violate(i, "ack.unsolicited", "connection_ack without an accepted connection_init to answer", map[string]string{"rejected_init": fmt.Sprint(m.rejectedInit)})
}

func optypeName(k symKind) string {
	switch k {
	case kSubQuery:
		return "query"
	case kSubSub:
		return "subscription"
	case kSubExecErr:
		return "invalid"
	case kSubHookReject:
		return "hook-rejected"
	}
	return "undecodable"
}

// opMsg handles next/data, error and complete for an id. typ is in transport-ws vocabulary.
func (m *machine) opMsg(i int, typ string, w wireMsg, raw string) {
	st := m.idst(w.ID)
	var in *instance
	tokened := false
	if typ == "next" {
		if mm := opTokRe.FindSubmatch(w.Payload); mm != nil {
			t, _ := strconv.Atoi(string(mm[1]))
			in, tokened = m.inst[t], true
		}
	} else if typ == "error" {
		if mm := errTokRe.FindSubmatch(w.Payload); mm != nil {
			t, _ := strconv.Atoi(string(mm[1]))
			in, tokened = m.inst[t], true
		}
	}
	if tokened {
		if in == nil {
			m.violate(i, "data.mismatch", "message carries data of no operation of this connection: "+raw, nil)
			return
		}
		if in.id != w.ID {
			m.violate(i, "wrong-id", fmt.Sprintf("output of the operation started with id %s was sent with id %s: %s", in.id, w.ID, raw), nil)
			return
		}
	} else {
		if m.p == protoGWS && typ == "error" && bytes.Contains(w.Payload, []byte("already exists")) {
			// the engine's refusal of a duplicate start; only legal while such a start is undecided
			if pd := m.pendingFor(w.ID); pd != nil {
				pd.pendingDup = false
				m.label("S.error:duplicate-start-refused")
				return
			}
			for _, hi := range m.inst {
				if hi.id == w.ID && hi.hookErrOwed {
					hi.hookErrOwed = false
					m.label("S.error:duplicate-start-refused(hook-rejected op)")
					return
				}
			}
			// no start of this id is in doubt: the engine refuses a start whose id the trace shows free
			cause := "other"
			if st.last != nil && !st.last.terminated && st.last.seen == 0 && st.prev != nil && st.prev.terminated {
				switch {
				case m.polledAfterError(w.ID):
					cause = "subscription-error-continues"
				case st.prev.kind == kSubHookReject:
					cause = "hook-rejected-id-not-released"
				case st.prev.refusedCause != "":
					cause = st.prev.refusedCause // the id is still held by whatever caused the previous refusal
				default:
					cause = "terminal-sent-id-not-released"
				}
			}
			m.violate(i, "refusal.unjustified", fmt.Sprintf("start for id %s refused as a duplicate although the id is free by the trace: %s", w.ID, raw), map[string]string{"cause": cause})
			if st.last != nil && !st.last.terminated && st.last.seen == 0 {
				// that start is dead now; the error stands as its terminal
				in = st.last
				in.terminated, in.termKind, in.refusedCause = true, "error", cause
				m.terminals++
				for k, o := range st.open {
					if o == in {
						st.open = append(st.open[:k:k], st.open[k+1:]...)
						break
					}
				}
			}
			return
		}
		in = m.attribute(st, typ, w, i)
	}
	if typ != "next" || !tokened {
		st.lastNext = nil
	}
	if typ == "error" && !tokened && st.strayErr > 0 && (in == nil || in.terminated) {
		st.strayErr--
		m.label("S.error:answer-to-undecodable-subscribe")
		return
	}
	if in == nil {
		// an id that no accepted subscribe ever used
		if typ == "complete" {
			m.toleratedUnstartedComplete++
			m.label("S.complete:never-started-id(tolerated)")
			return
		}
		m.violate(i, "unstarted-id-output", fmt.Sprintf("%s for id %q, which no accepted subscribe started: %s", typ, w.ID, raw), map[string]string{"late": typ, "reason": m.refusalReason(w.ID)})
		return
	}
	if in.pendingDup && in.blockersGone() {
		// output of an operation whose id was in use when its subscribe was taken: legal once every
		// instance in the way has had its terminal
		in.pendingDup = false
		m.started++
		m.label("C.subscribe:start-after-terminal-of-previous")
		m.accept(in)
	}
	if !in.accepted && in.hookErrOwed && typ == "error" && tokened {
		in.hookErrOwed = false
		m.label("S.error:hook-rejection-on-active-id")
		return
	}
	if !in.accepted {
		mt := map[string]string{"late": typ, "reason": in.reject}
		if in.reject == "duplicate-id" {
			mt["cause"] = m.dupCause(in.id, in.at)
		}
		m.violate(i, "unstarted-id-output", fmt.Sprintf("%s from the operation of step %d, whose subscribe had to be refused (%s): %s", typ, in.token, in.reject, raw), mt)
		return
	}
	if typ == "next" {
		if t, ok := m.res.ops[in.token]; ok {
			if in.seen >= len(t.Emitted) || compactJSON(w.Payload) != t.Emitted[in.seen] {
				m.violate(i, "data.mismatch", fmt.Sprintf("data message %d of the operation of step %d is not the item its executor produced: %s", in.seen+1, in.token, raw), nil)
			}
		}
		in.seen++
		if tokened {
			st.lastNext = in
		}
	}
	if in.terminated {
		cause := "other"
		switch {
		case (in.kind == kSubSub && in.termKind == "error" && in.termTokened) || m.polledAfterError(in.id):
			// the engine reports the failure of a subscription and keeps polling it: for the engine the
			// operation is still active (it answers a complete, refuses the id, emits again)
			cause = "subscription-error-continues"
			if typ == "complete" && !tokened && st.lateStops > 0 {
				st.lateStops--
			}
		case in.refusedCause != "":
			cause = in.refusedCause
		case typ == "complete" && !tokened && st.lateStops > 0:
			st.lateStops--
			cause = "stop-terminated" // the client completed an id whose terminal had been sent; the server answered again
		case in.clientDone && in.termAfterClientDone:
			cause = "stop-active" // the client completed an active id; the server answered AND the engine went on emitting
		}
		m.violate(i, "after-terminal", fmt.Sprintf("%s for id %s after the server's terminal %s for it (operation of step %d, %s; cause class %s)", typ, w.ID, in.termKind, in.token, optypeName(in.kind), cause),
			map[string]string{"late": typ, "terminal": in.termKind, "cause": cause, "optype": optypeName(in.kind)})
		return
	}
	switch typ {
	case "next":
		m.label("S.next")
	case "error", "complete":
		in.terminated = true
		in.termKind = typ
		in.termTokened = tokened && typ == "error"
		in.termAfterClientDone = in.clientDone
		m.terminals++
		for k, o := range st.open {
			if o == in {
				st.open = append(st.open[:k:k], st.open[k+1:]...)
				break
			}
		}
		if in.clientDone {
			m.label("S." + typ + ":terminal-after-client-stop")
		} else {
			m.label("S." + typ + ":terminal")
		}
	}
}

// attribute picks the instance a message without an operation token (complete, or an error whose
// text names no operation) belongs to, when the id has been used by several instances. The engine
// sends a result and its complete back to back; "context canceled" is what the scripted executors
// return when (and only when) their context was cancelled, i.e. after the client gave the
// operation up. Instances the client gave up may be dropped silently, so they are the last choice
// for a message that can belong to a live one.
func (m *machine) attribute(st *idState, typ string, w wireMsg, at int) *instance {
	if typ == "complete" && st.lastNext != nil {
		return st.lastNext
	}
	var oldestDone, newestLive *instance
	for _, o := range st.open {
		if o.clientDone {
			if oldestDone == nil {
				oldestDone = o
			}
		} else {
			newestLive = o
		}
	}
	cancelErr := typ == "error" && bytes.Contains(w.Payload, []byte("context canceled"))
	switch {
	case cancelErr:
		if oldestDone != nil {
			return oldestDone
		}
		// a live instance whose executor had seen its context cancelled by then (the engine cancels by
		// id, and an id can have passed to a newer operation)
		for k := len(st.open) - 1; k >= 0; k-- {
			if t, ok := m.res.ops[st.open[k].token]; ok && t.Cancelled && t.CancelAt <= at {
				return st.open[k]
			}
		}
		for k := len(st.all) - 1; k >= 0; k-- {
			if st.all[k].clientDone {
				return st.all[k] // terminated already: a message after its terminal
			}
		}
		for k := len(st.all) - 1; k >= 0; k-- {
			if o := st.all[k]; o.terminated && o.termKind == "error" && o.kind == kSubSub {
				return o // a subscription that reported an error and may still be polled
			}
		}
	case typ == "complete":
		// no data before it: the answer to a client complete/stop
		if st.lastStop != nil && !st.lastStop.terminated {
			return st.lastStop
		}
		if oldestDone != nil {
			return oldestDone
		}
	}
	if newestLive != nil {
		return newestLive
	}
	if oldestDone != nil {
		return oldestDone
	}
	return st.last
}

// dupCause classifies a duplicate id that the server let through: "stale-goroutine-released-id"
// when an earlier instance of the id that the client had given up was still running while a newer
// instance was started, and ended before the duplicate arrived — the engine's goroutines release
// ids by name when they end, so the old one releases the registration of the new one.
func (m *machine) dupCause(id string, at int) string {
	st := m.ids[id]
	if st == nil {
		return "other"
	}
	for k, a := range st.all {
		t, ok := m.res.ops[a.token]
		if !ok || !a.clientDone || !t.Put {
			continue
		}
		for _, b := range st.all[k+1:] {
			if b.at < t.PutAt && t.PutAt <= at {
				return "stale-goroutine-released-id"
			}
		}
	}
	return "other"
}

// polledAfterError: has the id been used by a subscription whose failure the server reported with an
// error message? The engine keeps such a subscription registered and polls it again (known defect
// class "subscription-error-continues"): for the engine the id is still taken, whatever instances
// the trace shows after it.
func (m *machine) polledAfterError(id string) bool {
	st := m.ids[id]
	if st == nil {
		return false
	}
	for _, o := range st.all {
		if o.kind == kSubSub && o.terminated && o.termKind == "error" && o.termTokened {
			return true
		}
	}
	return false
}

func (m *machine) refusalReason(id string) string {
	for _, in := range m.inst {
		if in.id == id && !in.accepted {
			return in.reject
		}
	}
	return "never-subscribed"
}

var closeIDRe = regexp.MustCompile(`Subscriber for (\S+) already exists`)

func (m *machine) serverClose(i int, e traceEv) {
	code := e.Code
	if e.Kind == 'D' {
		code = 0
	}
	if m.closed {
		m.violate(i, "write-after-close", "a second close after the close frame", map[string]string{"late": "close"})
		return
	}
	m.closed = true
	m.closeCodes = append(m.closeCodes, code)
	if m.p == protoGWS {
		m.label(fmt.Sprintf("S.close-%d", code))
		return
	}
	timeoutOK := code == 4408 && !m.acked
	pendingDup := false
	for _, in := range m.pending {
		if in.pendingDup {
			pendingDup = true
		}
	}
	switch {
	case code == 4409 && pendingDup && m.fatal == nil:
		m.label("S.close-4409:duplicate-id")
	case m.fatal != nil && code == m.fatal.code:
		m.label(fmt.Sprintf("S.close-%d:%s", code, m.fatal.trigger))
	case timeoutOK:
		m.label("S.close-4408:no-init-yet")
	case m.fatal != nil:
		m.violate(i, "close.wrong-code", fmt.Sprintf("closed with %d (%s), the protocol prescribes %d for %s", code, e.Reason, m.fatal.code, m.fatal.trigger),
			map[string]string{"expected": fmt.Sprint(m.fatal.code), "got": fmt.Sprint(code), "trigger": m.fatal.trigger})
	case m.optClose[code]:
		m.label(fmt.Sprintf("S.close-%d:optional", code))
	case m.rejectedInit && code >= 4400 && code < 4500:
		m.label(fmt.Sprintf("S.close-%d:rejected-init", code))
	case code == 4408 && m.res.ackLate:
		m.inconclusive = "timer: connection_ack was written later than half the init time-out after the start; the 4408 race is not judged"
	default:
		cause := "other"
		if code == 4409 {
			if mm := closeIDRe.FindStringSubmatch(e.Reason); mm != nil {
				if st := m.ids[mm[1]]; st != nil && st.prev != nil && st.prev.terminated {
					// the subscribe that was refused is st.last; the id was last used by st.prev
					switch {
					case m.polledAfterError(mm[1]):
						cause = "subscription-error-continues"
					case st.prev.kind == kSubHookReject:
						cause = "hook-rejected-id-not-released"
					default:
						cause = "terminal-sent-id-not-released"
					}
				}
			}
		}
		m.violate(i, "close.unjustified", fmt.Sprintf("closed with %d (%s) although no client message called for it", code, e.Reason),
			map[string]string{"code": fmt.Sprint(code), "cause": cause})
	}
	m.fatal = nil
}

// ---------------------------------------------------------------------------------------------
// end of trace

func (m *machine) finish() {
	res := m.res
	if len(m.findings) > 0 {
		return
	}
	if res.settled && !m.closed {
		m.resolvePending()
	}
	// ground truth against the machine: which executors ran although their subscribe had to be refused
	for tok, t := range res.ops {
		in := m.inst[tok]
		if in != nil && in.pendingDup {
			continue // undecided (the run ended or the connection closed before the server's reaction was complete)
		}
		if t.Entered && (in == nil || !in.accepted) {
			reason := "never-taken"
			if in != nil {
				reason = in.reject
			}
			mt := map[string]string{"reason": reason}
			if reason == "duplicate-id" && in != nil {
				mt["cause"] = m.dupCause(in.id, in.at)
			}
			m.violate(len(res.trace), "op-started-illegally", fmt.Sprintf("the executor of step %d (id %s) ran although the protocol refuses that subscribe (%s)", tok, t.ID, reason), mt)
		}
	}
	if !res.settled {
		return // the run did not wait for quiescence: only safety was judged
	}
	end := len(res.trace)
	if m.closed {
		return
	}
	if m.fatal != nil {
		m.violate(end, "close.missing", fmt.Sprintf("the connection stayed open after %s (message %d of the trace); the protocol prescribes close code %d", m.fatal.trigger, m.fatal.at, m.fatal.code),
			map[string]string{"expected": fmt.Sprint(m.fatal.code), "trigger": m.fatal.trigger})
		return
	}
	if res.opts.waitClose && !m.initOK && m.p == protoTWS {
		m.violate(end, "close.missing", "no connection_init was sent, the init time-out elapsed several hundred times over, and the connection is still open; the protocol prescribes close code 4408",
			map[string]string{"expected": "4408", "trigger": "init-timeout"})
		return
	}
	if m.ackOwed > 0 {
		m.violate(end, "ack.missing", "an accepted connection_init was never answered with connection_ack (the handler is idle, the connection open)", nil)
	}
	if len(m.pings) > 0 {
		m.violate(end, "pong.missing", fmt.Sprintf("%d ping(s) were never answered although the handler is idle and the connection open — the connection stopped answering", len(m.pings)), nil)
	}
	for tok, in := range m.inst {
		t, ok := res.opsSettled[tok]
		if !ok || !in.accepted || in.clientDone {
			continue
		}
		ended := false
		switch in.kind {
		case kSubQuery, kSubExecErr:
			ended = t.SelfEnds > 0 && t.Put
		case kSubSub:
			ended = t.SelfErrs > 0
		case kSubHookReject:
			ended = true // the hook refuses it while the subscribe is being handled
		}
		if ended && !in.terminated {
			m.violate(end, "terminal.missing", fmt.Sprintf("the operation of step %d (id %s, %s) ended in the engine but the server sent no terminal message", tok, in.id, optypeName(in.kind)),
				map[string]string{"optype": optypeName(in.kind)})
		}
		// data the executor produced after the server had reported the operation's failure is not owed
		if in.seen < len(t.Emitted) && !t.Cancelled && !(in.terminated && in.termKind == "error") {
			m.violate(end, "data.lost", fmt.Sprintf("the executor of step %d (id %s) produced %d data item(s), the client received %d", tok, in.id, len(t.Emitted), in.seen),
				map[string]string{"optype": optypeName(in.kind)})
		}
	}
}

func truncate(s string, n int) string {
	if len(s) > n {
		return s[:n]
	}
	return s
}

func findingsSummary(fs []finding) string {
	var parts []string
	for _, f := range fs {
		parts = append(parts, f.kind)
	}
	return strings.Join(parts, ",")
}
