package c17

import (
	"fmt"
	"sort"
	"strconv"
	"strings"

	gast "github.com/vektah/gqlparser/v2/ast"
	"github.com/vektah/gqlparser/v2/parser"
)

// Canonical description of a type system: exactly the things the statement lists (types, fields,
// arguments, default values, enum values, interfaces, possible types, directives, deprecations),
// plus specifiedBy URLs and the root operation types. Everything order-insensitive.

type inputD struct {
	Name       string
	Type       string  // "[[SCALAR:Int!]]!"
	Default    *string // canonical value text
	DefaultRaw string  // as found (for the witness)
	Deprecated bool
	Reason     *string
}

type fieldD struct {
	Name       string
	Type       string
	Args       map[string]*inputD
	Deprecated bool
	Reason     *string
}

type enumD struct {
	Name       string
	Deprecated bool
	Reason     *string
}

type typeD struct {
	Name        string
	Kind        string
	Fields      map[string]*fieldD
	Interfaces  []string
	Possible    []string
	Enum        map[string]*enumD
	Inputs      map[string]*inputD
	SpecifiedBy *string
}

type dirD struct {
	Name       string
	Locations  []string
	Repeatable bool
	Args       map[string]*inputD
}

type schemaD struct {
	Query, Mutation, Subscription string
	Types                         map[string]*typeD
	Directives                    map[string]*dirD
	// Problems: duplicates and malformed parts found while reading (introspection side only)
	Problems []diff
}

// diff is one difference between the expected and the observed description.
type diff struct {
	Aspect   string // oracle name suffix: type.missing, arg.default, deprecation, interfaces, …
	Where    string // kind of element: object, interface, field, argument, directive-argument, input-field, enum-value, …
	Path     string
	Expected string
	Observed string
	Facts    map[string]string
}

var builtinScalarNames = map[string]bool{"Int": true, "Float": true, "String": true, "Boolean": true, "ID": true}

// directives a spec-conforming (or near-spec) server may define by itself
var builtinDirectiveNames = map[string]bool{"include": true, "skip": true, "deprecated": true, "specifiedBy": true, "oneOf": true, "defer": true, "stream": true}

const defaultDeprecationReason = "No longer supported"

func sp(s string) *string { return &s }

func pstr(p *string) string {
	if p == nil {
		return "<null>"
	}
	return strconv.Quote(*p)
}

// ---------------------------------------------------------------------------------------------
// values

// canonValue renders a gqlparser value canonically: strings by denoted value, floats by numeric
// value, object fields sorted.
func canonValue(v *gast.Value) string {
	if v == nil {
		return "<none>"
	}
	switch v.Kind {
	case gast.NullValue:
		return "null"
	case gast.IntValue:
		return "int:" + strings.TrimPrefix(v.Raw, "+")
	case gast.FloatValue:
		f, err := strconv.ParseFloat(v.Raw, 64)
		if err != nil {
			return "float:" + v.Raw
		}
		return "float:" + strconv.FormatFloat(f, 'g', -1, 64)
	case gast.StringValue, gast.BlockValue:
		return "string:" + strconv.Quote(v.Raw)
	case gast.BooleanValue:
		return "bool:" + v.Raw
	case gast.EnumValue:
		return "enum:" + v.Raw
	case gast.Variable:
		return "var:" + v.Raw
	case gast.ListValue:
		parts := make([]string, len(v.Children))
		for i, c := range v.Children {
			parts[i] = canonValue(c.Value)
		}
		return "[" + strings.Join(parts, ",") + "]"
	case gast.ObjectValue:
		parts := make([]string, len(v.Children))
		for i, c := range v.Children {
			parts[i] = c.Name + ":" + canonValue(c.Value)
		}
		sort.Strings(parts)
		return "{" + strings.Join(parts, ",") + "}"
	}
	return "?" + v.Raw
}

// parseValueText parses a GraphQL const value with gqlparser (independent of the repository).
func parseValueText(text string) (v *gast.Value, err error) {
	defer func() {
		if r := recover(); r != nil {
			err = fmt.Errorf("gqlparser panicked: %v", r)
		}
	}()
	doc, perr := parser.ParseQuery(&gast.Source{Name: "value", Input: "{f(a: " + text + "\n)}"})
	if perr != nil {
		return nil, perr
	}
	if len(doc.Operations) != 1 || len(doc.Operations[0].SelectionSet) != 1 {
		return nil, fmt.Errorf("not a single value")
	}
	f, ok := doc.Operations[0].SelectionSet[0].(*gast.Field)
	if !ok || len(f.Arguments) != 1 {
		return nil, fmt.Errorf("not a single value")
	}
	return f.Arguments[0].Value, nil
}

// ---------------------------------------------------------------------------------------------
// from gqlparser

func gqlTypeString(s *gast.Schema, t *gast.Type) string {
	var out string
	if t.Elem != nil {
		out = "[" + gqlTypeString(s, t.Elem) + "]"
	} else {
		kind := "?"
		if d := s.Types[t.NamedType]; d != nil {
			kind = string(d.Kind)
		}
		out = kind + ":" + t.NamedType
	}
	if t.NonNull {
		out += "!"
	}
	return out
}

func gqlDeprecation(dl gast.DirectiveList) (bool, *string) {
	d := dl.ForName("deprecated")
	if d == nil {
		return false, nil
	}
	a := d.Arguments.ForName("reason")
	if a == nil || a.Value == nil {
		return true, sp(defaultDeprecationReason)
	}
	if a.Value.Kind == gast.NullValue {
		return true, nil
	}
	return true, sp(a.Value.Raw)
}

func gqlInputs(s *gast.Schema, args gast.ArgumentDefinitionList) map[string]*inputD {
	out := map[string]*inputD{}
	for _, a := range args {
		in := &inputD{Name: a.Name, Type: gqlTypeString(s, a.Type)}
		if a.DefaultValue != nil {
			in.Default = sp(canonValue(a.DefaultValue))
			in.DefaultRaw = a.DefaultValue.String()
		}
		in.Deprecated, in.Reason = gqlDeprecation(a.Directives)
		out[a.Name] = in
	}
	return out
}

func fromGql(s *gast.Schema) *schemaD {
	d := &schemaD{Types: map[string]*typeD{}, Directives: map[string]*dirD{}}
	if s.Query != nil {
		d.Query = s.Query.Name
	}
	if s.Mutation != nil {
		d.Mutation = s.Mutation.Name
	}
	if s.Subscription != nil {
		d.Subscription = s.Subscription.Name
	}
	for name, def := range s.Types {
		if strings.HasPrefix(name, "__") {
			continue
		}
		t := &typeD{Name: name, Kind: string(def.Kind)}
		switch def.Kind {
		case gast.Object, gast.Interface:
			t.Fields = map[string]*fieldD{}
			for _, f := range def.Fields {
				if strings.HasPrefix(f.Name, "__") {
					continue
				}
				fd := &fieldD{Name: f.Name, Type: gqlTypeString(s, f.Type), Args: gqlInputs(s, f.Arguments)}
				fd.Deprecated, fd.Reason = gqlDeprecation(f.Directives)
				t.Fields[f.Name] = fd
			}
			t.Interfaces = append([]string{}, def.Interfaces...)
			sort.Strings(t.Interfaces)
			if def.Kind == gast.Interface {
				t.Possible = []string{}
				for on, od := range s.Types {
					if od.Kind != gast.Object {
						continue
					}
					for _, i := range od.Interfaces {
						if i == name {
							t.Possible = append(t.Possible, on)
							break
						}
					}
				}
				sort.Strings(t.Possible)
			}
		case gast.Union:
			t.Possible = append([]string{}, def.Types...)
			sort.Strings(t.Possible)
		case gast.Enum:
			t.Enum = map[string]*enumD{}
			for _, v := range def.EnumValues {
				e := &enumD{Name: v.Name}
				e.Deprecated, e.Reason = gqlDeprecation(v.Directives)
				t.Enum[v.Name] = e
			}
		case gast.InputObject:
			t.Inputs = map[string]*inputD{}
			for _, f := range def.Fields {
				in := &inputD{Name: f.Name, Type: gqlTypeString(s, f.Type)}
				if f.DefaultValue != nil {
					in.Default = sp(canonValue(f.DefaultValue))
					in.DefaultRaw = f.DefaultValue.String()
				}
				in.Deprecated, in.Reason = gqlDeprecation(f.Directives)
				t.Inputs[f.Name] = in
			}
		case gast.Scalar:
			if sb := def.Directives.ForName("specifiedBy"); sb != nil {
				if a := sb.Arguments.ForName("url"); a != nil && a.Value != nil {
					t.SpecifiedBy = sp(a.Value.Raw)
				}
			}
		}
		d.Types[name] = t
	}
	for name, dd := range s.Directives {
		x := &dirD{Name: name, Repeatable: dd.IsRepeatable, Args: gqlInputs(s, dd.Arguments)}
		for _, l := range dd.Locations {
			x.Locations = append(x.Locations, string(l))
		}
		sort.Strings(x.Locations)
		d.Directives[name] = x
	}
	return d
}

// ---------------------------------------------------------------------------------------------
// from an introspection result (generic JSON of the __schema object)

type introReader struct {
	d *schemaD
}

func (ir *introReader) problem(aspect, where, path, msg string) {
	ir.d.Problems = append(ir.d.Problems, diff{Aspect: aspect, Where: where, Path: path, Expected: "well-formed, duplicate-free introspection", Observed: msg})
}

func asMap(v any) map[string]any { m, _ := v.(map[string]any); return m }
func asList(v any) []any         { l, _ := v.([]any); return l }
func asString(v any) (string, bool) {
	s, ok := v.(string)
	return s, ok
}

func (ir *introReader) typeRef(v any, path string, depth int) string {
	m := asMap(v)
	if m == nil {
		ir.problem("shape", "type-reference", path, fmt.Sprintf("type reference is %T", v))
		return "?"
	}
	if depth > 16 {
		return "…"
	}
	kind, _ := asString(m["kind"])
	switch kind {
	case "LIST":
		if m["ofType"] == nil {
			ir.problem("shape", "type-reference", path, "LIST without ofType")
			return "[?]"
		}
		return "[" + ir.typeRef(m["ofType"], path, depth+1) + "]"
	case "NON_NULL":
		if m["ofType"] == nil {
			ir.problem("shape", "type-reference", path, "NON_NULL without ofType")
			return "?!"
		}
		return ir.typeRef(m["ofType"], path, depth+1) + "!"
	}
	name, ok := asString(m["name"])
	if !ok {
		ir.problem("shape", "type-reference", path, "named type reference without a name (kind "+kind+")")
		name = "?"
	}
	if m["ofType"] != nil {
		ir.problem("shape", "type-reference", path, "named type reference with ofType")
	}
	return kind + ":" + name
}

func (ir *introReader) deprecation(m map[string]any, path, where string) (bool, *string) {
	dep, _ := m["isDeprecated"].(bool)
	var reason *string
	if s, ok := asString(m["deprecationReason"]); ok {
		reason = sp(s)
	}
	return dep, reason
}

func (ir *introReader) inputs(v any, path, where string) map[string]*inputD {
	out := map[string]*inputD{}
	for _, x := range asList(v) {
		m := asMap(x)
		if m == nil {
			ir.problem("shape", where, path, "input value is not an object")
			continue
		}
		name, _ := asString(m["name"])
		p := path + "." + name
		if out[name] != nil {
			ir.problem("duplicate", where, p, "listed twice")
			continue
		}
		in := &inputD{Name: name, Type: ir.typeRef(m["type"], p, 0)}
		if dv, ok := asString(m["defaultValue"]); ok {
			in.DefaultRaw = dv
			val, err := parseValueText(dv)
			if err != nil {
				in.Default = sp("unparsable: " + err.Error())
			} else {
				in.Default = sp(canonValue(val))
			}
		} else if m["defaultValue"] != nil {
			ir.problem("shape", where, p, "defaultValue is not a string")
		}
		in.Deprecated, in.Reason = ir.deprecation(m, p, where)
		out[name] = in
	}
	return out
}

func (ir *introReader) names(v any, path, where string) []string {
	var out []string
	seen := map[string]bool{}
	for _, x := range asList(v) {
		m := asMap(x)
		n, _ := asString(m["name"])
		if seen[n] {
			ir.problem("duplicate", where, path+"."+n, "listed twice")
			continue
		}
		seen[n] = true
		kind, _ := asString(m["kind"])
		out = append(out, kind+":"+n)
	}
	sort.Strings(out)
	return out
}

func rootName(v any) string {
	m := asMap(v)
	if m == nil {
		return ""
	}
	n, _ := asString(m["name"])
	return n
}

// fromIntro reads the value of __schema. Lists that are null where an empty list would list the
// same (nothing) are read as empty.
func fromIntro(schema map[string]any) *schemaD {
	d := &schemaD{Types: map[string]*typeD{}, Directives: map[string]*dirD{}}
	ir := &introReader{d: d}
	d.Query = rootName(schema["queryType"])
	d.Mutation = rootName(schema["mutationType"])
	d.Subscription = rootName(schema["subscriptionType"])
	for _, x := range asList(schema["types"]) {
		m := asMap(x)
		if m == nil {
			ir.problem("shape", "type", "types", "type is not an object")
			continue
		}
		name, _ := asString(m["name"])
		if strings.HasPrefix(name, "__") {
			continue
		}
		if d.Types[name] != nil {
			ir.problem("duplicate", "type", name, "listed twice")
			continue
		}
		kind, _ := asString(m["kind"])
		t := &typeD{Name: name, Kind: kind}
		switch kind {
		case "OBJECT", "INTERFACE":
			t.Fields = map[string]*fieldD{}
			for _, fx := range asList(m["fields"]) {
				fm := asMap(fx)
				if fm == nil {
					ir.problem("shape", "field", name, "field is not an object")
					continue
				}
				fn, _ := asString(fm["name"])
				p := name + "." + fn
				if t.Fields[fn] != nil {
					ir.problem("duplicate", "field", p, "listed twice")
					continue
				}
				f := &fieldD{Name: fn, Type: ir.typeRef(fm["type"], p, 0), Args: ir.inputs(fm["args"], p, "argument")}
				f.Deprecated, f.Reason = ir.deprecation(fm, p, "field")
				t.Fields[fn] = f
			}
			t.Interfaces = stripKinds(ir, ir.names(m["interfaces"], name+".interfaces", "interface-of-"+strings.ToLower(kind)), "INTERFACE", name+".interfaces")
			if kind == "INTERFACE" {
				t.Possible = stripKinds(ir, ir.names(m["possibleTypes"], name+".possibleTypes", "possible-type"), "OBJECT", name+".possibleTypes")
			}
		case "UNION":
			t.Possible = stripKinds(ir, ir.names(m["possibleTypes"], name+".possibleTypes", "possible-type"), "OBJECT", name+".possibleTypes")
		case "ENUM":
			t.Enum = map[string]*enumD{}
			for _, ex := range asList(m["enumValues"]) {
				em := asMap(ex)
				en, _ := asString(em["name"])
				if t.Enum[en] != nil {
					ir.problem("duplicate", "enum-value", name+"."+en, "listed twice")
					continue
				}
				e := &enumD{Name: en}
				e.Deprecated, e.Reason = ir.deprecation(em, name+"."+en, "enum-value")
				t.Enum[en] = e
			}
		case "INPUT_OBJECT":
			t.Inputs = ir.inputs(m["inputFields"], name, "input-field")
		case "SCALAR":
			if u, ok := asString(m["specifiedByURL"]); ok {
				t.SpecifiedBy = sp(u)
			}
		default:
			ir.problem("shape", "type", name, "unknown kind "+strconv.Quote(kind))
		}
		// members that make no sense for the kind must list nothing
		for _, k := range []struct{ key, kinds string }{{"fields", "OBJECT INTERFACE"}, {"interfaces", "OBJECT INTERFACE"}, {"possibleTypes", "INTERFACE UNION"}, {"enumValues", "ENUM"}, {"inputFields", "INPUT_OBJECT"}} {
			if !strings.Contains(k.kinds, kind) && len(asList(m[k.key])) > 0 {
				ir.problem("invented-member", strings.ToLower(kind), name+"."+k.key, fmt.Sprintf("%d entries for a %s", len(asList(m[k.key])), kind))
			}
		}
		d.Types[name] = t
	}
	for _, x := range asList(schema["directives"]) {
		m := asMap(x)
		if m == nil {
			ir.problem("shape", "directive", "directives", "directive is not an object")
			continue
		}
		name, _ := asString(m["name"])
		if d.Directives[name] != nil {
			ir.problem("duplicate", "directive", "@"+name, "listed twice")
			continue
		}
		dd := &dirD{Name: name, Args: ir.inputs(m["args"], "@"+name, "directive-argument")}
		dd.Repeatable, _ = m["isRepeatable"].(bool)
		seen := map[string]bool{}
		for _, l := range asList(m["locations"]) {
			ls, _ := asString(l)
			if seen[ls] {
				ir.problem("duplicate", "directive-location", "@"+name+"."+ls, "listed twice")
				continue
			}
			seen[ls] = true
			dd.Locations = append(dd.Locations, ls)
		}
		sort.Strings(dd.Locations)
		d.Directives[name] = dd
	}
	return d
}

// stripKinds checks the kind each entry of a name list carries and returns the bare names.
func stripKinds(ir *introReader, kindNames []string, want, path string) []string {
	out := make([]string, 0, len(kindNames))
	for _, kn := range kindNames {
		i := strings.Index(kn, ":")
		k, n := kn[:i], kn[i+1:]
		if k != want && k != "" {
			ir.problem("entry-kind", "type-reference", path+"."+n, "listed with kind "+k+", expected "+want)
		}
		out = append(out, n)
	}
	sort.Strings(out)
	return out
}

// ---------------------------------------------------------------------------------------------
// comparison

type differ struct {
	out []diff
}

func (df *differ) add(aspect, where, path, exp, obs string, facts map[string]string) {
	df.out = append(df.out, diff{Aspect: aspect, Where: where, Path: path, Expected: exp, Observed: obs, Facts: facts})
}

func sortedKeys[T any](m map[string]T) []string {
	out := make([]string, 0, len(m))
	for k := range m {
		out = append(out, k)
	}
	sort.Strings(out)
	return out
}

func reasonFacts(exp, obs *string) map[string]string {
	f := map[string]string{}
	if exp != nil {
		f["reason_needs_escape"] = fmt.Sprint(strings.ContainsAny(*exp, "\"\\\n\t"))
		f["reason_is_default"] = fmt.Sprint(*exp == defaultDeprecationReason)
		f["reason_multiline"] = fmt.Sprint(strings.Contains(*exp, "\n"))
	}
	f["expected_null"] = fmt.Sprint(exp == nil)
	f["observed_null"] = fmt.Sprint(obs == nil)
	if exp != nil && obs != nil {
		f["observed_is_source_spelling"] = fmt.Sprint(sourceSpelling(*exp) == *obs)
		f["observed_is_undedented_block_string"] = fmt.Sprint(*exp != *obs && dedentLines(*obs) == dedentLines(*exp))
	}
	return f
}

// dedentLines strips the leading whitespace of every line and blank edge lines.
func dedentLines(s string) string {
	lines := strings.Split(s, "\n")
	for i := range lines {
		lines[i] = strings.TrimLeft(lines[i], " \t")
	}
	return strings.TrimSpace(strings.Join(lines, "\n"))
}

func (df *differ) deprecation(where, path string, eDep bool, eReason *string, oDep bool, oReason *string) {
	if eDep != oDep {
		df.add("deprecation", where, path, fmt.Sprintf("isDeprecated=%v reason=%s", eDep, pstr(eReason)), fmt.Sprintf("isDeprecated=%v reason=%s", oDep, pstr(oReason)), map[string]string{"expected_deprecated": fmt.Sprint(eDep)})
		return
	}
	if (eReason == nil) != (oReason == nil) || (eReason != nil && *eReason != *oReason) {
		df.add("deprecation-reason", where, path, pstr(eReason), pstr(oReason), reasonFacts(eReason, oReason))
	}
}

func (df *differ) inputs(where, path string, exp, obs map[string]*inputD) {
	for _, n := range sortedKeys(exp) {
		e, o := exp[n], obs[n]
		p := path + "." + n
		if o == nil {
			df.add("arg.missing", where, p, e.Type, "<absent>", map[string]string{"expected_deprecated": fmt.Sprint(e.Deprecated)})
			continue
		}
		if e.Type != o.Type {
			df.add("arg.type", where, p, e.Type, o.Type, nil)
		}
		if (e.Default == nil) != (o.Default == nil) || (e.Default != nil && *e.Default != *o.Default) {
			facts := map[string]string{"expected_has_default": fmt.Sprint(e.Default != nil), "observed_has_default": fmt.Sprint(o.Default != nil)}
			if o.Default != nil {
				facts["observed_unparsable"] = fmt.Sprint(strings.HasPrefix(*o.Default, "unparsable"))
			}
			df.add("arg.default", where, p, pstr(e.Default)+" (spelled "+e.DefaultRaw+")", pstr(o.Default)+" (spelled "+o.DefaultRaw+")", facts)
		}
		df.deprecation(where, p, e.Deprecated, e.Reason, o.Deprecated, o.Reason)
	}
	for _, n := range sortedKeys(obs) {
		if exp[n] == nil {
			df.add("arg.invented", where, path+"."+n, "<absent>", obs[n].Type, nil)
		}
	}
}

func (df *differ) nameSets(aspect, where, path string, exp, obs []string) {
	e, o := strings.Join(exp, ","), strings.Join(obs, ",")
	if e != o {
		facts := map[string]string{"expected_empty": fmt.Sprint(len(exp) == 0), "observed_empty": fmt.Sprint(len(obs) == 0)}
		df.add(aspect, where, path, "["+e+"]", "["+o+"]", facts)
	}
}

type diffOpts struct {
	// referenced: built-in scalars the original schema refers to (they must be listed)
	referenced map[string]bool
}

func referencedBuiltins(s *gast.Schema) map[string]bool {
	out := map[string]bool{}
	note := func(t *gast.Type) {
		for t.Elem != nil {
			t = t.Elem
		}
		if builtinScalarNames[t.NamedType] {
			out[t.NamedType] = true
		}
	}
	for name, def := range s.Types {
		if strings.HasPrefix(name, "__") {
			continue
		}
		for _, f := range def.Fields {
			if strings.HasPrefix(f.Name, "__") {
				continue
			}
			note(f.Type)
			for _, a := range f.Arguments {
				note(a.Type)
			}
		}
	}
	for name, d := range s.Directives {
		if builtinDirectiveNames[name] {
			continue
		}
		for _, a := range d.Arguments {
			note(a.Type)
		}
	}
	return out
}

func diffSchemas(exp, obs *schemaD, o diffOpts) []diff {
	df := &differ{}
	df.out = append(df.out, obs.Problems...)
	if exp.Query != obs.Query {
		df.add("roots", "query", "queryType", exp.Query, obs.Query, nil)
	}
	if exp.Mutation != obs.Mutation {
		df.add("roots", "mutation", "mutationType", exp.Mutation, obs.Mutation, map[string]string{"expected_none": fmt.Sprint(exp.Mutation == ""), "observed_none": fmt.Sprint(obs.Mutation == "")})
	}
	if exp.Subscription != obs.Subscription {
		df.add("roots", "subscription", "subscriptionType", exp.Subscription, obs.Subscription, map[string]string{"expected_none": fmt.Sprint(exp.Subscription == ""), "observed_none": fmt.Sprint(obs.Subscription == "")})
	}
	for _, n := range sortedKeys(exp.Types) {
		e, ob := exp.Types[n], obs.Types[n]
		where := strings.ToLower(e.Kind)
		if ob == nil {
			if builtinScalarNames[n] && !o.referenced[n] {
				continue
			}
			df.add("type.missing", where, n, e.Kind, "<absent>", map[string]string{"builtin": fmt.Sprint(builtinScalarNames[n])})
			continue
		}
		if e.Kind != ob.Kind {
			df.add("type.kind", where, n, e.Kind, ob.Kind, nil)
			continue
		}
		for _, fn := range sortedKeys(e.Fields) {
			ef, of := e.Fields[fn], ob.Fields[fn]
			p := n + "." + fn
			if of == nil {
				df.add("field.missing", where+"-field", p, ef.Type, "<absent>", map[string]string{"expected_deprecated": fmt.Sprint(ef.Deprecated)})
				continue
			}
			if ef.Type != of.Type {
				df.add("field.type", where+"-field", p, ef.Type, of.Type, nil)
			}
			df.inputs("argument", p, ef.Args, of.Args)
			df.deprecation("field", p, ef.Deprecated, ef.Reason, of.Deprecated, of.Reason)
		}
		for _, fn := range sortedKeys(ob.Fields) {
			if e.Fields[fn] == nil {
				df.add("field.invented", where+"-field", n+"."+fn, "<absent>", ob.Fields[fn].Type, nil)
			}
		}
		if e.Kind == "OBJECT" || e.Kind == "INTERFACE" {
			df.nameSets("interfaces", where, n+".interfaces", e.Interfaces, ob.Interfaces)
		}
		if e.Kind == "INTERFACE" || e.Kind == "UNION" {
			df.nameSets("possibleTypes", where, n+".possibleTypes", e.Possible, ob.Possible)
		}
		for _, vn := range sortedKeys(e.Enum) {
			ev, ov := e.Enum[vn], ob.Enum[vn]
			if ov == nil {
				df.add("enumvalue.missing", "enum-value", n+"."+vn, vn, "<absent>", map[string]string{"expected_deprecated": fmt.Sprint(ev.Deprecated)})
				continue
			}
			df.deprecation("enum-value", n+"."+vn, ev.Deprecated, ev.Reason, ov.Deprecated, ov.Reason)
		}
		for _, vn := range sortedKeys(ob.Enum) {
			if e.Enum[vn] == nil {
				df.add("enumvalue.invented", "enum-value", n+"."+vn, "<absent>", vn, nil)
			}
		}
		if e.Kind == "INPUT_OBJECT" {
			df.inputs("input-field", n, e.Inputs, ob.Inputs)
		}
		if e.Kind == "SCALAR" {
			if (e.SpecifiedBy == nil) != (ob.SpecifiedBy == nil) || (e.SpecifiedBy != nil && *e.SpecifiedBy != *ob.SpecifiedBy) {
				facts := map[string]string{"expected_null": fmt.Sprint(e.SpecifiedBy == nil), "observed_null": fmt.Sprint(ob.SpecifiedBy == nil)}
				if e.SpecifiedBy != nil {
					facts["url_needs_escape"] = fmt.Sprint(strings.ContainsAny(*e.SpecifiedBy, "\"\\\n"))
					if ob.SpecifiedBy != nil {
						facts["observed_is_source_spelling"] = fmt.Sprint(sourceSpelling(*e.SpecifiedBy) == *ob.SpecifiedBy)
					}
				}
				df.add("specifiedBy", "scalar", n, pstr(e.SpecifiedBy), pstr(ob.SpecifiedBy), facts)
			}
		}
	}
	for _, n := range sortedKeys(obs.Types) {
		if exp.Types[n] == nil {
			df.add("type.invented", strings.ToLower(obs.Types[n].Kind), n, "<absent>", obs.Types[n].Kind, nil)
		}
	}
	for _, n := range sortedKeys(exp.Directives) {
		e, ob := exp.Directives[n], obs.Directives[n]
		builtin := builtinDirectiveNames[n]
		if ob == nil {
			if builtin {
				continue // the schema's own directives are demanded, built-in ones may or may not be listed
			}
			df.add("directive.missing", "directive", "@"+n, strings.Join(e.Locations, "|"), "<absent>", nil)
			continue
		}
		if n == "defer" || n == "stream" {
			continue // not (yet) a spec directive; its definition differs between implementations
		}
		facts := map[string]string{"builtin": fmt.Sprint(builtin)}
		if strings.Join(e.Locations, "|") != strings.Join(ob.Locations, "|") {
			df.add("directive.locations", "directive", "@"+n, strings.Join(e.Locations, "|"), strings.Join(ob.Locations, "|"), facts)
		}
		if e.Repeatable != ob.Repeatable {
			df.add("directive.repeatable", "directive", "@"+n, fmt.Sprint(e.Repeatable), fmt.Sprint(ob.Repeatable), facts)
		}
		df.inputs("directive-argument", "@"+n, e.Args, ob.Args)
	}
	for _, n := range sortedKeys(obs.Directives) {
		if exp.Directives[n] == nil && !builtinDirectiveNames[n] {
			df.add("directive.invented", "directive", "@"+n, "<absent>", strings.Join(obs.Directives[n].Locations, "|"), nil)
		}
	}
	return df.out
}
