// Package c17: introspection describes exactly the configured schema — the generated
// introspection data, the engine's answers to __schema/__type/__typename queries, and the schema
// document converted back from the introspection result.
package c17

import (
	"bytes"
	"encoding/json"
	"fmt"
	"regexp"
	"sort"
	"strconv"
	"strings"

	"github.com/vektah/gqlparser/v2"
	gast "github.com/vektah/gqlparser/v2/ast"
	"github.com/vektah/gqlparser/v2/parser"
	"github.com/vektah/gqlparser/v2/validator"
	"github.com/vektah/gqlparser/v2/validator/rules"

	"github.com/wundergraph/graphql-go-tools/execution/graphql"
	"github.com/wundergraph/graphql-go-tools/v2/pkg/astprinter"
	"github.com/wundergraph/graphql-go-tools/v2/pkg/introspection"
	"github.com/wundergraph/graphql-go-tools/v2/pkg/operationreport"

	"verifharness/internal/fw"
	"verifharness/internal/gen"
	"verifharness/internal/ref"
)

// queryRules: the spec's validation rules. gqlparser's MaxIntrospectionDepth (a denial-of-service
// guard of graphql-js, not a validity rule) is left out.
var queryRules = func() *rules.Rules {
	r := rules.NewDefaultRules()
	r.RemoveRule("MaxIntrospectionDepth")
	return r
}()

type c17 struct{ fw.Base }

func init() { fw.Register(c17{}) }

func (c17) ID() string { return "C17" }
func (c17) NumCases(tier string) int {
	if tier == fw.Thorough {
		return 10000
	}
	return 640
}
func (c17) Rule() string {
	return "case = one generated full-feature schema (gen.GenSchema Full profile, enriched: list nesting up to 4 with mixed non-null, defaults of every input kind incl. input objects / nested lists / enums / null / block strings / unicode escapes on arguments, directive arguments and input fields, interfaces implementing interfaces, unions, @oneOf, repeatable directives, custom directives with arguments defined on all locations and applied on every type-system location (before and after @deprecated), deprecations with default / quoted / block-string / escape-needing reasons on fields, enum values, arguments, directive arguments and input fields, @specifiedBy URLs with escapes, descriptions, custom root names, keyword-spelled names; every 9th case an ordinary object type named Mutation next to an explicit schema definition without mutation; every 7th case part of the members moved into `extend` blocks and Schema.Normalize() applied). Three observation points per case: (1) introspection.Generator output vs the canonical description built from gqlparser's ast.Schema of the same SDL; (2) the real ExecutionEngine's answers to the two standard introspection queries (graphql-js full + legacy), one __type lookup per named type (built-in scalars, unknown names, wrong-case names included) and PRNG-generated partial __schema / __type / __typename queries (aliases, includeDeprecated absent/true/false/variable, ofType chains, expansion of referenced types, inline/named fragments, @skip/@include, merged duplicate fields, variables for names, multi-operation documents) vs a reference introspection resolver over the gqlparser schema run by the reference executor; (3) JsonConverter(introspection JSON, from the generator and from the engine's answer to the standard query) -> ast.Document -> astprinter -> gqlparser -> canonical description vs the original's. Default values are compared as parsed GraphQL values, lists order-insensitively. Non-trivial = all three points were compared and the schema has >=1 default value, >=1 deprecation and >=1 custom directive; distinct by hash of (SDL, queries)."
}
func (c17) Assumptions() []string {
	return []string{
		"gqlparser v2.5.30 loads the generated SDL correctly (independent reference loader); the reference executor implements ExecuteSelectionSet / CoerceArgumentValues",
		"expected set = the schema's own definitions + spec built-ins: built-in scalars must be listed when the schema refers to them; built-in directives (include, skip, deprecated, specifiedBy, oneOf, defer) may be listed, their content is compared with gqlparser's prelude except @defer (not in the spec; taken as base.graphql defines it)",
		"introspection's own types (__Schema, __Type, …) are not demanded in __schema.types / __type(name:) (the repository omits them; observed and counted, not judged)",
		"descriptions are not in the statement's list: they are dropped before comparing (differences counted); \"\" vs null likewise",
		"a list that lists nothing may be null or [] (interfaces/possibleTypes/inputFields of kinds that have none): not 'invented'",
		"applied directives other than @deprecated / @specifiedBy are not transported by introspection and not demanded after the round trip; @oneOf (isOneOf) is not in the statement's list and not judged",
		"queries are valid for both the repository's base schema and gqlparser's prelude (no isOneOf selection)",
		"schemas with type extensions are configured through Schema.Normalize() (the documented way to merge extensions) before the engine is built",
		"no user data source is configured: introspection fields are served by the data source NewExecutionEngine adds",
		"float defaults are not spelled with a signed exponent directly after the integer part (1e+3): the repository's lexer rejects that spelling (a parser defect outside this property)",
	}
}
func (c17) RequiredCounters(string) []string {
	return []string{"data_compared", "roundtrip_compared", "roundtrip_via_engine_compared", "engine_answers_compared", "engine_standard_query_compared", "type_lookups", "unknown_type_lookups", "defaults_expected", "deprecations_expected", "queries_with_alias", "queries_with_includeDeprecated_variable", "queries_with_reference_expansion", "queries_plain"}
}

// ---------------------------------------------------------------------------------------------

type caseState struct {
	res    *fw.Result
	sdl    string
	seen   map[string]bool
	nViol  int
	detail func(extra map[string]any) map[string]any
}

// violate emits at most one violation per (kind, match) per case (the first witness).
func (cs *caseState) violate(kind, msg string, match map[string]string, extra map[string]any) {
	mk, _ := json.Marshal(match)
	key := kind + " " + string(mk)
	cs.res.Count("diff_"+kind, 1)
	if cs.seen[key] {
		return
	}
	cs.seen[key] = true
	if cs.nViol >= 24 {
		cs.res.Count("violations_suppressed_over_cap", 1)
		return
	}
	cs.nViol++
	cs.res.Violate(kind, msg, match, cs.detail(extra))
}

func (cs *caseState) reportDiffs(point string, diffs []diff, extra map[string]any) {
	for _, d := range diffs {
		match := map[string]string{"where": d.Where}
		for k, v := range d.Facts {
			match[k] = v
		}
		ex := map[string]any{"path": d.Path, "expected": d.Expected, "observed": d.Observed}
		for k, v := range extra {
			ex[k] = v
		}
		cs.violate(point+"."+d.Aspect, fmt.Sprintf("%s: %s %s: expected %s, observed %s", point, d.Where, d.Path, d.Expected, d.Observed), match, ex)
	}
}

func countExpected(d *schemaD, res *fw.Result) {
	var defaults, deprecations, args, fields, enumValues, inputFields int64
	in := func(m map[string]*inputD) {
		for _, a := range m {
			if a.Default != nil {
				defaults++
			}
			if a.Deprecated {
				deprecations++
			}
		}
	}
	for _, t := range d.Types {
		for _, f := range t.Fields {
			fields++
			args += int64(len(f.Args))
			in(f.Args)
			if f.Deprecated {
				deprecations++
			}
		}
		for _, v := range t.Enum {
			enumValues++
			if v.Deprecated {
				deprecations++
			}
		}
		inputFields += int64(len(t.Inputs))
		in(t.Inputs)
	}
	for _, dd := range d.Directives {
		args += int64(len(dd.Args))
		in(dd.Args)
	}
	res.Count("types_expected", int64(len(d.Types)))
	res.Count("fields_expected", fields)
	res.Count("arguments_expected", args)
	res.Count("enum_values_expected", enumValues)
	res.Count("input_fields_expected", inputFields)
	res.Count("directives_expected", int64(len(d.Directives)))
	res.Count("defaults_expected", defaults)
	res.Count("deprecations_expected", deprecations)
}

// reloadPrinted loads SDL printed by the repository with gqlparser. The print contains the
// built-in scalars and directives (they are part of the introspection result); gqlparser brings
// its own, so those definitions are dropped before validation.
func reloadPrinted(printed string) (*gast.Schema, string, error) {
	sd, err := parser.ParseSchema(&gast.Source{Name: "roundtrip", Input: printed})
	if err != nil {
		return nil, "parse", err
	}
	var defs gast.DefinitionList
	for _, d := range sd.Definitions {
		if builtinScalarNames[d.Name] {
			continue
		}
		defs = append(defs, d)
	}
	sd.Definitions = defs
	var dirs gast.DirectiveDefinitionList
	for _, d := range sd.Directives {
		if builtinDirectiveNames[d.Name] {
			continue
		}
		dirs = append(dirs, d)
	}
	sd.Directives = dirs
	all, err := parser.ParseSchemas(validator.Prelude)
	if err != nil {
		return nil, "prelude", err
	}
	all.Merge(sd)
	s, verr := validator.ValidateSchemaDocument(all)
	if verr != nil {
		return nil, "validate", verr
	}
	return s, "", nil
}

func generateData(doc *graphql.Schema) (*introspection.Data, error) {
	var (
		data   introspection.Data
		report operationreport.Report
	)
	introspection.NewGenerator().Generate(doc.Document(), &report, &data)
	if report.HasErrors() {
		return nil, report
	}
	return &data, nil
}

// roundTrip converts an introspection JSON ({"__schema": …}) back and describes the result.
func (cs *caseState) roundTrip(source string, introJSON []byte, exp *schemaD, opts diffOpts) {
	res := cs.res
	conv := introspection.JsonConverter{}
	doc, err := conv.GraphQLDocument(bytes.NewReader(introJSON))
	if err != nil {
		cs.violate("roundtrip.convert-error", "JsonConverter refuses the introspection result ("+source+"): "+err.Error(), map[string]string{"source": source}, map[string]any{"source": source})
		return
	}
	var out bytes.Buffer
	if err := astprinter.PrintIndent(doc, []byte("  "), &out); err != nil {
		cs.violate("roundtrip.print-error", "printing the converted document fails: "+err.Error(), map[string]string{"source": source}, nil)
		return
	}
	printed := out.String()
	back, stage, err := reloadPrinted(printed)
	if err != nil {
		match := map[string]string{"stage": stage, "error_class": reloadErrorClass(err.Error())}
		if m := reErrLine.FindStringSubmatch(err.Error()); m != nil {
			ln, _ := strconv.Atoi(m[1])
			lines := strings.Split(printed, "\n")
			if ln >= 1 && ln <= len(lines) {
				line := lines[ln-1]
				match["line_has_deprecation_reason"] = fmt.Sprint(strings.Contains(line, "@deprecated(reason:"))
				match["line_has_default_value"] = fmt.Sprint(strings.Contains(strings.SplitN(line, "@deprecated", 2)[0], " = "))
				match["line_has_backslash"] = fmt.Sprint(strings.Contains(line, "\\"))
			}
		}
		cs.violate("roundtrip.reload", "the converted schema document does not load ("+stage+"): "+err.Error(), match, map[string]any{"printed": printed, "source": source})
		return
	}
	if source == "generator" {
		res.Count("roundtrip_compared", 1)
	} else {
		res.Count("roundtrip_via_engine_compared", 1)
	}
	diffs := diffSchemas(exp, fromGql(back), opts)
	if len(diffs) > 0 {
		cs.reportDiffs("roundtrip", diffs, map[string]any{"source": source, "printed": printed})
	} else {
		res.Count("roundtrip_equivalent", 1)
	}
}

var reErrLine = regexp.MustCompile(`roundtrip:(\d+):\d+`)

func reloadErrorClass(msg string) string {
	switch {
	case strings.Contains(msg, "Undefined type"):
		return "undefined-type"
	case strings.Contains(msg, "must define one or more"):
		return "empty-definition"
	case strings.Contains(msg, "Unexpected") || strings.Contains(msg, "Expected"):
		return "syntax"
	}
	return "other"
}

func (p c17) Run(c *fw.Ctx, idx int) fw.Result {
	res := fw.Result{}
	r := c.Rng(idx, "schema")
	rs := genRich(r, idx)
	sdl := rs.SDL()
	cs := &caseState{res: &res, sdl: sdl, seen: map[string]bool{}}
	cs.detail = func(extra map[string]any) map[string]any {
		m := map[string]any{"sdl": sdl}
		for k, v := range extra {
			m[k] = v
		}
		return m
	}
	fw.SetContext(map[string]any{"sdl": sdl})
	for _, f := range rs.featureList() {
		res.Observe("schema_features", f)
		res.Count("schema_feature_"+f, 1)
	}

	gs, err := loadReference(sdl)
	if err != nil {
		res.Broken("schema self-check (gqlparser rejects the generated schema): "+err.Error(), map[string]any{"sdl": sdl})
		return res
	}
	repo, err := graphql.NewSchemaFromString(sdl)
	if err != nil {
		res.Broken("schema self-check (the repository rejects the generated schema): "+err.Error(), map[string]any{"sdl": sdl})
		return res
	}
	if len(rs.Ext) > 0 {
		nres, nerr := repo.Normalize()
		if nerr != nil || !nres.Successful {
			res.Inconclusive = fmt.Sprintf("schema-normalize: Schema.Normalize() failed on a schema with extensions: %v %v", nerr, nres.Errors)
			res.Count("inconclusive_schema_normalize", 1)
			return res
		}
		res.Count("schemas_with_extensions_normalized", 1)
	}
	exp := fromGql(gs)
	opts := diffOpts{referenced: referencedBuiltins(gs)}
	countExpected(exp, &res)
	res.Count("schemas", 1)

	// ---- (1) generator output
	data, err := generateData(repo)
	if err != nil {
		cs.violate("data.generate-error", "introspection.Generator reports an error for a valid schema: "+err.Error(), nil, nil)
		return res
	}
	dataJSON, err := json.Marshal(data)
	if err != nil {
		cs.violate("data.marshal-error", "introspection.Data does not marshal: "+err.Error(), nil, nil)
		return res
	}
	var generic map[string]any
	if err := json.Unmarshal(dataJSON, &generic); err != nil || asMap(generic["__schema"]) == nil {
		cs.violate("data.shape", "introspection.Data JSON has no __schema object", nil, nil)
		return res
	}
	obs := fromIntro(asMap(generic["__schema"]))
	res.Count("data_compared", 1)
	if diffs := diffSchemas(exp, obs, opts); len(diffs) > 0 {
		cs.reportDiffs("data", diffs, nil)
	} else {
		res.Count("data_exact", 1)
	}

	// ---- (3) round trip from the generator's data
	cs.roundTrip("generator", dataJSON, exp, opts)

	// ---- (2) engine answers
	rig, err := newEngineRig(repo)
	if err != nil {
		cs.violate("engine.construct-error", "NewExecutionEngine fails for a valid schema: "+err.Error(), nil, nil)
		return res
	}
	defer rig.close()

	var queryTexts []string
	run := func(kind string, q genQuery, judged bool) (engineAnswer, bool) {
		queryTexts = append(queryTexts, q.Text)
		qdetail := map[string]any{"query": q.Text, "operationName": q.OpName, "variables": string(varsJSON(q.Variables)), "query_kind": kind}
		fw.SetContext(cs.detail(qdetail))
		// reference answer
		qd, gerrs := gqlparser.LoadQueryWithRules(gs, q.Text, queryRules)
		if gerrs != nil {
			res.Broken("query self-check (gqlparser rejects a generated introspection query): "+gerrs.Error(), cs.detail(qdetail))
			return engineAnswer{}, false
		}
		var op *gast.OperationDefinition
		if q.OpName != "" {
			op = qd.Operations.ForName(q.OpName)
		} else if len(qd.Operations) > 0 {
			op = qd.Operations[0]
		}
		if op == nil {
			res.Broken("query self-check: operation not found", cs.detail(qdetail))
			return engineAnswer{}, false
		}
		coercer := ref.Coercer{Schema: gs}
		vars := map[string]any{}
		for k, v := range q.Variables {
			vars[k] = v
		}
		cv, cerr := coercer.CoerceVariableValues(op, vars)
		if cerr != nil {
			res.Broken("query self-check: variables not coercible: "+cerr.Error(), cs.detail(qdetail))
			return engineAnswer{}, false
		}
		root := gs.Query.Name
		if op.Operation == gast.Mutation && gs.Mutation != nil {
			root = gs.Mutation.Name
		}
		ex := &ref.Executor{Schema: gs, Resolver: newIntroResolver(gs), Vars: cv}
		expData := ex.ExecuteOperation(op, &ref.Obj{Type: root, ID: "root"})
		if len(ex.Errors) > 0 {
			res.Broken(fmt.Sprintf("reference introspection produced errors: %v", ex.Errors), cs.detail(qdetail))
			return engineAnswer{}, false
		}
		shape := positions(qd, op)

		res.Count("engine_queries", 1)
		res.Count("engine_queries_"+kind, 1)
		for _, f := range q.Features {
			res.Observe("query_features", f)
		}
		has := func(f string) bool {
			for _, x := range q.Features {
				if x == f {
					return true
				}
			}
			return false
		}
		if has("alias") {
			res.Count("queries_with_alias", 1)
		}
		if has("includeDeprecated-variable") {
			res.Count("queries_with_includeDeprecated_variable", 1)
		}
		if has("reference-expansion") {
			res.Count("queries_with_reference_expansion", 1)
		}
		if !has("alias") && !has("includeDeprecated-variable") && !has("reference-expansion") {
			res.Count("queries_plain", 1)
		}

		a := rig.exec(q)
		if !judged {
			return a, true
		}
		if a.Err != nil {
			rootTypenameFirst := false
			if len(op.SelectionSet) > 0 {
				if f, ok := op.SelectionSet[0].(*gast.Field); ok && f.Name == "__typename" {
					rootTypenameFirst = true
				}
			}
			cs.violate("engine.refused", "the engine refuses a valid introspection query: "+a.Err.Error(), map[string]string{"error": truncate(a.Err.Error(), 120), "first_root_field_is_typename": fmt.Sprint(rootTypenameFirst), "query_type_has_default_name": fmt.Sprint(gs.Query.Name == "Query"), "operation": string(op.Operation)}, qdetail)
			return a, true
		}
		st := &normStats{}
		ne := normalize(any(map[string]any(expData)), "", shape, st)
		var no any
		if a.HasData {
			no = normalize(a.Data, "", shape, &normStats{})
		}
		res.Count("engine_answers_compared", 1)
		res.Count("engine_positions_compared", int64(st.positions))
		res.Count("engine_default_values_compared", int64(st.defaultsCanon))
		res.Count("descriptions_dropped", int64(st.descriptionsDropped))
		res.Count("null_or_empty_lists_expected", int64(st.emptyListAsNull))
		var jd []jdiff
		diffJSON(ne, no, true, a.HasData, "", &jd)
		if len(jd) == 0 && len(a.Errors) == 0 {
			res.Count("engine_answers_equal", 1)
			// descriptions: observed and counted, not judged (the statement does not list them)
			if st.descriptionsDropped > 0 {
				de := normalize(any(map[string]any(expData)), "", shape, &normStats{keepDescriptions: true})
				do := normalize(a.Data, "", shape, &normStats{keepDescriptions: true})
				var dd []jdiff
				diffJSON(de, do, true, true, "", &dd)
				if len(dd) > 0 {
					res.Count("answers_differing_only_in_descriptions_observed", 1)
					res.Observe("description_difference_samples", truncate("expected "+dd[0].Expected+" observed "+dd[0].Observed, 160))
				} else {
					res.Count("answers_with_equal_descriptions_observed", 1)
				}
			}
			return a, true
		}
		qdetail["response"] = truncate(a.Raw, 3000)
		qdetail["expected_data"] = truncate(ref.Canon(map[string]any(expData)), 3000)
		// positions the engine reported a non-null violation for: a null found above such a position
		// is attributed to it
		var errPaths []string
		for _, e := range a.Errors {
			kp := ""
			for _, seg := range asList(asMap(e)["path"]) {
				if s, ok := seg.(string); ok {
					kp += "/" + s
				}
			}
			if kp != "" {
				errPaths = append(errPaths, kp)
			}
		}
		for _, d := range jd {
			pos := d.KeyPath
			bubbled := false
			if d.ObsClass == "null-or-empty" || d.ObsClass == "missing-item" || d.ObsClass == "absent" {
				for _, ep := range errPaths {
					if strings.HasPrefix(ep, d.KeyPath+"/") && shape[ep] != nil {
						pos, bubbled = ep, true
						break
					}
				}
			}
			info := shape[pos]
			match := map[string]string{"expected": d.ExpClass, "observed": d.ObsClass, "null_bubbled_up": fmt.Sprint(bubbled), "operation_declares_variables": fmt.Sprint(len(op.VariableDefinitions) > 0)}
			if bubbled {
				match["expected"], match["observed"] = "non-null", "null-or-empty"
			}
			if d.ExpClass == "string" && d.ObsClass == "string" {
				var es, os string
				if json.Unmarshal([]byte(d.Expected), &es) == nil && json.Unmarshal([]byte(d.Observed), &os) == nil {
					match["observed_is_source_spelling"] = fmt.Sprint(sourceSpelling(es) == os && es != os)
					match["observed_is_undedented_block_string"] = fmt.Sprint(es != os && dedentLines(os) == dedentLines(es))
				}
			}
			if info != nil {
				match["field"] = info.Parent + "." + info.Field
				match["aliased"] = fmt.Sprint(info.Aliased)
				match["root_aliased"] = fmt.Sprint(info.RootAliased)
				match["include_deprecated"] = info.IncDep
				match["reference_expansion"] = fmt.Sprint(info.RefExpansion)
				match["merged"] = fmt.Sprint(info.Merged)
				match["in_fragment"] = fmt.Sprint(info.InFragment)
				match["conditional"] = fmt.Sprint(info.Conditional)
			} else {
				match["field"] = "root"
			}
			ex := map[string]any{"position": d.KeyPath, "attributed_to": pos, "expected": d.Expected, "observed": d.Observed}
			for k, v := range qdetail {
				ex[k] = v
			}
			cs.violate("engine.answer", fmt.Sprintf("engine answer differs from reference introspection at %s (%s): expected %s, observed %s", d.KeyPath, match["field"], d.Expected, d.Observed), match, ex)
		}
		if len(jd) == 0 && len(a.Errors) > 0 {
			match := map[string]string{"field": "unknown"}
			if len(errPaths) > 0 && shape[errPaths[0]] != nil {
				info := shape[errPaths[0]]
				match = map[string]string{"field": info.Parent + "." + info.Field, "aliased": fmt.Sprint(info.Aliased), "root_aliased": fmt.Sprint(info.RootAliased), "include_deprecated": info.IncDep, "reference_expansion": fmt.Sprint(info.RefExpansion), "operation_declares_variables": fmt.Sprint(len(op.VariableDefinitions) > 0)}
			}
			cs.violate("engine.errors", "the engine reports errors for an introspection query whose data equals the reference: "+truncate(ref.Canon(a.Errors), 300), match, qdetail)
		}
		return a, true
	}

	// standard queries
	std, ok := run("standard", genQuery{Text: standardQuery, OpName: "IntrospectionQuery", Features: []string{"standard-query", "fragment-spread", "includeDeprecated-true", "type-reference"}}, true)
	if !ok {
		return res
	}
	res.Count("engine_standard_query_compared", 1)
	if _, ok := run("legacy", genQuery{Text: legacyQuery, Features: []string{"legacy-query", "fragment-spread", "type-reference"}}, true); !ok {
		return res
	}
	// round trip from the engine's answer to the standard query
	if std.Err == nil && std.HasData && asMap(std.Data) != nil && asMap(asMap(std.Data)["__schema"]) != nil {
		b, _ := json.Marshal(std.Data)
		cs.roundTrip("engine", b, exp, opts)
	} else {
		res.Count("roundtrip_via_engine_skipped", 1)
	}

	// one lookup per named type, with a feature-free selection for every other one
	var names []string
	for n := range exp.Types {
		names = append(names, n)
	}
	sort.Strings(names)
	qr := c.Rng(idx, "queries")
	for i, n := range names {
		o := randomOpts(qr)
		if i%2 == 0 {
			o.Aliases, o.RootAliases, o.RefExpansion, o.IncDepVars = false, false, false, false
		}
		if _, ok := run("type-lookup", genTypeQuery(qr, o, n), true); !ok {
			return res
		}
		res.Count("type_lookups", 1)
	}
	// unknown names → null
	unknown := []string{"Nope", "", strings.ToLower(names[qr.IntN(len(names))]), names[qr.IntN(len(names))] + " ", "[Int]", "Int!"}
	for _, n := range unknown {
		if exp.Types[n] != nil {
			continue
		}
		o := randomOpts(qr)
		o.Aliases, o.RefExpansion, o.IncDepVars = false, false, false
		if _, ok := run("unknown-type-lookup", genTypeQuery(qr, o, n), true); !ok {
			return res
		}
		res.Count("unknown_type_lookups", 1)
	}
	// introspection's own types: observed, not judged
	{
		q := genQuery{Text: `{ __type(name: "__Type") { name kind } }`}
		if a, ok := run("meta-type-lookup", q, false); ok && a.Err == nil {
			if m := asMap(a.Data); m != nil && m["__type"] == nil {
				res.Count("meta_type_lookup_null_observed", 1)
			} else {
				res.Count("meta_type_lookup_answered_observed", 1)
			}
		}
	}
	// generated partial queries
	nq := 8
	for k := 0; k < nq; k++ {
		o := randomOpts(qr)
		var q genQuery
		kind := ""
		switch k % 4 {
		case 0:
			q, kind = genSchemaQuery(qr, o), "partial-schema"
		case 1:
			q, kind = genMixedQuery(qr, o, names), "mixed"
		case 2:
			q, kind = genTypeQuery(qr, o, names[qr.IntN(len(names))]), "partial-type"
		default:
			o.Aliases, o.RootAliases, o.RefExpansion, o.IncDepVars = false, false, false, false
			q, kind = genSchemaQuery(qr, o), "partial-schema-plain"
		}
		if _, ok := run(kind, q, true); !ok {
			return res
		}
	}
	// __typename alone, on query and (when there is one) mutation root
	if _, ok := run("typename", genQuery{Text: `{ __typename a: __typename }`, Features: []string{"__typename-root", "root-alias"}}, true); !ok {
		return res
	}
	if gs.Mutation != nil && idx%2 == 0 {
		if _, ok := run("typename-mutation", genQuery{Text: `mutation M { __typename }`, Features: []string{"__typename-root", "mutation-root"}}, true); !ok {
			return res
		}
	}

	res.Key = fw.HashKey(sdl, queryTexts)
	hasDefault, hasDep, hasDir := false, false, false
	for _, f := range rs.featureList() {
		hasDefault = hasDefault || strings.HasPrefix(f, "default-")
		hasDep = hasDep || strings.HasPrefix(f, "deprecated-")
	}
	for n := range exp.Directives {
		if !builtinDirectiveNames[n] {
			hasDir = true
		}
	}
	res.Nontrivial = hasDefault && hasDep && hasDir && res.Counters["data_compared"] > 0 && res.Counters["engine_answers_compared"] > 0
	res.Sample = map[string]any{"sdl": truncate(sdl, 1500), "features": rs.featureList(), "queries": len(queryTexts), "sample_query": queryTexts[len(queryTexts)-3]}
	return res
}

// sourceSpelling is the content of the canonical quoted spelling of a string (escapes left in).
func sourceSpelling(s string) string {
	q := gen.QuoteGraphQL(s)
	return q[1 : len(q)-1]
}

func truncate(s string, n int) string {
	if len(s) > n {
		return s[:n] + "…"
	}
	return s
}
