package c17

import (
	"fmt"
	"math/rand/v2"
	"sort"
	"strings"

	"verifharness/internal/gen"
)

// rich is a gen.Schema plus what gen.GenSchema does not produce: applied custom directives on
// every type-system location, deep type wrapping, defaults of every input kind with varied
// spellings, deprecation reasons / specifiedBy URLs with escapes, a "stray" Mutation type next to
// an explicit schema definition, and (optionally) type extensions.
type rich struct {
	S *gen.Schema
	// Applied: element key → applied directive texts. Keys: "schema", "type:T", "field:T.f",
	// "arg:T.f.a", "dirarg:d.a", "input:T.f", "enum:T.V".
	Applied map[string][]string
	// Before: element keys whose applied directives are rendered before @deprecated.
	Before map[string]bool
	// ReasonSpelling: deprecation reasons (by pointer identity) not spelled as a quoted string:
	// "block" (block string on one run), "block-indented" (indented block string on its own lines),
	// "null" (reason: null — deprecated without a reason).
	ReasonSpelling map[*string]string
	// Ext: type name → number of trailing members (fields / values / input fields / union members)
	// rendered in an `extend` block; ExtIfaces: interfaces moved into the extension.
	Ext       map[string]int
	ExtIfaces map[string][]string
	// ForceSchemaDef renders an explicit schema definition even when the root names are the defaults.
	ForceSchemaDef bool
	Features       map[string]bool
	nullReasons    int // how many `@deprecated(reason: null)` this schema may still get
}

var typeSystemLocations = []string{"SCHEMA", "SCALAR", "OBJECT", "FIELD_DEFINITION", "ARGUMENT_DEFINITION", "INTERFACE", "UNION", "ENUM", "ENUM_VALUE", "INPUT_OBJECT", "INPUT_FIELD_DEFINITION"}
var executableLocations = []string{"QUERY", "MUTATION", "SUBSCRIPTION", "FIELD", "FRAGMENT_DEFINITION", "FRAGMENT_SPREAD", "INLINE_FRAGMENT", "VARIABLE_DEFINITION"}

// reasons whose denoted value needs escapes when written as a quoted string
var reasonPool = []string{
	"use other", "No longer supported", `say "hi"`, `back\slash`, "line one\nline two", "tab\there", "unicode é中 😀", "use `newField`", "{}[]():,#", "x",
	// control characters that a quoted string can only carry as \uXXXX escapes (never spelled as block strings)
	"bell \a end", "del \x7f end", "vt \v ff \f bs \b", "nul-free \x01\x1f",
}

var urlPool = []string{"https://example.com/%s", "https://example.com/%s?a=b&c=d", `https://example.com/%s#"frag"`, `https://example.com/%s\spec`}

func (rs *rich) feature(f string) { rs.Features[f] = true }

type profileOpts struct {
	Extensions bool
	StrayRoot  bool
}

func genRich(r *rand.Rand, idx int) *rich {
	p := gen.SchemaProfile{
		Objects: 2 + r.IntN(4), Interfaces: r.IntN(4), Unions: r.IntN(3), Enums: 1 + r.IntN(2), Inputs: 1 + r.IntN(3), Scalars: r.IntN(3),
		MaxFields: 2 + r.IntN(4), MaxArgs: 2 + r.IntN(2), ListDepth: 2, Keywords: idx%5 == 0, Full: true, OneOf: r.IntN(2) == 0,
		Mutation: r.IntN(2) == 0, Subscription: idx%3 == 0, CustomRoots: idx%4 == 1,
	}
	s := gen.GenSchema(r, p)
	rs := &rich{S: s, Applied: map[string][]string{}, Before: map[string]bool{}, ReasonSpelling: map[*string]string{}, Ext: map[string]int{}, ExtIfaces: map[string][]string{}, Features: map[string]bool{}}
	if p.Keywords {
		rs.feature("keyword-names")
	}
	if p.CustomRoots {
		rs.feature("custom-roots")
	}
	if idx%16 == 5 {
		rs.nullReasons = 1
	}
	rs.addDirectives(r)
	rs.deepen(r)
	rs.regenDefaults(r)
	rs.deprecations(r)
	rs.specifiedBy(r)
	rs.apply(r)
	if idx%9 == 4 {
		rs.strayRoot(r)
	}
	if idx%7 == 3 {
		rs.extensions(r)
	}
	rs.observeFeatures()
	return rs
}

// ---------------------------------------------------------------------------------------------
// enrichment passes

func (rs *rich) inputTypeNames() []string {
	out := []string{"Int", "Float", "String", "Boolean", "ID"}
	for _, t := range rs.S.Types {
		if t.Kind == gen.Scalar || t.Kind == gen.Enum || t.Kind == gen.Input {
			out = append(out, t.Name)
		}
	}
	return out
}

func (rs *rich) randInputType(r *rand.Rand, cands []string) *gen.TypeRef {
	n := cands[r.IntN(len(cands))]
	t := gen.Named(n, r.IntN(3) == 0)
	for d := r.IntN(4); d > 0 && r.IntN(2) == 0; d-- {
		t = gen.ListOf(t, r.IntN(3) == 0)
	}
	return t
}

// addDirectives makes sure there are directive definitions covering every location, with
// arguments of every input kind, repeatable and not.
func (rs *rich) addDirectives(r *rand.Rand) {
	s := rs.S
	used := map[string]bool{}
	for _, d := range s.Directives {
		used[d.Name] = true
	}
	mk := func(name string, locs []string, nargs int, repeatable bool) {
		if used[name] {
			return
		}
		used[name] = true
		d := &gen.DirectiveDef{Name: name, Repeatable: repeatable, Locations: locs}
		if r.IntN(3) == 0 {
			d.Description = "directive " + name + "\nsecond line"
		}
		cands := rs.inputTypeNames()
		names := []string{"name", "level", "opts", "flags", "if", "reason", "type", "input"}
		r.Shuffle(len(names), func(a, b int) { names[a], names[b] = names[b], names[a] })
		for i := 0; i < nargs; i++ {
			a := &gen.Arg{Name: names[i], Type: rs.randInputType(r, cands)}
			if r.IntN(4) == 0 {
				a.Description = "argument " + a.Name
			}
			d.Args = append(d.Args, a)
		}
		s.Directives = append(s.Directives, d)
	}
	// one directive on every location, one on every type-system location, some small ones
	all := append(append([]string{}, executableLocations...), typeSystemLocations...)
	if r.IntN(2) == 0 {
		mk("everywhere", all, 1+r.IntN(3), r.IntN(2) == 0)
		rs.feature("directive-all-locations")
	}
	mk("meta", append([]string{}, typeSystemLocations...), r.IntN(3), r.IntN(2) == 0)
	if r.IntN(2) == 0 {
		perm := r.Perm(len(all))
		k := 1 + r.IntN(3)
		var locs []string
		for _, x := range perm[:k] {
			locs = append(locs, all[x])
		}
		mk("misc", locs, 1+r.IntN(2), r.IntN(2) == 0)
	}
	if r.IntN(3) == 0 {
		mk("noargs", []string{"FIELD_DEFINITION", "FIELD"}, 0, true)
	}
}

func rewrap(r *rand.Rand, t *gen.TypeRef, depth int) *gen.TypeRef {
	out := gen.Named(t.NamedType(), r.IntN(2) == 0)
	for d := 0; d < depth; d++ {
		out = gen.ListOf(out, r.IntN(2) == 0)
	}
	return out
}

// deepen gives some positions a list nesting of 3–4 ([[[T!]]!]!). Interface-induced object fields
// are left alone (they must stay covariant with the interface field).
func (rs *rich) deepen(r *rand.Rand) {
	s := rs.S
	induced := func(o *gen.TypeDef, f string) bool {
		for _, in := range o.Interfaces {
			if it := s.Type(in); it != nil && it.Field(f) != nil {
				return true
			}
		}
		return false
	}
	ifaceFieldUsed := map[string]bool{} // interface fields copied into implementers: keep
	for _, t := range s.Types {
		if t.Kind == gen.Interface {
			for _, f := range t.Fields {
				ifaceFieldUsed[f.Name] = true
			}
		}
	}
	for _, t := range s.Types {
		switch t.Kind {
		case gen.Object:
			for _, f := range t.Fields {
				if induced(t, f.Name) || ifaceFieldUsed[f.Name] {
					continue
				}
				if r.IntN(6) == 0 {
					f.Type = rewrap(r, f.Type, 3+r.IntN(2))
					rs.feature("deep-output-type")
				}
				for _, a := range f.Args {
					if r.IntN(6) == 0 {
						a.Type = rewrap(r, a.Type, 3)
						rs.feature("deep-argument-type")
					}
				}
			}
		case gen.Input:
			if t.OneOf {
				continue
			}
			for _, f := range t.InputFields {
				if r.IntN(6) == 0 {
					nt := rewrap(r, f.Type, 3)
					f.Type = nt
					rs.feature("deep-input-field-type")
				}
			}
		}
	}
	for _, d := range s.Directives {
		for _, a := range d.Args {
			if r.IntN(6) == 0 {
				a.Type = rewrap(r, a.Type, 3)
				rs.feature("deep-directive-argument-type")
			}
		}
	}
}

// regenDefaults drops every default and generates new ones for the (possibly changed) types, with
// the acyclicity rule of gen.GenSchema: an input field whose named type is an input object gets a
// default only when that object was declared earlier.
func (rs *rich) regenDefaults(r *rand.Rand) {
	s := rs.S
	var inputs []*gen.TypeDef
	for _, t := range s.Types {
		if t.Kind == gen.Input {
			inputs = append(inputs, t)
			for _, f := range t.InputFields {
				f.Default = nil
			}
		}
	}
	pos := map[string]int{}
	for i, t := range inputs {
		pos[t.Name] = i
	}
	for i, t := range inputs {
		if t.OneOf {
			continue
		}
		for _, f := range t.InputFields {
			nt := f.Type.NamedType()
			if s.KindOf(nt) == gen.Input && pos[nt] >= i {
				continue
			}
			if r.IntN(2) == 0 {
				f.Default = gen.GenValue(r, s, f.Type, 0, gen.ValueOpts{Const: true, NoSingleton: true, Shallow: true, Spellings: true})
				respell(r, f.Default)
			}
		}
	}
	arg := func(a *gen.Arg) {
		a.Default = nil
		if r.IntN(2) == 0 {
			a.Default = gen.GenValue(r, s, a.Type, 0, gen.ValueOpts{Const: true, NoSingleton: true, Spellings: true})
			respell(r, a.Default)
		}
	}
	for _, t := range s.Types {
		for _, f := range t.Fields {
			for _, a := range f.Args {
				arg(a)
			}
		}
	}
	// interface-induced fields share the *gen.Arg values' content by copy (gen copies the Field
	// struct, the Args slice is shared), so the defaults stay identical on both sides.
	for _, d := range s.Directives {
		for _, a := range d.Args {
			arg(a)
		}
	}
}

// respell picks other literal spellings for string leaves (block strings, unicode escapes).
func respell(r *rand.Rand, v *gen.Val) {
	switch v.Kind {
	case gen.VFloat:
		// the repository's lexer rejects a signed exponent directly after the integer part (1e+3,
		// 1e-3; 1.5e+3 is fine): not this property's subject, steered away from (see Assumptions)
		v.Spelling = strings.Replace(strings.Replace(v.Spelling, "e+", "e", 1), "E+", "E", 1)
	case gen.VString:
		if v.Spelling != "" {
			return
		}
		switch r.IntN(5) {
		case 0:
			if blockSafe(v.Str) {
				v.Spelling = `"""` + v.Str + `"""`
			}
		case 1:
			// \uXXXX escapes for non-ASCII BMP runes
			var sb strings.Builder
			sb.WriteByte('"')
			changed := false
			for _, c := range v.Str {
				switch {
				case c > 0x7f && c < 0xd800:
					fmt.Fprintf(&sb, `\u%04X`, c)
					changed = true
				case c == '"':
					sb.WriteString(`\"`)
				case c == '\\':
					sb.WriteString(`\\`)
				case c == '\n':
					sb.WriteString(`\n`)
				case c == '\t':
					sb.WriteString(`\t`)
				case c < 0x20:
					fmt.Fprintf(&sb, `\u%04x`, c)
				default:
					sb.WriteRune(c)
				}
			}
			sb.WriteByte('"')
			if changed {
				v.Spelling = sb.String()
			}
		}
	case gen.VList:
		for _, it := range v.Items {
			respell(r, it)
		}
	case gen.VObject:
		for _, f := range v.Fields {
			respell(r, f.Val)
		}
	}
}

// blockSafe: the string can be written between triple quotes on one line run without the block
// string algorithm changing it (no edge whitespace, no indentation, no quotes at the edges, no
// backslash-triple-quote).
func blockSafe(s string) bool {
	if s == "" || strings.Contains(s, `"""`) || strings.HasPrefix(s, `"`) || strings.HasSuffix(s, `"`) || strings.HasSuffix(s, `\`) || strings.Contains(s, "\r") {
		return false
	}
	for _, ln := range strings.Split(s, "\n") {
		if ln == "" || strings.TrimSpace(ln) != ln || strings.ContainsAny(ln, "\t") {
			return false
		}
	}
	for _, c := range s {
		if c < 0x20 && c != '\n' {
			return false
		}
	}
	return true
}

func (rs *rich) deprecations(r *rand.Rand) {
	s := rs.S
	pick := func(_ string, cur *string, allowed bool) *string {
		if !allowed {
			return nil
		}
		if cur == nil && r.IntN(5) != 0 {
			return nil
		}
		if r.IntN(4) == 0 {
			e := ""
			return &e // @deprecated without a reason
		}
		x := reasonPool[r.IntN(len(reasonPool))]
		px := &x
		switch {
		case rs.nullReasons > 0 && r.IntN(6) == 0:
			rs.nullReasons--
			rs.ReasonSpelling[px] = "null"
			rs.feature("deprecation-reason-null")
		case blockSafe(x) && r.IntN(3) == 0:
			rs.ReasonSpelling[px] = "block"
			if r.IntN(2) == 0 {
				rs.ReasonSpelling[px] = "block-indented"
			}
			rs.feature("deprecation-reason-block-string")
		}
		return px
	}
	argOK := func(a *gen.Arg) bool { return a.Default != nil || !a.Type.NonNull }
	// interface-induced object fields share their Args with the interface field; deprecating an
	// argument there deprecates it on both, which is fine.
	seenArg := map[*gen.Arg]bool{}
	for _, t := range s.Types {
		for _, f := range t.Fields {
			f.Deprecated = pick("field:"+t.Name+"."+f.Name, f.Deprecated, true)
			for _, a := range f.Args {
				if seenArg[a] {
					continue
				}
				seenArg[a] = true
				a.Deprecated = pick("arg:"+f.Name+"."+a.Name, a.Deprecated, argOK(a))
			}
		}
		for i := range t.EnumValues {
			if i == 0 {
				continue
			}
			t.EnumValues[i].Deprecated = pick("enum:"+t.Name+"."+t.EnumValues[i].Name, t.EnumValues[i].Deprecated, true)
		}
		for _, f := range t.InputFields {
			f.Deprecated = pick("input:"+t.Name+"."+f.Name, f.Deprecated, !t.OneOf && argOK(f))
		}
	}
	for _, d := range s.Directives {
		for _, a := range d.Args {
			a.Deprecated = pick("dirarg:"+d.Name+"."+a.Name, a.Deprecated, argOK(a))
		}
	}
}

func (rs *rich) specifiedBy(r *rand.Rand) {
	for _, t := range rs.S.Types {
		if t.Kind == gen.Scalar && r.IntN(2) == 0 {
			t.SpecifiedBy = fmt.Sprintf(urlPool[r.IntN(len(urlPool))], t.Name)
		}
	}
}

// apply puts applications of the custom directives on the elements their locations allow.
func (rs *rich) apply(r *rand.Rand) {
	s := rs.S
	byLoc := map[string][]*gen.DirectiveDef{}
	for _, d := range s.Directives {
		for _, l := range d.Locations {
			byLoc[l] = append(byLoc[l], d)
		}
	}
	app := func(d *gen.DirectiveDef) string {
		var parts []string
		for _, a := range d.Args {
			required := a.Type.NonNull && a.Default == nil
			if !required && r.IntN(2) == 0 {
				continue
			}
			parts = append(parts, a.Name+": "+gen.ConstValue(r, s, a.Type, 0).Literal())
		}
		if len(parts) == 0 {
			return "@" + d.Name
		}
		return "@" + d.Name + "(" + strings.Join(parts, ", ") + ")"
	}
	// a directive must not be used inside a type its own arguments (transitively) refer to
	reach := map[string]map[string]bool{}
	for _, d := range s.Directives {
		set := map[string]bool{}
		var visit func(n string)
		visit = func(n string) {
			if set[n] {
				return
			}
			set[n] = true
			if t := s.Type(n); t != nil && t.Kind == gen.Input {
				for _, f := range t.InputFields {
					visit(f.Type.NamedType())
				}
			}
		}
		for _, a := range d.Args {
			visit(a.Type.NamedType())
		}
		reach[d.Name] = set
	}
	at := func(key, loc string) {
		ds := byLoc[loc]
		if len(ds) == 0 || r.IntN(4) != 0 {
			return
		}
		d := ds[r.IntN(len(ds))]
		if i := strings.IndexAny(key, ":"); i >= 0 {
			owner := key[i+1:]
			if j := strings.Index(owner, "."); j >= 0 {
				owner = owner[:j]
			}
			if reach[d.Name][owner] {
				return
			}
		}
		rs.Applied[key] = append(rs.Applied[key], app(d))
		if d.Repeatable && r.IntN(2) == 0 {
			rs.Applied[key] = append(rs.Applied[key], app(d))
		}
		if r.IntN(2) == 0 {
			rs.Before[key] = true
		}
		rs.feature("applied-directive-" + loc)
	}
	at("schema", "SCHEMA")
	for _, t := range s.Types {
		switch t.Kind {
		case gen.Scalar:
			at("type:"+t.Name, "SCALAR")
		case gen.Enum:
			at("type:"+t.Name, "ENUM")
			for _, v := range t.EnumValues {
				at("enum:"+t.Name+"."+v.Name, "ENUM_VALUE")
			}
		case gen.Input:
			at("type:"+t.Name, "INPUT_OBJECT")
			for _, f := range t.InputFields {
				at("input:"+t.Name+"."+f.Name, "INPUT_FIELD_DEFINITION")
			}
		case gen.Union:
			at("type:"+t.Name, "UNION")
		case gen.Object, gen.Interface:
			if t.Kind == gen.Object {
				at("type:"+t.Name, "OBJECT")
			} else {
				at("type:"+t.Name, "INTERFACE")
			}
			for _, f := range t.Fields {
				at("field:"+t.Name+"."+f.Name, "FIELD_DEFINITION")
				for _, a := range f.Args {
					at("arg:"+t.Name+"."+f.Name+"."+a.Name, "ARGUMENT_DEFINITION")
				}
			}
		}
	}
	for _, d := range s.Directives {
		for _, a := range d.Args {
			// a directive applied inside its own definition would be a cycle: use another one
			ds := byLoc["ARGUMENT_DEFINITION"]
			var other []*gen.DirectiveDef
			for _, x := range ds {
				if len(x.Args) == 0 {
					other = append(other, x)
				}
			}
			if len(other) > 0 && r.IntN(6) == 0 {
				key := "dirarg:" + d.Name + "." + a.Name
				rs.Applied[key] = append(rs.Applied[key], "@"+other[r.IntN(len(other))].Name)
			}
		}
	}
}

// strayRoot: an explicit schema definition that names no mutation type, next to an ordinary object
// type called Mutation (per spec it is then not a root operation type).
func (rs *rich) strayRoot(r *rand.Rand) {
	s := rs.S
	if s.Mutation != "" || s.Type("Mutation") != nil {
		return
	}
	rs.ForceSchemaDef = true
	m := &gen.TypeDef{Name: "Mutation", Kind: gen.Object, Fields: []*gen.Field{{Name: "plain", Type: gen.Named("Int", false)}}}
	s.Add(m)
	q := s.Type(s.Query)
	q.Fields = append(q.Fields, &gen.Field{Name: "strayMutationObject", Type: gen.Named("Mutation", false)})
	rs.feature("stray-mutation-type")
}

// extensions moves trailing members of some types into `extend` blocks.
func (rs *rich) extensions(r *rand.Rand) {
	for _, t := range rs.S.Types {
		if r.IntN(2) != 0 {
			continue
		}
		n := 0
		switch t.Kind {
		case gen.Object, gen.Interface:
			n = len(t.Fields)
		case gen.Enum:
			n = len(t.EnumValues)
		case gen.Input:
			n = len(t.InputFields)
		case gen.Union:
			n = len(t.Members)
		}
		if n < 2 {
			continue
		}
		rs.Ext[t.Name] = 1 + r.IntN(n-1)
		rs.feature("type-extension")
	}
}

func (rs *rich) observeFeatures() {
	s := rs.S
	for _, t := range s.Types {
		switch t.Kind {
		case gen.Interface:
			if len(t.Interfaces) > 0 {
				rs.feature("interface-implements-interface")
			}
		case gen.Union:
			rs.feature("union")
		case gen.Input:
			if t.OneOf {
				rs.feature("oneOf")
			}
			for _, f := range t.InputFields {
				if f.Deprecated != nil {
					rs.feature("deprecated-input-field")
				}
				if f.Default != nil {
					rs.feature("default-" + valKind(f.Default))
				}
			}
		case gen.Scalar:
			if t.SpecifiedBy != "" {
				rs.feature("specifiedBy")
			}
		case gen.Enum:
			for _, v := range t.EnumValues {
				if v.Deprecated != nil {
					rs.feature("deprecated-enum-value")
				}
			}
		}
		for _, f := range t.Fields {
			if f.Deprecated != nil {
				rs.feature("deprecated-field")
			}
			for _, a := range f.Args {
				if a.Deprecated != nil {
					rs.feature("deprecated-argument")
				}
				if a.Default != nil {
					rs.feature("default-" + valKind(a.Default))
				}
			}
		}
	}
	for _, d := range s.Directives {
		if d.Repeatable {
			rs.feature("repeatable-directive")
		}
		for _, a := range d.Args {
			if a.Deprecated != nil {
				rs.feature("deprecated-directive-argument")
			}
			if a.Default != nil {
				rs.feature("default-" + valKind(a.Default))
			}
		}
	}
	if s.Mutation != "" {
		rs.feature("mutation")
	}
	if s.Subscription != "" {
		rs.feature("subscription")
	}
}

func valKind(v *gen.Val) string {
	switch v.Kind {
	case gen.VNull:
		return "null"
	case gen.VInt:
		return "int"
	case gen.VFloat:
		return "float"
	case gen.VString:
		if strings.HasPrefix(v.Spelling, `"""`) {
			return "block-string"
		}
		return "string"
	case gen.VBool:
		return "boolean"
	case gen.VEnum:
		return "enum"
	case gen.VList:
		return "list"
	case gen.VObject:
		return "object"
	}
	return "other"
}

// ---------------------------------------------------------------------------------------------
// SDL rendering

func descSDL(d string, indent string) string {
	if d == "" {
		return ""
	}
	if strings.ContainsAny(d, "\n\"\\") {
		return indent + `"""` + "\n" + indent + strings.ReplaceAll(strings.ReplaceAll(d, `"""`, `\"""`), "\n", "\n"+indent) + "\n" + indent + `"""` + "\n"
	}
	return indent + `"` + d + `"` + "\n"
}

func (rs *rich) dirs(key string, dep *string) string {
	var sb strings.Builder
	applied := ""
	for _, a := range rs.Applied[key] {
		applied += " " + a
	}
	d := ""
	if dep != nil {
		switch {
		case *dep == "":
			d = " @deprecated"
		case rs.ReasonSpelling[dep] == "null":
			d = " @deprecated(reason: null)"
		case rs.ReasonSpelling[dep] == "block":
			d = ` @deprecated(reason: """` + *dep + `""")`
		case rs.ReasonSpelling[dep] == "block-indented":
			d = " @deprecated(reason: \"\"\"\n      " + strings.ReplaceAll(*dep, "\n", "\n      ") + "\n      \"\"\")"
		default:
			d = " @deprecated(reason: " + gen.QuoteGraphQL(*dep) + ")"
		}
	}
	if rs.Before[key] {
		sb.WriteString(applied + d)
	} else {
		sb.WriteString(d + applied)
	}
	return sb.String()
}

func (rs *rich) argSDL(key string, a *gen.Arg) string {
	var sb strings.Builder
	if a.Description != "" {
		sb.WriteString(strings.TrimRight(descSDL(a.Description, ""), "\n") + " ")
	}
	sb.WriteString(a.Name + ": " + a.Type.String())
	if a.Default != nil {
		sb.WriteString(" = " + a.Default.Literal())
	}
	sb.WriteString(rs.dirs(key, a.Deprecated))
	return sb.String()
}

func (rs *rich) argsSDL(prefix string, args []*gen.Arg) string {
	if len(args) == 0 {
		return ""
	}
	parts := make([]string, len(args))
	for i, a := range args {
		parts[i] = rs.argSDL(prefix+a.Name, a)
	}
	return "(" + strings.Join(parts, ", ") + ")"
}

func (rs *rich) SDL() string {
	s := rs.S
	var sb strings.Builder
	needSchemaDef := rs.ForceSchemaDef || len(rs.Applied["schema"]) > 0 || s.Query != "Query" || (s.Mutation != "" && s.Mutation != "Mutation") || (s.Subscription != "" && s.Subscription != "Subscription") || s.Description != ""
	if needSchemaDef {
		sb.WriteString(descSDL(s.Description, ""))
		sb.WriteString("schema" + rs.dirs("schema", nil) + " { query: " + s.Query)
		if s.Mutation != "" {
			sb.WriteString(" mutation: " + s.Mutation)
		}
		if s.Subscription != "" {
			sb.WriteString(" subscription: " + s.Subscription)
		}
		sb.WriteString(" }\n")
	}
	for _, d := range s.Directives {
		sb.WriteString(descSDL(d.Description, ""))
		sb.WriteString("directive @" + d.Name + rs.argsSDL("dirarg:"+d.Name+".", d.Args))
		if d.Repeatable {
			sb.WriteString(" repeatable")
		}
		sb.WriteString(" on " + strings.Join(d.Locations, " | ") + "\n")
	}
	var exts strings.Builder
	for _, t := range s.Types {
		key := "type:" + t.Name
		ext := rs.Ext[t.Name]
		sb.WriteString(descSDL(t.Description, ""))
		switch t.Kind {
		case gen.Scalar:
			sb.WriteString("scalar " + t.Name)
			if t.SpecifiedBy != "" {
				sb.WriteString(" @specifiedBy(url: " + gen.QuoteGraphQL(t.SpecifiedBy) + ")")
			}
			sb.WriteString(rs.dirs(key, nil) + "\n")
		case gen.Enum:
			sb.WriteString("enum " + t.Name + rs.dirs(key, nil) + " {\n")
			w := &sb
			for i, v := range t.EnumValues {
				if ext > 0 && i == len(t.EnumValues)-ext {
					exts.WriteString("extend enum " + t.Name + " {\n")
					w = &exts
				}
				w.WriteString(descSDL(v.Description, "  "))
				w.WriteString("  " + v.Name + rs.dirs("enum:"+t.Name+"."+v.Name, v.Deprecated) + "\n")
			}
			if w != &sb {
				exts.WriteString("}\n")
			}
			sb.WriteString("}\n")
		case gen.Input:
			sb.WriteString("input " + t.Name)
			if t.OneOf {
				sb.WriteString(" @oneOf")
			}
			sb.WriteString(rs.dirs(key, nil) + " {\n")
			w := &sb
			for i, f := range t.InputFields {
				if ext > 0 && i == len(t.InputFields)-ext {
					exts.WriteString("extend input " + t.Name + " {\n")
					w = &exts
				}
				if f.Description != "" {
					w.WriteString(descSDL(f.Description, "  "))
				}
				cp := *f
				cp.Description = ""
				w.WriteString("  " + rs.argSDL("input:"+t.Name+"."+f.Name, &cp) + "\n")
			}
			if w != &sb {
				exts.WriteString("}\n")
			}
			sb.WriteString("}\n")
		case gen.Interface, gen.Object:
			kw := "type "
			if t.Kind == gen.Interface {
				kw = "interface "
			}
			sb.WriteString(kw + t.Name)
			if len(t.Interfaces) > 0 {
				sb.WriteString(" implements " + strings.Join(t.Interfaces, " & "))
			}
			sb.WriteString(rs.dirs(key, nil) + " {\n")
			w := &sb
			for i, f := range t.Fields {
				if ext > 0 && i == len(t.Fields)-ext {
					exts.WriteString("extend " + kw + t.Name + " {\n")
					w = &exts
				}
				w.WriteString(descSDL(f.Description, "  "))
				w.WriteString("  " + f.Name + rs.argsSDL("arg:"+t.Name+"."+f.Name+".", f.Args) + ": " + f.Type.String() + rs.dirs("field:"+t.Name+"."+f.Name, f.Deprecated) + "\n")
			}
			if w != &sb {
				exts.WriteString("}\n")
			}
			sb.WriteString("}\n")
		case gen.Union:
			members := t.Members
			if ext > 0 {
				exts.WriteString("extend union " + t.Name + " = " + strings.Join(members[len(members)-ext:], " | ") + "\n")
				members = members[:len(members)-ext]
			}
			sb.WriteString("union " + t.Name + rs.dirs(key, nil) + " = " + strings.Join(members, " | ") + "\n")
		}
	}
	sb.WriteString(exts.String())
	return sb.String()
}

func (rs *rich) featureList() []string {
	out := make([]string, 0, len(rs.Features))
	for f := range rs.Features {
		out = append(out, f)
	}
	sort.Strings(out)
	return out
}
